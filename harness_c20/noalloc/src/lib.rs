#![no_std]
use core::panic::PanicInfo;

#[panic_handler]
fn panic(_: &PanicInfo) -> ! {
    loop {}
}

static ENCODED: [u8; 20] = [120, 156, 243, 72, 205, 201, 201, 215, 81, 168, 202, 201, 76, 82, 4, 0, 27, 101, 4, 19];

#[no_mangle]
pub extern "C" fn c20_noalloc_probe(flags: u32) -> i32 {
    let mut out = [0u8; 64];
    let a = match miniz_oxide::inflate::decompress_slice_iter_to_slice(&mut out, core::iter::once(&ENCODED[..]), true, false) {
        Ok(n) => n as i32,
        Err(_) => -1,
    };
    let mut d = miniz_oxide::inflate::core::DecompressorOxide::new();
    let (s, i, o) = miniz_oxide::inflate::core::decompress(&mut d, &ENCODED, &mut out, 0, flags);
    let mut st = miniz_oxide::inflate::stream::InflateState::new(miniz_oxide::DataFormat::Zlib);
    let r = miniz_oxide::inflate::stream::inflate(&mut st, &ENCODED, &mut out, miniz_oxide::MZFlush::Finish);
    a + s as i32 + i as i32 + o as i32 + r.bytes_written as i32
}
