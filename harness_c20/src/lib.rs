// Compile-time assertions for C20: the public state types stay Send + Sync + Clone + 'static,
// and the decompression core is usable from a #![no_std] crate without an allocator.
#![no_std]

fn _assert<T: Send + Sync + Clone + 'static>() {}

pub fn core_types() {
    _assert::<miniz_oxide::inflate::core::DecompressorOxide>();
    _assert::<miniz_oxide::inflate::stream::InflateState>();
    _assert::<miniz_oxide::inflate::TINFLStatus>();
    _assert::<miniz_oxide::MZFlush>();
    _assert::<miniz_oxide::MZError>();
    _assert::<miniz_oxide::MZStatus>();
    _assert::<miniz_oxide::DataFormat>();
    _assert::<miniz_oxide::StreamResult>();
}

#[cfg(feature = "full")]
pub fn alloc_types() {
    _assert::<miniz_oxide::deflate::core::CompressorOxide>();
    _assert::<miniz_oxide::deflate::core::TDEFLStatus>();
    _assert::<miniz_oxide::deflate::core::TDEFLFlush>();
    _assert::<miniz_oxide::deflate::core::CompressionStrategy>();
    _assert::<miniz_oxide::deflate::CompressionLevel>();
    _assert::<miniz_oxide::inflate::core::BlockBoundaryState>();
}

/// decompression-only use without std and without an allocator
pub fn decode_no_alloc(input: &[u8], out: &mut [u8]) -> (i8, usize, usize) {
    let mut d = miniz_oxide::inflate::core::DecompressorOxide::new();
    let (s, i, o) = miniz_oxide::inflate::core::decompress(&mut d, input, out, 0, 4);
    (s as i8, i, o)
}
