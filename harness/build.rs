fn main() {
    println!("cargo::rustc-check-cfg=cfg(miniz_oxide_verif)");
}
