// C ABI side of the harness: calls the exported `extern "C"` symbols of miniz_oxide_c_api with
// caller buffers placed flush against PROT_NONE guard pages, so that any access outside
// [next, next+avail) faults (the process dies; the orchestrator sees the missing result line).

use crate::{hex, show, unhex};
use libc::{c_int, c_uint, c_ulong, c_void};
use miniz_oxide_c_api::*;
use std::ptr;

extern "C" {
    fn tinfl_decompressor_alloc() -> *mut tinfl_decompressor;
    fn tinfl_decompressor_free(c: *mut tinfl_decompressor);
}

const PAGE: usize = 4096;

/// A buffer of `len` bytes whose last byte is immediately followed by an inaccessible page and
/// whose first byte is preceded by one when `len` is a multiple of the page size.
pub struct Guarded {
    base: *mut u8,
    total: usize,
    pub ptr: *mut u8,
    pub len: usize,
}

impl Guarded {
    pub fn new(len: usize, fill: u8) -> Guarded {
        unsafe {
            let pages = (len + PAGE - 1) / PAGE;
            let total = (pages + 2) * PAGE;
            let base = libc::mmap(
                ptr::null_mut(),
                total,
                libc::PROT_READ | libc::PROT_WRITE,
                libc::MAP_PRIVATE | libc::MAP_ANONYMOUS,
                -1,
                0,
            ) as *mut u8;
            assert!(base as isize != -1);
            libc::memset(base as *mut c_void, fill as c_int, total);
            libc::mprotect(base as *mut c_void, PAGE, libc::PROT_NONE);
            libc::mprotect(base.add((pages + 1) * PAGE) as *mut c_void, PAGE, libc::PROT_NONE);
            let p = base.add((pages + 1) * PAGE - len);
            Guarded { base, total, ptr: p, len }
        }
    }

    pub fn from(data: &[u8]) -> Guarded {
        let g = Guarded::new(data.len(), 0);
        unsafe {
            ptr::copy_nonoverlapping(data.as_ptr(), g.ptr, data.len());
        }
        g
    }

    pub fn slice(&self) -> &[u8] {
        unsafe { std::slice::from_raw_parts(self.ptr, self.len) }
    }
}

impl Drop for Guarded {
    fn drop(&mut self) {
        unsafe {
            libc::munmap(self.base as *mut c_void, self.total);
        }
    }
}

pub struct CState {
    zs: Option<Box<mz_stream>>,
    tinfl: *mut tinfl_decompressor,
}

fn n(s: &str) -> i64 {
    if s == "-" {
        -1
    } else {
        s.parse::<i64>().unwrap()
    }
}

impl CState {
    pub fn new() -> CState {
        CState { zs: None, tinfl: ptr::null_mut() }
    }

    fn bytes(&self, s: &str, input: &[u8]) -> Vec<u8> {
        if s == "@" {
            input.to_vec()
        } else if let Some(rest) = s.strip_prefix('@') {
            let mut it = rest.split(':');
            let off: usize = it.next().unwrap().parse().unwrap();
            let len: usize = it.next().unwrap().parse().unwrap();
            let end = (off.saturating_add(len)).min(input.len());
            input[off.min(end)..end].to_vec()
        } else {
            unhex(s)
        }
    }

    pub fn exec(&mut self, a: &[&str], input: &[u8]) -> Option<String> {
        unsafe {
            Some(match a[0] {
                "mzadler" => {
                    // mzadler <init (u64)> <hex | null>
                    let init = a[1].parse::<u64>().unwrap() as c_ulong;
                    if a[2] == "null" {
                        format!("{}", mz_adler32(init, ptr::null(), 0))
                    } else {
                        let g = Guarded::from(&self.bytes(a[2], input));
                        format!("{}", mz_adler32(init, g.ptr, g.len))
                    }
                }
                "mzcrc" => {
                    let init = a[1].parse::<u64>().unwrap() as c_ulong;
                    if a[2] == "null" {
                        format!("{}", mz_crc32(init, ptr::null(), 0))
                    } else {
                        let g = Guarded::from(&self.bytes(a[2], input));
                        format!("{}", mz_crc32(init, g.ptr, g.len))
                    }
                }
                "mzbound" => {
                    let x = a[1].parse::<u64>().unwrap() as c_ulong;
                    format!("{} {}", mz_compressBound(x), mz_deflateBound(ptr::null_mut(), x))
                }
                "mzcompress2" => {
                    // mzcompress2 <level> <destlen | bound> <in>
                    let src = Guarded::from(&self.bytes(a[3], input));
                    let dl = if a[2] == "bound" { mz_compressBound(src.len as c_ulong) as usize } else { n(a[2]) as usize };
                    let dst = Guarded::new(dl, 0xAA);
                    let mut dest_len = dl as c_ulong;
                    let r = mz_compress2(dst.ptr, &mut dest_len, src.ptr, src.len as c_ulong, n(a[1]) as c_int);
                    let m = (dest_len as usize).min(dl);
                    format!("r={} dl={} full={}", r, dest_len, if r == 0 { hex(&dst.slice()[..m]) } else { "-".into() })
                }
                "mzuncompress" => {
                    // mzuncompress <destlen> <in>
                    let src = Guarded::from(&self.bytes(a[2], input));
                    let dl = n(a[1]) as usize;
                    let dst = Guarded::new(dl, 0xAA);
                    let mut dest_len = dl as c_ulong;
                    let r = mz_uncompress(dst.ptr, &mut dest_len, src.ptr, src.len as c_ulong);
                    let m = (dest_len as usize).min(dl);
                    format!("r={} dl={} o={}", r, dest_len, if r == 0 { show(&dst.slice()[..m]) } else { "-".into() })
                }
                "zdinit" => {
                    // zdinit <level> <method> <window_bits> <mem_level> <strategy>
                    let mut s = Box::new(mz_stream::default());
                    let r = mz_deflateInit2(&mut *s, n(a[1]) as c_int, n(a[2]) as c_int, n(a[3]) as c_int, n(a[4]) as c_int, n(a[5]) as c_int);
                    let has = s.state.is_some();
                    self.zs = Some(s);
                    format!("r={} state={}", r, has as u8)
                }
                "ziinit" => {
                    let mut s = Box::new(mz_stream::default());
                    let r = mz_inflateInit2(&mut *s, n(a[1]) as c_int);
                    let has = s.state.is_some();
                    self.zs = Some(s);
                    format!("r={} state={}", r, has as u8)
                }
                "zcall" => {
                    // zcall <deflate|inflate> <in | null> <outlen | null> <flush> [total_in total_out presets]
                    let inb = if a[2] == "null" { None } else { Some(Guarded::from(&self.bytes(a[2], input))) };
                    let zs = self.zs.as_mut().unwrap();
                    let outb = if a[3] == "null" { None } else { Some(Guarded::new(n(a[3]) as usize, 0x55)) };
                    zs.next_in = inb.as_ref().map_or(ptr::null(), |g| g.ptr as *const u8);
                    zs.avail_in = inb.as_ref().map_or(0, |g| g.len as c_uint);
                    zs.next_out = outb.as_ref().map_or(ptr::null_mut(), |g| g.ptr);
                    zs.avail_out = outb.as_ref().map_or(0, |g| g.len as c_uint);
                    let (ni0, ai0, ti0, no0, ao0, to0) = (zs.next_in as usize, zs.avail_in, zs.total_in, zs.next_out as usize, zs.avail_out, zs.total_out);
                    let r = if a[1] == "deflate" { mz_deflate(&mut **zs, n(a[4]) as c_int) } else { mz_inflate(&mut **zs, n(a[4]) as c_int) };
                    let dni = (zs.next_in as usize).wrapping_sub(ni0) as i64;
                    let dno = (zs.next_out as usize).wrapping_sub(no0) as i64;
                    let dai = ai0 as i64 - zs.avail_in as i64;
                    let dao = ao0 as i64 - zs.avail_out as i64;
                    let dti = zs.total_in.wrapping_sub(ti0) as i64;
                    let dto = zs.total_out.wrapping_sub(to0) as i64;
                    let written = if let Some(g) = outb.as_ref() {
                        let w = (dao.max(0) as usize).min(g.len);
                        // bytes after the reported count must be untouched
                        let clean = g.slice()[w..].iter().all(|&b| b == 0x55);
                        format!("o={} clean={}", show(&g.slice()[..w]), clean as u8)
                    } else {
                        "o=- clean=1".to_string()
                    };
                    format!(
                        "r={} dni={} dai={} dti={} dno={} dao={} dto={} adler={} {}",
                        r, dni, dai, dti, dno, dao, dto, zs.adler, written
                    )
                }
                "zdrive" => {
                    // zdrive <in> <chunk:out[:flush],...>: mz_inflate driven over the input, each call offered the next
                    // unconsumed bytes; prints total_out:adler after every call (first 80)
                    let data = self.bytes(a[1], input);
                    let items: Vec<Vec<u64>> = a[2].split(',').map(|it| it.split(':').map(|x| n(x) as u64).collect()).collect();
                    let zs = self.zs.as_mut().unwrap();
                    let mut off = 0usize;
                    let mut calls = 0usize;
                    let mut tra = String::new();
                    let mut all: Vec<u8> = Vec::new();
                    let mut last = 0;
                    let mut stall = 0;
                    let mut finishing = false;
                    while calls < 100000 {
                        let it = &items[calls % items.len()];
                        if it.len() > 2 && it[2] == 4 {
                            finishing = true;
                        }
                        // Finish promises that all input is present: from the first Finish on, everything left is offered
                        let end = if finishing { data.len() } else { off.saturating_add(it[0] as usize).min(data.len()) };
                        let inb = Guarded::from(&data[off..end]);
                        let outb = Guarded::new(it[1] as usize, 0x55);
                        zs.next_in = inb.ptr as *const u8;
                        zs.avail_in = inb.len as c_uint;
                        zs.next_out = outb.ptr;
                        zs.avail_out = outb.len as c_uint;
                        let mut fl = if it.len() > 2 { it[2] as c_int } else { 0 };
                        if fl == 4 {
                            finishing = true;
                        }
                        if finishing {
                            fl = 4; // Finish is sticky in a legal schedule
                        }
                        let r = mz_inflate(&mut **zs, fl);
                        let ic = inb.len - zs.avail_in as usize;
                        let oc = outb.len - zs.avail_out as usize;
                        all.extend_from_slice(&outb.slice()[..oc.min(outb.len)]);
                        off += ic;
                        calls += 1;
                        last = r;
                        if calls <= 80 {
                            tra.push_str(&format!("{}:{};", zs.total_out, zs.adler));
                        }
                        if r != 0 && r != -5 {
                            break;
                        }
                        if ic == 0 && oc == 0 {
                            stall += 1;
                            if stall > items.len() + 2 {
                                break;
                            }
                        } else {
                            stall = 0;
                        }
                    }
                    format!("r={} ti={} to={} calls={} adler={} o={} tra={}", last, zs.total_in, zs.total_out, calls, zs.adler, show(&all), tra)
                }
                "zend" => {
                    let zs = self.zs.as_mut().unwrap();
                    let r = if a[1] == "deflate" { mz_deflateEnd(&mut **zs) } else { mz_inflateEnd(&mut **zs) };
                    format!("r={} state={}", r, zs.state.is_some() as u8)
                }
                "zreset" => {
                    let zs = self.zs.as_mut().unwrap();
                    let r = mz_deflateReset(&mut **zs);
                    format!("r={} ti={} to={}", r, zs.total_in, zs.total_out)
                }
                "zmis" => {
                    // misuse expressible in C
                    match a[1] {
                        "nullstream" => {
                            let r1 = mz_deflate(ptr::null_mut(), 0);
                            let r2 = mz_inflate(ptr::null_mut(), 0);
                            let r3 = mz_deflateEnd(ptr::null_mut());
                            let r4 = mz_inflateEnd(ptr::null_mut());
                            let r5 = mz_deflateInit(ptr::null_mut(), 6);
                            let r6 = mz_inflateInit(ptr::null_mut());
                            let r7 = mz_deflateReset(ptr::null_mut());
                            format!("{} {} {} {} {} {} {}", r1, r2, r3, r4, r5, r6, r7)
                        }
                        "otherkind" => {
                            // inflate call on a deflate stream and vice versa
                            let mut d = mz_stream::default();
                            let r0 = mz_deflateInit(&mut d, 6);
                            let g = Guarded::new(16, 0);
                            let o = Guarded::new(16, 0);
                            d.next_in = g.ptr;
                            d.avail_in = 16;
                            d.next_out = o.ptr;
                            d.avail_out = 16;
                            let r1 = mz_inflate(&mut d, 0);
                            let r1e = mz_inflateEnd(&mut d);
                            let keep = d.state.is_some();
                            let r1d = mz_deflateEnd(&mut d);
                            let mut i = mz_stream::default();
                            let r2 = mz_inflateInit(&mut i);
                            i.next_in = g.ptr;
                            i.avail_in = 16;
                            i.next_out = o.ptr;
                            i.avail_out = 16;
                            let r3 = mz_deflate(&mut i, 0);
                            let r3r = mz_deflateReset(&mut i);
                            let r3e = mz_inflateEnd(&mut i);
                            format!("{} {} {} {} {} {} {} {} {}", r0, r1, r1e, keep as u8, r1d, r2, r3, r3r, r3e)
                        }
                        "alloc" => {
                            let mut d = mz_stream::default();
                            d.zalloc = Some(miniz_def_alloc_func);
                            let r1 = mz_deflateInit(&mut d, 6);
                            let mut i = mz_stream::default();
                            i.zfree = Some(miniz_def_free_func);
                            let r2 = mz_inflateInit(&mut i);
                            format!("{} {} {} {}", r1, d.state.is_some() as u8, r2, i.state.is_some() as u8)
                        }
                        "destlen_null" => {
                            let g = Guarded::new(16, 0);
                            let r1 = mz_compress2(g.ptr, ptr::null_mut(), g.ptr, 4, 6);
                            let r2 = mz_uncompress(g.ptr, ptr::null_mut(), g.ptr, 4);
                            format!("{} {}", r1, r2)
                        }
                        _ => "UNKNOWN-MIS".into(),
                    }
                }
                "tinfl_mem_to_heap" => {
                    // tinfl_mem_to_heap <flags> <in>
                    let src = Guarded::from(&self.bytes(a[2], input));
                    let mut out_len: usize = 0;
                    let p = tinfl_decompress_mem_to_heap(src.ptr as *const c_void, src.len, &mut out_len, n(a[1]) as c_int);
                    if p.is_null() {
                        format!("null len={}", out_len)
                    } else {
                        let v = std::slice::from_raw_parts(p as *const u8, out_len).to_vec();
                        libc::free(p);
                        format!("ok len={} o={}", out_len, show(&v))
                    }
                }
                "tinfl_mem_to_mem" => {
                    // tinfl_mem_to_mem <flags> <outlen> <in>
                    let src = Guarded::from(&self.bytes(a[3], input));
                    let dst = Guarded::new(n(a[2]) as usize, 0x55);
                    let r = tinfl_decompress_mem_to_mem(dst.ptr as *mut c_void, dst.len, src.ptr as *const c_void, src.len, n(a[1]) as c_int);
                    if r == usize::MAX {
                        "failed".to_string()
                    } else {
                        format!("ok len={} o={}", r, show(&dst.slice()[..r.min(dst.len)]))
                    }
                }
                "tinfl_new" => {
                    if !self.tinfl.is_null() {
                        tinfl_decompressor_free(self.tinfl);
                    }
                    self.tinfl = tinfl_decompressor_alloc();
                    "ok".into()
                }
                "tinfl_call" => {
                    // tinfl_call <in> <bufsize> <next_ofs> <flags>: window reconstruction arithmetic
                    let src = Guarded::from(&self.bytes(a[1], input));
                    let bufsize = n(a[2]) as usize;
                    let ofs = n(a[3]) as usize;
                    let dst = Guarded::new(bufsize, 0x55);
                    let mut in_size = src.len;
                    let mut out_size = bufsize - ofs;
                    let r = tinfl_decompress(self.tinfl, src.ptr, &mut in_size, dst.ptr, dst.ptr.add(ofs), &mut out_size, n(a[4]) as u32);
                    let hi = (ofs + out_size).min(bufsize);
                    format!("r={} in={} out={} o={}", r, in_size, out_size, show(&dst.slice()[ofs.min(hi)..hi]))
                }
                "tdefl_mem_to_heap" => {
                    // tdefl_mem_to_heap <flags> <in>
                    let src = Guarded::from(&self.bytes(a[2], input));
                    let mut out_len: usize = 0;
                    let p = tdefl_compress_mem_to_heap(src.ptr as *const c_void, src.len, &mut out_len, n(a[1]) as c_int);
                    if p.is_null() {
                        "null".to_string()
                    } else {
                        let v = std::slice::from_raw_parts(p as *const u8, out_len).to_vec();
                        libc::free(p);
                        format!("ok len={} full={}", out_len, hex(&v))
                    }
                }
                "tdefl_mem_to_mem" => {
                    // tdefl_mem_to_mem <flags> <outlen> <in>
                    let src = Guarded::from(&self.bytes(a[3], input));
                    let dst = Guarded::new(n(a[2]) as usize, 0x55);
                    let r = tdefl_compress_mem_to_mem(dst.ptr as *mut c_void, dst.len, src.ptr as *const c_void, src.len, n(a[1]) as c_int);
                    format!("len={} full={}", r, hex(&dst.slice()[..r.min(dst.len)]))
                }
                "tdefl_fit" => {
                    // tdefl_fit <flags> <in>: tdefl_compress_mem_to_mem into destinations of n-1, n, n+1 and n+100 bytes,
                    // n being what tdefl_compress_mem_to_heap produced; canary bytes behind the reported length
                    let src = Guarded::from(&self.bytes(a[2], input));
                    let mut n0: usize = 0;
                    let p = tdefl_compress_mem_to_heap(src.ptr as *const c_void, src.len, &mut n0, n(a[1]) as c_int);
                    if p.is_null() {
                        "null".to_string()
                    } else {
                        let want = std::slice::from_raw_parts(p as *const u8, n0).to_vec();
                        libc::free(p);
                        let mut s = format!("n={}", n0);
                        for (tag, cap) in [("m1", n0.saturating_sub(1)), ("eq", n0), ("p1", n0 + 1), ("p100", n0 + 100)] {
                            let dst = Guarded::new(cap, 0x55);
                            let r = tdefl_compress_mem_to_mem(dst.ptr as *mut c_void, dst.len, src.ptr as *const c_void, src.len, n(a[1]) as c_int);
                            let same = r == n0 && dst.slice()[..r.min(dst.len)] == want[..];
                            let clean = dst.slice()[r.min(dst.len)..].iter().all(|&b| b == 0x55);
                            s.push_str(&format!(" {}={}:{}:{}", tag, r, same as u8, clean as u8));
                        }
                        s
                    }
                }
                _ => return None,
            })
        }
    }
}
