// mzh: runs case files against the real miniz_oxide (safe API) and prints one canonical
// result line per operation.  The same case file is interpreted by the extracted Coq
// model (ocaml/mzm); the two outputs are compared line by line.
//
// Line format of a case file (tokens separated by blanks; byte strings in hex, "-" = empty,
// "@" = the register set by the last `in` op):
//   case <id>            start a case: all registers reset
//   in <hex>             set the input register
//   <op> <args...>       see `exec`
// Output: "<caseid> <op#> <op> <fields...>"; a panic is reported as "... PANIC".

use miniz_oxide::deflate::core::{
    compress, compress_to_output, create_comp_flags_from_zip_params, CompressionStrategy,
    CompressorOxide, TDEFLFlush, TDEFLStatus,
};
use miniz_oxide::deflate::stream::deflate;
use miniz_oxide::inflate::core::{decompress_with_limit, DecompressorOxide};
use miniz_oxide::inflate::stream::{inflate, FullReset, InflateState, MinReset, ZeroReset};
use miniz_oxide::inflate::TINFLStatus;
use miniz_oxide::{DataFormat, MZError, MZFlush, MZStatus, StreamResult};
use std::io::{BufRead, Write};
use std::panic::{catch_unwind, AssertUnwindSafe};

mod capi;

pub fn unhex(s: &str) -> Vec<u8> {
    if s == "-" {
        return Vec::new();
    }
    let b = s.as_bytes();
    let mut v = Vec::with_capacity(b.len() / 2);
    let d = |c: u8| -> u8 {
        match c {
            b'0'..=b'9' => c - b'0',
            b'a'..=b'f' => c - b'a' + 10,
            b'A'..=b'F' => c - b'A' + 10,
            _ => panic!("bad hex"),
        }
    };
    let mut i = 0;
    while i + 1 < b.len() {
        v.push(d(b[i]) * 16 + d(b[i + 1]));
        i += 2;
    }
    v
}

pub fn hex(v: &[u8]) -> String {
    if v.is_empty() {
        return "-".to_string();
    }
    const H: &[u8; 16] = b"0123456789abcdef";
    let mut s = String::with_capacity(v.len() * 2);
    for &b in v {
        s.push(H[(b >> 4) as usize] as char);
        s.push(H[(b & 15) as usize] as char);
    }
    s
}

// FNV-1a, 64 bit, over bytes
pub fn fnv(v: &[u8]) -> u64 {
    let mut h: u64 = 0xcbf29ce484222325;
    for &b in v {
        h ^= b as u64;
        h = h.wrapping_mul(0x100000001b3);
    }
    h
}

pub fn fnv_step(h: u64, x: u64) -> u64 {
    // fold a number in as 8 little-endian bytes
    let mut h = h;
    for i in 0..8 {
        h ^= (x >> (8 * i)) & 0xff;
        h = h.wrapping_mul(0x100000001b3);
    }
    h
}

/// hex when short, otherwise length + hash
pub fn show(v: &[u8]) -> String {
    if v.len() <= 48 {
        hex(v)
    } else {
        format!("#{}:{:016x}", v.len(), fnv(v))
    }
}

fn mzflush(i: i64) -> MZFlush {
    match i {
        0 => MZFlush::None,
        1 => MZFlush::Partial,
        2 => MZFlush::Sync,
        3 => MZFlush::Full,
        4 => MZFlush::Finish,
        _ => MZFlush::Block,
    }
}

fn tdflush(i: i64) -> TDEFLFlush {
    match i {
        0 => TDEFLFlush::None,
        1 => TDEFLFlush::Partial,
        2 => TDEFLFlush::Sync,
        3 => TDEFLFlush::Full,
        4 => TDEFLFlush::Finish,
        5 => TDEFLFlush::PartialOpt,
        6 => TDEFLFlush::SyncOpt,
        _ => TDEFLFlush::NoSync,
    }
}

fn strategy(i: i64) -> CompressionStrategy {
    match i {
        1 => CompressionStrategy::Filtered,
        2 => CompressionStrategy::HuffmanOnly,
        3 => CompressionStrategy::RLE,
        4 => CompressionStrategy::Fixed,
        _ => CompressionStrategy::Default,
    }
}

fn format(i: i64) -> DataFormat {
    match i {
        0 => DataFormat::Zlib,
        1 => DataFormat::ZLibIgnoreChecksum,
        _ => DataFormat::Raw,
    }
}

pub fn mzres(r: Result<MZStatus, MZError>) -> i64 {
    match r {
        Ok(s) => s as i64,
        Err(e) => e as i64,
    }
}

fn sr(r: &StreamResult) -> String {
    format!("st={} in={} out={}", mzres(r.status), r.bytes_consumed, r.bytes_written)
}

fn num(s: &str) -> i64 {
    if s == "-" {
        return -1;
    }
    s.parse::<i64>().unwrap_or_else(|_| panic!("bad number {}", s))
}

fn lim(s: &str) -> usize {
    if s == "-" {
        usize::MAX
    } else {
        s.parse::<usize>().unwrap()
    }
}

/// schedule "a:b:c,a:b:c,..." ("-" inside = unlimited = -1); with "P|C" the items of P are used once,
/// then the items of C cyclically
struct Sched {
    pre: Vec<Vec<i64>>,
    cyc: Vec<Vec<i64>>,
}

impl Sched {
    fn at(&self, call: usize) -> &Vec<i64> {
        if call < self.pre.len() {
            &self.pre[call]
        } else {
            &self.cyc[(call - self.pre.len()) % self.cyc.len()]
        }
    }
    fn len(&self) -> usize {
        self.cyc.len()
    }
}

fn sched(s: &str) -> Sched {
    let parse = |t: &str| -> Vec<Vec<i64>> { t.split(',').map(|it| it.split(':').map(num).collect()).collect() };
    match s.split_once('|') {
        Some((a, b)) => Sched { pre: parse(a), cyc: parse(b) },
        None => Sched { pre: Vec::new(), cyc: parse(s) },
    }
}

/// How decoder snapshots are taken between calls (C19); the model has no such notion:
/// every mode must produce the same lines.
#[derive(Copy, Clone, PartialEq)]
enum Snap {
    Plain,
    Clone,
    Json,
    Rmp,
}

struct Ctx {
    input: Vec<u8>,
    d: Box<DecompressorOxide>,
    buf: Vec<u8>,
    is: Box<InflateState>,
    c: Option<Box<CompressorOxide>>,
    snap: Snap,
    capi: capi::CState,
}

impl Ctx {
    fn new() -> Ctx {
        Ctx {
            input: Vec::new(),
            d: Box::default(),
            buf: Vec::new(),
            is: InflateState::new_boxed(DataFormat::Raw),
            c: None,
            snap: Snap::Plain,
            capi: capi::CState::new(),
        }
    }

    fn bytes(&self, s: &str) -> Vec<u8> {
        if s == "@" {
            self.input.clone()
        } else if let Some(rest) = s.strip_prefix("@") {
            // @off:len slice of the input register
            let mut it = rest.split(':');
            let off: usize = it.next().unwrap().parse().unwrap();
            let len: usize = it.next().unwrap().parse().unwrap();
            let end = (off + len).min(self.input.len());
            self.input[off.min(end)..end].to_vec()
        } else {
            unhex(s)
        }
    }

    fn snapshot_d(&mut self) {
        match self.snap {
            Snap::Plain => {}
            Snap::Clone => {
                let c = self.d.clone();
                self.d = c;
            }
            Snap::Json => {
                let s = serde_json::to_vec(&*self.d).unwrap();
                self.d = Box::new(serde_json::from_slice(&s).unwrap());
            }
            Snap::Rmp => {
                let s = rmp_serde::to_vec(&*self.d).unwrap();
                self.d = Box::new(rmp_serde::from_slice(&s).unwrap());
            }
        }
    }

    fn exec(&mut self, a: &[&str]) -> String {
        match a[0] {
            "in" => {
                self.input = unhex(a[1]);
                format!("len={}", self.input.len())
            }
            // ------------------------------------------------ checksums
            "adler" => {
                let init = num(a[1]) as u32;
                let data = self.bytes(a[2]);
                format!("{}", miniz_oxide::mz_adler32_oxide(init, &data))
            }
            "adlersplit" => {
                // adler over data cut at the given positions, threaded through
                let init = num(a[1]) as u32;
                let data = self.bytes(a[2]);
                let mut cur = init;
                let mut prev = 0usize;
                for c in a[3].split(',') {
                    let p = (num(c) as usize).min(data.len()).max(prev);
                    cur = miniz_oxide::mz_adler32_oxide(cur, &data[prev..p]);
                    prev = p;
                }
                cur = miniz_oxide::mz_adler32_oxide(cur, &data[prev..]);
                format!("{}", cur)
            }
            "crc" => {
                let init = num(a[1]) as u32;
                let data = self.bytes(a[2]);
                format!("{}", miniz_oxide_c_api::mz_crc32_oxide(init, &data))
            }
            "crcsplit" => {
                let init = num(a[1]) as u32;
                let data = self.bytes(a[2]);
                let mut cur = init;
                let mut prev = 0usize;
                for c in a[3].split(',') {
                    let p = (num(c) as usize).min(data.len()).max(prev);
                    cur = miniz_oxide_c_api::mz_crc32_oxide(cur, &data[prev..p]);
                    prev = p;
                }
                cur = miniz_oxide_c_api::mz_crc32_oxide(cur, &data[prev..]);
                format!("{}", cur)
            }
            // ------------------------------------------------ translated pure functions
            "fn" => self.exec_fn(a),
            // ------------------------------------------------ inflate core
            "snap" => {
                self.snap = match a[1] {
                    "clone" => Snap::Clone,
                    "json" => Snap::Json,
                    "rmp" => Snap::Rmp,
                    _ => Snap::Plain,
                };
                "ok".into()
            }
            "buf" => {
                self.buf = vec![num(a[2]) as u8; num(a[1]) as usize];
                "ok".into()
            }
            "bufset" => {
                // bufset <pos> <hex>
                let p = num(a[1]) as usize;
                let v = self.bytes(a[2]);
                self.buf[p..p + v.len()].copy_from_slice(&v);
                "ok".into()
            }
            "dnew" => {
                self.d = Box::default();
                "ok".into()
            }
            "dinit" => {
                self.d.init();
                "ok".into()
            }
            "dcall" => {
                // dcall <in> <pos> <max|-> <flags>
                let inp = self.bytes(a[1]);
                let pos = num(a[2]) as usize;
                let max = lim(a[3]);
                let flags = num(a[4]) as u32;
                self.snapshot_d();
                let before = self.buf.clone();
                let (st, ic, oc) = decompress_with_limit(&mut self.d, &inp, &mut self.buf, pos, max, flags);
                let lo = pos.min(self.buf.len());
                let hi = (pos.saturating_add(oc)).min(self.buf.len());
                // every byte outside [pos, pos+out) must be what it was before the call
                let untouched = before[..lo] == self.buf[..lo] && before[hi..] == self.buf[hi..];
                format!(
                    "st={} in={} out={} o={} bh={:016x} ad={} outside={}",
                    st as i8,
                    ic,
                    oc,
                    show(&self.buf[lo..hi]),
                    fnv(&self.buf),
                    self.d.adler32().map_or(-1i64, |x| x as i64),
                    if untouched { "same" } else { "CHANGED" }
                )
            }
            "drive" => self.drive(a),
            #[cfg(miniz_oxide_verif)]
            "dstate" => {
                let s = miniz_oxide::inflate::core::verif::state(&self.d);
                format!(
                    "s={} nb={} bb={} ctr={} dist={} ne={} fin={} bt={} ts={},{},{} za={} ca={}",
                    s.0, s.1, s.2, s.3, s.4, s.5, s.6, s.7, s.8[0], s.8[1], s.8[2], s.9, s.10
                )
            }
            // ------------------------------------------------ inflate: vec helpers
            "dvec" => {
                // dvec <zlib> <limit|-> <in>
                let z = num(a[1]) != 0;
                let inp = self.bytes(a[3]);
                let r = match (z, a[2]) {
                    (false, "-") => miniz_oxide::inflate::decompress_to_vec(&inp),
                    (true, "-") => miniz_oxide::inflate::decompress_to_vec_zlib(&inp),
                    (false, l) => miniz_oxide::inflate::decompress_to_vec_with_limit(&inp, l.parse().unwrap()),
                    (true, l) => miniz_oxide::inflate::decompress_to_vec_zlib_with_limit(&inp, l.parse().unwrap()),
                };
                match r {
                    Ok(v) => format!("ok len={} o={}", v.len(), show(&v)),
                    Err(e) => format!("err st={} len={} o={}", e.status as i8, e.output.len(), show(&e.output)),
                }
            }
            "dslices" => {
                // dslices <zlib> <ignore> <outlen> <in> <cuts a,b,c | ->
                let z = num(a[1]) != 0;
                let ig = num(a[2]) != 0;
                let mut out = vec![0u8; num(a[3]) as usize];
                let inp = self.bytes(a[4]);
                let mut cuts: Vec<usize> = if a[5] == "-" {
                    vec![]
                } else {
                    a[5].split(',').map(|c| (num(c) as usize).min(inp.len())).collect()
                };
                cuts.sort();
                let mut slices: Vec<&[u8]> = Vec::new();
                let mut prev = 0;
                for c in cuts {
                    slices.push(&inp[prev..c]);
                    prev = c;
                }
                slices.push(&inp[prev..]);
                let r = miniz_oxide::inflate::decompress_slice_iter_to_slice(&mut out, slices.into_iter(), z, ig);
                match r {
                    Ok(n) => format!("ok len={} o={}", n, show(&out[..n])),
                    Err(e) => format!("err st={}", e as i8),
                }
            }
            // ------------------------------------------------ inflate: stream wrapper
            "isnew" => {
                self.is = InflateState::new_boxed(format(num(a[1])));
                "ok".into()
            }
            "isreset" => {
                match num(a[1]) {
                    0 => self.is.reset_as(MinReset),
                    1 => self.is.reset_as(ZeroReset),
                    _ => self.is.reset_as(FullReset(format(num(a[2])))),
                }
                "ok".into()
            }
            "iscall" => {
                // iscall <in> <outlen> <flush>
                let inp = self.bytes(a[1]);
                let mut out = vec![0u8; num(a[2]) as usize];
                if self.snap == Snap::Clone {
                    let c = self.is.clone();
                    self.is = c;
                }
                let r = inflate(&mut self.is, &inp, &mut out, mzflush(num(a[3])));
                format!(
                    "{} o={} ls={} ad={}",
                    sr(&r),
                    show(&out[..r.bytes_written.min(out.len())]),
                    self.is.last_status() as i8,
                    self.is.decompressor().adler32().map_or(-1i64, |x| x as i64)
                )
            }
            "isdrive" => self.isdrive(a),
            // ------------------------------------------------ deflate
            "cnew" => {
                self.c = Some(Box::new(CompressorOxide::new(num(a[1]) as u32)));
                "ok".into()
            }
            "cnewzip" => {
                // the compressor mz_deflateInit2 creates: TDEFL_COMPUTE_ADLER32 | flags(level, window_bits, strategy)
                let f = 0x2000 | create_comp_flags_from_zip_params(num(a[1]) as i32, num(a[2]) as i32, num(a[3]) as i32);
                self.c = Some(Box::new(CompressorOxide::new(f)));
                format!("flags={}", f)
            }
            "cdefault" => {
                self.c = Some(Box::default());
                "ok".into()
            }
            "cparams" => {
                // cparams <fmt> <level> <strategy> <window_bits>
                self.c = Some(Box::new(CompressorOxide::with_params(
                    format(num(a[1])),
                    num(a[2]) as u8,
                    strategy(num(a[3])),
                    num(a[4]) as u8,
                )));
                format!("flags={}", self.c.as_ref().unwrap().flags())
            }
            "cflags" => {
                format!("{}", create_comp_flags_from_zip_params(num(a[1]) as i32, num(a[2]) as i32, num(a[3]) as i32))
            }
            "creset" => {
                self.c.as_mut().unwrap().reset();
                "ok".into()
            }
            "csetlevel" => {
                self.c.as_mut().unwrap().set_compression_level_raw(num(a[1]) as u8);
                format!("flags={}", self.c.as_ref().unwrap().flags())
            }
            "csetfmt" => {
                // csetfmt <fmt> <level>: CompressorOxide::set_format_and_level
                self.c.as_mut().unwrap().set_format_and_level(format(num(a[1])), num(a[2]) as u8);
                format!("flags={}", self.c.as_ref().unwrap().flags())
            }
            "ccall" => {
                // ccall <in> <outlen> <flush>
                let inp = self.bytes(a[1]);
                let mut out = vec![0u8; num(a[2]) as usize];
                let c = self.c.as_mut().unwrap();
                let (st, ic, oc) = compress(c, &inp, &mut out, tdflush(num(a[3])));
                format!(
                    "st={} in={} out={} o={} ad={} ub={}",
                    st as i32,
                    ic,
                    oc,
                    show(&out[..oc.min(out.len())]),
                    c.adler32(),
                    c.unwritten_bit_count()
                )
            }
            "ccallf" => {
                // ccallf <in> <flush> <accept: number of callback invocations accepted, - = all>
                let inp = self.bytes(a[1]);
                let c = self.c.as_mut().unwrap();
                let mut acc: Vec<u8> = Vec::new();
                let mut left = num(a[3]);
                let mut calls = 0;
                let (st, ic) = compress_to_output(c, &inp, tdflush(num(a[2])), |b: &[u8]| {
                    calls += 1;
                    if left == 0 {
                        return false;
                    }
                    if left > 0 {
                        left -= 1;
                    }
                    acc.extend_from_slice(b);
                    true
                });
                format!("st={} in={} cb={} o={} ad={}", st as i32, ic, calls, show(&acc), c.adler32())
            }
            "cdrive" => self.cdrive(a, false),
            "dfcall" => {
                let inp = self.bytes(a[1]);
                let mut out = vec![0u8; num(a[2]) as usize];
                let c = self.c.as_mut().unwrap();
                let r = deflate(c, &inp, &mut out, mzflush(num(a[3])));
                format!(
                    "{} o={} ps={} ad={}",
                    sr(&r),
                    show(&out[..r.bytes_written.min(out.len())]),
                    c.prev_return_status() as i32,
                    c.adler32()
                )
            }
            "dfdrive" => self.cdrive(a, true),
            "cvec" => {
                // cvec <level> <zlib> <in>
                let inp = self.bytes(a[3]);
                let v = if num(a[2]) != 0 {
                    miniz_oxide::deflate::compress_to_vec_zlib(&inp, num(a[1]) as u8)
                } else {
                    miniz_oxide::deflate::compress_to_vec(&inp, num(a[1]) as u8)
                };
                format!("len={} full={}", v.len(), hex(&v))
            }
            "cvecrt" => {
                // cvecrt <level> <zlib> <in>: one-shot compress, then the matching one-shot decompress
                let inp = self.bytes(a[3]);
                let z = num(a[2]) != 0;
                let v = if z {
                    miniz_oxide::deflate::compress_to_vec_zlib(&inp, num(a[1]) as u8)
                } else {
                    miniz_oxide::deflate::compress_to_vec(&inp, num(a[1]) as u8)
                };
                let back = if z {
                    miniz_oxide::inflate::decompress_to_vec_zlib(&v)
                } else {
                    miniz_oxide::inflate::decompress_to_vec(&v)
                };
                let rt = match back {
                    Ok(b) => {
                        if b == inp {
                            "ok".to_string()
                        } else {
                            format!("DIFFERENT:{}", b.len())
                        }
                    }
                    Err(e) => format!("ERR:{}", e.status as i8),
                };
                format!("len={} rt={} ch={:016x} full={}", v.len(), rt, fnv(&v), if v.len() <= 300000 { hex(&v) } else { "-".into() })
            }
            #[cfg(miniz_oxide_verif)]
            "cstate" => {
                let p = miniz_oxide::deflate::core::verif::params(self.c.as_ref().unwrap());
                let names = [
                    "flags", "frem", "fofs", "sml", "smd", "slit", "las", "lap", "dsz", "cbdp", "cpos", "tb",
                    "bi", "sbi", "fin", "wbm",
                ];
                names.iter().zip(p.iter()).map(|(n, v)| format!("{}={}", n, v)).collect::<Vec<_>>().join(" ")
            }
            // ------------------------------------------------ block boundary (C19)
            "bbdrive" => self.bbdrive(a),
            _ => {
                if let Some(r) = self.capi.exec(a, &self.input) {
                    r
                } else {
                    format!("UNKNOWN-OP {}", a[0])
                }
            }
        }
    }

    #[cfg(not(miniz_oxide_verif))]
    fn exec_fn(&mut self, _a: &[&str]) -> String {
        "NOHOOKS".into()
    }

    #[cfg(miniz_oxide_verif)]
    fn exec_fn(&mut self, a: &[&str]) -> String {
        use miniz_oxide::deflate::core::verif as dv;
        use miniz_oxide::inflate::core::verif as iv;
        match a[1] {
            "header_from_flags" => {
                let h = dv::header_from_flags(num(a[2]) as u32, num(a[3]) as u8);
                format!("{},{}", h[0], h[1])
            }
            "validate_zlib_header" => {
                let m = a[5].parse::<u64>().unwrap() as usize;
                format!("{}", iv::validate_zlib_header(num(a[2]) as u32, num(a[3]) as u32, num(a[4]) as u32, m))
            }
            "num_extra_bits_for_distance_code" => {
                format!("{}", iv::num_extra_bits_for_distance_code(num(a[2]) as u8))
            }
            "create_comp_flags_from_zip_params" => {
                format!("{}", create_comp_flags_from_zip_params(num(a[2]) as i32, num(a[3]) as i32, num(a[4]) as i32))
            }
            "limit_level_by_window_bits" => {
                let r = dv::limit_level_by_window_bits(num(a[2]) as u8, num(a[3]) as i32, num(a[4]) as i32);
                format!("{},{}", r.0, r.1)
            }
            "window_bits_from_flags" => format!("{}", dv::window_bits_from_flags(num(a[2]) as u32)),
            "probes_from_flags" => {
                let r = dv::probes_from_flags(num(a[2]) as u32);
                format!("{},{}", r[0], r[1])
            }
            "update_hash" => format!("{}", dv::update_hash(num(a[2]) as u16, num(a[3]) as u8)),
            "mz_deflateBound" => {
                let n = a[2].parse::<u64>().unwrap();
                format!("{}", miniz_oxide_c_api::mz_deflateBound(std::ptr::null_mut(), n as libc::c_ulong))
            }
            _ => "UNKNOWN-FN".into(),
        }
    }

    /// drive <in> <flat|ring> <len> <fill> <flags> <sched nin:budget,...> [keep]
    /// Protocol-respecting driver of decompress_with_limit (mirrors model/InflateDrive.v).
    fn drive(&mut self, a: &[&str]) -> String {
        let input = self.bytes(a[1]);
        let ring = a[2] == "ring";
        let len = num(a[3]) as usize;
        let flags = num(a[5]) as u32;
        let sc = sched(a[6]);
        if a.len() <= 7 {
            self.d = Box::default();
            self.buf = vec![num(a[4]) as u8; len];
        }
        let mut in_off = 0usize;
        let mut out_pos = 0usize;
        let mut out: Vec<u8> = Vec::new();
        let mut calls = 0usize;
        let mut stall = 0usize;
        let mut th: u64 = 0xcbf29ce484222325;
        let mut last: i64 = 99;
        let mut trace = String::new();
        let mut why = "cap";
        while calls < 200000 {
            let it = sc.at(calls);
            let end = in_off.saturating_add(it[0] as usize).min(input.len());
            let chunk = &input[in_off..end];
            let fl = flags | if end < input.len() { 2 } else { 0 };
            let bud = if it[1] < 0 { usize::MAX } else { it[1] as usize };
            self.snapshot_d();
            let (st, ic, oc) = decompress_with_limit(&mut self.d, chunk, &mut self.buf, out_pos, bud, fl);
            let lo = out_pos.min(self.buf.len());
            let hi = out_pos.saturating_add(oc).min(self.buf.len());
            out.extend_from_slice(&self.buf[lo..hi]);
            in_off += ic;
            out_pos = if ring && len > 0 { (out_pos + oc) % len } else { out_pos + oc };
            calls += 1;
            last = st as i8 as i64;
            th = fnv_step(fnv_step(fnv_step(th, (last + 16) as u64), ic as u64), oc as u64);
            if calls <= 40 {
                trace.push_str(&format!("{}/{}/{};", last, ic, oc));
            }
            if last <= 0 {
                why = "end";
                break;
            }
            if last == 3 {
                stall = 0;
                continue;
            }
            if ic == 0 && oc == 0 {
                stall += 1;
            } else {
                stall = 0;
            }
            if stall > sc.len() {
                why = "stall";
                break;
            }
            if !ring && last == 2 && out_pos >= len {
                why = "outfull";
                break;
            }
            if out.len() > (1 << 25) {
                why = "runaway";
                break;
            }
        }
        format!(
            "st={} in={} out={} calls={} why={} o={} bh={:016x} th={:016x} ad={} tr={}",
            last,
            in_off,
            out.len(),
            calls,
            why,
            show(&out),
            fnv(&self.buf),
            th,
            self.d.adler32().map_or(-1i64, |x| x as i64),
            if trace.is_empty() { "-".to_string() } else { trace }
        )
    }

    /// isdrive <in> <sched nin:nout:flush,...>
    fn isdrive(&mut self, a: &[&str]) -> String {
        let input = self.bytes(a[1]);
        let sc = sched(a[2]);
        let mut in_off = 0usize;
        let mut out: Vec<u8> = Vec::new();
        let mut calls = 0usize;
        let mut stall = 0usize;
        let mut th: u64 = 0xcbf29ce484222325;
        let mut last: i64 = 99;
        let mut trace = String::new();
        let mut why = "cap";
        while calls < 200000 {
            let it = sc.at(calls);
            let end = in_off.saturating_add(it[0] as usize).min(input.len());
            let chunk = &input[in_off..end];
            let mut ob = vec![0u8; it[1] as usize];
            if self.snap == Snap::Clone {
                let c = self.is.clone();
                self.is = c;
            }
            let r = inflate(&mut self.is, chunk, &mut ob, mzflush(it[2]));
            out.extend_from_slice(&ob[..r.bytes_written.min(ob.len())]);
            in_off += r.bytes_consumed;
            calls += 1;
            last = mzres(r.status);
            th = fnv_step(
                fnv_step(fnv_step(th, (last + 20000) as u64), r.bytes_consumed as u64),
                r.bytes_written as u64,
            );
            if calls <= 40 {
                trace.push_str(&format!("{}/{}/{};", last, r.bytes_consumed, r.bytes_written));
            }
            if last == 1 || (last < 0 && last != -5) {
                why = "end";
                break;
            }
            if r.bytes_consumed == 0 && r.bytes_written == 0 {
                stall += 1;
            } else {
                stall = 0;
            }
            if stall > sc.len() {
                why = "stall";
                break;
            }
            if out.len() > (1 << 25) {
                why = "runaway";
                break;
            }
        }
        format!(
            "st={} in={} out={} calls={} why={} o={} th={:016x} ls={} ad={} tr={}",
            last,
            in_off,
            out.len(),
            calls,
            why,
            show(&out),
            th,
            self.is.last_status() as i8,
            self.is.decompressor().adler32().map_or(-1i64, |x| x as i64),
            if trace.is_empty() { "-".to_string() } else { trace }
        )
    }

    /// cdrive/dfdrive <in> <sched nin:nout:flush,...>
    /// Once a Finish item is met (or all input has been consumed) every later call uses Finish.
    fn cdrive(&mut self, a: &[&str], stream: bool) -> String {
        let input = self.bytes(a[1]);
        let sc = sched(a[2]);
        let c = self.c.as_mut().unwrap();
        let mut in_off = 0usize;
        let mut out: Vec<u8> = Vec::new();
        let mut calls = 0usize;
        let mut stall = 0usize;
        let mut th: u64 = 0xcbf29ce484222325;
        let mut last: i64 = 99;
        let mut trace = String::new();
        let mut why = "cap";
        let mut finishing = false;
        let mut marks = String::new();
        let mut viol = 0usize;
        let mut prev_unused = true;
        let mut done_all = true;
        let mut atrace = String::new();
        let mut drain_mark: Option<(i64, usize)> = None;
        while calls < 400000 {
            let it = sc.at(calls);
            let end = in_off.saturating_add(it[0] as usize).min(input.len());
            let chunk = &input[in_off..end];
            let mut fl = it[2];
            if fl == 4 || (in_off >= input.len() && calls >= sc.len()) {
                finishing = true;
            }
            if finishing {
                fl = 4;
            }
            let mut ob = vec![0u8; it[1] as usize];
            let (st, ic, oc): (i64, usize, usize) = if stream {
                let r = deflate(c, chunk, &mut ob, mzflush(fl));
                (mzres(r.status), r.bytes_consumed, r.bytes_written)
            } else {
                let r = compress(c, chunk, &mut ob, tdflush(fl));
                (r.0 as i32 as i64, r.1, r.2)
            };
            if ic > chunk.len() || oc > ob.len() {
                viol += 1;
            }
            out.extend_from_slice(&ob[..oc.min(ob.len())]);
            in_off += ic;
            calls += 1;
            last = st;
            th = fnv_step(fnv_step(fnv_step(th, (last + 20000) as u64), ic as u64), oc as u64);
            if calls <= 40 {
                trace.push_str(&format!("{}/{}/{}/{};", fl, last, ic, oc));
                atrace.push_str(&format!("{}:{};", in_off, c.adler32()));
            }
            // flush points (C12): a sync/full/partial flush requested when no earlier output was pending
            // (the previous call left output space unused), which consumed everything offered and
            // left output space to spare
            if (1..=3).contains(&fl) && prev_unused && ic == chunk.len() && oc < ob.len() && marks.len() < 400 {
                marks.push_str(&format!("{}:{}:{};", fl, in_off, out.len()));
                drain_mark = None;
            } else if (1..=3).contains(&fl) && prev_unused && ic == chunk.len() && oc == ob.len() {
                // the flush may still have output pending: the flush point is reached when a later call, taking no
                // input, leaves output space to spare
                drain_mark = Some((fl, in_off));
            } else if let Some((f0, i0)) = drain_mark {
                if ic == 0 && in_off == i0 && fl == f0 {
                    if oc < ob.len() {
                        if marks.len() < 400 {
                            // (a candidate only: fl + 10 tells the evaluator that the flush call itself ran out of space)
                            marks.push_str(&format!("{}:{}:{};", f0 + 10, i0, out.len()));
                        }
                        drain_mark = None;
                    }
                } else {
                    drain_mark = None;
                }
            }
            prev_unused = oc < ob.len();
            if last == 1 || last < 0 && !(stream && last == -5) {
                why = "end";
                done_all = ic == chunk.len();
                break;
            }
            if ic == 0 && oc == 0 {
                stall += 1;
            } else {
                stall = 0;
            }
            if stall > sc.len() + 2 {
                why = "stall";
                break;
            }
        }
        format!(
            "st={} in={} out={} calls={} why={} viol={} dn={} th={:016x} ad={} ub={} marks={} tr={} atr={} full={}",
            last,
            in_off,
            out.len(),
            calls,
            why,
            viol,
            done_all as u8,
            th,
            c.adler32(),
            c.unwritten_bit_count(),
            if marks.is_empty() { "-".to_string() } else { marks },
            if trace.is_empty() { "-".to_string() } else { trace },
            if atrace.is_empty() { "-".to_string() } else { atrace },
            hex(&out)
        )
    }

    /// bbdrive <in> <zlib 0/1> <chunk>: decode with STOP_ON_BLOCK_BOUNDARY into a flat buffer; at
    /// every boundary rebuild the decoder from the boundary record + the last 32 KiB and continue
    /// with the rebuilt one. Prints the same fields as an uninterrupted `drive` plus the boundary log.
    fn bbdrive(&mut self, a: &[&str]) -> String {
        let input = self.bytes(a[1]);
        let z = num(a[2]) != 0;
        let chunk = (num(a[3]) as usize).max(1);
        let rebuild = a.len() > 4 && a[4] == "rebuild";
        let mut flags = 4 | 128u32;
        if z {
            flags |= 1;
        }
        let cap = 1usize << 22;
        let mut buf = vec![0u8; cap];
        let mut d: Box<DecompressorOxide> = Box::default();
        let mut in_off = 0usize;
        let mut out_pos = 0usize;
        let mut last: i64 = 99;
        let mut log = String::new();
        let mut nb = 0;
        let mut calls = 0;
        while calls < 100000 {
            let end = (in_off + chunk).min(input.len());
            let fl = flags | if end < input.len() { 2 } else { 0 };
            let (st, ic, oc) = decompress_with_limit(&mut d, &input[in_off..end], &mut buf, out_pos, usize::MAX, fl);
            in_off += ic;
            out_pos += oc;
            calls += 1;
            last = st as i8 as i64;
            if last == 3 {
                nb += 1;
                let s = d.block_boundary_state().unwrap();
                let prev = if in_off > 0 { input[in_off - 1] } else { 0 };
                let top = if s.num_bits == 0 { 0 } else { prev >> (8 - s.num_bits) };
                if log.len() < 300 {
                    log.push_str(&format!("{}:{}:{}:{}:{};", in_off, out_pos, s.num_bits, s.bit_buf, top));
                }
                if rebuild {
                    // keep only the last 32 KiB of output, zero the rest
                    let keep = out_pos.saturating_sub(32768);
                    for b in buf[..keep].iter_mut() {
                        *b = 0;
                    }
                    d = Box::new(DecompressorOxide::from_block_boundary_state(&s));
                }
                continue;
            }
            if last <= 0 || (ic == 0 && oc == 0) {
                break;
            }
        }
        let keep = if rebuild { out_pos.saturating_sub(32768) } else { 0 };
        let _ = keep;
        format!(
            "st={} in={} out={} nb={} oh={:016x} ad={} log={}",
            last,
            in_off,
            out_pos,
            nb,
            if rebuild { 0 } else { fnv(&buf[..out_pos]) },
            d.adler32().map_or(-1i64, |x| x as i64),
            if log.is_empty() { "-".to_string() } else { log }
        )
    }
}

#[allow(dead_code)]
fn _status_names(_s: TINFLStatus, _t: TDEFLStatus) {}

fn main() {
    let args: Vec<String> = std::env::args().collect();
    let path = &args[1];
    let f = std::fs::File::open(path).expect("case file");
    let rd = std::io::BufReader::with_capacity(1 << 20, f);
    let stdout = std::io::stdout();
    let mut w = std::io::BufWriter::with_capacity(1 << 20, stdout.lock());
    if std::env::var_os("MZH_SHOW_PANICS").is_none() {
        std::panic::set_hook(Box::new(|_| {}));
    }
    let mut ctx = Ctx::new();
    let mut case = String::from("?");
    let mut opn = 0usize;
    for line in rd.lines() {
        let line = line.unwrap();
        let toks: Vec<&str> = line.split_whitespace().collect();
        if toks.is_empty() || toks[0].starts_with('#') {
            continue;
        }
        if toks[0] == "case" {
            case = toks[1].to_string();
            opn = 0;
            ctx = Ctx::new();
            continue;
        }
        if toks[0] == "end" {
            continue;
        }
        opn += 1;
        let r = catch_unwind(AssertUnwindSafe(|| ctx.exec(&toks)));
        match r {
            Ok(s) => writeln!(w, "{} {} {} {}", case, opn, toks[0], s).unwrap(),
            Err(_) => {
                writeln!(w, "{} {} {} PANIC", case, opn, toks[0]).unwrap();
                // state may be poisoned: start from fresh registers but keep the input
                let inp = std::mem::take(&mut ctx.input);
                ctx = Ctx::new();
                ctx.input = inp;
            }
        }
    }
    w.flush().unwrap();
}
