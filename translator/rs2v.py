#!/usr/bin/env python3
"""rs2v.py -- translate a small, whitelisted part of the Rust sources of /repo into Gallina.

What is translated (and re-translated on every run, so the Coq lemmas about these
definitions are re-checked against what the code says *now*):

  * integer `const` items (constant-folded),
  * integer array `const`/`static` items,
  * enum declarations (variant -> discriminant),
  * loop-free functions over integers, by symbolic execution into a chain of
    `let`s.  Every translated function returns `(value, ok)`:
      - `value` is computed with Rust *release* semantics (wrapping at the width
        of the Rust type of every operation),
      - `ok : bool` is true iff no operation on the path taken would have
        panicked in a *debug* build (arithmetic overflow, shift amount >= width,
        out-of-bounds constant-table index, division by zero).
    All integers are Z on the Coq side.

Anything outside the supported subset raises TranslateError: the caller treats
that as "the tie to the source is broken", never as success.
"""
import os
import re
import sys


class TranslateError(Exception):
    pass


# ----------------------------------------------------------------------------- lexer

TOKEN_RE = re.compile(r"""
    (?P<ws>\s+)
  | (?P<num>0x[0-9a-fA-F_]+(?:[ui](?:8|16|32|64|size))?|0b[01_]+(?:[ui](?:8|16|32|64|size))?|[0-9][0-9_]*(?:[ui](?:8|16|32|64|size))?)
  | (?P<id>[A-Za-z_][A-Za-z0-9_]*)
  | (?P<life>'[A-Za-z_][A-Za-z0-9_]*)
  | (?P<op><<=|>>=|\.\.=|::|->|=>|==|!=|<=|>=|&&|\|\||<<|>>|\+=|-=|\*=|/=|%=|\|=|&=|\^=|\.\.|[-+*/%&|^!~<>=.,;:(){}\[\]#?@])
""", re.X)


def strip_comments(src):
    out = []
    i, n = 0, len(src)
    while i < n:
        c = src[i]
        if src.startswith("//", i):
            j = src.find("\n", i)
            i = n if j < 0 else j
        elif src.startswith("/*", i):
            depth, i = 1, i + 2
            while i < n and depth:
                if src.startswith("/*", i):
                    depth += 1
                    i += 2
                elif src.startswith("*/", i):
                    depth -= 1
                    i += 2
                else:
                    i += 1
            out.append(" ")
        elif c == '"':
            j = i + 1
            while j < n and src[j] != '"':
                j += 2 if src[j] == "\\" else 1
            out.append('""')
            i = j + 1
        elif c == "r" and re.match(r'r#*"', src[i:]):
            m = re.match(r'r(#*)"', src[i:])
            close = '"' + m.group(1)
            j = src.find(close, i + len(m.group(0)))
            out.append('""')
            i = j + len(close)
        elif c == "'" and re.match(r"'(\\.|[^\\'])'", src[i:]):
            m = re.match(r"'(\\.|[^\\'])'", src[i:])
            out.append("0")
            i += len(m.group(0))
        else:
            out.append(c)
            i += 1
    return "".join(out)


def tokenize(src):
    toks = []
    pos = 0
    while pos < len(src):
        m = TOKEN_RE.match(src, pos)
        if not m:
            raise TranslateError("cannot tokenize at: %r" % src[pos:pos + 30])
        pos = m.end()
        if m.lastgroup == "ws":
            continue
        toks.append((m.lastgroup, m.group(m.lastgroup)))
    return toks


def parse_int(tok):
    t = tok.replace("_", "")
    suffix = None
    m = re.search(r"([ui](?:8|16|32|64|size))$", t)
    if m and not t.startswith("0x"):
        suffix = m.group(1)
        t = t[:m.start()]
    elif m and t.startswith("0x"):
        # hex digits cannot end in u8 etc. unless it is a suffix (u/i are not hex digits)
        suffix = m.group(1)
        t = t[:m.start()]
    if t.startswith("0x"):
        return int(t[2:], 16), suffix
    if t.startswith("0b"):
        return int(t[2:], 2), suffix
    return int(t), suffix


# ----------------------------------------------------------------------------- types

INT_TYPES = {
    "u8": (8, False), "u16": (16, False), "u32": (32, False), "u64": (64, False),
    "usize": (64, False), "i8": (8, True), "i16": (16, True), "i32": (32, True),
    "i64": (64, True), "isize": (64, True),
    "c_ulong": (64, False), "c_uint": (32, False), "c_int": (32, True),
    "BitBuffer": (64, False), "mz_uint": (32, False),
}


def is_int(t):
    return isinstance(t, str) and t in INT_TYPES


def lo_hi(t):
    w, s = INT_TYPES[t]
    return (-(1 << (w - 1)), (1 << (w - 1)) - 1) if s else (0, (1 << w) - 1)


# ----------------------------------------------------------------------------- AST (parser)

class P:
    """Recursive-descent parser for the expression/statement subset."""

    def __init__(self, toks):
        self.t = toks
        self.i = 0

    def peek(self, k=0):
        return self.t[self.i + k] if self.i + k < len(self.t) else ("eof", "")

    def next(self):
        tok = self.peek()
        self.i += 1
        return tok

    def accept(self, val):
        if self.peek()[1] == val:
            self.i += 1
            return True
        return False

    def expect(self, val):
        tok = self.next()
        if tok[1] != val:
            raise TranslateError("expected %r, got %r (near token %d)" % (val, tok[1], self.i))

    # ---- types
    def parse_type(self):
        if self.accept("("):
            elems = []
            while not self.accept(")"):
                elems.append(self.parse_type())
                self.accept(",")
            return ("tuple", elems)
        if self.accept("["):
            el = self.parse_type()
            self.expect(";")
            n = self.parse_expr()
            self.expect("]")
            return ("array", el, n)
        if self.accept("&"):
            self.accept("mut")
            return self.parse_type()
        if self.accept("*"):
            if not self.accept("mut"):
                self.accept("const")
            self.parse_type()
            return ("ptr",)
        name = self.parse_path()
        if self.accept("<"):
            depth = 1
            while depth:
                tok = self.next()[1]
                if tok == "<":
                    depth += 1
                elif tok == ">":
                    depth -= 1
                elif tok == ">>":
                    depth -= 2
        return ("name", name)

    def parse_path(self):
        parts = []
        if self.accept("::"):
            pass
        kind, val = self.next()
        if kind != "id":
            raise TranslateError("expected identifier in path, got %r" % val)
        parts.append(val)
        while self.peek()[1] == "::" and self.peek(1)[0] == "id":
            self.next()
            parts.append(self.next()[1])
        return "::".join(parts)

    # ---- expressions (Rust precedence)
    BIN = [
        ["||"], ["&&"], ["==", "!=", "<", ">", "<=", ">="], ["|"], ["^"], ["&"],
        ["<<", ">>"], ["+", "-"], ["*", "/", "%"],
    ]

    def parse_expr(self, no_struct=False):
        return self.parse_bin(0, no_struct)

    def parse_bin(self, lvl, ns):
        if lvl == len(self.BIN):
            return self.parse_cast(ns)
        lhs = self.parse_bin(lvl + 1, ns)
        while self.peek()[0] == "op" and self.peek()[1] in self.BIN[lvl]:
            op = self.next()[1]
            rhs = self.parse_bin(lvl + 1, ns)
            lhs = ("bin", op, lhs, rhs)
            if lvl == 2:
                break  # comparisons are non-associative
        return lhs

    def parse_cast(self, ns):
        e = self.parse_unary(ns)
        while self.peek() == ("id", "as"):
            self.next()
            t = self.parse_type()
            e = ("cast", e, t)
        return e

    def parse_unary(self, ns):
        if self.accept("!"):
            return ("un", "!", self.parse_unary(ns))
        if self.accept("-"):
            return ("un", "-", self.parse_unary(ns))
        if self.accept("&"):
            self.accept("mut")
            return self.parse_unary(ns)
        if self.accept("*"):
            return self.parse_unary(ns)
        return self.parse_postfix(ns)

    def parse_postfix(self, ns):
        e = self.parse_primary(ns)
        while True:
            if self.peek()[1] == "." and self.peek(1)[0] == "id":
                self.next()
                name = self.next()[1]
                if self.accept("("):
                    args = self.parse_args(")")
                    e = ("method", name, e, args)
                else:
                    e = ("field", e, name)
            elif self.peek()[1] == "." and self.peek(1)[0] == "num":
                self.next()
                e = ("field", e, self.next()[1])
            elif self.peek()[1] == "[":
                self.next()
                idx = self.parse_expr()
                self.expect("]")
                e = ("index", e, idx)
            elif self.peek()[1] == "(" and e[0] == "path":
                self.next()
                args = self.parse_args(")")
                e = ("call", e[1], args)
            else:
                return e

    def parse_args(self, close):
        args = []
        while not self.accept(close):
            args.append(self.parse_expr())
            self.accept(",")
        return args

    def parse_primary(self, ns):
        kind, val = self.peek()
        if kind == "num":
            self.next()
            v, suf = parse_int(val)
            return ("lit", v, suf)
        if val == "(":
            self.next()
            if self.accept(")"):
                return ("tuple", [])
            e = self.parse_expr()
            if self.accept(","):
                elems = [e]
                while not self.accept(")"):
                    elems.append(self.parse_expr())
                    self.accept(",")
                return ("tuple", elems)
            self.expect(")")
            return ("paren", e)
        if val == "[":
            self.next()
            elems = self.parse_args("]")
            return ("array", elems)
        if val == "{":
            return ("block", self.parse_block())
        if kind == "id" and val == "if":
            return self.parse_if()
        if kind == "id" and val == "match":
            return self.parse_match()
        if kind == "id" and val in ("true", "false"):
            self.next()
            return ("bool", val == "true")
        if kind == "id" or val == "::":
            path = self.parse_path()
            if self.peek()[1] == "!":  # macro call: matches!(..) etc. unsupported
                raise TranslateError("macro call %s! not supported" % path)
            return ("path", path)
        raise TranslateError("unexpected token %r" % (val,))

    def parse_if(self):
        self.expect("if")
        cond = self.parse_expr(no_struct=True)
        then = self.parse_block()
        els = None
        if self.peek() == ("id", "else"):
            self.next()
            if self.peek() == ("id", "if"):
                els = [("expr", self.parse_if())]
            else:
                els = self.parse_block()
        return ("if", cond, then, els)

    def parse_match(self):
        self.expect("match")
        scrut = self.parse_expr(no_struct=True)
        self.expect("{")
        arms = []
        while not self.accept("}"):
            pats = [self.parse_pattern()]
            while self.accept("|"):
                pats.append(self.parse_pattern())
            self.expect("=>")
            body = self.parse_expr()
            self.accept(",")
            arms.append((pats, body))
        return ("match", scrut, arms)

    def parse_pattern(self):
        kind, val = self.peek()
        if val == "_":
            self.next()
            return ("wild",)
        if kind == "num":
            self.next()
            return ("plit", parse_int(val)[0])
        if val == "-" and self.peek(1)[0] == "num":
            self.next()
            return ("plit", -parse_int(self.next()[1])[0])
        if kind == "id":
            return ("ppath", self.parse_path())
        raise TranslateError("unsupported pattern at %r" % val)

    # ---- statements
    def parse_block(self):
        self.expect("{")
        stmts = []
        while not self.accept("}"):
            stmts.append(self.parse_stmt())
        return stmts

    def parse_stmt(self):
        kind, val = self.peek()
        if kind == "id" and val == "use":
            while self.next()[1] != ";":
                pass
            return ("nop",)
        if val == "#":  # attribute
            self.next()
            self.accept("!")
            self.expect("[")
            depth = 1
            while depth:
                t = self.next()[1]
                depth += (t == "[") - (t == "]")
            return ("nop",)
        if kind == "id" and val == "let":
            self.next()
            self.accept("mut")
            if self.peek()[1] == "(":
                self.next()
                names = []
                while not self.accept(")"):
                    self.accept("mut")
                    names.append(self.next()[1])
                    self.accept(",")
                target = ("tuplepat", names)
            else:
                target = ("var", self.next()[1])
            ty = None
            if self.accept(":"):
                ty = self.parse_type()
            init = None
            if self.accept("="):
                init = self.parse_expr()
            self.expect(";")
            return ("let", target, ty, init)
        if kind == "id" and val == "return":
            self.next()
            e = None if self.peek()[1] == ";" else self.parse_expr()
            self.accept(";")
            return ("return", e)
        e = self.parse_expr()
        tok = self.peek()[1]
        if tok in ("=", "+=", "-=", "*=", "/=", "%=", "|=", "&=", "^=", "<<=", ">>="):
            self.next()
            rhs = self.parse_expr()
            self.expect(";")
            return ("assign", tok, e, rhs)
        if self.accept(";"):
            return ("exprstmt", e)
        return ("expr", e)  # tail expression (or block-like statement)


# ----------------------------------------------------------------------------- source index

class Source:
    """All the Rust files we translate from, comment-stripped, with const/enum tables."""

    def __init__(self, repo):
        self.repo = repo
        self.text = {}
        self.consts = {}       # name -> (type, int value)
        self.arrays = {}       # name -> (elem type, [ints])
        self.enums = {}        # enum name -> {variant: value}
        self.variant_of = {}   # "Enum::Variant" and bare "Variant" -> value

    def load(self, rel):
        if rel not in self.text:
            with open(os.path.join(self.repo, rel)) as f:
                self.text[rel] = strip_comments(f.read())
        return self.text[rel]

    # -- const items
    def scan_consts(self, rel):
        src = self.load(rel)
        pending = []
        for m in re.finditer(r"\b(?:pub(?:\([a-z]+\))?\s+)?(?:const|static)\s+([A-Z_][A-Z0-9_]*)\s*:\s*((?:\[[^\]]*\]|[^=;\[])+?)\s*=\s*", src):
            name, ty = m.group(1), m.group(2).strip()
            # find the terminating ';' at depth 0
            i, depth = m.end(), 0
            while True:
                c = src[i]
                if c in "([{":
                    depth += 1
                elif c in ")]}":
                    depth -= 1
                elif c == ";" and depth == 0:
                    break
                i += 1
            pending.append((name, ty, src[m.end():i]))
        # resolve in dependency order by retrying
        progress = True
        while pending and progress:
            progress = False
            rest = []
            for name, ty, body in pending:
                try:
                    self.eval_const_item(name, ty, body)
                    progress = True
                except KeyError:
                    rest.append((name, ty, body))
                except TranslateError:
                    pass  # not an integer constant we can fold; ignore
            pending = rest

    def eval_const_item(self, name, ty, body):
        toks = tokenize(body)
        am = re.match(r"\[\s*([A-Za-z0-9_]+)\s*;", ty)
        if am:
            if not toks or toks[0][1] != "[":
                raise TranslateError("array const with non-literal initialiser")
            e = P(toks).parse_expr()
            if e[0] != "array":
                raise TranslateError("not an array literal")
            vals = [self.ceval(x) for x in e[1]]
            self.arrays[name] = (am.group(1), vals)
            return
        if not is_int(ty):
            raise TranslateError("non-integer const")
        e = P(toks).parse_expr()
        v = self.ceval(e)
        lo, hi = lo_hi(ty)
        if not lo <= v <= hi:
            raise TranslateError("const %s out of range" % name)
        self.consts[name] = (ty, v)

    def ceval(self, e):
        k = e[0]
        if k == "lit":
            return e[1]
        if k == "paren":
            return self.ceval(e[1])
        if k == "path":
            name = e[1].split("::")[-1]
            if e[1] in self.variant_of:
                return self.variant_of[e[1]]
            return self.consts[name][1]  # KeyError => retry later
        if k == "cast":
            v = self.ceval(e[1])
            t = e[2][1] if e[2][0] == "name" else None
            if is_int(t):
                w, s = INT_TYPES[t]
                v &= (1 << w) - 1
                if s and v >= 1 << (w - 1):
                    v -= 1 << w
            return v
        if k == "index":
            arr = e[1][1].split("::")[-1]
            if arr not in self.arrays:
                raise KeyError(arr)
            return self.arrays[arr][1][self.ceval(e[2])]
        if k == "un":
            v = self.ceval(e[2])
            if e[1] == "-":
                return -v
            raise TranslateError("const !")
        if k == "bin":
            a, b = self.ceval(e[2]), self.ceval(e[3])
            op = e[1]
            if op == "+": return a + b
            if op == "-": return a - b
            if op == "*": return a * b
            if op == "/": return a // b
            if op == "%": return a % b
            if op == "<<": return a << b
            if op == ">>": return a >> b
            if op == "|": return a | b
            if op == "&": return a & b
            if op == "^": return a ^ b
        raise TranslateError("unsupported const expression %r" % (e,))

    # -- enums
    def scan_enums(self, rel):
        src = self.load(rel)
        for m in re.finditer(r"\benum\s+([A-Za-z_][A-Za-z0-9_]*)\s*\{", src):
            name = m.group(1)
            i, depth = m.end(), 1
            while depth:
                depth += (src[i] == "{") - (src[i] == "}")
                i += 1
            body = src[m.end():i - 1]
            if "(" in body or "{" in body:
                continue  # not a C-like enum
            variants = {}
            nxt = 0
            ok = True
            for item in body.split(","):
                item = re.sub(r"#\[[^\]]*\]", "", item).strip()
                if not item:
                    continue
                if "=" in item:
                    vn, ve = [x.strip() for x in item.split("=", 1)]
                    try:
                        nxt = self.ceval(P(tokenize(ve)).parse_expr())
                    except (KeyError, TranslateError):
                        ok = False
                        break
                else:
                    vn = item
                variants[vn] = nxt
                nxt += 1
            if ok:
                self.enums[name] = variants
                for vn, vv in variants.items():
                    self.variant_of["%s::%s" % (name, vn)] = vv
                    if name == "State":
                        self.variant_of[vn] = vv

    def fn_source(self, rel, name, impl=None):
        src = self.load(rel)
        if impl:
            m0 = re.search(r"\bimpl\s+(?:[A-Za-z_<>:, ]+\s+for\s+)?%s\s*\{" % re.escape(impl), src)
            if not m0:
                raise TranslateError("impl %s not found in %s" % (impl, rel))
            start = m0.end()
        else:
            start = 0
        m = re.compile(r"\bfn\s+%s\s*(?:<[^>]*>)?\s*\(" % re.escape(name)).search(src, start)
        if not m:
            raise TranslateError("fn %s not found in %s" % (name, rel))
        # parameters
        i, depth = m.end(), 1
        while depth:
            depth += (src[i] == "(") - (src[i] == ")")
            i += 1
        params = src[m.end():i - 1]
        j = src.index("{", i)
        ret = src[i:j].strip()
        k, depth = j + 1, 1
        while depth:
            depth += (src[k] == "{") - (src[k] == "}")
            k += 1
        return params, ret, src[j:k]


# ----------------------------------------------------------------------------- symbolic executor

class Val:
    """A symbolic value: Coq term (string), Rust type tag."""
    __slots__ = ("term", "ty")

    def __init__(self, term, ty):
        self.term = term
        self.ty = ty


def zlit(v):
    return "(%d)" % v if v < 0 else "%d" % v


class FnTranslator:
    def __init__(self, src, fnname, coqname, params, ret, body, known_fns, hints=None):
        self.hints = hints or {}
        self.src = src
        self.fnname = fnname
        self.coqname = coqname
        self.known_fns = known_fns
        self.lets = []      # (name, term)
        self.oks = []       # bool terms
        self.counter = 0
        self.params = self.parse_params(params)
        self.ret = ret
        self.body = P(tokenize(body)).parse_block()

    def parse_params(self, params):
        out = []
        p = P(tokenize(params))
        while p.peek()[0] != "eof":
            p.accept("mut")
            if p.peek()[1] == "_":
                p.next()
                name = "_unused%d" % len(out)
            else:
                name = p.next()[1]
            p.expect(":")
            ty = p.parse_type()
            p.accept(",")
            out.append((name, ty))
        return out

    def fresh(self, base):
        self.counter += 1
        return "%s_%d" % (re.sub(r"[^A-Za-z0-9_]", "_", base), self.counter)

    def bind(self, base, term):
        name = self.fresh(base)
        self.lets.append((name, term))
        return name

    def check(self, pc, cond):
        self.oks.append("(implb %s %s)" % (pc, cond) if pc != "true" else cond)

    # -- type helpers
    def tyname(self, t):
        if t is None:
            return None
        if t[0] == "name":
            n = t[1].split("::")[-1]
            return n
        return t

    def wrap(self, term, ty):
        w, s = INT_TYPES[ty]
        if s:
            return "(swrap %d %s)" % (w, term)
        return "(uwrap %d %s)" % (w, term)

    def inrange(self, term, ty):
        lo, hi = lo_hi(ty)
        return "(inrange %s %s %s)" % (zlit(lo), zlit(hi), term)

    def unify(self, a, b):
        """result type of a binary op: the non-literal side wins."""
        if a.ty == b.ty:
            return a.ty
        if a.ty == "lit":
            return b.ty
        if b.ty == "lit":
            return a.ty
        raise TranslateError("%s: operand types differ: %s vs %s" % (self.fnname, a.ty, b.ty))

    # -- expressions
    def ev(self, e, env, pc, hint=None):
        k = e[0]
        if k == "lit":
            return Val(zlit(e[1]), e[2] or "lit")
        if k == "bool":
            return Val("true" if e[1] else "false", "bool")
        if k == "paren":
            return self.ev(e[1], env, pc, hint)
        if k == "path":
            p = e[1]
            if p in env:
                return env[p]
            if p in self.src.variant_of:
                enum = p.split("::")[0]
                return Val(zlit(self.src.variant_of[p]), ("enum", enum))
            last = p.split("::")[-1]
            if last in self.src.consts:
                ty, v = self.src.consts[last]
                return Val(zlit(v), ty)
            if p.endswith("::MAX") or p.endswith("::MIN"):
                t = p.split("::")[0]
                lo, hi = lo_hi(t)
                return Val(zlit(hi if p.endswith("MAX") else lo), t)
            # unit-like constructor of a data enum: opaque tag resolved by name
            return Val("tag_%s" % p.replace("::", "_"), ("tag", p))
        if k == "cast":
            v = self.ev(e[1], env, pc)
            t = self.tyname(e[2])
            if not is_int(t):
                raise TranslateError("%s: cast to %s" % (self.fnname, t))
            if v.ty == "bool":
                return Val("(if %s then 1 else 0)" % v.term, t)
            return Val(self.wrap(v.term, t), t)  # `as` wraps silently
        if k == "un":
            v = self.ev(e[2], env, pc, hint)
            if e[1] == "!":
                if v.ty == "bool":
                    return Val("(negb %s)" % v.term, "bool")
                ty = v.ty if v.ty != "lit" else hint
                if not is_int(ty):
                    raise TranslateError("%s: ! on untyped literal" % self.fnname)
                w, s = INT_TYPES[ty]
                if s:
                    return Val("(Z.lnot %s)" % v.term, ty)
                return Val("(Z.lxor %s %d)" % (v.term, (1 << w) - 1), ty)
            if e[1] == "-":
                if v.ty == "lit":
                    return Val("(- %s)" % v.term, "lit")
                name = self.bind("neg", "(- %s)" % v.term)
                self.check(pc, self.inrange(name, v.ty))
                return Val(self.wrap(name, v.ty), v.ty)
        if k == "bin":
            return self.ev_bin(e, env, pc, hint)
        if k == "index":
            arr = e[1]
            if arr[0] == "path" and arr[1].split("::")[-1] in self.src.arrays:
                an = arr[1].split("::")[-1]
                ety, vals = self.src.arrays[an]
                idx = self.ev(e[2], env, pc, "usize")
                self.check(pc, "(%s <? %d)" % (idx.term, len(vals)))
                return Val("(tnth tz_%s %s)" % (an, idx.term), ety)
            base = self.ev(arr, env, pc)
            if isinstance(base.ty, tuple) and base.ty[0] == "arr":
                idx = self.ev(e[2], env, pc, "usize")
                if idx.ty == "lit" or re.match(r"^\d+$", idx.term):
                    i = int(idx.term)
                    return base.ty[1][i]
            raise TranslateError("%s: unsupported index expression" % self.fnname)
        if k == "tuple":
            vals = [self.ev(x, env, pc) for x in e[1]]
            return Val("(" + ", ".join(v.term for v in vals) + ")" if vals else "tt", ("tup", vals))
        if k == "array":
            vals = [self.ev(x, env, pc) for x in e[1]]
            return Val("(" + ", ".join(v.term for v in vals) + ")", ("arr", vals))
        if k == "field":
            base = self.ev(e[1], env, pc)
            if isinstance(base.ty, tuple) and base.ty[0] in ("tup", "arr") and e[2].isdigit():
                return base.ty[1][int(e[2])]
            raise TranslateError("%s: field access .%s" % (self.fnname, e[2]))
        if k == "method":
            return self.ev_method(e, env, pc)
        if k == "call":
            return self.ev_call(e, env, pc, hint)
        if k == "if":
            return self.ev_if(e, env, pc, hint)
        if k == "match":
            return self.ev_match(e, env, pc, hint)
        if k == "block":
            env2 = dict(env)
            r = self.run_block(e[1], env2, pc, hint)
            for key in env:
                env[key] = env2[key]
            return r
        raise TranslateError("%s: unsupported expression kind %s" % (self.fnname, k))

    def ev_bin(self, e, env, pc, hint):
        op = e[1]
        if op in ("&&", "||"):
            a = self.ev(e[2], env, pc)
            # right operand is evaluated only if needed: its checks are guarded
            pc2 = "(%s && %s)" % (pc, a.term if op == "&&" else "(negb %s)" % a.term)
            b = self.ev(e[3], env, pc2)
            return Val("(%s %s %s)" % (a.term, op, b.term), "bool")
        a = self.ev(e[2], env, pc, hint)
        if op in ("<<", ">>"):
            b = self.ev(e[3], env, pc, "u32")
            ty = a.ty if a.ty != "lit" else (hint if is_int(hint) else "i32")
            w, s = INT_TYPES[ty]
            self.check(pc, "(inrange 0 %d %s)" % (w - 1, b.term))
            if op == "<<":
                return Val(self.wrap("(Z.shiftl %s %s)" % (a.term, b.term), ty), ty)
            return Val("(Z.shiftr %s %s)" % (a.term, b.term), ty)
        b = self.ev(e[3], env, pc, a.ty if is_int(a.ty) else hint)
        if a.ty == "lit" and is_int(b.ty):
            a = self.ev(e[2], env, pc, b.ty)
        if op in ("==", "!=", "<", ">", "<=", ">="):
            if a.ty == "bool" and b.ty == "bool":
                t = "(Bool.eqb %s %s)" % (a.term, b.term)
                return Val(t if op == "==" else "(negb %s)" % t, "bool")
            cop = {"==": "=?", "!=": "=?", "<": "<?", ">": ">?", "<=": "<=?", ">=": ">=?"}[op]
            t = "(%s %s %s)" % (a.term, cop, b.term)
            return Val("(negb %s)" % t if op == "!=" else t, "bool")
        if a.ty == "bool" and op in ("|", "&", "^"):
            f = {"|": "orb", "&": "andb", "^": "xorb"}[op]
            return Val("(%s %s %s)" % (f, a.term, b.term), "bool")
        ty = self.unify(a, b)
        if ty == "lit":
            ty = hint if is_int(hint) else "lit"
        if op in ("|", "&", "^"):
            f = {"|": "Z.lor", "&": "Z.land", "^": "Z.lxor"}[op]
            return Val("(%s %s %s)" % (f, a.term, b.term), ty)
        if op in ("+", "-", "*"):
            raw = "(%s %s %s)" % (a.term, op, b.term)
            if ty == "lit":
                return Val(raw, "lit")
            name = self.bind("t", raw)
            self.check(pc, self.inrange(name, ty))
            return Val(self.wrap(name, ty), ty)
        if op in ("/", "%"):
            self.check(pc, "(negb (%s =? 0))" % b.term)
            f = "Z.quot" if op == "/" else "Z.rem"
            return Val("(%s %s %s)" % (f, a.term, b.term), ty)
        raise TranslateError("%s: operator %s" % (self.fnname, op))

    def ev_method(self, e, env, pc):
        name, recv, args = e[1], e[2], e[3]
        r = self.ev(recv, env, pc)
        if name == "saturating_sub":
            a = self.ev(args[0], env, pc, r.ty)
            lo, _ = lo_hi(r.ty)
            return Val("(Z.max %s (%s - %s))" % (zlit(lo), r.term, a.term), r.ty)
        if name == "saturating_add":
            a = self.ev(args[0], env, pc, r.ty)
            _, hi = lo_hi(r.ty)
            return Val("(Z.min %s (%s + %s))" % (zlit(hi), r.term, a.term), r.ty)
        if name in ("wrapping_add", "wrapping_sub", "wrapping_mul"):
            a = self.ev(args[0], env, pc, r.ty)
            op = {"wrapping_add": "+", "wrapping_sub": "-", "wrapping_mul": "*"}[name]
            return Val(self.wrap("(%s %s %s)" % (r.term, op, a.term), r.ty), r.ty)
        if name in ("min", "max"):
            a = self.ev(args[0], env, pc, r.ty)
            return Val("(Z.%s %s %s)" % (name, r.term, a.term), self.unify(r, a))
        if name == "into":
            return r
        raise TranslateError("%s: method .%s()" % (self.fnname, name))

    def ev_call(self, e, env, pc, hint):
        path, args = e[1], e[2]
        last = path.split("::")[-1]
        head = path.split("::")[0]
        if last == "from" and is_int(head):
            v = self.ev(args[0], env, pc)
            return Val(v.term, head)
        if path in ("cmp::min", "cmp::max", "core::cmp::min", "core::cmp::max", "::core::cmp::max",
                    "::core::cmp::min"):
            a = self.ev(args[0], env, pc, hint)
            b = self.ev(args[1], env, pc, a.ty if is_int(a.ty) else hint)
            if a.ty == "lit" and is_int(b.ty):
                a = self.ev(args[0], env, pc, b.ty)
            return Val("(Z.%s %s %s)" % (last, a.term, b.term), self.unify(a, b))
        if last in ("Ok", "Err", "Some"):
            v = self.ev(args[0], env, pc)
            tag = {"Ok": 0, "Err": 1, "Some": 0}[last]
            return Val("(%d, %s)" % (tag, v.term), ("tup", [Val(str(tag), "lit"), v]))
        if last in self.known_fns or path in self.known_fns:
            info = self.known_fns.get(path) or self.known_fns[last]
            vals = [self.ev(a, env, pc, info["ptypes"][i] if is_int(info["ptypes"][i]) else None)
                    for i, a in enumerate(args)]
            r = self.fresh("r")
            okn = self.fresh("k")
            self.lets.append(("'(%s, %s)" % (r, okn), "(%s %s)" % (info["coq"], " ".join(v.term for v in vals))))
            self.check(pc, okn)
            return self.destructure(r, info["rty"])
        # constructor of a data-carrying enum: Action::Jump(X) -> (tag, X)
        vals = [self.ev(a, env, pc) for a in args]
        tag = "tag_%s" % path.replace("::", "_")
        return Val("(%s, %s)" % (tag, ", ".join(v.term for v in vals)),
                   ("tup", [Val(tag, ("tag", path))] + vals))

    def destructure(self, name, rty):
        if isinstance(rty, tuple) and rty[0] in ("tup", "arr"):
            n = len(rty[1])
            parts = []
            names = [self.fresh(name + "f") for _ in range(n)]
            self.lets.append(("'(" + ", ".join(names) + ")", name))
            for nm, sub in zip(names, rty[1]):
                parts.append(self.destructure(nm, sub.ty) if isinstance(sub.ty, tuple) and sub.ty[0] in ("tup", "arr")
                             else Val(nm, sub.ty))
            return Val(name, (rty[0], parts))
        return Val(name, rty)

    def merge(self, c, a, b):
        """ite on values (structurally for tuples)."""
        if a is None or b is None:
            raise TranslateError("%s: branch without value" % self.fnname)
        if isinstance(a.ty, tuple) and a.ty[0] in ("tup", "arr") and isinstance(b.ty, tuple) and b.ty[0] == a.ty[0]:
            parts = [self.merge(c, x, y) for x, y in zip(a.ty[1], b.ty[1])]
            return Val("(" + ", ".join(p.term for p in parts) + ")", (a.ty[0], parts))
        if a.term == b.term:
            return a
        ty = a.ty if a.ty != "lit" else b.ty
        return Val("(if %s then %s else %s)" % (c, a.term, b.term), ty)

    def ev_if(self, e, env, pc, hint):
        c = self.ev(e[1], env, pc)
        cname = self.bind("c", c.term)
        env_t, env_e = dict(env), dict(env)
        vt = self.run_block(e[2], env_t, "(%s && %s)" % (pc, cname) if pc != "true" else cname, hint)
        npc = "(negb %s)" % cname
        ve = self.run_block(e[3], env_e, "(%s && %s)" % (pc, npc) if pc != "true" else npc, hint) if e[3] is not None else None
        for key in env:
            if env_t[key] is not env_e[key]:
                env[key] = self.merge(cname, env_t[key], env_e[key])
            else:
                env[key] = env_t[key]
        # early returns inside branches
        rt, re_ = env_t.get("$ret"), env_e.get("$ret")
        if rt is not None or re_ is not None:
            raise TranslateError("%s: early return inside if" % self.fnname)
        if vt is None and ve is None:
            return None
        if e[3] is None:
            return None
        return self.merge(cname, vt, ve)

    def ev_match(self, e, env, pc, hint):
        s = self.ev(e[1], env, pc)
        result = None
        # build from the last arm backwards
        arms = e[2]
        conds = []
        for pats, body in arms:
            cs = []
            for p in pats:
                if p[0] == "wild":
                    cs.append("true")
                elif p[0] == "plit":
                    cs.append("(%s =? %s)" % (s.term, zlit(p[1])))
                elif p[0] == "ppath":
                    if p[1] in self.src.variant_of:
                        cs.append("(%s =? %s)" % (s.term, zlit(self.src.variant_of[p[1]])))
                    elif p[1] in env or p[1][0].islower():
                        cs.append("true")  # binding pattern (unused)
                    else:
                        raise TranslateError("%s: pattern %s" % (self.fnname, p[1]))
            conds.append("(" + " || ".join(cs) + ")" if len(cs) > 1 else cs[0])
        prev_not = []
        vals = []
        for (pats, body), c in zip(arms, conds):
            arm_pc = " && ".join([pc] + prev_not + [c]) if pc != "true" else " && ".join(prev_not + [c])
            envc = dict(env)
            vals.append(self.ev(body, envc, "(" + arm_pc + ")", hint))
            prev_not.append("(negb %s)" % c)
        result = vals[-1]
        for v, c in zip(reversed(vals[:-1]), reversed(conds[:-1])):
            result = self.merge(c, v, result)
        return result

    # -- statements
    def run_block(self, stmts, env, pc, hint=None):
        if stmts is None:
            return None
        last = None
        for st in stmts:
            k = st[0]
            last = None
            if k == "nop":
                continue
            if k == "let":
                ty = self.tyname(st[2]) if st[2] else None
                if ty is None and st[1][0] == "var" and st[1][1] in self.hints:
                    ty = self.hints[st[1][1]]
                v = self.ev(st[3], env, pc, ty if is_int(ty) else None)
                if v is None:
                    raise TranslateError("%s: let without value" % self.fnname)
                if st[1][0] == "tuplepat":
                    for nm, sub in zip(st[1][1], v.ty[1]):
                        env[nm] = sub
                    continue
                if is_int(ty) and v.ty == "lit":
                    v = Val(v.term, ty)
                if not (isinstance(v.ty, tuple) and v.ty[0] in ("tup", "arr")):
                    v = Val(self.bind(st[1][1], v.term), v.ty)
                env[st[1][1]] = v
            elif k == "assign":
                op, lhs, rhs = st[1], st[2], st[3]
                if lhs[0] != "path" or lhs[1] not in env:
                    raise TranslateError("%s: assignment to non-variable" % self.fnname)
                cur = env[lhs[1]]
                if op == "=":
                    v = self.ev(rhs, env, pc, cur.ty if is_int(cur.ty) else None)
                else:
                    v = self.ev(("bin", op[:-1], lhs, rhs), env, pc, cur.ty if is_int(cur.ty) else None)
                ty = cur.ty if v.ty == "lit" else v.ty
                env[lhs[1]] = Val(self.bind(lhs[1], v.term), ty)
            elif k == "exprstmt":
                self.ev(st[1], env, pc)
            elif k == "expr":
                last = self.ev(st[1], env, pc, hint)
            elif k == "return":
                raise TranslateError("%s: explicit return not supported" % self.fnname)
            else:
                raise TranslateError("%s: statement %s" % (self.fnname, k))
        return last

    def translate(self):
        env = {}
        coq_params = []
        ptypes = []
        for name, ty in self.params:
            t = self.tyname(ty)
            if t == ("ptr",) and name.startswith("_"):
                coq_params.append(name)
                ptypes.append("ptr")
                continue
            if is_int(t):
                env[name] = Val(name, t)
            elif t == "bool":
                env[name] = Val(name, "bool")
            elif t in self.src.enums:
                env[name] = Val(name, ("enum", t))
            else:
                raise TranslateError("%s: parameter type %s" % (self.fnname, t))
            coq_params.append(name)
            ptypes.append(t)
        rt = None
        if self.ret.startswith("->"):
            rt = self.tyname(P(tokenize(self.ret[2:])).parse_type())
        res = self.run_block(self.body, env, "true", rt if isinstance(rt, str) and is_int(rt) else None)
        if res is None:
            raise TranslateError("%s: no tail value" % self.fnname)
        lines = ["Definition %s %s :=" % (self.coqname, " ".join("(%s : %s)" % (p, "bool" if t == "bool" else ("unit" if t == "ptr" else "Z"))
                                                                    for p, t in zip(coq_params, ptypes)))]
        for name, term in self.lets:
            lines.append("  let %s := %s in" % (name, term))
        ok = " && ".join(self.oks) if self.oks else "true"
        lines.append("  (%s, (%s)%%bool)." % (res.term, ok))
        return "\n".join(lines), {"coq": self.coqname, "ptypes": ptypes, "rty": res.ty}


PRELUDE = """(* GENERATED by translator/rs2v.py from the Rust sources of /repo -- do not edit. *)
From Coq Require Import ZArith NArith List Bool Lia.
Import ListNotations.
Local Open Scope Z_scope.

Definition uwrap (w : Z) (x : Z) : Z := x mod 2 ^ w.
Definition swrap (w : Z) (x : Z) : Z := (x + 2 ^ (w - 1)) mod 2 ^ w - 2 ^ (w - 1).
Definition inrange (lo hi x : Z) : bool := (lo <=? x) && (x <=? hi).
Definition tnth (l : list Z) (i : Z) : Z := nth (Z.to_nat i) l 0.
"""


def emit_consts(src, names):
    out = []
    for n in names:
        if n not in src.consts:
            raise TranslateError("constant %s not found" % n)
        ty, v = src.consts[n]
        out.append("Definition c_%s : Z := %s. (* %s *)" % (n, zlit(v), ty))
    return "\n".join(out)


def emit_arrays(src, names):
    out = []
    for n in names:
        if n not in src.arrays:
            raise TranslateError("array %s not found" % n)
        ety, vals = src.arrays[n]
        body = "; ".join(zlit(v) for v in vals)
        out.append("Definition tz_%s : list Z := [%s]. (* [%s; %d] *)" % (n, body, ety, len(vals)))
        if all(v >= 0 for v in vals):
            out.append("Definition t_%s : list N := [%s]%%N." % (n, "; ".join(str(v) for v in vals)))
    return "\n".join(out)


def emit_enum(src, name):
    if name not in src.enums:
        raise TranslateError("enum %s not found" % name)
    out = []
    for vn, vv in src.enums[name].items():
        out.append("Definition e_%s_%s : Z := %s." % (name, vn, zlit(vv)))
    return "\n".join(out)


def write_if_changed(path, text):
    try:
        with open(path) as f:
            if f.read() == text:
                return False
    except FileNotFoundError:
        pass
    os.makedirs(os.path.dirname(path), exist_ok=True)
    with open(path, "w") as f:
        f.write(text)
    return True


# ----------------------------------------------------------------------------- what we generate

def generate(repo, outdir):
    src = Source(repo)
    files = [
        "miniz_oxide/src/shared.rs",
        "miniz_oxide/src/lib.rs",
        "miniz_oxide/src/deflate/buffer.rs",
        "miniz_oxide/src/deflate/core.rs",
        "miniz_oxide/src/deflate/zlib.rs",
        "miniz_oxide/src/deflate/mod.rs",
        "miniz_oxide/src/inflate/core.rs",
        "miniz_oxide/src/inflate/mod.rs",
    ]
    for f in files:
        src.scan_enums(f)
    # MAX_PROBES_MASK lives in deflate/core.rs as `pub(crate) const`
    for _ in range(2):
        for f in files:
            src.scan_consts(f)
    for f in files:
        src.scan_enums(f)

    known = {}
    report = {"functions": [], "consts": 0, "arrays": 0}

    def fn(rel, name, coq, impl=None, hints=None):
        params, ret, body = src.fn_source(rel, name, impl)
        try:
            tr = FnTranslator(src, name, coq, params, ret, body, known, hints)
            text, info = tr.translate()
        except TranslateError as ex:
            raise TranslateError("%s::%s: %s" % (rel, name, ex))
        known[name] = info
        if impl:
            known["%s::%s" % (impl, name)] = info
        report["functions"].append("%s:%s" % (rel, (impl + "::" if impl else "") + name))
        return text

    # ---- GenZlib.v : zlib header production and validation
    parts = [PRELUDE]
    parts.append(emit_consts(src, ["MAX_PROBES_MASK", "TDEFL_GREEDY_PARSING_FLAG", "TDEFL_RLE_MATCHES",
                                   "TDEFL_WRITE_ZLIB_HEADER", "TDEFL_COMPUTE_ADLER32",
                                   "TDEFL_FILTER_MATCHES", "TDEFL_FORCE_ALL_STATIC_BLOCKS",
                                   "TDEFL_FORCE_ALL_RAW_BLOCKS", "TDEFL_NONDETERMINISTIC_PARSING_FLAG",
                                   "DEFAULT_CM", "FCHECK_DIVISOR", "MZ_DEFAULT_WINDOW_BITS",
                                   "TINFL_FLAG_PARSE_ZLIB_HEADER", "TINFL_FLAG_HAS_MORE_INPUT",
                                   "TINFL_FLAG_USING_NON_WRAPPING_OUTPUT_BUF", "TINFL_FLAG_COMPUTE_ADLER32",
                                   "TINFL_FLAG_IGNORE_ADLER32", "TINFL_FLAG_STOP_ON_BLOCK_BOUNDARY"]))
    parts.append(emit_arrays(src, ["NUM_PROBES"]))
    parts.append(emit_enum(src, "State"))
    parts.append(emit_enum(src, "CompressionStrategy"))
    parts.append(emit_enum(src, "CompressionLevel"))
    parts.append("Definition tag_Action_Jump : Z := 1.")
    z = "miniz_oxide/src/deflate/zlib.rs"
    parts.append(fn(z, "add_fcheck", "add_fcheck"))
    parts.append(fn(z, "zlib_level_from_flags", "zlib_level_from_flags"))
    parts.append(fn(z, "header_from_level", "header_from_level"))
    parts.append(fn(z, "header_from_flags", "header_from_flags"))
    ic = "miniz_oxide/src/inflate/core.rs"
    # `window_size` gets its type (usize) from the later comparison with `mask + 1`
    parts.append(fn(ic, "validate_zlib_header", "validate_zlib_header", hints={"window_size": "usize"}))
    parts.append(fn(ic, "num_extra_bits_for_distance_code", "num_extra_bits_for_distance_code"))
    dc = "miniz_oxide/src/deflate/core.rs"
    parts.append(fn(dc, "create_comp_flags_from_zip_params", "create_comp_flags_from_zip_params"))
    parts.append(fn(dc, "limit_level_by_window_bits", "limit_level_by_window_bits"))
    parts.append(fn(dc, "window_bits_from_flags", "window_bits_from_flags"))
    parts.append(fn(dc, "probes_from_flags", "probes_from_flags"))
    parts.append(fn("miniz_oxide/src/deflate/buffer.rs", "update_hash", "update_hash"))
    parts.append(fn("src/lib.rs", "mz_deflateBound", "mz_deflateBound"))
    # C-ABI shim: flush value mapping and window-bits validation
    src.scan_consts("src/lib_oxide.rs")
    parts.append(emit_enum(src, "MZFlush"))
    parts.append(emit_enum(src, "MZError"))
    parts.append(fn("miniz_oxide/src/lib.rs", "new", "mzflush_new", impl="MZFlush"))
    parts.append(fn("src/lib_oxide.rs", "invalid_window_bits", "invalid_window_bits"))
    write_if_changed(os.path.join(outdir, "GenZlib.v"), "\n\n".join(parts) + "\n")

    # ---- GenTables.v : decoder and encoder tables, sizes
    parts = [PRELUDE]
    parts.append(emit_arrays(src, ["LENGTH_BASE", "LENGTH_EXTRA", "DIST_BASE", "MIN_TABLE_SIZES",
                                   "HUFFMAN_LENGTH_ORDER", "LEN_SYM", "LEN_EXTRA", "SMALL_DIST_SYM",
                                   "SMALL_DIST_EXTRA", "LARGE_DIST_SYM", "LARGE_DIST_EXTRA", "BITMASKS"]))
    parts.append(emit_consts(src, ["TINFL_LZ_DICT_SIZE", "MAX_HUFF_SYMBOLS_0", "MAX_HUFF_SYMBOLS_1",
                                   "MAX_HUFF_SYMBOLS_2", "FAST_LOOKUP_BITS", "FAST_LOOKUP_SIZE",
                                   "MAX_HUFF_TREE_SIZE", "LEN_CODES_SIZE", "LEN_CODES_MASK", "BASE_EXTRA_MASK",
                                   "LZ_DICT_SIZE", "LZ_DICT_SIZE_MASK", "MIN_MATCH_LEN", "MAX_MATCH_LEN",
                                   "LZ_CODE_BUF_SIZE", "LZ_CODE_BUF_MASK", "OUT_BUF_SIZE", "LZ_DICT_FULL_SIZE",
                                   "LZ_HASH_BITS", "LZ_HASH_SHIFT", "LZ_HASH_SIZE", "LEVEL1_HASH_SIZE_MASK",
                                   "COMP_FAST_LOOKAHEAD_SIZE", "MZ_ADLER32_INIT", "LEN_SYM_OFFSET",
                                   "DEFAULT_FLAGS", "MAX_SUPPORTED_HUFF_CODESIZE"]))
    parts.append(emit_enum(src, "TINFLStatus") if "TINFLStatus" in src.enums else "")
    parts.append(emit_enum(src, "TDEFLStatus"))
    parts.append(emit_enum(src, "TDEFLFlush"))
    parts.append(emit_enum(src, "MZFlush"))
    parts.append(emit_enum(src, "MZStatus"))
    parts.append(emit_enum(src, "MZError"))
    write_if_changed(os.path.join(outdir, "GenTables.v"), "\n\n".join(parts) + "\n")
    # ---- GenSources.v : the text of every source file of the core crate (C20), one Coq string per line
    srcdir = os.path.join(repo, "miniz_oxide", "src")
    entries = []
    out = ["(* GENERATED by translator/rs2v.py: the source text of miniz_oxide/src (C20) -- do not edit. *)",
           "From Coq Require Import List String.", "Import ListNotations.", "Local Open Scope string_scope.", ""]
    for root, dirs, files in sorted(os.walk(srcdir)):
        dirs.sort()
        for fn in sorted(files):
            if not fn.endswith(".rs"):
                continue
            rel = os.path.relpath(os.path.join(root, fn), os.path.join(repo, "miniz_oxide"))
            ident = "src_" + re.sub(r"[^A-Za-z0-9]", "_", rel)
            with open(os.path.join(root, fn), "rb") as f:
                raw = f.read()
            lines = raw.split(b"\n")
            out.append("Definition %s : list string := [" % ident)
            enc = []
            for ln in lines:
                t = "".join(chr(b) if 32 <= b < 127 else ("?" if b >= 127 else " ") for b in ln.rstrip(b"\r"))
                enc.append('  "%s"' % t.replace('"', '""'))
            out.append(";\n".join(enc))
            out.append("].")
            out.append("")
            entries.append((rel, ident))
    out.append("Definition sources : list (string * list string) := [")
    out.append(";\n".join('  ("%s", %s)' % (rel, ident) for rel, ident in entries))
    out.append("].")
    write_if_changed(os.path.join(outdir, "GenSources.v"), "\n".join(out) + "\n")
    report["sources"] = len(entries)
    report["consts"] = len(src.consts)
    report["arrays"] = len(src.arrays)
    return report


if __name__ == "__main__":
    repo = sys.argv[1] if len(sys.argv) > 1 else "/repo"
    outdir = sys.argv[2] if len(sys.argv) > 2 else "/verif/coq/gen"
    try:
        rep = generate(repo, outdir)
    except TranslateError as ex:
        print("TRANSLATE-ERROR: %s" % ex)
        sys.exit(2)
    print("translated: %d functions, %d consts, %d arrays known" % (len(rep["functions"]), rep["consts"], rep["arrays"]))
