"""Checks for the compressor-side properties: C01 C02 C10 C11 C12 C14 C15 (and the compressor
half of C18).  The oracle is the extracted RFC 1951/1950 specification run on the bytes the
implementation really emitted; the level-0 model (control plane + stored engine) is compared
line by line wherever it applies."""
import re
import zlib

from . import core, streams
from .core import hx, parse_fields
from .props import fib_data, geom_data, Ctx, build_all, conclude, correspondence, data_classes, execute, load_replay, oracle_run
from .inflate_checks import core_show, standard_run

MODEL_DEFLATE_OPS = {"cparams", "ccall", "ccallf", "cdrive", "dfcall", "dfdrive", "cvec", "cflags"}

SIZES_EDGE = [0, 1, 2, 3, 256, 257, 258, 259, 260, 4094, 4095, 4096, 4097, 4098, 31742, 31743, 31744, 31745, 31746,
              32766, 32767, 32768, 32769, 32770, 65533, 65534, 65535, 65536, 65537, 65538, 85194, 85195, 85196, 85197, 85198,
              98304, 131072]


def sched_comp(rng, finish_last=True):
    k = rng.below(7)

    def f():
        return rng.choice([0, 0, 0, 1, 2, 3, 5, 6, 7])
    if k == 0:
        return "100000000:200000:%d" % rng.choice([0, 4])
    if k == 1:
        return "1:1:%d" % rng.choice([0, 2])
    if k == 2:
        return "%d:%d:%d" % (rng.range(0, 5000), rng.choice([1, 2, 5, 9, 100, 85195, 85196, 85197]), f())
    if k == 3:
        return ",".join("%d:%d:%d" % (rng.choice([0, 1, 2, 3, 257, 258, 259, 4095, 4096, 4097, 40000]),
                                      rng.choice([1, 5, 9, 1000, 200000]), f()) for _ in range(rng.range(2, 4)))
    if k == 4:
        return "%d:%d:0,0:%d:%d" % (rng.range(1, 40000), rng.range(1, 200000), rng.range(1, 20), rng.choice([1, 2, 3, 5, 6, 7]))
    if k == 5:
        return "100000000:%d:0" % rng.choice([1, 3, 31744, 31745, 40000])
    return "%d:%d:%d,%d:%d:4" % (rng.range(0, 3000), rng.range(1, 3000), f(), rng.range(0, 100), rng.range(1, 100))


def mz_sched(sc):
    """a compressor schedule restricted to the flush values deflate() accepts (None, Sync, Full, Finish): only the
    third field of each item is rewritten"""
    out = []
    for it in sc.split(","):
        c, o, f = it.split(":")
        out.append("%s:%s:%s" % (c, o, {"5": "0", "6": "2", "7": "0", "1": "2"}.get(f, f)))
    return ",".join(out)


def spec_of_outputs(ctx, items):
    """items: (key, zlib?, hex string of compressed bytes). returns key -> parsed sinflate line"""
    cases = [(k, ["sinflate %d %s" % (1 if z else 0, h)]) for k, z, h in items]
    res = oracle_run(ctx, cases, "sorc")
    out = {}
    for k, z, h in items:
        f = parse_fields(res.get((k, 1), ("", "missing"))[1])
        f["verdict"] = f["_"][0] if f["_"] else "missing"
        if f["verdict"] == "err" and len(f["_"]) > 1:
            f["ekind"] = f["_"][1]
        out[k] = f
    return out


# ===================================================================================== C01

def lazy_staircase(rng, delta, steps=10, tail=6000):
    """Incompressible bytes, then a staircase: at p+i the longest match has length 4+i (i < steps), so a lazy parser
    defers a match at every one of these positions and emits the superseded literal.  p = 31744 - delta: the literal of
    p+delta is the 31745th byte of an incompressible block, which is exactly where compress_normal flushes the block from
    inside its loop, with a deferred match pending.  A compressible tail follows (the next block is Huffman coded)."""
    vals = list(range(256))
    for i in range(255, 0, -1):
        j = rng.below(i + 1)
        vals[i], vals[j] = vals[j], vals[i]
    T = bytes(vals[:2 * steps + 8])
    p = 31744 - delta
    noise = bytearray(rng.bytes(p))
    at = 300
    for i in range(steps):
        S = T[i:2 * i + 4]
        noise[at:at + len(S)] = S
        at += len(S) + rng.range(150, 900)
    words = [b"alpha ", b"beta ", b"gamma ", b"delta ", b"compress ", b"inflate ", b"0123 "]
    t = bytearray()
    while len(t) < tail:
        t += words[rng.below(len(words))]
    return bytes(noise) + T + bytes(t[:tail])


def c01_cases(ctx):
    rng = ctx.rng
    thorough = ctx.tier == "thorough"
    k = 0
    sizes = list(SIZES_EDGE) + ([200000, 400000] if thorough else [])
    for n in sizes:
        reps = 3 if (thorough or n < 70000) else 1
        for _ in range(reps):
            data = data_classes(rng, n)
            lv = [0, 1, rng.range(2, 9), 10] if n < 70000 else [rng.choice([0, 1, 6])]
            ops = ["in %s" % hx(data)]
            for level in lv:
                ops.append("cvecrt %d %d @" % (level, rng.below(2)))
            k += 1
            ctx.add("s%d" % k, ops, kind="rt", data=data)
    # lazy-match staircase straddling the in-loop block flush; compress_to_vec starts with a vector of half the input,
    # which the first (stored, ~31 KiB) block does not fit: the engine returns early with a deferred match pending
    for delta in ([0, 2, 5] if not thorough else range(0, 9)):
        data = lazy_staircase(rng, delta)
        ops = ["in %s" % hx(data)] + ["cvecrt %d %d @" % (level, z) for level in ([4, 6, 9] if not thorough else range(4, 11)) for z in (0, 1)]
        k += 1
        ctx.add("q%d" % k, ops, kind="rt", data=data)
    # incompressible input whose stored-block fallback wraps the 32 KiB dictionary and ends 255..260 bytes past the
    # wrap (the dictionary mirrors only its first 257 bytes); last byte non-zero
    for base in ([32768, 65536] if not thorough else [32768, 65536, 98304]):
        for extra in (255, 256, 257, 258, 259, 260):
            data = rng.bytes(base + extra - 1) + bytes([rng.range(1, 255)])
            ops = ["in %s" % hx(data)] + ["cvecrt %d %d @" % (level, rng.below(2)) for level in (0, 2, 6)]
            k += 1
            ctx.add("w%d" % k, ops, kind="rt", data=data)
    # skewed (geometric) literal statistics with a run of values that occur once: deep, length-limited codes for
    # adjacent literals, under the default strategy
    for j in range(2 if not thorough else 6):
        data = geom_data(rng, 120000 if j % 2 == 0 else 60000)
        ops = ["in %s" % hx(data)] + ["cvecrt %d %d @" % (level, rng.below(2)) for level in ([1, 6, 9] if not thorough else range(1, 11))]
        k += 1
        ctx.add("g%d" % k, ops, kind="rt", data=data)
    # symbol statistics that drive the Huffman length limiter (optimal depth > 15) at every kind of level
    for j in range(4 if not thorough else 24):
        data = fib_data(rng, M=[64, 64, 0, None][j % 4])
        ops = ["in %s" % hx(data)] + ["cvecrt %d %d @" % (level, rng.below(2)) for level in ([1, 2, 6, 9] if not thorough else range(1, 11))]
        k += 1
        ctx.add("f%d" % k, ops, kind="rt", data=data)
    # all 256 levels on small inputs; values above 10 behave as 10
    for j in range(6 if not thorough else 30):
        data = data_classes(rng, rng.choice([0, 1, 5, 300, 3000]))
        z = rng.below(2)
        ops = ["in %s" % hx(data)] + ["cvecrt %d %d @" % (lvl, z) for lvl in range(0, 256)]
        k += 1
        ctx.add("l%d" % k, ops, kind="levels", data=data, z=z)
    # the plain cvec op is what the level-0 model reproduces byte for byte
    for n in [0, 1, 100, 31744, 31745, 65536, 100000]:
        data = data_classes(rng, n)
        k += 1
        ctx.add("m%d" % k, ["in %s" % hx(data), "cvec 0 0 @", "cvec 0 1 @"], kind="model", data=data)


def c01_eval(ctx):
    fails = []
    items = []
    for cid, ops in ctx.cases:
        m = ctx.meta[cid]
        if m["kind"] != "rt":
            continue
        for k, op in enumerate(ops, 1):
            if op.startswith("cvecrt"):
                f = parse_fields(ctx.impl.get((cid, k), ("", ""))[1])
                if f.get("full", "-") != "-" and len(f["full"]) < 700000:
                    items.append(("%s.%d" % (cid, k), op.split()[2] == "1", f["full"]))
    orc = spec_of_outputs(ctx, items)
    for cid, ops in ctx.cases:
        m = ctx.meta[cid]
        for tag, res in (("debug", ctx.impl), ("release", ctx.impl_rel)):
            if not res:
                continue
            ref10 = None
            for k, op in enumerate(ops, 1):
                if not op.startswith("cvecrt"):
                    continue
                line = res.get((cid, k), ("", "MISSING"))[1]
                f = parse_fields(line)
                lvl = int(op.split()[1])
                bad = None
                if "PANIC" in line or line == "MISSING":
                    bad = "one-shot compression panicked"
                elif f.get("rt") != "ok":
                    bad = "one-shot decompression of the compressed vector gave %s instead of the original %d bytes" % (f.get("rt"), len(m["data"]))
                else:
                    o = orc.get("%s.%d" % (cid, k))
                    if o is not None and tag == "debug":
                        if o["verdict"] != "done" or o.get("o") != core_show(m["data"]):
                            bad = "reference decoder does not reproduce the input from the compressed vector (%s)" % o["verdict"]
                    if m["kind"] == "levels":
                        if lvl == 10:
                            ref10 = f.get("ch")
                        if lvl > 10 and f.get("ch") != ref10:
                            bad = "level %d output differs from level 10 output" % lvl
                if bad:
                    fails.append((cid, "%s build: level %d %s, %d bytes: %s" % (tag, lvl, "zlib" if op.split()[2] == "1" else "raw", len(m["data"]), bad)))
                    break
    return fails


def check_C01(rep, tier, seed, replay):
    ctx = Ctx(rep, tier, seed)
    proof_ok = core.prove(rep, "C01", PROP_THEOREMS["C01"])
    if replay:
        load_replay(ctx, replay)
        for cid, ops in ctx.cases:
            d = b""
            for o in ops:
                if o.startswith("in ") and o.split()[1] != "-":
                    d = bytes.fromhex(o.split()[1])
            ctx.meta[cid].update(kind="rt", data=d)
    else:
        c01_cases(ctx)
    return standard_run(ctx, proof_ok, c01_eval, MODEL_DEFLATE_OPS,
                        "sizes {0,1,2,3} and +-2 around 258, 4096, 31744, 32768, 65535, 65536, 85196, 3*32768, 4*32768 (thorough: up to "
                        "400000) x content classes (zeros, 0xFF, random, 2-4 symbols, text, repeats at distances 1..32769, runs) x levels "
                        "{0,1,2..9,10} x {raw, zlib}; all 256 level values on small inputs (levels > 10 must equal 10); oracle: the crate's "
                        "own one-shot decoder AND the extracted spec decoder on the emitted bytes; level-0 outputs byte-exact vs model")


# ===================================================================================== C02 / C10 / C11 / C12 share stream cases

def config_grid(rng, tier):
    cfgs = []
    levels = range(0, 11)
    for fmt in (0, 2):
        for level in levels:
            for strat in range(0, 5):
                wbs = [15] if tier == "quick" and rng.chance(2, 3) else [rng.range(8, 15)]
                for wb in wbs:
                    cfgs.append((fmt, level, strat, wb))
    return cfgs


def c02_cases(ctx, sink_variants=True):
    rng = ctx.rng
    cfgs = config_grid(rng, ctx.tier)
    if ctx.tier == "quick":
        cfgs = [c for c in cfgs if rng.chance(1, 2)]
    k = 0
    for (fmt, level, strat, wb) in cfgs:
        n = rng.choice([0, 1, 2, 3, 100, 257, 258, 259, 4096, 31745, 32768, 65536, 70000] if ctx.tier == "thorough" else [0, 1, 3, 100, 259, 4096, 31745, 40000])
        data = data_classes(rng, n)
        ops = ["in %s" % hx(data), "cparams %d %d %d %d" % (fmt, level, strat, wb)]
        which = rng.below(3)
        if which == 0:
            ops.append("cdrive @ %s" % sched_comp(rng))
        elif which == 1:
            ops.append("dfdrive @ %s" % mz_sched(sched_comp(rng)))
        else:
            # callback sink: explicit calls, all callback invocations accepted
            cuts = sorted(set([0, n] + [rng.range(0, n) for _ in range(rng.range(0, 3))]))
            for a, b in zip(cuts, cuts[1:]):
                ops.append("ccallf @%d:%d %d -" % (a, b - a, rng.choice([0, 0, 2, 3, 7])))
            ops.append("ccallf - 4 -")
        k += 1
        ctx.add("c%d" % k, ops, kind="stream", data=data, fmt=fmt, level=level, strat=strat, wb=wb, sink=which)
    # long inputs at lazy-matching levels with output buffers far smaller than one block: the in-loop
    # flush_block cannot drain, the engines return early and must carry their saved state across calls
    big = 6 if ctx.tier == "quick" else 40
    words = [b"the ", b"quick ", b"brown ", b"fox ", b"jumps ", b"over ", b"the lazy ", b"dog. ", b"Deflate ", b"stream\n",
             b"compress ", b"0123456789 ", b"lorem ipsum ", b"dolor sit amet, "]
    for i in range(big):
        out = bytearray()
        n = rng.choice([150000, 250000, 400000])
        while len(out) < n:
            out += words[rng.below(len(words))]
            if rng.chance(1, 9):
                out += rng.bytes(rng.range(1, 6))
        data = bytes(out[:n])
        level = rng.choice([4, 5, 6, 7, 8, 9, 1, 2])
        fmt = rng.choice([0, 2])
        osz = rng.choice([61, 97, 509, 1000, 4093])
        k += 1
        ctx.add("L%d" % k, ["in %s" % hx(data), "cparams %d %d 0 15" % (fmt, level),
                            "cdrive @ %d:%d:0" % (rng.choice([100000000, 65536, 9973]), osz)],
                kind="stream", data=data, fmt=fmt, level=level, strat=0, wb=15, sink=0)
    # lazy-match staircase straddling the in-loop flush of an incompressible 31 KiB block (see lazy_staircase)
    for delta in ([0, 1, 3, 6] if ctx.tier == "quick" else range(0, 9)):
        data = lazy_staircase(rng, delta)
        for level in ([4, 7] if ctx.tier == "quick" else [4, 5, 6, 7, 8, 9, 10]):
            fmt = rng.choice([0, 2])
            k += 1
            ctx.add("Q%d" % k, ["in %s" % hx(data), "cparams %d %d 0 15" % (fmt, level),
                                "cdrive @ %d:%d:0" % (rng.choice([100000000, 9973]), rng.choice([61, 509, 4093]))],
                    kind="stream", data=data, fmt=fmt, level=level, strat=0, wb=15, sink=0)
    # the dictionary wraps at 32 KiB and mirrors its first 257 bytes behind its end; a call boundary a few bytes after
    # the wrap, then a repeat of (the bytes just before the wrap ++ what stood at the dictionary start one lap earlier):
    # a match verified through a stale mirror would be too long
    for j in ([1, 2, 6] if ctx.tier == "quick" else [1, 2, 3, 4, 5, 6, 7, 300]):
        for laps in (1, 2):
            X = rng.bytes(32768 * laps)
            Z = rng.bytes(300)
            lapstart = 32768 * (laps - 1)
            jj = min(j, 256)
            T = X[-8:] + Z[:jj] + X[lapstart + jj:lapstart + 200 + jj]   # fresh first jj bytes, then the stale lap
            data = X + Z + T + rng.bytes(50) + T + rng.bytes(20)
            for level in (1, 6):
                fmt = rng.choice([0, 2])
                k += 1
                ctx.add("M%d" % k, ["in %s" % hx(data), "cparams %d %d 0 15" % (fmt, level),
                                    "cdrive @ %d:200000:0,100000000:200000:4" % (32768 * laps + j)],
                        kind="stream", data=data, fmt=fmt, level=level, strat=0, wb=15, sink=0)
    # the flushing call's input ends exactly where the compressor closes a block by itself (31745 incompressible bytes)
    # while the output buffer is smaller than that block
    for level in (0, 2, 6):
        for nn in (31745, 63490):
            for fl in (2, 3, 4):
                data = rng.bytes(nn)
                fmt = rng.choice([0, 2])
                k += 1
                ctx.add("B%d" % k, ["in %s" % hx(data), "cparams %d %d 0 15" % (fmt, level),
                                    "cdrive @ 100000000:%d:%d,0:1000:%d,0:100000:%d,100000000:200000:4" % (rng.choice([100, 1000]), fl, fl, fl)],
                        kind="stream", data=data, fmt=fmt, level=level, strat=0, wb=15, sink=0)
    # exhaustive small schedules on three short inputs
    depth = 3       # 45^3 sequences when exhaustive (thorough)
    alpha = [(c, o, f) for c in (0, 1, 1000) for o in (1, 5, 100000) for f in (0, 2, 3, 4, 7)]
    inputs = [b"", b"a", b"abcabcabcabcabcabc hello hello hello"]
    seqs = []

    def rec(prefix):
        if len(prefix) == depth:
            seqs.append(list(prefix))
            return
        for it in alpha:
            if prefix and prefix[-1][2] == 4 and it[2] != 4:
                continue  # Finish is sticky in a legal schedule
            rec(prefix + [it])
    if ctx.tier == "thorough":
        rec([])
    else:
        for _ in range(600):
            sq = []
            fin = False
            for _ in range(rng.range(1, 4)):
                it = rng.choice(alpha)
                if fin:
                    it = (it[0], it[1], 4)
                fin = fin or it[2] == 4
                sq.append(it)
            seqs.append(sq)
    for di, data in enumerate(inputs):
        for level in (0, 1, 6):
            chunk = max(1, len(seqs) // 8)
            for gi in range(0, len(seqs), chunk):
                ops = ["in %s" % hx(data)]
                for sq in seqs[gi:gi + chunk]:
                    ops.append("cparams 2 %d 0 15" % level)
                    ops.append("cdrive @ %s" % (",".join("%d:%d:%d" % it for it in sq) + ",1000:100000:4"))
                k += 1
                ctx.add("x%d" % k, ops, kind="exh", data=data, fmt=2, level=level, strat=0, wb=15)


def stream_outputs(ctx, cid, ops, res):
    """-> list of (opindex, produced hex, consumed count, final status, fields) for drive ops; callback sink aggregated"""
    outs = []
    acc = ""
    consumed = 0
    last = None
    lastk = None
    for k, op in enumerate(ops, 1):
        w = op.split()
        f = parse_fields(res.get((cid, k), ("", "MISSING"))[1])
        if w[0] in ("cdrive", "dfdrive"):
            outs.append((k, f.get("full", "-"), int(f.get("in", 0)), f.get("st"), f))
        elif w[0] == "ccallf":
            o = f.get("o", "-")
            if o.startswith("#"):
                return None  # long callback output is hashed by the harness: not used for sizes > 48
            acc += "" if o == "-" else o
            consumed += int(f.get("in", 0))
            last = f.get("st")
            lastk = k
    if lastk is not None:
        outs.append((lastk, acc if acc else "-", consumed, last, {"viol": "0"}))
    return outs


def c02_eval(ctx):
    fails = []
    items = []
    for cid, ops in ctx.cases:
        m = ctx.meta[cid]
        so = stream_outputs(ctx, cid, ops, ctx.impl)
        m["so"] = so
        if so:
            for (k, full, cons, st, f) in so:
                if full != "-" and st == "1":
                    items.append(("%s.%d" % (cid, k), m["fmt"] != 2, full))
    orc = spec_of_outputs(ctx, items)
    for cid, ops in ctx.cases:
        m = ctx.meta[cid]
        for tag, res in (("debug", ctx.impl), ("release", ctx.impl_rel)):
            if not res:
                continue
            bad = None
            for k, op in enumerate(ops, 1):
                if "PANIC" in res.get((cid, k), ("", "MISSING"))[1] or (cid, k) not in res:
                    bad = "op#%d `%s` panicked" % (k, op[:60])
                    break
            so = stream_outputs(ctx, cid, ops, res)
            if not bad and so:
                for (k, full, cons, st, f) in so:
                    if f.get("viol", "0") != "0":
                        bad = "a call reported more bytes consumed or written than were offered"
                    elif st != "1":
                        if m["kind"] == "stream" and m.get("sink") == 2 and len(m["data"]) > 20:
                            continue
                        if f.get("why") == "cap":
                            continue    # ended by the driver's cap on the number of calls, not by the compressor
                        bad = "legal schedule ending in Finish did not reach Done (status %s, %s)" % (st, str({x: f.get(x) for x in ('why', 'calls', 'in')}))
                    elif tag == "debug":
                        o = orc.get("%s.%d" % (cid, k))
                        if o is None:
                            continue
                        exp = core_show(m["data"][:cons])
                        if o["verdict"] != "done" or o.get("o") != exp:
                            bad = "concatenated output does not decode to the %d consumed input bytes: reference decoder says %s len=%s" % (cons, o["verdict"] + " " + o.get("ekind", ""), o.get("len"))
                        # (how much of the input the schedule got through before its first Finish request is the schedule's
                        # business: the claim judged here is that the output decodes to exactly the consumed prefix)
                    if bad:
                        break
            if bad:
                fails.append((cid, "%s build [fmt=%s level=%s strategy=%s window_bits=%s]: %s" % (tag, m["fmt"], m["level"], m["strat"], m["wb"], bad)))
                break
    return fails


def check_C02(rep, tier, seed, replay):
    ctx = Ctx(rep, tier, seed)
    proof_ok = core.prove(rep, "C02", PROP_THEOREMS["C02"])
    if replay:
        load_replay_stream(ctx, replay)
    else:
        c02_cases(ctx)
    return standard_run(ctx, proof_ok, c02_eval, MODEL_DEFLATE_OPS,
                        "(level 0-10, 5 strategies, raw/zlib, window_bits 8-15) x inputs (sizes around 258/4096/31745/32768/65536, 7 content "
                        "classes) x schedules (chunks {0,1,2,3,257-259,4095-4097,rest}, outputs {1,2,5,9,100,85195-85197,large}, all 8 flush "
                        "modes, Finish sticky) x sinks {compress, deflate(), callback}; exhaustive schedules over (chunk 0/1/rest)x(out "
                        "1/5/large)x(None/Sync/Full/Finish/NoSync) to depth 3 plus random longer ones (thorough) / 600 random (quick) on 3 inputs x levels {0,1,6}; "
                        "oracle: spec decoder on the concatenated output == consumed input; level-0 lines byte-exact vs model")


def load_replay_stream(ctx, path):
    load_replay(ctx, path)
    for cid, ops in ctx.cases:
        d = b""
        cfg = (2, 6, 0, 15)
        for o in ops:
            if o.startswith("in ") and o.split()[1] != "-":
                d = bytes.fromhex(o.split()[1])
            if o.startswith("cparams"):
                cfg = tuple(int(x) for x in o.split()[1:5])
        ctx.meta[cid].update(kind="stream", data=d, fmt=cfg[0], level=cfg[1], strat=cfg[2], wb=cfg[3], sink=0)


# ===================================================================================== C10

def c10_cases(ctx):
    rng = ctx.rng
    k = 0
    for fmt in (0, 2):
        for level in range(0, 11):
            for strat in range(0, 5):
                wb = 15 if rng.chance(2, 3) else rng.range(8, 15)
                for rep in range(1 if ctx.tier == "quick" else 3):
                    n = rng.choice([5, 100, 1000, 3000, 40000, 70000] if ctx.tier == "thorough" else [100, 3000, 40000])
                    data = data_classes(rng, n)
                    ops = ["in %s" % hx(data), "cparams %d %d %d %d" % (fmt, level, strat, wb),
                           "cdrive @ %s" % rng.choice(["100000000:200000:4", sched_comp(rng)])]
                    k += 1
                    ctx.add("t%d" % k, ops, kind="tok", data=data, fmt=fmt, level=level, strat=strat, wb=wb)
    # deep Huffman trees (length limiter, 15-bit codes, runs of rare literals): the block writer must still emit a stream
    # the reference decoder accepts
    for j in range(12 if ctx.tier == "quick" else 80):
        data = fib_data(rng, M=[1, 8, 64][j % 3], S=[31, 40, 4, 0][j % 4])
        level, strat = rng.choice([1, 1, 6, 9, 2, 4]), [2, 3, 0][(j // 3) % 3]
        fmt = rng.choice([0, 2])
        k += 1
        ctx.add("h%d" % k, ["in %s" % hx(data), "cparams %d %d %d 15" % (fmt, level, strat), "cdrive @ 100000000:200000:4"],
                kind="tok", data=data, fmt=fmt, level=level, strat=strat, wb=15)
    # effectiveness: X ++ X, 64 <= |X| <= 4096, matching enabled
    for level in range(1, 11):
        for strat in (0, 1, 4):
            x = data_classes(rng, rng.range(64, 4096))
            if len(set(x)) < 20:
                x = rng.bytes(len(x))
            data = x + x
            k += 1
            ctx.add("e%d" % k, ["in %s" % hx(data), "cparams 2 %d %d 15" % (level, strat), "cdrive @ 100000000:200000:4"],
                    kind="eff", data=data, fmt=2, level=level, strat=strat, wb=15)


def c10_eval(ctx):
    fails = []
    items = []
    for cid, ops in ctx.cases:
        f = parse_fields(ctx.impl.get((cid, 3), ("", ""))[1])
        items.append((cid, ctx.meta[cid]["fmt"] != 2, f.get("full", "-")))
    orc = spec_of_outputs(ctx, items)
    hist = {}
    for cid, ops in ctx.cases:
        m = ctx.meta[cid]
        o = orc[cid]
        f = parse_fields(ctx.impl.get((cid, 3), ("", ""))[1])
        bad = None
        flags = int(parse_fields(ctx.impl.get((cid, 2), ("", ""))[1]).get("flags", 0))
        # effective configuration after the constructor's window-bits limiting
        eff_level, eff_strat = m["level"], m["strat"]
        if m["wb"] < 12 and m["strat"] != 2 and m["level"] != 0:
            eff_level, eff_strat = 1, 3
        elif m["wb"] < 15:
            eff_level = min(m["level"], 1)
        if f.get("why") == "cap":
            continue    # the driver's cap on the number of calls ended the schedule before the stream did: nothing to judge
        if o["verdict"] != "done":
            bad = "independent decoder rejects the output: %s %s" % (o["verdict"], o.get("ekind", ""))
        elif o.get("o") != core_show(m["data"][:int(f.get("in", 0))]):
            bad = "independent decoder does not reproduce the consumed input"
        else:
            g = {x: int(o[x]) for x in ("blocks", "stored", "fixed", "dynamic", "finals", "lastfinal", "matches", "maxdist", "minlen", "maxlen", "maxstored", "maxhlit", "maxhdist", "maxcodelen", "fixedne")}
            key = "L%d/S%d" % (eff_level, eff_strat)
            hist[key] = hist.get(key, 0) + 1
            if g["finals"] != 1 or g["lastfinal"] != 1:
                bad = "%d final blocks (exactly one, the last, expected)" % g["finals"]
            elif g["maxhlit"] > 286 or g["maxhdist"] > 30 or g["maxcodelen"] > 15:
                bad = "code-length set out of range (HLIT %d HDIST %d max length %d)" % (g["maxhlit"], g["maxhdist"], g["maxcodelen"])
            elif g["matches"] and (g["minlen"] < 3 or g["maxlen"] > 258 or g["maxdist"] > 32768):
                bad = "match out of range (len %d..%d, dist <= %d)" % (g["minlen"], g["maxlen"], g["maxdist"])
            elif g["maxstored"] > 65535:
                bad = "stored block of %d bytes" % g["maxstored"]
            elif eff_level == 0 and (g["fixedne"] or g["dynamic"]):
                # (an empty fixed block is the partial-flush marker, not a compressed block)
                bad = "level 0 emitted %d non-stored blocks" % (g["fixedne"] + g["dynamic"])
            elif eff_level != 0 and eff_strat == 4 and g["dynamic"]:
                bad = "fixed strategy emitted %d dynamic blocks" % g["dynamic"]
            elif eff_level != 0 and eff_strat == 2 and g["matches"]:
                bad = "Huffman-only strategy emitted %d matches" % g["matches"]
            elif eff_level != 0 and eff_strat == 3 and g["matches"] and g["maxdist"] != 1:
                bad = "run-length strategy emitted a match at distance %d" % g["maxdist"]
            elif eff_level != 0 and eff_strat == 1 and g["matches"] and g["minlen"] < 5:
                bad = "filtered strategy emitted a match of length %d" % g["minlen"]
            elif m["kind"] == "eff" and len(f.get("full", "")) // 2 > 0.8 * len(m["data"]):
                bad = "input repeated twice (%d bytes) compressed to %d bytes only" % (len(m["data"]), len(f["full"]) // 2)
        if bad:
            m["finding_class"] = classify_c10(m, eff_level, eff_strat, bad)
            fails.append((cid, "[fmt=%s level=%s strategy=%s window_bits=%s flags=%d]: %s" % (m["fmt"], m["level"], m["strat"], m["wb"], flags, bad)))
    ctx.rep.coverage["config_histogram"] = hist
    return fails


def classify_c10(m, eff_level, eff_strat, bad):
    return None


def check_C10(rep, tier, seed, replay):
    ctx = Ctx(rep, tier, seed)
    proof_ok = core.prove(rep, "C10", PROP_THEOREMS["C10"])
    if replay:
        load_replay_stream(ctx, replay)
        for cid, ops in ctx.cases:
            ctx.meta[cid]["kind"] = "tok"
    else:
        c10_cases(ctx)
    return standard_run(ctx, proof_ok, c10_eval, MODEL_DEFLATE_OPS,
                        "all (format, level 0-10, strategy, window bits) x inputs x one-shot and random schedules; token trace, block kinds "
                        "and code lengths recovered from the emitted bytes by the extracted spec decoder (shares nothing with the crate); "
                        "effectiveness on X++X, 64<=|X|<=4096, levels 1-10, matching strategies, threshold 0.8")


# ===================================================================================== C11

def far_repeat_data(rng, dist, total):
    """data whose only redundancy lies at distance `dist`"""
    block = rng.bytes(dist)
    out = bytearray()
    while len(out) < total:
        out += block
    return bytes(out[:total])


def c11_cases(ctx):
    rng = ctx.rng
    k = 0
    for wb in range(8, 16):
        for level in ([1, 2, 6, 9] if ctx.tier == "quick" else range(0, 11)):
            for strat in ([0, 3] if ctx.tier == "quick" else range(0, 5)):
                lim = 1 << max(wb, 8)
                dist = rng.choice([lim + 1, lim + rng.range(1, 1000), min(32768, 2 * lim), 1000, 20000, 32768])
                dist = max(1, min(dist, 32768))
                data = far_repeat_data(rng, dist, 3 * dist + rng.range(0, 100)) if rng.chance(4, 5) else data_classes(rng, 40000)
                ops = ["in %s" % hx(data), "cparams 0 %d %d %d" % (level, strat, wb), "cdrive @ %s" % rng.choice(["100000000:200000:4", "3000:100000:0"])]
                k += 1
                ctx.add("w%d" % k, ops, kind="win", data=data, fmt=0, level=level, strat=strat, wb=wb, dist=dist)
    # histories: the settings are changed after construction (the declared window must stay the one fixed at construction
    # unless the change is refused); implementation only
    # a second stream after reset(): the window fixed at construction still binds header and distances
    for wb in range(8, 15):
        for l0 in ([1, 6] if ctx.tier == "quick" else [0, 1, 2, 6, 9]):
            lim = 1 << max(wb, 8)
            dist = max(1, min(32768, rng.choice([lim + 1, lim + rng.range(1, 1000), 2 * lim, 32768])))
            data = far_repeat_data(rng, dist, 3 * dist + rng.range(0, 100))
            ops = ["in %s" % hx(data), "cparams 0 %d 0 %d" % (l0, wb), "cdrive @ 100000000:200000:4", "creset", "cdrive @ 100000000:200000:4"]
            k += 1
            ctx.add("r%d" % k, ops, model=False, kind="win", data=data, fmt=0, level=l0, strat=0, wb=wb, dist=dist)
    for wb in range(8, 15):
        for how in ("csetfmt 1 %d", "csetfmt 0 %d", "csetlevel %d"):
            for l1 in ([2, 6, 9] if ctx.tier == "quick" else range(0, 11)):
                lim = 1 << max(wb, 8)
                dist = max(1, min(32768, rng.choice([lim + 1, lim + rng.range(1, 1000), 2 * lim, 32768])))
                data = far_repeat_data(rng, dist, 3 * dist + rng.range(0, 100))
                l0 = rng.choice([0, 1, 6])
                ops = ["in %s" % hx(data), "cparams 0 %d 0 %d" % (l0, wb), how % l1, "cdrive @ 100000000:200000:4"]
                k += 1
                ctx.add("y%d" % k, ops, model=False, kind="win", data=data, fmt=0, level=l1, strat=0, wb=wb, dist=dist)


def c11_eval(ctx):
    fails = []
    items = []
    second = []
    for cid, ops in ctx.cases:
        f = parse_fields(ctx.impl.get((cid, len(ops)), ("", ""))[1])
        full = f.get("full", "-")
        items.append((cid, True, full))
        if full != "-" and len(full) >= 4:
            cinfo = int(full[0:2], 16) >> 4
            ring = 1 << (cinfo + 8)
            second.append((cid, ["in %s" % full, "drive @ ring %d 0 1 100000000:-" % ring]))
    orc = spec_of_outputs(ctx, items)
    # decode with a ring buffer of exactly the declared size (the crate's own decoder, debug build)
    ring_res, probs = core.run_binary_on_cases(core.mzh_path("debug"), second, "ring", ctx.workdir)
    for cid, ops in ctx.cases:
        m = ctx.meta[cid]
        o = orc[cid]
        f = parse_fields(ctx.impl.get((cid, len(ops)), ("", ""))[1])
        full = f.get("full", "-")
        bad = None
        if full == "-" or f.get("st") != "1":
            bad = "compression did not finish: %s" % str(f)[:80]
        elif o["verdict"] != "done":
            bad = "reference decoder rejects the stream (%s)" % o["verdict"]
        else:
            cinfo = int(full[0:2], 16) >> 4
            declared = 1 << (cinfo + 8)
            allowed = 1 << max(m["wb"], 8)
            maxdist = int(o["maxdist"])
            rr = parse_fields(ring_res.get((cid, 2), ("", ""))[1])
            if declared > allowed:
                bad = "header declares a %d-byte window for window_bits=%d" % (declared, m["wb"])
            elif maxdist > declared:
                bad = "match at distance %d under a declared window of %d bytes (CINFO=%d)" % (maxdist, declared, cinfo)
            elif rr.get("st") != "0" or rr.get("o") != core_show(m["data"]):
                bad = "decoder given only the declared %d-byte window fails: st=%s" % (declared, rr.get("st"))
        if bad:
            fails.append((cid, "[level=%s strategy=%s window_bits=%s, repeats at %s]: %s" % (m["level"], m["strat"], m["wb"], m["dist"], bad)))
    return fails


def check_C11(rep, tier, seed, replay):
    ctx = Ctx(rep, tier, seed)
    proof_ok = core.prove(rep, "C11", PROP_THEOREMS["C11"])
    if replay:
        load_replay_stream(ctx, replay)
        for cid, ops in ctx.cases:
            ctx.meta[cid].update(kind="win", dist=0)
    else:
        c11_cases(ctx)
    return standard_run(ctx, proof_ok, c11_eval, MODEL_DEFLATE_OPS,
                        "window_bits 8..15 x levels x strategies x inputs whose only redundancy lies at a distance in (2^w, 32768] (plus "
                        "1000, 20000, 32768 and generic data); oracle: CINFO of the emitted header, maximal match distance in the spec "
                        "decoder's token trace, and the crate's decoder run on a ring of exactly the declared size")


# ===================================================================================== C12

def c12_cases(ctx):
    rng = ctx.rng
    k = 0
    n_cfg = 60 if ctx.tier == "quick" else 400
    for i in range(n_cfg):
        level = rng.choice([0, 0, 1, 1, 2, 6, 9])
        strat = rng.choice([0, 0, 0, 1, 2, 3, 4])
        fmt = rng.choice([2, 2, 0])
        n = rng.choice([0, 1, 5, 300, 5000, 40000, 70000])
        data = data_classes(rng, n)
        # flush requests at random positions, mixed modes, outputs forcing 1..k draining calls
        items = []
        for _ in range(rng.range(1, 5)):
            items.append("%d:%d:%d" % (rng.choice([0, 1, 7, 300, 5000, 40000]), rng.choice([1, 3, 9, 50, 100000, 100000, 200000]), rng.choice([1, 2, 3, 2, 3])))
        items.append("100000000:200000:4")
        ops = ["in %s" % hx(data), "cparams %d %d %d 15" % (fmt, level, strat), "cdrive @ %s" % ",".join(items)]
        k += 1
        ctx.add("f%d" % k, ops, kind="flush", data=data, fmt=fmt, level=level, strat=strat, wb=15)
    # directed grid: every strategy x several levels x data whose redundancy spans the flush point x flush position
    def runs_data(seed):
        out = bytearray()
        x = seed
        while len(out) < 3000:
            x = (x * 1103515245 + 12345) & 0x7FFFFFFF
            out += bytes([x & 255]) * (3 + (x >> 8) % 400)
        return bytes(out[:3000])
    shapes = [b"Q" * 3000, runs_data(1), runs_data(7), (b"abcdefgh" * 40 + b"\x00" * 100) * 7, bytes(range(256)) * 12]
    for strat in range(0, 5):
        for level in (1, 2, 6, 9):
            for di, data in enumerate(shapes):
                for kk in (1, 7, 300, 1500):
                    for fl in ((3,) if ctx.tier == "quick" else (2, 3)):
                        ops = ["in %s" % hx(data), "cparams 2 %d %d 15" % (level, strat),
                               "cdrive @ %d:100000:%d,100000000:200000:4" % (kk, fl)]
                        k += 1
                        ctx.add("g%d" % k, ops, model=False, kind="flush", data=data, fmt=2, level=level, strat=strat, wb=15)
    # a flush whose output needs several calls to drain (tiny output buffers), then data repeating what came before it
    for level in (0, 1, 2, 6, 9):
        for di, data in enumerate(shapes[:3] + [rng.bytes(1500) * 2]):
            for fl in (3, 2):
                for osz in (1, 7, 40):
                    kk = len(data) // 2
                    ops = ["in %s" % hx(data), "cparams 2 %d 0 15" % level,
                           "cdrive @ %d:%d:%d,0:%d:%d,0:100000:%d,100000000:200000:4" % (kk, osz, fl, osz, fl, fl)]
                    k += 1
                    ctx.add("d%d" % k, ops, model=(level == 0), kind="flush", data=data, fmt=2, level=level, strat=0, wb=15)
    # the flushing call's input ends exactly where the compressor closes a block of its own accord (31745 incompressible
    # bytes) and the output buffer cannot take that block: nothing of it may be lost
    for level in (0, 2, 6):
        for n in (31744, 31745, 31746, 63490):
            for fl in (2, 3):
                data = rng.bytes(n)
                ops = ["in %s" % hx(data), "cparams 2 %d 0 15" % level, "cdrive @ 100000000:%d:%d,0:1000:%d,0:100000:%d,0:100000:%d,100000000:200000:4" % (rng.choice([100, 1000]), fl, fl, fl, fl)]
                k += 1
                ctx.add("e%d" % k, ops, model=(level == 0), kind="flush", data=data, fmt=2, level=level, strat=0, wb=15)
    # no-sync then sync == sync alone
    for i in range(20 if ctx.tier == "quick" else 100):
        level = rng.choice([0, 1, 6, 9])
        n = rng.choice([0, 1, 50, 3000, 40000])
        data = data_classes(rng, n)
        a = ["in %s" % hx(data), "cparams 2 %d 0 15" % level, "ccall @ 200000 7", "ccall - 200000 2", "ccall - 200000 4"]
        b = ["in %s" % hx(data), "cparams 2 %d 0 15" % level, "ccall @ 200000 2", "ccall - 200000 4"]
        k += 1
        ctx.add("n%da" % k, a, kind="nosync", pair="n%db" % k, data=data, fmt=2, level=level, strat=0, wb=15)
        ctx.add("n%db" % k, b, kind="nosyncb", data=data, fmt=2, level=level, strat=0, wb=15)


def c12_eval(ctx):
    fails = []
    q = []
    for cid, ops in ctx.cases:
        m = ctx.meta[cid]
        if m["kind"] != "flush":
            continue
        f = parse_fields(ctx.impl.get((cid, 3), ("", ""))[1])
        full = f.get("full", "-")
        marks = f.get("marks", "-")
        m["marks"] = []
        if full == "-" or marks == "-":
            continue
        body = full[4:] if m["fmt"] != 2 else full
        ql = []
        for ent in marks.strip(";").split(";"):
            fl, in_off, out_len = [int(x) for x in ent.split(":")]
            hdr = 2 if m["fmt"] != 2 else 0
            pre = body[:2 * (out_len - hdr)] if out_len >= hdr else ""
            ql.append("sprefix %s" % (pre if pre else "-"))
            if fl % 10 == 3 and m["fmt"] == 2:
                ql.append("sinflate 0 %s" % (body[2 * out_len:] or "-"))
            m["marks"].append((fl, in_off, out_len))
        q.append((cid, ql))
    orc = oracle_run(ctx, q, "fl")
    whole = spec_of_outputs(ctx, [(cid, ctx.meta[cid]["fmt"] != 2, parse_fields(ctx.impl.get((cid, 3), ("", ""))[1]).get("full", "-"))
                                  for cid, ops in ctx.cases if ctx.meta[cid]["kind"] == "flush"
                                  and parse_fields(ctx.impl.get((cid, 3), ("", ""))[1]).get("st") == "1"
                                  and len(parse_fields(ctx.impl.get((cid, 3), ("", ""))[1]).get("full", "-")) < 400000])
    nmarks = 0
    for cid, ops in ctx.cases:
        m = ctx.meta[cid]
        bad = None
        if m["kind"] == "flush":
            f = parse_fields(ctx.impl.get((cid, 3), ("", ""))[1])
            if f.get("st") != "1":
                bad = "schedule did not finish: %s" % str(f)[:100]
            elif cid in whole and (whole[cid]["verdict"] != "done" or whole[cid].get("o") != core_show(m["data"][:int(f.get("in", 0))])):
                bad = "the finished stream does not decode to the %s input bytes consumed: reference decoder says %s len=%s" % (
                    f.get("in"), whole[cid]["verdict"] + " " + whole[cid].get("ekind", ""), whole[cid].get("len"))
            qi = 0
            for (fl, in_off, out_len) in m.get("marks", []):
                nmarks += 1
                qi += 1
                p = parse_fields(orc.get((cid, qi), ("", "missing"))[1])
                if fl >= 10:
                    # the flush call ran out of output space and later calls drained it: whether the flush had been carried
                    # out by then is not the caller's to know; only if the prefix does end with the marker after all input
                    # so far is the history clause of a full flush judged
                    fl -= 10
                    at_marker = (p.get("clean") == "1" and p.get("lastsync") == "1" and p.get("o") == core_show(m["data"][:in_off]))
                    if fl == 3 and m["fmt"] == 2:
                        qi += 1
                        if at_marker:
                            s = parse_fields(orc.get((cid, qi), ("", "missing"))[1])
                            if not s["_"] or s["_"][0] != "done" or s.get("o") != core_show(m["data"][in_off:int(f.get("in", len(m["data"])))]):
                                bad = "remainder after a full flush (drained over several calls) is not decodable on its own (%s): a later match refers to data before the flush" % (s["_"][:2],)
                                break
                    continue
                if p["_"] and p["_"][0] == "baddist":
                    bad = "prefix at flush point has a match reaching before its start"
                elif p.get("clean") != "1":
                    bad = "bytes emitted up to the flush point (%d) are not a clean sequence of whole blocks" % out_len
                elif p.get("o") != core_show(m["data"][:in_off]):
                    bad = "after a %s flush at input offset %d the %d bytes emitted so far decode to %s bytes, not to all input supplied so far" % (
                        {1: "partial", 2: "sync", 3: "full"}[fl], in_off, out_len, p.get("len"))
                elif fl in (2, 3) and (p.get("lastsync") != "1" or int(p.get("bits", -1)) != 8 * (out_len - (2 if m["fmt"] != 2 else 0))):
                    bad = "sync/full flush does not end byte-aligned with the empty stored-block marker"
                if fl == 3 and m["fmt"] == 2 and not bad:
                    qi += 1
                    s = parse_fields(orc.get((cid, qi), ("", "missing"))[1])
                    if not s["_"] or s["_"][0] != "done" or s.get("o") != core_show(m["data"][in_off:int(f.get("in", len(m["data"])))]):
                        bad = "remainder after a full flush is not decodable on its own (%s): a later match refers to data before the flush" % (s["_"][:2],)
                if bad:
                    break
        elif m["kind"] == "nosync":
            a = "".join(x for x in [parse_fields(ctx.impl.get((cid, k), ("", ""))[1]).get("o", "-") for k in (3, 4, 5)] if x != "-")
            pb = m["pair"]
            b = "".join(x for x in [parse_fields(ctx.impl.get((pb, k), ("", ""))[1]).get("o", "-") for k in (3, 4)] if x != "-")
            if "#" in a or "#" in b:
                # long outputs are hashed per call: compare the finishing drive instead
                fa = [parse_fields(ctx.impl.get((cid, k), ("", ""))[1]) for k in (3, 4, 5)]
                fb = [parse_fields(ctx.impl.get((pb, k), ("", ""))[1]) for k in (3, 4)]
                la = sum(int(x.get("out", 0)) for x in fa)
                lb = sum(int(x.get("out", 0)) for x in fb)
                if la != lb:
                    bad = "no-sync flush followed by sync flush emits %d bytes, sync flush alone %d" % (la, lb)
            elif a != b:
                bad = "no-sync flush followed by a sync flush differs from the sync flush alone: %s vs %s" % (a[:60], b[:60])
        if bad:
            fails.append((cid, "[fmt=%s level=%s strategy=%s]: %s" % (m["fmt"], m["level"], m["strat"], bad)))
    ctx.rep.coverage["flush_points_checked"] = nmarks
    return fails


def check_C12(rep, tier, seed, replay):
    ctx = Ctx(rep, tier, seed)
    proof_ok = core.prove(rep, "C12", PROP_THEOREMS["C12"])
    if replay:
        load_replay_stream(ctx, replay)
        for cid, ops in ctx.cases:
            ctx.meta[cid]["kind"] = "flush"
    else:
        c12_cases(ctx)
    return standard_run(ctx, proof_ok, c12_eval, MODEL_DEFLATE_OPS,
                        "inputs x configs x sequences of partial/sync/full flush requests at random positions with output buffers forcing "
                        "1..k draining calls; a flush point is counted when the property's premises hold literally (previous call left "
                        "output space unused, all offered input consumed, output space to spare); oracle: spec prefix decoder on the bytes "
                        "emitted so far, marker/alignment check, independent decodability of the remainder after a full flush, "
                        "NoSync;Sync == Sync")


# ===================================================================================== C14

def c14_cases(ctx):
    rng = ctx.rng
    depth = 3       # 48^3 sequences when exhaustive (thorough)
    alpha = [(c, o, f) for c in (0, 1, 100000) for o in (0, 1, 5, 100000) for f in (0, 2, 3, 4)]
    seqs = []

    def rec(prefix):
        if len(prefix) == depth:
            seqs.append(list(prefix))
            return
        for it in alpha:
            rec(prefix + [it])
    if ctx.tier == "thorough":
        rec([])
        for _ in range(20000):
            seqs.append([rng.choice(alpha) for _ in range(rng.range(4, 7))])
    else:
        for _ in range(1500):
            seqs.append([rng.choice(alpha) for _ in range(rng.range(1, 4))])
    inputs = [b"", b"q", b"hello hello hello hello " * 3, rng.bytes(300)]
    if ctx.tier == "thorough":
        inputs = inputs[1:3]
    k = 0
    for data in inputs:
        for level in (0, 1, 6):
            chunk = max(1, len(seqs) // 6)
            for gi in range(0, len(seqs), chunk):
                ops = ["in %s" % hx(data)]
                for sq in seqs[gi:gi + chunk]:
                    ops.append("cparams 0 %d 0 15" % level)
                    off = 0
                    for (c, o, f) in sq:
                        ops.append("dfcall @%d:%d %d %d" % (off, c, o, f))
                        off = min(len(data), off + c)   # a guess; any history is legal for the protocol clauses
                k += 1
                ctx.add("p%d" % k, ops, kind="seq", data=data, level=level)
    for i in range(40 if ctx.tier == "quick" else 300):
        data = data_classes(rng, rng.choice([0, 1, 100, 5000, 70000]))
        level = rng.choice([0, 1, 6, 9])
        ops = ["in %s" % hx(data), "cparams 0 %d 0 15" % level, "dfdrive @ %s" % mz_sched(sched_comp(rng)),
               "dfcall - 10 4", "dfcall - 10 0", "dfcall - 0 4"]
        k += 1
        ctx.add("d%d" % k, ops, kind="drv", data=data, level=level)
    # the flushing call's input ends exactly where the compressor closes a block by itself and the output buffer is smaller
    # than that block
    for level in (0, 2, 6):
        for nn in (31744, 31745, 31746, 63490):
            for fl in (2, 3, 4):
                data = rng.bytes(nn)
                ops = ["in %s" % hx(data), "cparams 0 %d 0 15" % level,
                       "dfdrive @ 100000000:%d:%d,0:1000:%d,0:100000:%d,100000000:200000:4" % (rng.choice([100, 1000]), fl, fl, fl),
                       "dfcall - 10 4", "dfcall - 10 0", "dfcall - 0 4"]
                k += 1
                ctx.add("b%d" % k, ops, model=(level == 0), kind="drv", data=data, level=level)


def c14_eval(ctx):
    fails = []
    # what a finished driver loop has produced must decode to what it consumed (reference decoder)
    drv = [(cid, True, parse_fields(ctx.impl.get((cid, 3), ("", ""))[1]).get("full", "-")) for cid, ops in ctx.cases
           if ctx.meta[cid]["kind"] == "drv" and parse_fields(ctx.impl.get((cid, 3), ("", ""))[1]).get("st") == "1"
           and len(parse_fields(ctx.impl.get((cid, 3), ("", ""))[1]).get("full", "-")) < 400000]
    whole = spec_of_outputs(ctx, drv)
    for cid, z, full in drv:
        m = ctx.meta[cid]
        f = parse_fields(ctx.impl.get((cid, 3), ("", ""))[1])
        o = whole[cid]
        if o["verdict"] != "done" or o.get("o") != core_show(m["data"][:int(f.get("in", 0))]):
            fails.append((cid, "debug build [level %s]: stream end reported, but what deflate() delivered does not decode to the %s bytes "
                               "it consumed: reference decoder says %s len=%s" % (m["level"], f.get("in"), o["verdict"] + " " + o.get("ekind", ""), o.get("len"))))
    for cid, ops in ctx.cases:
        m = ctx.meta[cid]
        dlen = len(m["data"])
        for tag, res in (("debug", ctx.impl), ("release", ctx.impl_rel)):
            if not res:
                continue
            bad = None
            finish_seen = ended = False
            for k, op in enumerate(ops, 1):
                w = op.split()
                line = res.get((cid, k), ("", "MISSING"))[1]
                if "PANIC" in line or line == "MISSING":
                    bad = "op#%d panicked" % k
                    break
                f = parse_fields(line)
                if w[0] == "cparams":
                    finish_seen = ended = False
                elif w[0] == "dfcall":
                    if w[1].startswith("@"):
                        off, c = [int(x) for x in w[1][1:].split(":")]
                        offered = max(0, min(off + c, dlen) - min(off, dlen))
                    else:
                        offered = 0
                    outlen, fl = int(w[2]), int(w[3])
                    st, ic, oc = int(f["st"]), int(f["in"]), int(f["out"])
                    if ic > offered or oc > outlen:
                        bad = "op#%d counts exceed the offered buffers" % k
                    elif outlen == 0 and (st != -5 or ic or oc):
                        bad = "op#%d empty output buffer not refused with a buffer error: %s" % (k, line[:60])
                    elif outlen > 0 and ended and fl == 4 and (st != 1 or ic or oc):
                        bad = "op#%d after stream end, Finish must keep returning stream end with nothing written: %s" % (k, line[:60])
                    elif outlen > 0 and ended and fl != 4 and st != -5:
                        bad = "op#%d after stream end a non-Finish call must be a buffer error, got %d" % (k, st)
                    elif outlen > 0 and not ended and finish_seen and fl != 4 and st >= 0:
                        bad = "op#%d non-Finish call after Finish accepted with status %d (must be reported as an error)" % (k, st)
                    elif st == 1 and not (finish_seen or fl == 4):
                        bad = "op#%d stream end reported without Finish" % k
                    elif outlen > 0 and not ended and not finish_seen and st == 0 and (offered > 0 or fl in (2, 3, 4)) and ic == 0 and oc == 0:
                        bad = "op#%d output space and (input or flush request) but no progress" % k
                    elif outlen > 0 and fl == 4 and st == 0 and oc != outlen:
                        bad = "op#%d Finish returned Ok with output space left (%d of %d) before the stream ended" % (k, oc, outlen)
                    if st in (-10000, -2):
                        finish_seen = finish_seen  # error states: the later protocol is unspecified; stop judging
                        break
                    if outlen > 0 and fl == 4:
                        finish_seen = True
                    if st == 1:
                        ended = True
                    if bad:
                        break
                elif w[0] == "dfdrive":
                    if f.get("why") == "cap" and f.get("viol", "0") == "0":
                        # 400000 calls were not enough for this schedule (1-byte buffers, 70000 bytes): inconclusive,
                        # and the stream has NOT ended - the calls that follow cannot be judged as "after stream end"
                        break
                    elif f.get("st") != "1" or f.get("viol", "0") != "0":
                        bad = "driver loop repeating Finish did not terminate with stream end: %s" % str({x: f.get(x) for x in ("st", "why", "calls", "viol")})
                        break
                    ended = finish_seen = True
            if bad:
                fails.append((cid, "%s build [level %d]: %s" % (tag, m["level"], bad)))
                break
    return fails


def check_C14(rep, tier, seed, replay):
    ctx = Ctx(rep, tier, seed)
    proof_ok = core.prove(rep, "C14", PROP_THEOREMS["C14"])
    if replay:
        load_replay(ctx, replay)
        for cid, ops in ctx.cases:
            d = b""
            for o in ops:
                if o.startswith("in ") and o.split()[1] != "-":
                    d = bytes.fromhex(o.split()[1])
            ctx.meta[cid].update(kind="seq", data=d, level=0)
    else:
        c14_cases(ctx)
    return standard_run(ctx, proof_ok, c14_eval, MODEL_DEFLATE_OPS,
                        "inputs x call sequences over (chunk 0/1/rest) x (output 0/1/5/large) x (None/Sync/Full/Finish): exhaustive to depth 3 plus 20000 random sequences of 4-6 calls "
                        "(thorough), 1500 random sequences of depth <= 3 (quick), x levels {0,1,6}; driver loops repeating Finish with output "
                        "buffers smaller than one flush marker; oracle: the protocol clauses per call; level-0 lines byte-exact vs model")


# ===================================================================================== C15

def adversarial(rng, n):
    k = rng.below(5)
    if k == 0:
        return rng.bytes(n)
    if k == 1:
        # random bytes with sparse 3-byte matches at 4-8 KiB
        out = bytearray(rng.bytes(n))
        i = 9000
        while i + 3 < n:
            d = rng.range(4096, 8192)
            out[i:i + 3] = out[i - d:i - d + 3]
            i += rng.range(20, 200)
        return bytes(out)
    if k == 2:
        # 9-bit-heavy literals (>= 144) in the fixed code
        return bytes(rng.range(144, 255) for _ in range(n))
    if k == 3:
        return data_classes(rng, n)
    out = bytearray(rng.bytes(n))
    for i in range(0, n - 4, 7):
        out[i + 3] = out[i]
    return bytes(out)


def c15_cases(ctx):
    rng = ctx.rng
    k = 0
    lens = list(range(0, 301)) if ctx.tier == "thorough" else sorted(set(list(range(0, 40)) + [rng.range(40, 300) for _ in range(30)]))
    thr = [31743, 31744, 31745, 32768, 58253, 58254, 58255, 65535, 65536, 65537, 85195, 85196, 85197, 116508, 2 * 65536]
    if ctx.tier == "thorough":
        thr += [3 * 58254, 1 << 20, 3 << 20]
    for n in lens + thr:
        for r in range(1 if n > 300 and ctx.tier == "quick" else 2):
            data = adversarial(rng, n)
            levels = [-1, 0, 1, 2, 6, 9, 10] if n <= 300 else [rng.choice([0, 1]), rng.choice([2, 6, 9, 10])]
            ops = ["in %s" % hx(data), "mzbound %d" % n]
            for lv in levels:
                ops.append("mzcompress2 %d bound @" % lv)
            if n <= 70000:
                ops += ["zdinit %d 8 15 9 %d" % (rng.choice(levels), rng.range(0, 4)), "zcall deflate @ %d 4" % max(1, bound(n))]
            k += 1
            ctx.add("b%d" % k, ops, kind="bound", data=data, n=n)
    # directed: every literal costs 9 bits in a fixed-Huffman block, and a block of the one-probe fast path grows to
    # ~58 KiB of input, beyond the 32 KiB window, where the stored-block fallback is no longer available
    big = [32769, 40000, 58254, 70000, 100000] + ([200000, 1 << 20] if ctx.tier == "thorough" else [])
    for n in big:
        data = bytes(rng.range(144, 255) for _ in range(n))
        ops = ["in %s" % hx(data), "mzbound %d" % n]
        for lv in ([1, 2, 6] if n <= 58254 or ctx.tier == "thorough" else [1, rng.choice([2, 4, 6, 9])]):
            for st in (4, 0):
                ops += ["zdinit %d 8 15 9 %d" % (lv, st), "zcall deflate @ %d 4" % bound(n)]
        k += 1
        ctx.add("s%d" % k, ops, kind="bound", data=data, n=n)
    # the level-0 size formula is exact: |out| = 2 + n + 5*(floor(n/31745)+1) + 4
    for n in [0, 1, 31744, 31745, 31746, 63490, 63491, 100000]:
        k += 1
        ctx.add("z%d" % k, ["in %s" % hx(bytes(n)), "cvec 0 1 @"], kind="exact", n=n)


def bound(n):
    return 128 + n + n // 8 + ((n // (31 * 1024)) + 1) * 5


def c15_eval(ctx):
    fails = []
    worst = 0.0
    for cid, ops in ctx.cases:
        m = ctx.meta[cid]
        for tag, res in (("debug", ctx.impl), ("release", ctx.impl_rel)):
            if not res:
                continue
            bad = None
            if m["kind"] == "exact":
                f = parse_fields(res.get((cid, 2), ("", ""))[1])
                n = m["n"]
                exp = 2 + n + 5 * (n // 31745 + 1) + 4
                if f.get("len") != str(exp):
                    bad = "level-0 zlib output of %d bytes is %s bytes, the model's exact formula gives %d" % (n, f.get("len"), exp)
            else:
                b = bound(m["n"])
                for k, op in enumerate(ops, 1):
                    w = op.split()
                    f = parse_fields(res.get((cid, k), ("", "MISSING"))[1])
                    if w[0] == "mzbound":
                        if f["_"] != [str(b), str(b)]:
                            bad = "mz_compressBound/mz_deflateBound(%d) = %s, formula gives %d" % (m["n"], f["_"], b)
                    elif w[0] == "mzcompress2":
                        if f.get("r") != "0":
                            bad = "mz_compress2(level %s) with a destination of compressBound(%d)=%d bytes failed with %s" % (w[1], m["n"], b, f.get("r"))
                        else:
                            worst = max(worst, int(f["dl"]) / max(1, b))
                            if int(f["dl"]) > b:
                                bad = "compressed size %s exceeds the bound %d" % (f["dl"], b)
                    elif w[0] == "zcall":
                        if f.get("r") != "1":
                            bad = "mz_deflate(MZ_FINISH) with deflateBound bytes of output did not finish in one call: r=%s" % f.get("r")
                        elif int(f["dto"]) > b:
                            bad = "total_out %s exceeds deflateBound %d" % (f["dto"], b)
                    if bad:
                        break
            if bad:
                fails.append((cid, "%s build, n=%d: %s" % (tag, m["n"], bad)))
                break
    ctx.rep.coverage["worst_size_over_bound"] = round(worst, 4)
    return fails


def check_C15(rep, tier, seed, replay):
    ctx = Ctx(rep, tier, seed)
    proof_ok = core.prove(rep, "C15", PROP_THEOREMS["C15"])
    if replay:
        load_replay(ctx, replay)
        for cid, ops in ctx.cases:
            n = 0
            for o in ops:
                if o.startswith("in ") and o.split()[1] != "-":
                    n = len(o.split()[1]) // 2
            ctx.meta[cid].update(kind="bound", n=n, data=b"")
    else:
        c15_cases(ctx)
    return standard_run(ctx, proof_ok, c15_eval, MODEL_DEFLATE_OPS,
                        "lengths 0..300 (all in thorough) and +-1 around 31744, 32768, 58254, 65536, 85196, 2*58254, 2*65536 (thorough: to 3 "
                        "MiB) x adversarial content (random, random with sparse 3-byte matches at 4-8 KiB, 9-bit-heavy literals, near-periodic) "
                        "x levels -1..10; mz_compressBound / mz_deflateBound vs *dest_len after mz_compress2 and total_out after "
                        "mz_deflate(MZ_FINISH); worst size/bound ratio recorded; level-0 exact size formula")


PROP_THEOREMS = {
    "C01": ["C01_levels_above_10_behave_as_10", "C01_level0_lossless_for_every_input_partial",
            "C01_level0_raw_roundtrip_on_both_models_partial", "C01_level0_zlib_roundtrip_on_both_models_partial",
            "C01_level0_api_roundtrip_on_both_models_partial", "C01_level0_compress_never_panics_partial",
            "C01_level0_compress_returns_partial", "C01_level0_total_roundtrip_on_both_models_partial"],
    "C02": ["C02_counts_within_buffers", "C02_level0_lossless_under_every_schedule_partial",
            "C02_level0_any_schedule_then_any_split_partial", "C02_level0_every_schedule_never_panics_partial",
            "C02_level0_every_schedule_returns_partial", "C02_model_constants_are_source_constants"],
    "C10": ["C10_length_tables_inverse", "C10_distance_tables_inverse", "C10_level0_output_is_a_valid_stream_partial",
            "C10_level0_emits_only_stored_blocks_partial"],
    "C11": ["C11_window_limit_routing", "C11_declared_window"],
    "C12": ["C12_sync_marker_is_empty_stored_block", "C12_level0_flush_point_decodable_partial",
            "C12_level0_room_means_nothing_pending_partial", "C12_level0_flush_with_room_is_a_flush_point_partial"],
    "C14": ["C14_empty_output_refused", "C14_done_is_stable", "C14_nonfinish_after_finish_is_error",
            "C14_level0_stream_end_means_lossless_partial", "C14_level0_deflate_output_inflates_back_partial",
            "C14_level0_every_deflate_schedule_never_panics_partial",
            "C14_level0_every_deflate_schedule_returns_partial",
            "C14_level0_finish_works_until_end_or_full_partial", "C14_level0_call_makes_progress_partial",
            "C14_stream_end_only_after_finish"],
    "C15": ["C15_bound_formula", "C15_bound_monotone", "C15_level0_size_within_bound_partial", "C15_bound_allows_nine_bits_per_byte",
            "C15_bound_dominates_miniz_formula", "C15_level0_output_within_bound"],
}
