"""Shared machinery of bin/check: building (Coq, OCaml driver, Rust harness), running case files
through implementation and model, diffing, evidence, violation reporting."""
import fcntl
import hashlib
import json
import os
import re
import subprocess
import sys
import time

V = "/verif"
REPO = "/repo"
BUILD = os.path.join(V, "build")
COQ = os.path.join(V, "coq")
CARGO_TARGET = os.path.join(BUILD, "cargo")
NPROC = min(16, os.cpu_count() or 4)

TRUSTED_BASE = [
    "Coq 8.16.1 kernel (coqc); vm_compute used for finite-domain lemmas; no native_compute",
    "translator/rs2v.py (Rust consts/tables/loop-free fns -> Gallina), validated differentially every run",
    "extraction: ExtrOcamlBasic only (bool, option, list, prod, unit, sumbool); no Extract Constant / Extract Inductive of our own; N, Z, positive, nat, PositiveMap stay Coq datatypes",
    "ocaml/mzm.ml driver (hex parsing, printing), vlib/*.py generators and orchestrator, harness/src/*.rs",
    "coq/spec/*.v is the meaning of 'valid stream', 'Adler-32', 'CRC-32' (written from RFC 1950/1951, ISO 3309)",
    "hand-written models in coq/model are tied to the code by differential execution on generated cases (debug + release builds)",
]


class Lock:
    def __init__(self, name):
        os.makedirs(BUILD, exist_ok=True)
        self.path = os.path.join(BUILD, name + ".lock")

    def __enter__(self):
        self.f = open(self.path, "w")
        fcntl.flock(self.f, fcntl.LOCK_EX)
        return self

    def __exit__(self, *a):
        fcntl.flock(self.f, fcntl.LOCK_UN)
        self.f.close()


def run(cmd, timeout=1800, cwd=None, env=None, stdin=None):
    e = dict(os.environ)
    e.update({"CARGO_NET_OFFLINE": "true", "CARGO_TARGET_DIR": CARGO_TARGET})
    if env:
        e.update(env)
    try:
        p = subprocess.run(cmd, cwd=cwd, env=e, timeout=timeout, stdout=subprocess.PIPE,
                           stderr=subprocess.STDOUT, stdin=stdin, shell=isinstance(cmd, str))
        return p.returncode, p.stdout.decode("utf-8", "replace")
    except subprocess.TimeoutExpired as ex:
        return 124, (ex.stdout or b"").decode("utf-8", "replace") + "\nTIMEOUT"


# ------------------------------------------------------------------------------------ build steps

def regenerate():
    """Translate the current Rust sources into coq/gen. Returns (ok, message)."""
    with Lock("gen"):
        rc, out = run([sys.executable, os.path.join(V, "translator/rs2v.py"), REPO, os.path.join(COQ, "gen")])
    return rc == 0, out.strip()


def coq_makefile():
    mk = os.path.join(COQ, "Makefile")
    cp = os.path.join(COQ, "_CoqProject")
    if not os.path.exists(mk) or os.path.getmtime(mk) < os.path.getmtime(cp):
        run("coq_makefile -f _CoqProject -o Makefile", cwd=COQ)


def coq_build(targets, timeout=1500):
    """make the given .vo targets (full .vo build, never -vos). Returns (ok, log)."""
    with Lock("coq"):
        coq_makefile()
        rc, out = run(["make", "-j%d" % NPROC] + targets, cwd=COQ, timeout=timeout)
    return rc == 0, out


def coq_cone(vfile):
    """Project .v files the given file transitively depends on (including itself)."""
    dfile = os.path.join(COQ, ".Makefile.d")
    deps = {}
    if os.path.exists(dfile):
        txt = open(dfile).read().replace("\\\n", " ")
        for line in txt.splitlines():
            if ":" not in line:
                continue
            lhs, rhs = line.split(":", 1)
            vo = [x for x in lhs.split() if x.endswith(".vo")]
            if not vo:
                continue
            src = vo[0][:-1]
            deps[src] = [x[:-1] for x in rhs.split() if x.endswith(".vo") and not x.startswith("/")]
    seen, todo = [], [vfile]
    while todo:
        f = todo.pop()
        if f in seen:
            continue
        seen.append(f)
        todo.extend(deps.get(f, []))
    return sorted(seen)


def count_obligations(files):
    n = 0
    for f in files:
        p = os.path.join(COQ, f)
        if os.path.exists(p):
            n += len(re.findall(r"\b(Qed|Defined)\.", open(p).read()))
    return n


FORBIDDEN = re.compile(r"\b(Admitted|admit|Axiom|Axioms|Parameter|Parameters|Conjecture|Hypothesis|Variable)\b|Unset Guard|bypass_check|type-in-type|impredicative-set|Admit Obligations")


def forbidden_scan():
    """No Admitted/admit/Axiom/Parameter/Conjecture/guard switches anywhere; Variable/Hypothesis only in Sections."""
    bad = []
    for root, _, files in os.walk(COQ):
        for fn in files:
            if not fn.endswith(".v"):
                continue
            p = os.path.join(root, fn)
            depth = 0
            in_comment = 0
            for ln, line in enumerate(open(p, errors="replace"), 1):
                code = re.sub(r"\(\*.*?\*\)", "", line)
                if "(*" in code and "*)" not in code:
                    in_comment += 1
                    code = code.split("(*")[0]
                elif in_comment and "*)" in code:
                    in_comment -= 1
                    code = code.split("*)", 1)[1]
                elif in_comment:
                    continue
                if re.match(r"\s*Section\b", code):
                    depth += 1
                if re.match(r"\s*End\b", code) and depth:
                    depth -= 1
                m = FORBIDDEN.search(code)
                if m:
                    w = m.group(0)
                    if w in ("Hypothesis", "Variable") and depth > 0:
                        continue
                    bad.append("%s:%d: %s" % (os.path.relpath(p, V), ln, w))
    return bad


def print_assumptions(module, theorems):
    """Ask Coq what each theorem depends on. Returns {thm: text}."""
    os.makedirs(os.path.join(BUILD, "assump"), exist_ok=True)
    vf = os.path.join(BUILD, "assump", "A_%s.v" % module.replace(".", "_"))
    with open(vf, "w") as f:
        f.write("From MZ.props Require Import %s.\n" % module)
        for t in theorems:
            f.write('Redirect "%s" Print Assumptions %s.\n' % (os.path.join(BUILD, "assump", module + "_" + t), t))
    args = ["coqc", "-noglob"]
    for d in ("lib", "spec", "gen", "model", "proofs", "props", "extract"):
        args += ["-Q", os.path.join(COQ, d), "MZ." + d]
    rc, out = run(args + [vf], cwd=os.path.join(BUILD, "assump"), timeout=600)
    res = {}
    for t in theorems:
        p = os.path.join(BUILD, "assump", module + "_" + t + ".out")
        res[t] = open(p).read().strip() if os.path.exists(p) else "UNAVAILABLE: " + out[-300:]
    return res


ALLOWED_AXIOMS = set()  # nothing beyond "Closed under the global context" is expected


def assumptions_ok(text):
    if "Closed under the global context" in text:
        return True
    if text.startswith("UNAVAILABLE"):
        return False
    names = re.findall(r"^([A-Za-z_][\w.']*)\s*:", text, re.M)
    return all(n in ALLOWED_AXIOMS for n in names) and bool(names)


def build_mzm():
    """Extract and compile the OCaml driver if any .vo / driver source is newer than the binary."""
    # the executable model must be compiled consistently against the regenerated gen/ files, whatever an earlier
    # (possibly failed) proof build left behind
    tg = [l.strip()[:-2] + ".vo" for l in open(os.path.join(COQ, "_CoqProject")) if l.strip().endswith(".v")
          and l.strip().split("/")[0] in ("lib", "spec", "gen", "model")]
    ok, log = coq_build(tg)
    if not ok:
        return False, "model layer does not compile: " + log[-1500:]
    with Lock("ocaml"):
        target = os.path.join(BUILD, "mzm")
        newest = 0
        for root, _, files in os.walk(COQ):
            for fn in files:
                if fn.endswith(".vo") and "/props" not in root and "/proofs" not in root:
                    newest = max(newest, os.path.getmtime(os.path.join(root, fn)))
        for fn in ("mzm.ml", "mzm_models.ml"):
            newest = max(newest, os.path.getmtime(os.path.join(V, "ocaml", fn)))
        newest = max(newest, os.path.getmtime(os.path.join(COQ, "extract/Extract.v")))
        if os.path.exists(target) and os.path.getmtime(target) >= newest:
            return True, "cached"
        rc, out = run(["bash", os.path.join(V, "bin/build_ocaml.sh")], timeout=900)
        return rc == 0, out


def build_harness(profiles=("debug", "release"), simd=False):
    """cargo build the harness against /repo's working tree with hooks enabled."""
    logs = []
    okall = True
    with Lock("cargo"):
        lock_src = os.path.join(REPO, "Cargo.lock")
        lock_dst = os.path.join(V, "harness/Cargo.lock")
        if not os.path.exists(lock_dst) and os.path.exists(lock_src):
            open(lock_dst, "wb").write(open(lock_src, "rb").read())
        for prof in profiles:
            cmd = ["cargo", "build", "--offline"]
            env = {"RUSTFLAGS": "--cfg miniz_oxide_verif"}
            if prof == "release":
                cmd.append("--release")
            if simd:
                cmd += ["--features", "simd"]
                env["CARGO_TARGET_DIR"] = os.path.join(BUILD, "cargo_simd")
            rc, out = run(cmd, cwd=os.path.join(V, "harness"), env=env, timeout=1500)
            okall &= rc == 0
            if rc != 0:
                logs.append(out[-3000:])
    return okall, "\n".join(logs)


def mzh_path(profile="debug", simd=False):
    return os.path.join(BUILD, "cargo_simd" if simd else "cargo", profile, "mzh")


# ------------------------------------------------------------------------------------ running cases

def write_cases(path, cases):
    """cases: list of (case_id, [op lines])"""
    with open(path, "w") as f:
        for cid, ops in cases:
            f.write("case %s\n" % cid)
            for op in ops:
                f.write(op + "\n")
            f.write("end\n")


def shard(cases, n):
    n = max(1, min(n, len(cases)))
    shards = [[] for _ in range(n)]
    # spread by cost (length of text) round robin on sorted order
    order = sorted(range(len(cases)), key=lambda i: -sum(len(o) for o in cases[i][1]))
    for k, i in enumerate(order):
        shards[k % n].append(cases[i])
    return [s for s in shards if s]


def _collect(of, results):
    for line in open(of, errors="replace"):
        parts = line.rstrip("\n").split(" ", 3)
        if len(parts) < 3:
            continue
        key = (parts[0], int(parts[1]) if parts[1].isdigit() else parts[1])
        results[key] = (parts[2], parts[3] if len(parts) > 3 else "")


def _start(binary, sh, cf, of, timeout):
    write_cases(cf, sh)
    fo = open(of, "w")
    pre = "ulimit -s unlimited 2>/dev/null; export OCAMLRUNPARAM=s=8M; " if binary.endswith("mzm") else ""
    p = subprocess.Popen(["bash", "-c", pre + "exec timeout %d %s %s" % (timeout, binary, cf)],
                         stdout=fo, stderr=subprocess.DEVNULL)
    return p, fo


def run_binary_on_cases(binary, cases, tag, workdir, per_shard_timeout=400, nshards=None):
    """Run `binary casefile` on shards in parallel. Returns (dict key->(op, rest), problems).
    A shard whose process dies (fault, abort, timeout) is not allowed to take the cases behind the failing one with
    it: the first case without complete output is re-run on its own (only if it dies again is it reported as a
    problem - a timeout of a whole shard on a loaded machine is not a finding), and the cases after it are re-run
    as a new shard."""
    os.makedirs(workdir, exist_ok=True)
    results = {}
    problems = []
    # the limit was calibrated with 16 shards running side by side; with fewer cores the shards are longer
    per_shard_timeout = per_shard_timeout * max(1, 16 // max(1, NPROC))
    queue = [(sh, False) for sh in shard(cases, nshards or NPROC)]   # (cases, is_single_retry)
    rnd = 0
    while queue and rnd < 12:
        procs = []
        for i, (sh, single) in enumerate(queue):
            cf = os.path.join(workdir, "%s_r%d_%d.case" % (tag, rnd, i) if rnd else "%s_%d.case" % (tag, i))
            of = os.path.join(workdir, "%s_r%d_%d.out" % (tag, rnd, i) if rnd else "%s_%d.out" % (tag, i))
            p, fo = _start(binary, sh, cf, of, per_shard_timeout)
            procs.append((p, fo, of, sh, single))
        queue = []
        for p, fo, of, sh, single in procs:
            rc = p.wait()
            fo.close()
            _collect(of, results)
            if rc == 0:
                continue
            idx = None
            for j, (cid, ops) in enumerate(sh):
                if (cid, len(ops)) not in results:
                    idx = j
                    break
            if idx is None:
                continue                      # everything was printed before the process ended
            if single or len(sh) == 1:
                # this case, run alone, does not complete: a fault, an abort or a hang of the binary on it
                problems.append({"binary": os.path.basename(binary), "rc": rc, "suspect_case": sh[idx][0]})
                rest = sh[idx + 1:]
            else:
                queue.append(([sh[idx]], True))
                rest = sh[idx + 1:]
            if rest:
                queue.append((rest, False))
        rnd += 1
    for sh, single in queue:                  # rounds exhausted: report what is left
        problems.append({"binary": os.path.basename(binary), "rc": -1, "suspect_case": sh[0][0]})
    return results, problems


def parse_fields(rest):
    """'st=0 in=3 o=ab' -> dict; positional words under '_'"""
    d = {"_": []}
    for tok in rest.split():
        if "=" in tok:
            k, v = tok.split("=", 1)
            d[k] = v
        else:
            d["_"].append(tok)
    return d


def diff_results(a, b, only_ops=None, ignore_fields=()):
    """Compare two result dicts on the keys of b (the model prints only what it models)."""
    diffs = []
    compared = 0
    for key, (op, rest) in b.items():
        if only_ops and op not in only_ops:
            continue
        if key not in a:
            diffs.append((key, op, "<missing>", rest))
            continue
        ra = a[key][1]
        rb = rest
        if ignore_fields:
            fa, fb = parse_fields(ra), parse_fields(rb)
            for k in ignore_fields:
                fa.pop(k, None)
                fb.pop(k, None)
            same = fa == fb
        else:
            same = ra == rb
        compared += 1
        if not same:
            diffs.append((key, op, ra, rb))
    return compared, diffs


# ------------------------------------------------------------------------------------ PRNG

class Rng:
    """SplitMix64; every random choice of a check derives from VERIF_SEED through this."""

    def __init__(self, seed):
        self.s = (seed * 0x9E3779B97F4A7C15 + 0x1234567) & 0xFFFFFFFFFFFFFFFF

    def next(self):
        self.s = (self.s + 0x9E3779B97F4A7C15) & 0xFFFFFFFFFFFFFFFF
        z = self.s
        z = ((z ^ (z >> 30)) * 0xBF58476D1CE4E5B9) & 0xFFFFFFFFFFFFFFFF
        z = ((z ^ (z >> 27)) * 0x94D049BB133111EB) & 0xFFFFFFFFFFFFFFFF
        return z ^ (z >> 31)

    def below(self, n):
        return self.next() % n if n > 0 else 0

    def range(self, lo, hi):
        return lo + self.below(hi - lo + 1)

    def choice(self, seq):
        return seq[self.below(len(seq))]

    def chance(self, num, den):
        return self.below(den) < num

    def bytes(self, n):
        out = bytearray()
        while len(out) < n:
            out += self.next().to_bytes(8, "little")
        return bytes(out[:n])

    def fork(self):
        return Rng(self.next())


def hx(b):
    return b.hex() if len(b) else "-"


# ------------------------------------------------------------------------------------ evidence / reporting

def known_findings():
    p = os.path.join(V, "known_findings.json")
    if os.path.exists(p):
        return json.load(open(p))
    return []


class Report:
    def __init__(self, prop, tier, seed):
        self.prop = prop
        self.tier = tier
        self.seed = seed
        self.t0 = time.time()
        self.coverage = {
            "obligations": 0, "discharged": 0, "checker_cmd": "", "trusted_base": list(TRUSTED_BASE),
            "evaluations": 0, "distinct_nontrivial": 0, "rule": "", "samples": [],
        }
        self.assumptions = []
        self.violations = []      # (what, replay_path or None, found_input: bool)
        self.known = []
        self.notes = []
        self.proof_broken = None
        self.tie_broken = []

    def add_samples(self, items, limit=6):
        for it in items:
            if len(self.coverage["samples"]) < limit:
                self.coverage["samples"].append(it)

    def write_replay(self, name, text):
        d = os.path.join(V, "replays", self.prop)
        os.makedirs(d, exist_ok=True)
        h = hashlib.sha1(text.encode()).hexdigest()[:12]
        p = os.path.join(d, "%s_%s.case" % (name, h))
        with open(p, "w") as f:
            f.write(text)
        return os.path.relpath(p, V)

    def violation(self, what, replay_text, found_input=True, name="viol"):
        path = self.write_replay(name, replay_text)
        self.violations.append((what, path, found_input))

    def finish(self):
        cov = self.coverage
        ev = {
            "property_id": self.prop,
            "tier": self.tier,
            "seed": self.seed,
            "level": "proof",
            "coverage": cov,
            "assumptions": self.assumptions,
            "wall_s": round(time.time() - self.t0, 2),
            "violations": len(self.violations),
            "notes": self.notes,
            "known_findings_seen": self.known,
            "proof_broken": self.proof_broken,
            "tie_broken": self.tie_broken[:20],
        }
        if not cov["samples"]:
            cov["samples"] = ["(no case reached)"]
        os.makedirs(os.path.join(V, "evidence"), exist_ok=True)
        with open(os.path.join(V, "evidence", self.prop + ".json"), "w") as f:
            json.dump(ev, f, indent=1, sort_keys=True)
        for k in self.known:
            print("KNOWN-FINDING: property=%s %s" % (self.prop, k))
        for what, path, found in self.violations:
            print("VIOLATION property=%s replay=%s %s%s" % (self.prop, path, what.replace("\n", " ")[:300],
                                                             "" if found else " no-failing-input-found"))
        if self.violations:
            return 1
        print("OK property=%s tier=%s obligations=%d/%d evaluations=%d wall=%.1fs" % (
            self.prop, self.tier, cov["discharged"], cov["obligations"], cov["evaluations"], time.time() - self.t0))
        return 0


def prove(rep, prop_module, theorems, extra_targets=()):
    """Build the proof cone of props/<module>.vo; record obligations and assumptions.
    Returns True iff everything checked."""
    vfile = "props/%s.v" % prop_module
    ok_gen, msg = regenerate()
    if not ok_gen:
        rep.proof_broken = "translator: " + msg
        rep.tie_broken.append("translator failed: " + msg)
    ok, log = coq_build([vfile + "o"] + list(extra_targets))
    cone = coq_cone(vfile)
    nob = count_obligations(cone)
    rep.coverage["obligations"] = nob
    rep.coverage["checker_cmd"] = "make -C coq %so (coqc 8.16.1, full .vo); Print Assumptions on %s" % (
        vfile, ", ".join(theorems))
    rep.coverage["proof_files"] = cone
    bad = forbidden_scan()
    if bad:
        ok = False
        log += "\nFORBIDDEN: " + "; ".join(bad[:10])
    if ok:
        pa = print_assumptions(prop_module, theorems)
        rep.coverage["assumptions_printed"] = pa
        for t, txt in pa.items():
            rep.assumptions.append("%s: %s" % (t, txt.replace("\n", " ")[:200]))
            if not assumptions_ok(txt):
                ok = False
                log += "\nASSUMPTIONS of %s not allowed: %s" % (t, txt[:300])
    if ok:
        rep.coverage["discharged"] = nob
    else:
        # which file broke
        m = re.search(r'File "\./([^"]+)", line (\d+)', log)
        where = "%s:%s" % (m.group(1), m.group(2)) if m else "unknown"
        err = log[-1500:]
        rep.proof_broken = "%s (%s)" % (where, err.replace("\n", " | ")[-600:])
        rep.coverage["discharged"] = 0
    return ok
