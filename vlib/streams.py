"""Grammar-based generator of valid DEFLATE / zlib streams (RFC 1951 / 1950), plus mutators.

Everything random derives from the Rng passed in.  The generator knows the plaintext of what
it builds (by expanding its own token list); the *oracle* of the checks is nevertheless the
Coq specification, never this file."""
import zlib

LENGTH_BASE = [3, 4, 5, 6, 7, 8, 9, 10, 11, 13, 15, 17, 19, 23, 27, 31, 35, 43, 51, 59, 67, 83, 99, 115, 131, 163, 195, 227, 258]
LENGTH_EXTRA = [0, 0, 0, 0, 0, 0, 0, 0, 1, 1, 1, 1, 2, 2, 2, 2, 3, 3, 3, 3, 4, 4, 4, 4, 5, 5, 5, 5, 0]
DIST_BASE = [1, 2, 3, 4, 5, 7, 9, 13, 17, 25, 33, 49, 65, 97, 129, 193, 257, 385, 513, 769, 1025, 1537, 2049, 3073, 4097,
             6145, 8193, 12289, 16385, 24577]
DIST_EXTRA = [0, 0, 0, 0, 1, 1, 2, 2, 3, 3, 4, 4, 5, 5, 6, 6, 7, 7, 8, 8, 9, 9, 10, 10, 11, 11, 12, 12, 13, 13]
CLEN_ORDER = [16, 17, 18, 0, 8, 7, 9, 6, 10, 5, 11, 4, 12, 3, 13, 2, 14, 1, 15]


class BitWriter:
    def __init__(self):
        self.bytes = bytearray()
        self.acc = 0
        self.n = 0

    def put(self, value, nbits):
        """nbits of value, least significant bit first"""
        self.acc |= (value & ((1 << nbits) - 1)) << self.n
        self.n += nbits
        while self.n >= 8:
            self.bytes.append(self.acc & 0xFF)
            self.acc >>= 8
            self.n -= 8

    def put_code(self, code, length):
        """Huffman code: most significant bit first"""
        rev = 0
        for i in range(length):
            rev = (rev << 1) | ((code >> i) & 1)
        self.put(rev, length)

    def align(self, junk=0):
        if self.n:
            self.put(junk, 8 - self.n)

    def bitpos(self):
        return len(self.bytes) * 8 + self.n

    def finish(self, junk=0):
        self.align(junk)
        return bytes(self.bytes)


def canonical_codes(lens):
    maxl = max(lens) if lens else 0
    bl_count = [0] * (maxl + 2)
    for l in lens:
        if l:
            bl_count[l] += 1
    code = 0
    next_code = [0] * (maxl + 2)
    for bits in range(1, maxl + 1):
        code = (code + bl_count[bits - 1]) << 1
        next_code[bits] = code
    codes = [0] * len(lens)
    for i, l in enumerate(lens):
        if l:
            codes[i] = next_code[l]
            next_code[l] += 1
    return codes


def random_complete_lengths(rng, k, maxbits, shape=None):
    """lengths of a random complete prefix code with k >= 2 leaves and depth <= maxbits"""
    if k == 1:
        return [1]
    if shape == "deep":
        # one long spine: lengths 1,2,3,...,maxbits-ish then filled
        lens = []
        d = 1
        while len(lens) < k - 1 and d < maxbits:
            lens.append(d)
            d += 1
        rest = k - len(lens)
        # remaining leaves share the subtree at depth d-1 -> need 2^m >= rest leaves
        depth = d - 1
        m = 0
        while (1 << m) < rest:
            m += 1
        if depth + m > maxbits:
            return random_complete_lengths(rng, k, maxbits, None)
        full = 1 << m
        # rest leaves at depth+m, merge (full-rest) pairs upward: simple: some at depth+m-1
        short = full - rest
        lens += [depth + m - 1] * short + [depth + m] * (rest - short) if m > 0 else [depth] * rest
        # fix Kraft exactly
        if sum(1 << (maxbits - l) for l in lens) != (1 << maxbits) or min(lens) < 1:
            return random_complete_lengths(rng, k, maxbits, None)
        return lens
    leaves = [0]
    while len(leaves) < k:
        cand = [i for i, d in enumerate(leaves) if d < maxbits]
        if not cand:
            break
        # bias: mostly split shallow leaves, sometimes the deepest
        if rng.chance(1, 4):
            i = max(cand, key=lambda j: leaves[j])
        else:
            i = rng.choice(cand)
        d = leaves.pop(i)
        leaves += [d + 1, d + 1]
    if len(leaves) != k:
        # cannot reach k within maxbits (k > 2^maxbits never happens here)
        raise ValueError("cannot build code")
    return leaves


def assign_lengths(rng, nsyms, used, maxbits, shape=None, extra_unused=0):
    """length vector of size nsyms: a complete code over `used` (+ a few unused symbols)"""
    syms = sorted(set(used))
    pool = [s for s in range(nsyms) if s not in syms]
    for _ in range(extra_unused):
        if pool:
            syms.append(pool.pop(rng.below(len(pool))))
    lens = [0] * nsyms
    if not syms:
        return lens
    ls = random_complete_lengths(rng, len(syms), maxbits, shape)
    # shuffle which symbol gets which length
    order = list(syms)
    for i in range(len(order) - 1, 0, -1):
        j = rng.below(i + 1)
        order[i], order[j] = order[j], order[i]
    for s, l in zip(order, ls):
        lens[s] = l
    return lens


def len_symbol(length):
    for i in range(len(LENGTH_BASE) - 1, -1, -1):
        if length >= LENGTH_BASE[i]:
            if i == 28 and length != 258:
                continue
            if length - LENGTH_BASE[i] < (1 << LENGTH_EXTRA[i]) or i == 28:
                return 257 + i, length - LENGTH_BASE[i], LENGTH_EXTRA[i]
    raise ValueError(length)


def dist_symbol(dist):
    for i in range(len(DIST_BASE) - 1, -1, -1):
        if dist >= DIST_BASE[i]:
            return i, dist - DIST_BASE[i], DIST_EXTRA[i]
    raise ValueError(dist)


def expand(tokens, out):
    for t in tokens:
        if t[0] == "lit":
            out.append(t[1])
        else:
            _, ln, d = t
            start = len(out) - d
            for i in range(ln):
                out.append(out[start + i])


def gen_tokens(rng, produced, n, style):
    """n tokens; `produced` bytes already exist before them"""
    toks = []
    total = produced
    alpha = rng.bytes(rng.range(1, 6))
    for _ in range(n):
        if total > 0 and rng.chance(2 if style != "lits" else 0, 5):
            maxd = min(32768, total)
            pick = rng.below(8)
            if pick == 0:
                d = 1
            elif pick == 1:
                d = maxd
            elif pick == 2:
                d = rng.range(1, min(maxd, 8))
            elif pick == 3 and maxd >= 32768:
                d = 32768
            else:
                d = rng.range(1, maxd)
            pick = rng.below(8)
            if pick == 0:
                ln = 258
            elif pick == 1:
                ln = 3
            elif pick == 2:
                ln = rng.choice([10, 11, 12, 13, 17, 18, 19, 34, 35, 66, 67, 130, 131, 226, 227, 257])
            else:
                ln = rng.range(3, 258)
            toks.append(("match", ln, d))
            total += ln
        else:
            if style == "text":
                b = alpha[rng.below(len(alpha))]
            else:
                b = rng.below(256)
            toks.append(("lit", b))
            total += 1
    return toks, total


def encode_code_lengths(rng, seq):
    """RFC 1951 3.2.7 run-length coding of the concatenated length vector, with random legal
    choices among literal / 16 / 17 / 18.  Returns list of (symbol, extra value, extra bits)."""
    out = []
    i = 0
    n = len(seq)
    while i < n:
        v = seq[i]
        run = 1
        while i + run < n and seq[i + run] == v:
            run += 1
        if v == 0 and run >= 3 and rng.chance(4, 5):
            if run >= 11 and rng.chance(3, 4):
                r = min(run, 138)
                if rng.chance(1, 3):
                    r = rng.range(11, r)
                out.append((18, r - 11, 7))
            else:
                r = min(run, 10)
                if rng.chance(1, 3):
                    r = rng.range(3, r)
                out.append((17, r - 3, 3))
            i += r
        elif v != 0 and run >= 4 and rng.chance(4, 5):
            out.append((v, 0, 0))
            r = min(run - 1, 6)
            if rng.chance(1, 3):
                r = rng.range(3, r)
            out.append((16, r - 3, 2))
            i += 1 + r
        elif v == 0 and i > 0 and seq[i - 1] == 0 and run >= 3 and rng.chance(1, 2) and out and out[-1][0] in (0,):
            # repeat previous zero with code 16
            r = min(run, 6)
            out.append((16, r - 3, 2))
            i += r
        else:
            out.append((v, 0, 0))
            i += 1
    return out


def write_block(rng, bw, tokens, kind, final, opts=None):
    opts = opts or {}
    if kind == "stored":
        data = bytes(t[1] for t in tokens)
        bw.put(1 if final else 0, 1)
        bw.put(0, 2)
        bw.align(rng.below(256) if opts.get("junk") else 0)
        bw.put(len(data), 16)
        bw.put(len(data) ^ 0xFFFF, 16)
        for b in data:
            bw.put(b, 8)
        return
    if kind == "fixed":
        ll = [8] * 144 + [9] * 112 + [7] * 24 + [8] * 8
        dl = [5] * 32
        bw.put(1 if final else 0, 1)
        bw.put(1, 2)
    else:
        used_l = set([256])
        used_d = set()
        for t in tokens:
            if t[0] == "lit":
                used_l.add(t[1])
            else:
                used_l.add(len_symbol(t[1])[0])
                used_d.add(dist_symbol(t[2])[0])
        shape = opts.get("shape")
        hlit = max(max(used_l) + 1, 257)
        if rng.chance(1, 3):
            hlit = rng.range(hlit, 286)
        if opts.get("hlit_max"):
            hlit = 286
        ll = assign_lengths(rng, hlit, used_l, 15, shape, extra_unused=rng.below(4) if len(used_l) > 1 else rng.below(2) * 2)
        # a litlen alphabet with a single used symbol gets a 1-bit code (sanctioned incomplete code)
        hdist = max(max(used_d) + 1 if used_d else 1, 1)
        if rng.chance(1, 3):
            hdist = rng.range(hdist, 30)
        if opts.get("hdist_max"):
            hdist = 30
        if used_d or rng.chance(1, 2):
            extra = rng.below(3) if len(used_d) != 1 else rng.choice([0, 0, 1])
            dl = assign_lengths(rng, hdist, used_d, 15, shape, extra_unused=extra if (used_d or extra) else 0)
            if len([x for x in dl if x]) == 0:
                dl = [0] * hdist
        else:
            dl = [0] * hdist
        seq = ll + dl
        packed = encode_code_lengths(rng, seq)
        used_c = set(s for s, _, _ in packed)
        # the code length code must be complete: at least two symbols
        cl = assign_lengths(rng, 19, used_c, 7, None, extra_unused=(2 - len(used_c)) if len(used_c) < 2 else rng.below(3))
        ccodes = canonical_codes(cl)
        hclen = 4
        for i in range(18, -1, -1):
            if cl[CLEN_ORDER[i]]:
                hclen = max(4, i + 1)
                break
        if rng.chance(1, 4):
            hclen = rng.range(hclen, 19)
        if opts.get("hclen_max"):
            hclen = 19
        bw.put(1 if final else 0, 1)
        bw.put(2, 2)
        bw.put(hlit - 257, 5)
        bw.put(hdist - 1, 5)
        bw.put(hclen - 4, 4)
        for i in range(hclen):
            bw.put(cl[CLEN_ORDER[i]], 3)
        for s, ev, eb in packed:
            bw.put_code(ccodes[s], cl[s])
            if eb:
                bw.put(ev, eb)
    lcodes = canonical_codes(ll)
    dcodes = canonical_codes(dl)
    for t in tokens:
        if t[0] == "lit":
            bw.put_code(lcodes[t[1]], ll[t[1]])
        else:
            s, ev, eb = len_symbol(t[1])
            bw.put_code(lcodes[s], ll[s])
            if eb:
                bw.put(ev, eb)
            ds, dev, deb = dist_symbol(t[2])
            bw.put_code(dcodes[ds], dl[ds])
            if deb:
                bw.put(dev, deb)
    bw.put_code(lcodes[256], ll[256])


def gen_stream(rng, max_tokens=300, zlib_wrap=False, min_blocks=1, max_blocks=4, force=None):
    """returns (stream bytes, plaintext bytes, description dict)"""
    bw = BitWriter()
    out = bytearray()
    nblocks = rng.range(min_blocks, max_blocks)
    desc = {"blocks": []}
    if zlib_wrap:
        cinfo = rng.choice([7, 7, 7, 0, 3, 5])
        cmf = 8 | (cinfo << 4)
        flg = rng.below(4) << 6
        flg += 31 - ((cmf * 256 + flg) % 31)
        if (cmf * 256 + flg) % 31 != 0:
            flg -= 31
        bw.put(cmf, 8)
        bw.put(flg, 8)
        desc["cinfo"] = cinfo
    for bi in range(nblocks):
        final = bi == nblocks - 1
        kind = force or rng.choice(["stored", "fixed", "dynamic", "dynamic", "dynamic"])
        style = rng.choice(["mixed", "lits", "text", "mixed"])
        n = rng.choice([0, 1, 2, 5, 30, max_tokens])
        n = rng.range(0, n)
        opts = {}
        if kind == "stored":
            toks = [("lit", rng.below(256)) for _ in range(min(rng.choice([n * 3, n, 1, 2, 0]), 65535))]
            opts["junk"] = rng.chance(1, 2)
        else:
            toks, _ = gen_tokens(rng, len(out), n, style)
            if zlib_wrap:
                # respect the declared window so that ring decoding with the declared size is legal
                lim = 1 << (desc["cinfo"] + 8)
                toks = [t if t[0] == "lit" or t[2] <= lim else ("match", t[1], max(1, min(t[2], lim))) for t in toks]
            if kind == "dynamic":
                opts["shape"] = rng.choice([None, None, "deep"])
                opts["hlit_max"] = rng.chance(1, 8)
                opts["hdist_max"] = rng.chance(1, 8)
                opts["hclen_max"] = rng.chance(1, 8)
        try:
            write_block(rng, bw, toks, kind, final, opts)
        except ValueError:
            write_block(rng, bw, toks, "fixed" if kind != "stored" else kind, final, {})
            kind = "fixed"
        expand(toks, out)
        desc["blocks"].append((kind, len(toks)))
    body = bw.finish(rng.below(256) if rng.chance(1, 2) else 0)
    if zlib_wrap:
        body += zlib.adler32(bytes(out)).to_bytes(4, "big")
    return body, bytes(out), desc


def directed_streams(rng):
    """One hand-shaped stream per construct the property names (seed independent shapes)."""
    res = []

    def mk(name, blocks, zl=False):
        bw = BitWriter()
        out = bytearray()
        for i, (kind, toks, opts) in enumerate(blocks):
            write_block(rng, bw, toks, kind, i == len(blocks) - 1, opts)
            expand(toks, out)
        res.append((name, bw.finish(), bytes(out)))

    lits = [("lit", b) for b in b"abcabcabcabc hello hello"]
    mk("one_symbol_litlen_eob_only", [("dynamic", [], {})])
    mk("one_literal_and_eob", [("dynamic", [("lit", 65)] * 5, {})])
    mk("one_dist_code", [("dynamic", [("lit", 1), ("lit", 2), ("match", 3, 1), ("match", 5, 1)], {})])
    mk("len258_dist1", [("fixed", [("lit", 7), ("match", 258, 1), ("match", 258, 1)], {})])
    mk("overlap_copy", [("fixed", [("lit", 1), ("lit", 2), ("lit", 3), ("match", 100, 3), ("match", 17, 2)], {})])
    big = [("lit", (i * 131) & 255) for i in range(32768)]
    mk("dist32768", [("stored", big, {}), ("fixed", [("match", 258, 32768), ("match", 3, 32768)], {})])
    mk("deep15", [("dynamic", [("lit", i) for i in range(256)] * 2 + [("match", 258, 300), ("match", 3, 1)], {"shape": "deep"})])
    mk("hlit286_hdist30_hclen19", [("dynamic", lits + [("match", 4, 3)], {"hlit_max": True, "hdist_max": True, "hclen_max": True})])
    # literal followed by a length-258 match with a long tail: the fast loop's worst case (259 bytes per iteration)
    for k in (5, 10, 40):
        tail = [("lit", (i * 7 + 3) & 255) for i in range(60)]
        mk("fast_lit_258_k%d" % k, [("fixed", [("lit", 65 + (i % 20)) for i in range(k)] + [("lit", 88), ("match", 258, 1)] + tail +
                                     [("lit", 89), ("match", 258, 2), ("match", 258, k)] + tail, {})])
    # a 1- or 2-byte stored block right after a Huffman block, for every fill level of the bit buffer
    for sl in (1, 2):
        for k in range(0, 44, 1):
            lits = [("lit", 200 + (i % 50)) for i in range(k % 24)] + [("lit", 40 + (i % 90)) for i in range(k)]
            mk("short_stored%d_k%d" % (sl, k), [("fixed", lits, {}), ("stored", [("lit", 170 + j) for j in range(sl)], {}),
                                                 ("fixed", [("lit", 1), ("lit", 2), ("match", 3, 2)], {})])
    # long codes on both alphabets with many matches
    toks = []
    for i in range(300):
        toks.append(("lit", (i * 37) & 255))
        if i % 3 == 2:
            toks.append(("match", 3 + (i * 11) % 256, 1 + (i * 97) % min(len(toks), 700)))
    mk("deep15_matches", [("dynamic", toks, {"shape": "deep"})])
    # matches at distance ring-1 / ring / 1 / 2 for small rings (names carry the ring size): source one byte
    # ahead of the write position in a ring of that size
    for L in (64, 256, 1024):
        toks = [("lit", (i * 13 + 5) & 255) for i in range(L + 6)]
        toks += [("match", 20, L - 1), ("match", 5, L), ("lit", 7), ("match", 258, L - 1), ("match", 9, 1), ("match", 11, 2),
                 ("match", 4, L - 1), ("match", 3, L), ("lit", 9), ("match", 70, L - 2)]
        mk("ring%d_edge" % L, [("fixed", toks, {})])
    # a literal followed by a length-258 match starting exactly 258, 259 or 260 bytes before the end of the ring (the
    # fast loop needs 259 bytes of room for one iteration); positioned by a stored block
    for L in (1024, 32768):
        for kk in (2, 3, 4):
            for ee in (0, 1):
                pre = [("lit", (i * 29 + 11) & 255) for i in range(L - 258 - kk - ee)]
                tail = [("lit", (i * 5 + 1) & 255) for i in range(40)]
                mk("ringend258_L%d_k%d_e%d" % (L, kk, ee),
                   [("stored", pre, {}), ("fixed", [("lit", 70 + i) for i in range(kk)] + [("lit", 88), ("match", 258, 1)] + tail + [("match", 258, 7)] + tail, {})])
    # a long match, then a short stored block, then more: output-full suspensions inside the match land within a
    # few input bytes of the stored block's LEN/NLEN
    for n in (3, 20, 41):
        for sl in (1, 5, 30):
            mk("match_then_stored_n%d_s%d" % (n, sl),
               [("fixed", [("lit", 33 + (i % 60)) for i in range(n)] + [("match", 258, 1), ("match", 200, n)], {}),
                ("stored", [("lit", 100 + j) for j in range(sl)], {}),
                ("fixed", [("lit", 1), ("lit", 2), ("lit", 3), ("match", 30, 2)], {}),
                ("dynamic", [("lit", 65 + (i % 7)) for i in range(40)] + [("match", 40, 7)], {})])
    for align in range(8):
        bw = BitWriter()
        out = bytearray()
        # a fixed block whose length in bits varies, followed by empty stored and stored blocks
        toks = [("lit", 65)] * align
        write_block(rng, bw, toks, "fixed", False, {})
        expand(toks, out)
        write_block(rng, bw, [], "stored", False, {"junk": True})
        write_block(rng, bw, [("lit", 66), ("lit", 67)], "stored", False, {"junk": True})
        expand([("lit", 66), ("lit", 67)], out)
        write_block(rng, bw, [], "stored", True, {})
        res.append(("empty_stored_align%d" % align, bw.finish(), bytes(out)))
    return res


def mutate(rng, s):
    """returns (mutated bytes, kind)"""
    b = bytearray(s)
    k = rng.below(8)
    if not b:
        return bytes([rng.below(256)]), "insert"
    if k == 0:
        i = rng.below(len(b))
        b[i] ^= 1 << rng.below(8)
        return bytes(b), "bitflip"
    if k == 1:
        for _ in range(rng.range(2, 4)):
            i = rng.below(len(b))
            b[i] ^= 1 << rng.below(8)
        return bytes(b), "multiflip"
    if k == 2:
        return bytes(b[:rng.below(len(b))]), "truncate"
    if k == 3:
        i = rng.below(len(b) + 1)
        return bytes(b[:i] + rng.bytes(rng.range(1, 3)) + b[i:]), "insert"
    if k == 4:
        i = rng.below(len(b))
        return bytes(b[:i] + b[i + 1:]), "delete"
    if k == 5:
        i = rng.below(len(b))
        b[i] = rng.below(256)
        return bytes(b), "byteset"
    if k == 6:
        # early bytes matter most (headers)
        i = rng.below(min(len(b), 12))
        b[i] ^= 1 << rng.below(8)
        return bytes(b), "hdrflip"
    return rng.bytes(rng.range(1, 40)), "random"


def targeted_invalid(rng):
    """one stream per spec error kind (name, bytes, raw/zlib)"""
    res = []
    res.append(("blocktype3", bytes([0b111]) + rng.bytes(4)))
    res.append(("stored_len", bytes([1, 3, 0, 0xFD, 0xFF, 1, 2, 3])))
    # HLIT = 30 (287), HDIST = 31
    bw = BitWriter(); bw.put(1, 1); bw.put(2, 2); bw.put(30, 5); bw.put(0, 5); bw.put(0, 4); bw.put(0, 64)
    res.append(("hlit287", bw.finish()))
    bw = BitWriter(); bw.put(1, 1); bw.put(2, 2); bw.put(0, 5); bw.put(30, 5); bw.put(0, 4); bw.put(0, 64)
    res.append(("hdist31", bw.finish()))
    # single-symbol code length code
    bw = BitWriter(); bw.put(1, 1); bw.put(2, 2); bw.put(0, 5); bw.put(0, 5); bw.put(0, 4)
    for v in (1, 0, 0, 0):
        bw.put(v, 3)
    bw.put(0, 64)
    res.append(("clen_incomplete", bw.finish()))
    # over-subscribed code length code: three 1-bit codes
    bw = BitWriter(); bw.put(1, 1); bw.put(2, 2); bw.put(0, 5); bw.put(0, 5); bw.put(0, 4)
    for v in (1, 1, 1, 0):
        bw.put(v, 3)
    bw.put(0, 64)
    res.append(("clen_oversubscribed", bw.finish()))
    # repeat-16 as first code: clen lens: sym16 -> 1, sym17 -> 1
    bw = BitWriter(); bw.put(1, 1); bw.put(2, 2); bw.put(0, 5); bw.put(0, 5); bw.put(0, 4)
    for v in (1, 1, 0, 0):
        bw.put(v, 3)
    bw.put_code(0, 1); bw.put(0, 2); bw.put(0, 64)
    res.append(("repeat_first", bw.finish()))
    # repeat run past HLIT+HDIST: 258 lengths wanted, send 18 (138 zeros) twice
    bw = BitWriter(); bw.put(1, 1); bw.put(2, 2); bw.put(0, 5); bw.put(0, 5); bw.put(0, 4)
    for v in (0, 1, 1, 0):   # 17 -> 1 bit, 18 -> 1 bit
        bw.put(v, 3)
    bw.put_code(1, 1); bw.put(127, 7); bw.put_code(1, 1); bw.put(127, 7); bw.put(0, 64)
    res.append(("repeat_overrun", bw.finish()))
    # fixed block using symbol 286 (8-bit code 0xC6) and distance symbol 30
    bw = BitWriter(); bw.put(1, 1); bw.put(1, 2); bw.put_code(0b11000110, 8); bw.put(0, 32)
    res.append(("litlen286", bw.finish()))
    bw = BitWriter(); bw.put(1, 1); bw.put(1, 2); bw.put_code(0x30 + 65, 8); bw.put_code(1, 7); bw.put_code(30, 5); bw.put(0, 32)
    res.append(("dist30", bw.finish()))
    # code-length code with a single symbol (incomplete), for several symbols, long random tails
    for sym_pos, name in ((0, "16"), (1, "17"), (2, "18"), (3, "0"), (4, "8"), (6, "9")):
        for hlit in (0, 3, 29):
            bw = BitWriter(); bw.put(1, 1); bw.put(2, 2); bw.put(hlit, 5); bw.put(rng.below(30), 5); bw.put(15, 4)
            for i in range(19):
                bw.put(1 if i == sym_pos else 0, 3)
            for _ in range(12):
                bw.put(rng.below(1 << 16), 16)
            res.append(("clen_single_%s_h%d" % (name, hlit), bw.finish()))
    # code-length code with two 2-bit codes (incomplete) / five 2-bit codes (over-subscribed)
    for cnt, nm in ((2, "incomplete2"), (3, "incomplete3"), (5, "oversub5")):
        bw = BitWriter(); bw.put(1, 1); bw.put(2, 2); bw.put(0, 5); bw.put(0, 5); bw.put(15, 4)
        for i in range(19):
            bw.put(2 if i < cnt else 0, 3)
        for _ in range(12):
            bw.put(rng.below(1 << 16), 16)
        res.append(("clen_%s" % nm, bw.finish()))
    # literal/length and distance alphabets with degenerate sets, everything else consistent
    def dyn_with_lens(ll, dl, toks_bits, tail=8):
        seq = ll + dl
        bw = BitWriter(); bw.put(1, 1); bw.put(2, 2); bw.put(len(ll) - 257, 5); bw.put(len(dl) - 1, 5)
        used = sorted(set(seq))
        # code length code: give every used length a 4-bit code (16 codes of 4 bits is complete) + pad symbols
        cl = [0] * 19
        for v in range(16):
            cl[v] = 4
        bw.put(15, 4)
        for i in range(19):
            bw.put(cl[CLEN_ORDER[i]], 3)
        cc = canonical_codes(cl)
        for v in seq:
            bw.put_code(cc[v], 4)
        for (val, n) in toks_bits:
            bw.put(val, n)
        for _ in range(tail):
            bw.put(rng.below(256), 8)
        return bw.finish()
    base_ll = [0] * 257
    # single 2-bit literal code (incomplete, max length 2): invalid
    ll = list(base_ll); ll[256] = 2
    res.append(("litlen_single_len2", dyn_with_lens(ll, [0], [(0, 2)])))
    # two codes of length 2 (incomplete): invalid
    ll = list(base_ll); ll[65] = 2; ll[256] = 2
    res.append(("litlen_two_len2", dyn_with_lens(ll, [0], [(0, 2), (2, 2)])))
    # three codes of length 1 (over-subscribed)
    ll = list(base_ll); ll[65] = 1; ll[66] = 1; ll[256] = 1
    res.append(("litlen_three_len1", dyn_with_lens(ll, [0], [(0, 1), (1, 1)])))
    # lengths 1,2,3 (incomplete by 1/8)
    ll = list(base_ll); ll[65] = 1; ll[66] = 2; ll[256] = 3
    res.append(("litlen_123", dyn_with_lens(ll, [0], [(0, 1), (1, 2), (3, 3)])))
    # distance alphabet: two 2-bit codes (incomplete): invalid even if unused
    ll = list(base_ll); ll[65] = 1; ll[256] = 1
    res.append(("dist_two_len2", dyn_with_lens(ll, [2, 2], [(0, 1), (1, 1)])))
    res.append(("dist_single_len2", dyn_with_lens(ll, [2], [(0, 1), (1, 1)])))
    # errors met inside the fast loop: >= 14 bytes of input follow, big output buffers are used by the checks
    for k in (0, 3, 20):
        bw = BitWriter(); bw.put(0, 1); bw.put(1, 2)
        for i in range(k):
            bw.put_code(0x30 + 65 + i % 9, 8)
        bw.put_code(0b11000110, 8)          # literal/length symbol 286
        for _ in range(40):
            bw.put(rng.below(256), 8)
        res.append(("fast_litlen286_k%d" % k, bw.finish()))
        bw = BitWriter(); bw.put(0, 1); bw.put(1, 2)
        for i in range(k + 1):
            bw.put_code(0x30 + 65 + i % 9, 8)
        bw.put_code(1, 7); bw.put_code(30, 5)    # distance symbol 30
        for _ in range(40):
            bw.put(rng.below(256), 8)
        res.append(("fast_dist30_k%d" % k, bw.finish()))
        bw = BitWriter(); bw.put(0, 1); bw.put(1, 2)
        for i in range(k + 1):
            bw.put_code(0x30 + 65 + i % 9, 8)
        bw.put_code(1, 7); bw.put_code(10, 5); bw.put(15, 4)   # distance 33+15 > produced
        for _ in range(40):
            bw.put(rng.below(256), 8)
        res.append(("fast_dist_far_k%d" % k, bw.finish()))
    # distance before start (flat)
    bw = BitWriter(); bw.put(1, 1); bw.put(1, 2); bw.put_code(0x30 + 65, 8); bw.put_code(1, 7); bw.put_code(4, 5); bw.put(1, 1); bw.put_code(0, 7)
    res.append(("dist_before_start", bw.finish()))
    return res
