"""Checks for C17 (C ABI shim), C18 (reset / determinism), C20 (safe Rust in every configuration)."""
import os
import zlib

from . import core, streams
from .core import hx, parse_fields
from .props import Ctx, build_all, conclude, correspondence, data_classes, execute, load_replay, oracle_run
from .inflate_checks import core_show, standard_run, corpus, sched_stream, sched_progress, fmt_of, MODEL_INFLATE_OPS
from .deflate_checks import MODEL_DEFLATE_OPS, sched_comp

MODEL_OPS = MODEL_INFLATE_OPS | MODEL_DEFLATE_OPS

# ===================================================================================== C18


def random_history_inflate(rng, base):
    """ops on the InflateState register: streams cut anywhere, any flush, corrupt input, error returns"""
    ops = []
    for _ in range(rng.range(1, 6)):
        name, s, z, p = rng.choice(base)
        k = rng.below(4)
        if k == 0:
            s = s[:rng.range(0, len(s))]
        elif k == 1:
            s, _ = streams.mutate(rng, s)
        ops.append("iscall %s %d %d" % (hx(s[:rng.range(0, len(s))] if rng.chance(1, 2) else s), rng.choice([0, 1, 7, 300, 40000]),
                                       rng.choice([0, 0, 2, 4, 3])))
    return ops


def random_history_core(rng, base):
    ops = []
    L = rng.choice([64, 1024, 32768, 40000])
    ops.append("buf %d %d" % (L, rng.below(256)))
    for _ in range(rng.range(1, 6)):
        name, s, z, p = rng.choice(base)
        if rng.chance(1, 2):
            s, _ = streams.mutate(rng, s)
        cut = s[:rng.range(0, len(s))] if rng.chance(1, 2) else s
        ops.append("dcall %s %d %s %d" % (hx(cut), rng.choice([0, 0, 1, L // 2]), rng.choice(["-", "1", "5", "300"]),
                                          rng.choice([0, 1, 2, 4, 5, 6, 8, 64, 3])))
    return ops


def random_history_comp(rng):
    ops = []
    for _ in range(rng.range(1, 5)):
        d = data_classes(rng, rng.choice([0, 1, 50, 3000, 40000]))
        ops.append("ccall %s %d %d" % (hx(d), rng.choice([1, 5, 9, 1000, 200000]), rng.choice([0, 0, 2, 3, 4, 1, 7])))
    return ops


def c18_cases(ctx):
    rng = ctx.rng
    n = 25 if ctx.tier == "quick" else 200
    base = corpus(ctx, 40, 150)
    k = 0
    for i in range(n):
        # --- streaming inflater, every reset policy
        name, s, z, p = rng.choice(base)
        fmt = fmt_of(z)
        fmt0 = rng.choice([0, 1, 2])
        policy = rng.below(3)
        sc = sched_stream(rng)
        hist = random_history_inflate(rng, base)
        k += 1
        if policy == 2:
            a = ["in %s" % hx(s), "isnew %d" % fmt0] + hist + ["isreset 2 %d" % fmt, "isdrive @ %s" % sc]
        else:
            a = ["in %s" % hx(s), "isnew %d" % fmt] + hist + ["isreset %d" % policy, "isdrive @ %s" % sc]
        b = ["in %s" % hx(s), "isnew %d" % fmt, "isdrive @ %s" % sc]
        ctx.add("i%da" % k, a, kind="pairA", pair="i%db" % k, what="InflateState reset policy %s" % ["MinReset", "ZeroReset", "FullReset"][policy])
        ctx.add("i%db" % k, b, kind="pairB")
        # --- low-level decoder: init()
        name, s, z, p = rng.choice(base)
        fl = (1 if z else 0) | 4
        L = len(p) + 5
        sc2 = sched_progress(rng)
        k += 1
        a = ["in %s" % hx(s), "dnew"] + random_history_core(rng, base) + ["dinit", "buf %d 3" % L, "drive @ flat %d 3 %d %s keep" % (L, fl, sc2)]
        b = ["in %s" % hx(s), "dnew", "buf %d 3" % L, "drive @ flat %d 3 %d %s keep" % (L, fl, sc2)]
        ctx.add("d%da" % k, a, kind="pairA", pair="d%db" % k, what="DecompressorOxide::init")
        ctx.add("d%db" % k, b, kind="pairB")
        # --- compressor reset (interrupted Finish, pending output, saved lazy match possible)
        cfgs = "%d %d %d %d" % (rng.choice([0, 2]), rng.range(0, 10), rng.range(0, 4), rng.choice([15, 15, rng.range(8, 15)]))
        data = data_classes(rng, rng.choice([0, 5, 3000, 40000, 70000]))
        sc3 = sched_comp(rng)
        k += 1
        a = ["in %s" % hx(data), "cparams %s" % cfgs] + random_history_comp(rng) + ["creset", "cdrive @ %s" % sc3]
        b = ["in %s" % hx(data), "cparams %s" % cfgs, "cdrive @ %s" % sc3]
        ctx.add("c%da" % k, a, kind="pairA", pair="c%db" % k, what="CompressorOxide::reset")
        ctx.add("c%db" % k, b, kind="pairB")
        # --- C deflate stream reset
        level = rng.range(0, 9)
        k += 1
        h = []
        for _ in range(rng.range(1, 4)):
            h.append("zcall deflate %s %d %d" % (hx(data_classes(rng, rng.choice([0, 10, 5000]))), rng.choice([1, 10, 100000]), rng.choice([0, 2, 3, 4])))
        a = ["in %s" % hx(data[:20000]), "zdinit %d 8 15 9 0" % level] + h + ["zreset", "zcall deflate @ 100000 4"]
        b = ["in %s" % hx(data[:20000]), "zdinit %d 8 15 9 0" % level, "zcall deflate @ 100000 4"]
        ctx.add("z%da" % k, a, kind="pairA", pair="z%db" % k, what="mz_deflateReset")
        ctx.add("z%db" % k, b, kind="pairB")
        # --- determinism: two fresh objects, equal call sequences
        k += 1
        ctx.add("t%da" % k, b, kind="pairA", pair="t%db" % k, what="two fresh objects")
        ctx.add("t%db" % k, b, kind="pairB")
    # the first call after a reset must take the same path as the first call on a fresh object: MZFlush::Finish with an
    # output buffer that is too small, and a corrupt stream whose match reaches before the start of the output
    early = bytes([0x4B, 0x04, 0x62, 0x00])
    for policy in range(3):
        for j in range(4 if ctx.tier == "quick" else 20):
            name, s, z, p = rng.choice(base)
            fmt = fmt_of(z)
            hist = random_history_inflate(rng, base)
            for (inp, f2, last) in ((s, fmt, "iscall @ %d 4" % max(1, len(p) // 2)), (s, fmt, "iscall @ %d 4" % (len(p) + 10)),
                                    (early, 2, "iscall @ 100 4")):
                k += 1
                rs = "isreset 2 %d" % f2 if policy == 2 else "isreset %d" % policy
                a = ["in %s" % hx(inp), "isnew %d" % f2] + hist + [rs, last]
                b = ["in %s" % hx(inp), "isnew %d" % f2, last]
                ctx.add("r%da" % k, a, kind="pairA", pair="r%db" % k,
                        what="InflateState reset policy %s (first call Finish)" % ["MinReset", "ZeroReset", "FullReset"][policy])
                ctx.add("r%db" % k, b, kind="pairB")
    # the documented MinReset caveat (known finding F3): after decoding a first stream, MinReset keeps the 32 KiB
    # window; a following stream with a match reaching before its own start copies bytes of the previous stream
    first = zlib.compressobj(6, zlib.DEFLATED, -15)
    s1 = first.compress(b"A" * 40000) + first.flush()
    leak = bytes([0x43, 0xD8, 0x01, 0x00])        # fixed block: match len 10 dist 100, end of block
    a = ["in %s" % hx(leak), "isnew 2", "iscall %s 50000 0" % hx(s1), "isreset 0", "isdrive @ 100:100:0"]
    b = ["in %s" % hx(leak), "isnew 2", "isdrive @ 100:100:0"]
    ctx.add("f3a", a, kind="pairA", pair="f3b", what="InflateState reset policy MinReset", finding_class="minreset_window_leak")
    ctx.add("f3b", b, kind="pairB")
    a = ["in %s" % hx(leak), "isnew 2", "iscall %s 50000 0" % hx(s1), "isreset 1", "isdrive @ 100:100:0"]
    ctx.add("f3za", a, kind="pairA", pair="f3b", what="InflateState reset policy ZeroReset")


def c18_eval(ctx):
    fails = []
    for cid, ops in ctx.cases:
        m = ctx.meta[cid]
        if m["kind"] != "pairA":
            continue
        pb = m["pair"]
        pops = dict(ctx.cases)[pb]
        for tag, res in (("debug", ctx.impl), ("release", ctx.impl_rel)):
            if not res:
                continue
            la = res.get((cid, len(ops)), ("", "MISSING-A"))[1]
            lb = res.get((pb, len(pops)), ("", "MISSING-B"))[1]
            if la != lb:
                fa, fb = parse_fields(la), parse_fields(lb)
                diff = [x for x in fa if fa.get(x) != fb.get(x) and x != "_"][:4]
                fails.append((cid, "%s: after %s the object does not behave like a fresh one: fields %s differ (%s vs %s)" % (
                    tag, m["what"], diff, [fa.get(x, "")[:40] for x in diff], [fb.get(x, "")[:40] for x in diff])))
                break
    return fails


def check_C18(rep, tier, seed, replay):
    ctx = Ctx(rep, tier, seed)
    proof_ok = core.prove(rep, "C18", ["C18_compressor_reset_is_fresh", "C18_inflate_reset_policies", "C18_minreset_refuted"])
    if replay:
        load_replay(ctx, replay)
    else:
        c18_cases(ctx)
    return standard_run(ctx, proof_ok, c18_eval, MODEL_OPS,
                        "prior histories (streams cut anywhere, any flush, corrupt input, error returns, interrupted Finish, pending "
                        "output) then reset then a different stream/input, compared with a fresh object given the same calls: "
                        "InflateState x {MinReset, ZeroReset, FullReset}, DecompressorOxide::init, CompressorOxide::reset, "
                        "mz_deflateReset; two fresh objects with equal call sequences; the documented MinReset window caveat is a listed finding")


# ===================================================================================== C17

def c17_cases(ctx):
    rng = ctx.rng
    n = 30 if ctx.tier == "quick" else 250
    k = 0
    for i in range(n):
        data = data_classes(rng, rng.choice([0, 1, 100, 3000, 40000]))
        level = rng.choice([-1, 0, 1, 6, 9, 10])
        wb = rng.choice([15, -15])
        strat = rng.range(0, 4)
        # the same schedule through mz_deflate and through deflate()
        calls = []
        off = 0
        for _ in range(rng.range(1, 5)):
            c = rng.choice([0, 1, 50, 100000])
            o = rng.choice([0, 1, 7, 300, 100000])
            f = rng.choice([0, 0, 1, 2, 3, 4])
            calls.append((off, c, o, f))
            off = min(len(data), off + c)
        calls.append((off, 100000, 200000, 4))
        k += 1
        a = ["in %s" % hx(data), "zdinit %d 8 %d 9 %d" % (level, wb, strat)]
        b = ["in %s" % hx(data), "cnewzip %d %d %d" % (level, wb, strat)]
        for (off, c, o, f) in calls:
            a.append("zcall deflate @%d:%d %s %d" % (off, c, o, f))
            b.append("dfcall @%d:%d %d %d" % (off, c, o, 2 if f == 1 else f))
        ctx.add("e%da" % k, a, kind="eqA", pair="e%db" % k, side="deflate")
        ctx.add("e%db" % k, b, kind="eqB")
        # inflate side
        comp = zlib.compress(data, rng.range(0, 9)) if wb > 0 else (lambda co: co.compress(data) + co.flush())(zlib.compressobj(6, zlib.DEFLATED, -15))
        if rng.chance(1, 4):
            comp, _ = streams.mutate(rng, comp)
        calls = []
        off = 0
        for _ in range(rng.range(1, 6)):
            c = rng.choice([0, 1, 5, 100000])
            o = rng.choice([0, 1, 9, 100000])
            f = rng.choice([0, 0, 1, 2, 4])
            calls.append((off, c, o, f))
            off = min(len(comp), off + c)
        k += 1
        a = ["in %s" % hx(comp), "ziinit %d" % wb]
        b = ["in %s" % hx(comp), "isnew %d" % (0 if wb > 0 else 2)]
        for (off, c, o, f) in calls:
            a.append("zcall inflate @%d:%d %s %d" % (off, c, o, f))
            b.append("iscall @%d:%d %d %d" % (off, c, o, 2 if f == 1 else f))
        ctx.add("e%da" % k, a, kind="eqA", pair="e%db" % k, side="inflate")
        ctx.add("e%db" % k, b, kind="eqB")
        # one-call helpers against the Rust API
        k += 1
        ctx.add("h%d" % k, ["in %s" % hx(data), "mzcompress2 %d bound @" % level, "cvecrt %d 1 @" % (6 if level < 0 else level),
                            "tdefl_mem_to_heap %d @" % (4096 | 128), "tdefl_mem_to_mem %d 100000 @" % (4096 | 128),
                            "tdefl_fit %d @" % rng.choice([4096 | 128, 128, 4096 | 1, 0x80000 | 4096])],
                kind="helper", data=data, level=level)
        k += 1
        ctx.add("u%d" % k, ["in %s" % hx(comp if wb > 0 else zlib.compress(data)), "mzuncompress %d @" % (len(data) + rng.choice([0, 1, 100])),
                            "mzuncompress %d @" % max(0, len(data) - 1), "tinfl_mem_to_heap 1 @", "tinfl_mem_to_mem 1 %d @" % (len(data) + 3),
                            "dvec 1 - @"], kind="uhelper", data=data, mut=(wb > 0 and comp != zlib.compress(data, 6) and False))
    # misuse expressible in C: parameter values in -2..+2 around every legal bound
    mis = ["zmis nullstream", "zmis otherkind", "zmis alloc", "zmis destlen_null"]
    for method in (6, 7, 8, 9, 10):
        mis.append("zdinit 6 %d 15 9 0" % method)
    for ml in (-1, 0, 1, 2, 8, 9, 10, 11):
        mis.append("zdinit 6 8 15 %d 0" % ml)
    for w in (-17, -16, -15, -14, -1, 0, 1, 8, 13, 14, 15, 16, 17):
        mis.append("zdinit 6 8 %d 9 0" % w)
        mis.append("ziinit %d" % w)
    for lv in (-3, -2, -1, 0, 10, 11, 12, 255):
        mis.append("zdinit %d 8 15 9 %d" % (lv, rng.range(-1, 6)))
    ctx.add("mis", mis, kind="misuse")
    m2 = ["in 48656c6c6f", "zdinit 6 8 15 9 0"]
    for fl in (-2, -1, 0, 1, 2, 3, 4, 5, 6, 7, 100):
        m2.append("zcall deflate @ 100 %d" % fl)
    m2 += ["zdinit 6 8 15 9 0", "zcall deflate null 100 0", "zcall deflate @ null 0", "zcall deflate null null 4", "zend deflate", "zend deflate"]
    m2 += ["ziinit 15"]
    for fl in (-1, 0, 1, 2, 3, 4, 5, 9):
        m2.append("zcall inflate @ 100 %d" % fl)
    m2 += ["ziinit 15", "zcall inflate null 100 0", "zcall inflate @ null 0", "zend inflate", "zend inflate"]
    ctx.add("mis2", m2, kind="misuse2")
    ctx.add("sums", ["mzadler 1 null", "mzcrc 0 null", "mzbound 0", "mzbound 4294967295"], kind="sums")


C_FLUSH_OK = {0, 1, 2, 3, 4}


def c17_eval(ctx):
    fails = []
    cases = dict(ctx.cases)
    for cid, ops in ctx.cases:
        m = ctx.meta[cid]
        for tag, res in (("debug", ctx.impl), ("release", ctx.impl_rel)):
            if not res:
                continue
            bad = None
            for k, op in enumerate(ops, 1):
                line = res.get((cid, k), ("", "MISSING"))[1]
                if line == "MISSING" or "PANIC" in line:
                    bad = "op#%d `%s` crashed, faulted on a guard page or unwound (no result line)" % (k, op[:60])
                    break
            if bad:
                fails.append((cid, "%s: %s" % (tag, bad)))
                break
            if m["kind"] == "eqA":
                pb = m["pair"]
                pops = cases[pb]
                for k in range(3, len(ops) + 1):
                    fa = parse_fields(res.get((cid, k), ("", ""))[1])
                    fb = parse_fields(res.get((pb, k), ("", ""))[1])
                    w = ops[k - 1].split()
                    avail_in = None
                    # accounting of the C call
                    if not (fa.get("dni") == fa.get("dai") == fa.get("dti")) or not (fa.get("dno") == fa.get("dao") == fa.get("dto")):
                        bad = "op#%d pointer / avail / total deltas disagree: %s" % (k, str({x: fa.get(x) for x in ('dni', 'dai', 'dti', 'dno', 'dao', 'dto')}))
                    elif int(fa.get("dai", 0)) < 0 or int(fa.get("dao", 0)) < 0:
                        # (bytes between the reported count and avail_out may be used as scratch by the compressor when
                        #  it encodes straight into a large caller buffer; they lie inside the declared range. Anything
                        #  outside the declared range faults on the guard pages.)
                        bad = "op#%d moved beyond what was available: %s" % (k, str(fa)[:120])
                    elif fa.get("r") != fb.get("st") or fa.get("dai") != fb.get("in") or fa.get("dao") != fb.get("out") or fa.get("o") != fb.get("o"):
                        bad = "op#%d mz_%s differs from the Rust call on the same data: C r=%s in=%s out=%s o=%s / Rust st=%s in=%s out=%s o=%s" % (
                            k, m["side"], fa.get("r"), fa.get("dai"), fa.get("dao"), str(fa.get("o"))[:30], fb.get("st"), fb.get("in"), fb.get("out"), str(fb.get("o"))[:30])
                    elif m["side"] == "deflate" and fa.get("adler") != fb.get("ad"):
                        bad = "op#%d stream.adler %s differs from the compressor's running checksum %s" % (k, fa.get("adler"), fb.get("ad"))
                    if bad:
                        break
            elif m["kind"] == "helper":
                f1 = parse_fields(res.get((cid, 2), ("", ""))[1])
                f2 = parse_fields(res.get((cid, 3), ("", ""))[1])
                # (level -1 has no one-shot Rust counterpart: compress_to_vec takes a u8 level)
                if f1.get("r") != "0" or (m["level"] >= 0 and f1.get("full") != f2.get("full")):
                    bad = "mz_compress2(level %d) differs from compress_to_vec_zlib: r=%s" % (m["level"], f1.get("r"))
                f3 = parse_fields(res.get((cid, 4), ("", ""))[1])
                f4 = parse_fields(res.get((cid, 5), ("", ""))[1])
                if not bad and (f3["_"][:1] != ["ok"] or f3.get("full") != f4.get("full")):
                    bad = "tdefl_compress_mem_to_heap and tdefl_compress_mem_to_mem disagree"
                f5 = parse_fields(res.get((cid, 6), ("", ""))[1])
                if not bad and "n" in f5:
                    n0 = f5["n"]
                    exp = {"m1": "0:0:1" if n0 != "0" else "0:1:1", "eq": "%s:1:1" % n0, "p1": "%s:1:1" % n0, "p100": "%s:1:1" % n0}
                    for tg, e in exp.items():
                        got5 = f5.get(tg, "")
                        if tg == "m1":
                            # a failed call may have used the destination it was given (guard pages bound it): only the result counts
                            got5, e = got5.split(":")[0], e.split(":")[0]
                        if got5 != e:
                            bad = ("tdefl_compress_mem_to_mem into a destination of n%s bytes (n=%s from mem_to_heap) gave len:same:clean = %s, "
                                   "the Rust call gives %s" % ({"m1": "-1", "eq": "", "p1": "+1", "p100": "+100"}[tg], n0, f5.get(tg), e))
                            break
            elif m["kind"] == "uhelper":
                f1 = parse_fields(res.get((cid, 2), ("", ""))[1])
                f2 = parse_fields(res.get((cid, 3), ("", ""))[1])
                f3 = parse_fields(res.get((cid, 4), ("", ""))[1])
                f4 = parse_fields(res.get((cid, 5), ("", ""))[1])
                f5 = parse_fields(res.get((cid, 6), ("", ""))[1])
                exp = core_show(m["data"])
                if f5["_"][:1] == ["ok"]:
                    if f1.get("r") != "0" or f1.get("o") != exp:
                        bad = "mz_uncompress with enough room did not return the plaintext: %s" % str(f1)[:80]
                    elif len(m["data"]) > 0 and f2.get("r") == "0":
                        bad = "mz_uncompress succeeded with a destination one byte too small"
                    elif f3["_"][:1] != ["ok"] or f3.get("o") != exp:
                        bad = "tinfl_decompress_mem_to_heap differs from decompress_to_vec_zlib: %s" % str(f3)[:80]
                    elif f4["_"][:1] != ["ok"] or f4.get("o") != exp:
                        bad = "tinfl_decompress_mem_to_mem differs from decompress_to_vec_zlib: %s" % str(f4)[:80]
            elif m["kind"] == "misuse":
                for k, op in enumerate(ops, 1):
                    w = op.split()
                    line = res.get((cid, k), ("", ""))[1]
                    f = parse_fields(line)
                    if w[0] == "zmis":
                        vals = [int(x) for x in f["_"] if x.lstrip("-").isdigit()]
                        if w[1] == "nullstream" and any(v != -2 for v in vals):
                            bad = "null stream must give MZ_STREAM_ERROR everywhere: %s" % line
                        elif w[1] == "otherkind" and not (vals[0] == 0 and vals[1] < 0 and vals[2] < 0 and vals[3] == 1 and vals[4] == 0 and vals[5] == 0 and vals[6] < 0 and vals[7] < 0 and vals[8] == 0):
                            bad = "stream of the other kind not refused cleanly: %s" % line
                        elif w[1] == "alloc" and not (vals[0] == -10000 and vals[1] == 0 and vals[2] == -10000 and vals[3] == 0):
                            bad = "custom allocators must be refused with MZ_PARAM_ERROR and no state: %s" % line
                        elif w[1] == "destlen_null" and any(v != -10000 for v in vals):
                            bad = "null dest_len must be MZ_PARAM_ERROR: %s" % line
                    elif w[0] == "zdinit":
                        level, method, wbits, ml = int(w[1]), int(w[2]), int(w[3]), int(w[4])
                        legal = method == 8 and 1 <= ml <= 9 and abs(wbits) == 15
                        if legal and (f.get("r") != "0" or f.get("state") != "1"):
                            bad = "legal mz_deflateInit2(%s) refused: %s" % (op, line)
                        elif not legal and (f.get("r") != "-10000" or f.get("state") != "0"):
                            bad = "illegal mz_deflateInit2(%s) must be MZ_PARAM_ERROR with no state: %s" % (op, line)
                    elif w[0] == "ziinit":
                        legal = abs(int(w[1])) == 15
                        if legal != (f.get("r") == "0") or (not legal and (f.get("r") != "-10000" or f.get("state") != "0")):
                            bad = "mz_inflateInit2(%s): %s" % (w[1], line)
                    if bad:
                        break
            elif m["kind"] == "misuse2":
                kind = None
                for k, op in enumerate(ops, 1):
                    w = op.split()
                    line = res.get((cid, k), ("", ""))[1]
                    f = parse_fields(line)
                    if w[0] in ("zdinit", "ziinit"):
                        kind = w[0]
                        ended = False
                    elif w[0] == "zcall":
                        nullbuf = w[2] == "null" or w[3] == "null"
                        fl = int(w[4])
                        r = int(f.get("r", 99))
                        if ended and r != -2:
                            bad = "op#%d call on an ended stream must be MZ_STREAM_ERROR, got %d" % (k, r)
                        elif not ended and nullbuf and r != -2:
                            bad = "op#%d null buffer must be MZ_STREAM_ERROR, got %d" % (k, r)
                        elif not ended and not nullbuf and fl not in C_FLUSH_OK and r != -10000:
                            bad = "op#%d flush value %d must be MZ_PARAM_ERROR, got %d" % (k, fl, r)
                        elif r < 0 and (f.get("dai") != "0" or f.get("dao") != "0") and r in (-2, -10000):
                            bad = "op#%d error return moved the stream: %s" % (k, line[:80])
                        if r in (-10000,) and fl in C_FLUSH_OK and not nullbuf and not ended and w[1] == "deflate":
                            pass
                    elif w[0] == "zend":
                        ended = True
                    if bad:
                        break
            elif m["kind"] == "sums":
                f1 = res.get((cid, 1), ("", ""))[1]
                f2 = res.get((cid, 2), ("", ""))[1]
                if f1 != "1" or f2 != "0":
                    bad = "null-pointer checksum calls: %s %s" % (f1, f2)
            if bad:
                fails.append((cid, "%s: %s" % (tag, bad)))
                break
    return fails


def check_C17(rep, tier, seed, replay):
    ctx = Ctx(rep, tier, seed)
    proof_ok = core.prove(rep, "C17", ["C17_flush_mapping", "C17_stream_accounting", "C17_window_bits_check"])
    if replay:
        load_replay(ctx, replay)
    else:
        c17_cases(ctx)
    return standard_run(ctx, proof_ok, c17_eval, MODEL_OPS,
                        "inputs x (avail_in, avail_out) call schedules incl. 0 and 1 on mz_deflate / mz_inflate, compared call by call with "
                        "deflate() / inflate() on the same data (status, consumed, written, bytes, adler); pointer/avail/total deltas; every "
                        "caller buffer placed flush against PROT_NONE guard pages (a fault kills the harness and is reported); parameter "
                        "values around every legal bound, null stream/buffers/dest_len, other-kind streams, allocators, ended streams; "
                        "one-call helpers against the Rust vector functions")


# ===================================================================================== C20

FEATURE_SETS = [
    ("none", ["--no-default-features"]),
    ("with-alloc", ["--no-default-features", "--features", "with-alloc"]),
    ("std", ["--no-default-features", "--features", "std"]),
    ("std+with-alloc", ["--no-default-features", "--features", "std,with-alloc"]),
    ("serde", ["--no-default-features", "--features", "serde,with-alloc"]),
    ("block-boundary", ["--no-default-features", "--features", "block-boundary"]),
    ("simd", ["--no-default-features", "--features", "simd,with-alloc"]),
    ("all", ["--no-default-features", "--features", "with-alloc,std,serde,block-boundary,simd"]),
]


def check_C20(rep, tier, seed, replay):
    ctx = Ctx(rep, tier, seed)
    proof_ok = core.prove(rep, "C20", ["C20_no_unsafe_token_in_any_source_file", "C20_forbid_and_no_std_attributes_present"])
    fails = []
    results = {}
    tdir = os.path.join(core.BUILD, "cargo_c20")
    # the compiler's verdict per feature set: the crate itself is compiled with -F unsafe_code
    with core.Lock("cargo_c20"):
        for name, args in FEATURE_SETS:
            rc, out = core.run(["cargo", "rustc", "--offline", "--lib", "-p", "miniz_oxide"] + args + ["--", "-F", "unsafe_code"],
                               cwd=os.path.join(core.REPO, "miniz_oxide"), env={"CARGO_TARGET_DIR": tdir}, timeout=900)
            results[name] = rc
            if rc != 0:
                fails.append(("build_" + name, "feature set {%s}: the compiler rejects the crate under -F unsafe_code / fails to build: %s" % (
                    name, out[-300:].replace("\n", " | "))))
        lock_src = os.path.join(core.REPO, "Cargo.lock")
        lock_dst = os.path.join(core.V, "harness_c20/Cargo.lock")
        if not os.path.exists(lock_dst) and os.path.exists(lock_src):
            open(lock_dst, "wb").write(open(lock_src, "rb").read())
        for name, args in (("traits", []), ("no_std_no_alloc", ["--no-default-features", "--features", "core_only"])):
            rc, out = core.run(["cargo", "build", "--offline"] + args, cwd=os.path.join(core.V, "harness_c20"),
                               env={"CARGO_TARGET_DIR": tdir}, timeout=900)
            results[name] = rc
            if rc != 0:
                fails.append(("assert_" + name, "compile-time assertion crate (%s) does not build: %s" % (name, out[-400:].replace("\n", " | "))))
        # a #![no_std] staticlib with no #[global_allocator]: cannot be produced if the decompression side links liballoc
        nd = os.path.join(core.V, "harness_c20/noalloc")
        if not os.path.exists(os.path.join(nd, "Cargo.lock")) and os.path.exists(lock_src):
            open(os.path.join(nd, "Cargo.lock"), "wb").write(open(lock_src, "rb").read())
        for feats in ("", "block-boundary", "simd", "block-boundary,simd"):
            rc, out = core.run(["cargo", "build", "--offline", "--features", feats], cwd=nd, env={"CARGO_TARGET_DIR": tdir}, timeout=900)
            name = "noalloc_staticlib{%s}" % feats
            results[name] = rc
            if rc != 0:
                errs = " | ".join(l for l in out.splitlines() if l.startswith("error"))[:400]
                fails.append(("noalloc_" + (feats.replace(",", "_").replace("-", "_") or "none"),
                              "a no_std staticlib without a global allocator cannot be built against miniz_oxide{%s} with default "
                              "features off: %s" % (feats, errs)))
    rep.coverage["compiler_verdicts"] = results
    rep.coverage["evaluations"] = len(results)
    rep.coverage["distinct_nontrivial"] = len(results)
    rep.coverage["rule"] = ("kernel-evaluated scanner over every .rs file under miniz_oxide/src (regenerated into coq/gen/GenSources.v each run); "
                            "cargo rustc -F unsafe_code for the feature sets %s; a #![no_std] crate using the decoder without allocator; a no_std "
                            "staticlib with no global allocator linked against default-features-off miniz_oxide x {block-boundary, simd}; "
                            "Send+Sync+Clone+'static assertions on the public state types" % [n for n, _ in FEATURE_SETS])
    rep.add_samples([{"feature_set": n, "rc": results[n]} for n in list(results)[:4]])
    # correspondence: model verdict (scanner) and compiler verdict must agree
    if proof_ok and any(results[n] != 0 for n, _ in FEATURE_SETS):
        rep.tie_broken.append("scanner says clean but the compiler rejects a feature set: %s" % results)
    ctx.cases = [(c, ["# " + w]) for c, w in fails]
    return conclude(ctx, proof_ok, fails, [])
