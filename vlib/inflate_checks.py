"""Checks for the decoder-side properties: C03 C04 C05 C06 C07 C08 C13 C19 (and the decoder
half of C18).  Every evaluator works on the *implementation's* lines with the extracted
specification as oracle; the model lines are compared separately (correspondence)."""
import zlib

from . import core, streams
from .core import hx, parse_fields
from .props import (Ctx, build_all, conclude, correspondence, data_classes, execute, load_replay,
                    oracle_run)

NEG_FINAL = {"-1", "-2", "-3", "-4"}


def corpus(ctx, n_random, max_tokens=300, with_real=True):
    """valid streams: (name, stream, zlib?, plaintext)"""
    rng = ctx.rng
    out = []
    for name, s, p in streams.directed_streams(rng):
        out.append((name, s, False, p))
    for i in range(n_random):
        z = rng.chance(1, 3)
        s, p, d = streams.gen_stream(rng, max_tokens=rng.choice([10, 60, max_tokens]), zlib_wrap=z)
        out.append(("g%d" % i, s, z, p))
    if with_real:
        for i in range(max(4, n_random // 6)):
            data = data_classes(rng, rng.choice([0, 1, 3, 100, 1000, 40000, 70000]))
            lvl = rng.range(0, 9)
            if rng.chance(1, 2):
                out.append(("zl%d" % i, zlib.compress(data, lvl), True, data))
            else:
                co = zlib.compressobj(lvl, zlib.DEFLATED, -15, 9, rng.choice([0, 1, 2, 3, 4]))
                out.append(("zr%d" % i, co.compress(data) + co.flush(), False, data))
    return out


def sched_progress(rng):
    k = rng.below(6)
    if k == 0:
        return "100000:-"
    if k == 1:
        return "1:-"
    if k == 2:
        return "%d:%d" % (rng.range(1, 20), rng.choice([-1, 1, 2, 3, 258, 259, 300]))
    if k == 3:
        return ",".join("%d:%d" % (rng.range(0, 9), rng.choice([-1, 1, 2, 5, 260])) for _ in range(rng.range(2, 4))) + ",1:1"
    if k == 4:
        return "%d:-" % rng.choice([2, 3, 4, 5, 13, 14, 15])
    return "100000:%d" % rng.choice([1, 2, 3, 257, 258, 259, 260])


def sched_stream(rng, finish_ok=True):
    k = rng.below(5)
    fl = rng.choice([0, 0, 2] + ([4] if finish_ok else []))
    if k == 0:
        return "100000:100000:%d" % fl
    if k == 1:
        return "1:1:0"
    if k == 2:
        return "%d:%d:0" % (rng.range(1, 40), rng.range(1, 40))
    if k == 3:
        return ",".join("%d:%d:%d" % (rng.range(0, 9), rng.range(0, 9), rng.choice([0, 2]))
                        for _ in range(rng.range(2, 4))) + ",1:1:0"
    return "%d:%d:0" % (rng.choice([1, 3, 100000]), rng.choice([1, 7, 32768, 40000]))


def fmt_of(z):
    return 0 if z else 2


def oracle_streams(ctx, items, ring=None):
    """items: (key, zlib?, bytes). returns key -> parsed `sinflate` result"""
    cases = []
    for k, z, s in items:
        cases.append((k, ["sinflate %d %s" % (1 if z else 0, hx(s))]))
    res = oracle_run(ctx, cases, "orc")
    out = {}
    for k, z, s in items:
        line = res.get((k, 1), ("", "missing"))[1]
        f = parse_fields(line)
        f["verdict"] = f["_"][0] if f["_"] else "missing"
        if f["verdict"] == "err" and len(f["_"]) > 1:
            f["ekind"] = f["_"][1]
        out[k] = f
    return out


def standard_run(ctx, proof_ok, evaluator, model_ops, rule, ignore=()):
    rep = ctx.rep
    fails, ties = [], []
    if build_all(rep):
        execute(ctx)
        ties = correspondence(ctx, ops=model_ops, ignore=ignore)
        fails = evaluator(ctx)
    nops = sum(len(o) for _, o in ctx.cases)
    rep.coverage["evaluations"] = nops
    distinct = set()
    for _, ops in ctx.cases:
        for o in ops:
            if not o.startswith("in "):
                distinct.add(hash(o))
    rep.coverage["distinct_nontrivial"] = len(distinct)
    rep.coverage["rule"] = rule
    rep.add_samples([{"case": c, "ops": [o[:140] for o in ops[:4]]} for c, ops in ctx.cases[:3]])
    return conclude(ctx, proof_ok, fails, ties)


MODEL_INFLATE_OPS = {"drive", "dcall", "dvec", "dslices", "iscall", "isdrive"}

# ===================================================================================== C03


def c03_cases(ctx):
    rng = ctx.rng
    n = 60 if ctx.tier == "quick" else 600
    for name, s, z, p in corpus(ctx, n, 300 if ctx.tier == "quick" else 2000):
        L = len(p)
        fl = 1 if z else 0
        ops = ["in %s" % hx(s),
               "dvec %d - @" % fl,
               # one spare byte whenever the input is chunked (has-more-output overrides needs-more-input on a
               # full buffer, upstream issue 110); the exact size only for one-shot input
               ("drive @ flat %d %d %d 100000:-" % (L, rng.below(256), fl | 4 | rng.choice([0, 8])) if rng.chance(1, 3) else
                "drive @ flat %d %d %d %s" % (L + rng.choice([1, 300]), rng.below(256), fl | 4 | rng.choice([0, 8]), sched_progress(rng))),
               "drive @ ring 32768 %d %d %s" % (rng.below(256), fl, sched_progress(rng)),
               "dslices %d 0 %d @ %s" % (fl, L + 1, ",".join(str(rng.range(0, len(s))) for _ in range(rng.range(1, 4)))),
               "dslices %d 0 %d @ -" % (fl, L),
               "isnew %d" % fmt_of(z),
               "isdrive @ %s" % sched_stream(rng)]
        ctx.add("v_" + name, ops, kind="valid", stream=s, z=z, plain=p)


def c03_bulk(ctx):
    """implementation-only sweep: every directed stream under every single cut point, byte-wise feeding and small
    chunkings, flat and ring and inflate(); the oracle needs one specification run per stream"""
    rng = ctx.rng
    for name, s, p in streams.directed_streams(rng):
        L = len(p)
        fl = 0
        cuts = list(range(0, len(s) + 1)) if (len(s) <= 1300 or ctx.tier == "thorough") else sorted(set(rng.range(0, len(s)) for _ in range(60)))
        scheds = ["%d:-,100000:-" % c for c in cuts] + ["1:-", "2:-", "3:-", "5:3", "1:1"]
        ops = ["in %s" % hx(s)]
        for i, sc in enumerate(scheds):
            if i % 2 == 0:
                ops.append("drive @ flat %d 0 %d %s" % (L + 1, fl | 4, sc))
            else:
                ops.append("drive @ ring 32768 0 %d %s" % (fl, sc))
        ops += ["isnew 2", "isdrive @ 1:1:0", "isnew 2", "isdrive @ 1:100000:0", "isnew 2", "isdrive @ 100000:7:0",
                "dvec 0 - @", "dslices 0 0 %d @ %s" % (L + 1, ",".join(str(c) for c in cuts[1:40:3]) or "-")]
        ctx.add("b_" + name, ops, model=False, kind="valid", stream=s, z=False, plain=p)


def c03_eval(ctx):
    fails = []
    orc = oracle_streams(ctx, [(c, ctx.meta[c]["z"], ctx.meta[c]["stream"]) for c, _ in ctx.cases if ctx.meta[c].get("kind") == "valid"])
    for cid, ops in ctx.cases:
        m = ctx.meta[cid]
        if m.get("kind") != "valid":
            continue
        o = orc[cid]
        if o["verdict"] != "done":
            # the generator claims validity; the spec disagrees: that is a defect of generator or spec
            ctx.rep.tie_broken.append("spec rejects a grammar-generated stream %s: %s" % (cid, o["_"]))
            continue
        for tag, res in (("debug", ctx.impl), ("release", ctx.impl_rel)):
            if not res:
                continue
            for k, op in enumerate(ops, 1):
                if op.startswith("in ") or op.startswith("isnew"):
                    continue
                f = parse_fields(res.get((cid, k), ("", "MISSING"))[1])
                name = op.split()[0]
                bad = None
                if name == "dvec":
                    if f["_"][:1] != ["ok"] or f.get("len") != o["len"] or f.get("o") != o["o"]:
                        bad = "one-shot vector decode"
                elif name == "drive":
                    if f.get("st") != "0" or f.get("out") != o["len"] or f.get("o") != o["o"] or f.get("in") != o["n"]:
                        bad = "low-level decode (%s)" % op.split()[2]
                elif name == "dslices":
                    if f["_"][:1] != ["ok"] or f.get("len") != o["len"] or f.get("o") != o["o"]:
                        bad = "slice-iterator helper"
                elif name == "isdrive":
                    if f.get("st") != "1" or f.get("out") != o["len"] or f.get("o") != o["o"] or f.get("in") != o["n"]:
                        bad = "streaming inflate wrapper"
                if bad:
                    fails.append((cid, "%s build: valid stream not decoded to its plaintext by %s: got [%s], spec says len=%s n=%s o=%s" % (
                        tag, bad, str({x: f[x] for x in f if x in ('st', 'in', 'out', 'o', 'len', '_')})[:200], o["len"], o["n"], o["o"][:40])))
                    break
    return fails


def check_C03(rep, tier, seed, replay):
    ctx = Ctx(rep, tier, seed)
    proof_ok = core.prove(rep, "C03", PROP_THEOREMS["C03"])
    if replay:
        load_replay_valid(ctx, replay)
    else:
        c03_cases(ctx)
        c03_bulk(ctx)
    return standard_run(ctx, proof_ok, c03_eval, MODEL_INFLATE_OPS,
                        "grammar-generated valid streams (block mix, arbitrary complete code-length assignments to 15 bits, "
                        "HLIT/HDIST/HCLEN extremes, repeat codes crossing HLIT, len 258 / dist 32768, overlapping copies, empty stored "
                        "blocks at each bit alignment) + zlib/raw streams from an independent compressor, x 7 entry points x random "
                        "progress-making schedules; oracle = extracted RFC 1951/1950 spec; non-trivial = distinct operation line")


def load_replay_valid(ctx, path):
    """replay files carry the ops; the oracle re-derives plaintext from the `in` line"""
    load_replay(ctx, path)
    for cid, ops in ctx.cases:
        s = b""
        for o in ops:
            if o.startswith("in "):
                t = o.split()[1]
                s = bytes.fromhex(t) if t != "-" else b""
        z = any(op.startswith("dvec 1") or op.startswith("isnew 0") for op in ops)
        ctx.meta[cid].update(kind="valid", stream=s, z=z, plain=b"")


# ===================================================================================== C04

def c04_cases(ctx):
    rng = ctx.rng
    n = 80 if ctx.tier == "quick" else 800
    base = corpus(ctx, n // 2, 200)
    k = 0
    for name, s, z, p in base:
        for _ in range(3 if ctx.tier == "quick" else 6):
            k += 1
            ms, kind = streams.mutate(rng, s)
            fl = 1 if z else 0
            fill = rng.below(256)
            ops = ["in %s" % hx(ms),
                   "drive @ flat %d %d %d %s" % (len(p) + 600, rng.below(256), fl | 4, sched_progress(rng)),
                   "drive @ ring 32768 %d %d %s" % (fill, fl, sched_progress(rng)),
                   "dvec %d - @" % fl]
            ctx.add("m%d" % k, ops, kind="mut", stream=ms, z=z, mkind=kind, fill=fill)
        # proper prefixes of the valid stream: never "corrupt"
        cuts = list(range(len(s))) if len(s) <= 40 else sorted(set(rng.range(0, len(s) - 1) for _ in range(6)))
        for c in cuts[:40]:
            k += 1
            fl = 1 if z else 0
            ops = ["in %s" % hx(s[:c]),
                   "drive @ flat %d 0 %d %s" % (len(p) + 10, fl | 4, sched_progress(rng)),
                   "drive @ ring 32768 0 %d %s" % (fl, sched_progress(rng))]
            ctx.add("p%d" % k, ops, kind="prefix", stream=s[:c], z=z)
    for name, s in streams.targeted_invalid(rng):
        ops = ["in %s" % hx(s), "drive @ flat 1000 0 4 100000:-", "drive @ flat 1000 0 4 1:-",
               "drive @ ring 32768 0 0 3:-", "dvec 0 - @"]
        ctx.add("t_" + name, ops, kind="mut", stream=s, z=False, mkind="targeted", fill=0)
    for i in range(40 if ctx.tier == "quick" else 400):
        s = rng.bytes(rng.range(1, 60))
        ops = ["in %s" % hx(s), "drive @ flat 70000 0 4 100000:-", "drive @ ring 32768 0 0 7:-"]
        ctx.add("r%d" % i, ops, kind="mut", stream=s, z=False, mkind="random", fill=0)
    # all 65536 two-byte zlib headers in thorough, a slice of them in quick: handled in C09


def c04_eval(ctx):
    fails = []
    items = [(c, ctx.meta[c]["z"], ctx.meta[c]["stream"]) for c, _ in ctx.cases]
    orc = oracle_streams(ctx, items)
    # ring oracle: bytes before the start read the caller's buffer contents
    rcases = []
    for c, _ in ctx.cases:
        m = ctx.meta[c]
        if m["kind"] == "mut":
            rcases.append((c, ["sinflatering %d 32768 %d %s" % (1 if m["z"] else 0, m["fill"], hx(m["stream"]))]))
    rorc = oracle_run(ctx, rcases, "rorc")
    dist = {}
    for cid, ops in ctx.cases:
        m = ctx.meta[cid]
        o = orc[cid]
        dist[o["verdict"] + ":" + o.get("ekind", "")] = dist.get(o["verdict"] + ":" + o.get("ekind", ""), 0) + 1
        for tag, res in (("debug", ctx.impl), ("release", ctx.impl_rel)):
            if not res:
                continue
            for k, op in enumerate(ops, 1):
                if op.startswith("in "):
                    continue
                f = parse_fields(res.get((cid, k), ("", "MISSING"))[1])
                name = op.split()[0]
                bad = None
                ring = name == "drive" and op.split()[2] == "ring"
                spec = o
                if ring and m["kind"] == "mut":
                    spec = parse_fields(rorc.get((cid, 1), ("", "missing"))[1])
                    spec["verdict"] = spec["_"][0] if spec["_"] else "missing"
                if m["kind"] == "prefix":
                    if spec["verdict"] == "trunc" and f.get("st") not in ("-4", "1", "2"):
                        bad = "proper prefix of a valid stream ended with status %s (only needs-more-input / cannot-make-progress are allowed)" % f.get("st")
                    continue_ = True
                elif name == "drive":
                    accepted = f.get("st") == "0"
                    if accepted and spec["verdict"] != "done":
                        bad = "decoder reported Done on a stream the specification rejects (%s %s)" % (spec["verdict"], spec.get("ekind", ""))
                    elif accepted and (f.get("o") != spec.get("o") or f.get("in") != spec.get("n")):
                        bad = "Done with output/consumed %s/%s but the specification gives %s/%s" % (f.get("o"), f.get("in"), spec.get("o"), spec.get("n"))
                    elif not accepted and spec["verdict"] == "done" and f.get("why") != "outfull" and f.get("st") != "2":
                        bad = "valid stream (per specification) rejected with status %s" % f.get("st")
                elif name == "dvec":
                    accepted = f["_"][:1] == ["ok"]
                    if accepted and spec["verdict"] != "done":
                        bad = "vector decode succeeded on a stream the specification rejects (%s)" % spec["verdict"]
                    elif accepted and f.get("o") != spec.get("o"):
                        bad = "vector decode output differs from the specification"
                    elif not accepted and spec["verdict"] == "done":
                        bad = "valid stream rejected by vector decode: %s" % f
                if bad:
                    fails.append((cid, "%s build, %s [%s]: %s" % (tag, op.split()[0] + " " + (op.split()[2] if name == "drive" else ""), m.get("mkind", "prefix"), bad)))
                    break
    ctx.rep.coverage["spec_verdict_histogram"] = dist
    return fails


def check_C04(rep, tier, seed, replay):
    ctx = Ctx(rep, tier, seed)
    proof_ok = core.prove(rep, "C04", PROP_THEOREMS["C04"])
    if replay:
        load_replay(ctx, replay)
        for cid, ops in ctx.cases:
            s = b""
            for o in ops:
                if o.startswith("in "):
                    t = o.split()[1]
                    s = bytes.fromhex(t) if t != "-" else b""
            ctx.meta[cid].update(kind="mut", stream=s, z=any(" 1 " in o[:12] for o in ops if o.startswith("dvec")), mkind="replay", fill=0)
    else:
        c04_cases(ctx)
    return standard_run(ctx, proof_ok, c04_eval, MODEL_INFLATE_OPS,
                        "mutations of valid streams (bit flips, truncation, insertion, deletion, byte set, header flips), one targeted "
                        "stream per specification error kind, uniformly random bytes, every proper prefix of short valid streams; "
                        "flat / 32 KiB ring (ring oracle: bytes before the start are the buffer's fill) / vector entry points x random "
                        "schedules; accept <=> spec accepts, and equal output + consumed count on accept")


# ===================================================================================== C05

def c05_cases(ctx):
    rng = ctx.rng
    n = 150 if ctx.tier == "quick" else 1500
    base = corpus(ctx, 30, 100, with_real=False)
    lens = [0, 1, 2, 3, 5, 7, 100, 128, 255, 256, 257, 1024, 32767, 32768, 32769, 40000, 65536]
    for i in range(n):
        name, s, z, p = rng.choice(base)
        if rng.chance(1, 2):
            s, _ = streams.mutate(rng, s)
        if rng.chance(1, 6):
            s = rng.bytes(rng.range(0, 50))
        ops = ["in %s" % hx(s)]
        L = rng.choice(lens)
        ops.append("buf %d %d" % (L, rng.below(256)))
        off = 0
        hist = []
        for j in range(rng.range(2, 10)):
            r = rng.below(10)
            if r == 0:
                ops.append("dinit")
                hist.append(("dinit",))
                if rng.chance(1, 2):
                    off = 0
                continue
            if r == 1:
                L = rng.choice(lens)
                ops.append("buf %d %d" % (L, rng.below(256)))
                hist.append(("buf", L))
                continue
            nin = rng.choice([0, 1, 2, 3, 5, 14, 100, 100000])
            pos = rng.choice([0, 0, 1, L // 2, L, L + 1, max(0, L - 1), max(0, L - 3)])
            mx = rng.choice(["-", "-", "0", "1", "2", "3", "258", "259"])
            flags = rng.choice([0, 1, 2, 3, 4, 5, 6, 7, 8, 9, 64, 65, 72, 128, 129, 255, 0xFFFFFFFF, rng.below(256)])
            ops.append("dcall @%d:%d %d %s %d" % (off, nin, pos, mx, flags))
            hist.append(("dcall", off, nin, pos, mx, flags, L))
            # the harness does not report back to us: advance by a guess (any history is legal for C05)
            off += rng.choice([0, nin, nin // 2])
        ctx.add("h%d" % i, ops, kind="hist", hist=hist, slen=len(s))
    # every targeted invalid stream: fail once with generous buffers (errors inside the fast loop included),
    # then call again - must keep failing with nothing consumed or written
    for name, s in streams.targeted_invalid(rng):
        for (L, flags) in ((70000, 4), (32768, 0), (65536, 2)):
            ops = ["in %s" % hx(s), "buf %d 9" % L, "dcall @0:100000 0 - %d" % flags, "dcall @0:100000 0 - %d" % flags,
                   "dcall @5:100000 1 - %d" % flags, "dcall - 0 3 %d" % flags]
            ctx.add("f_%s_%d" % (name, L), ops, kind="hist", hist=[], slen=len(s))
    # the fast loop's worst case: exactly k bytes of room left, literal + length-258 match next
    for name, s, p in streams.directed_streams(rng):
        if not name.startswith("fast_lit_258"):
            continue
        for room in range(250, 275):
            for b0 in (0, 10, 40, 41, 100):
                L = b0 + room
                ops = ["in %s" % hx(s), "buf %d 9" % L, "dcall @0:100000 0 - 4", "dnew", "buf %d 9" % (L + 300), "dcall @0:100000 0 %d 4" % L,
                       "dnew", "buf 1024 9", "dcall @0:100000 %d %d 0" % (b0, room)]
                ctx.add("q_%s_%d_%d" % (name, room, b0), ops, model=(room % 6 == 0 and b0 == 10), kind="hist", hist=[], slen=len(s))
    # starved decoding of long Huffman codes: every directed stream with 11-15 bit codes (and, thorough, all of them)
    # fed one and two bytes per call, flat and ring: the byte-at-a-time lookup tier must neither panic nor fail
    for name, s, p in streams.directed_streams(rng):
        if not (name.startswith("deep15") or name.startswith("hlit286") or ctx.tier == "thorough"):
            continue
        L = len(p) + 10
        ops = ["in %s" % hx(s), "drive @ flat %d 9 6 1:-" % L, "drive @ ring 32768 9 2 1:-", "drive @ flat %d 9 6 2:-" % L,
               "drive @ flat %d 9 6 1:1" % L, "drive @ ring 32768 9 2 3:7"]
        ctx.add("s_%s" % name, ops, model=False, kind="hist", hist=[], slen=len(s))
    # wrappers never panic either
    for i in range(40 if ctx.tier == "quick" else 400):
        s = rng.bytes(rng.range(0, 40)) if rng.chance(1, 2) else streams.mutate(rng, rng.choice(base)[1])[0]
        ops = ["in %s" % hx(s), "dvec %d %s @" % (rng.below(2), rng.choice(["-", "0", "1", "10"])),
               "isnew %d" % rng.below(3)]
        for j in range(rng.range(1, 6)):
            ops.append("iscall @%d:%d %d %d" % (rng.range(0, 10), rng.choice([0, 1, 5, 1000]), rng.choice([0, 1, 3, 50000]), rng.choice([0, 1, 2, 3, 4, 5])))
        ops.append("dslices %d %d %d @ %s" % (rng.below(2), rng.below(2), rng.choice([0, 1, 100]), rng.choice(["-", "1", "1,2,3"])))
        ctx.add("w%d" % i, ops, kind="wrap")


def geometry_valid(L, pos, flags):
    mask = (1 << 64) - 1 if flags & 4 else max(L - 1, 0) if L > 0 else 0
    if not flags & 4:
        mask = L - 1 if L > 0 else 0
    return (((mask + 1) & ((1 << 64) - 1)) & mask) == 0 and pos <= L


def c05_eval(ctx):
    fails = []
    for cid, ops in ctx.cases:
        m = ctx.meta[cid]
        for tag, res in (("debug", ctx.impl), ("release", ctx.impl_rel)):
            if not res:
                continue
            failed = False
            L = None
            bad = None
            for k, op in enumerate(ops, 1):
                line = res.get((cid, k), ("", "MISSING"))[1]
                w = op.split()
                if "PANIC" in line or line == "MISSING":
                    bad = "op#%d `%s` panicked / did not return" % (k, op[:80])
                    break
                if w[0] == "buf":
                    L = int(w[1])
                elif w[0] in ("dinit", "dnew"):
                    failed = False
                elif w[0] == "dcall":
                    f = parse_fields(line)
                    if w[1] == "-":
                        offered = 0
                    elif w[1] == "@":
                        offered = m["slen"]
                    else:
                        off, nin = [int(x) for x in w[1][1:].split(":")]
                        offered = max(0, min(off + nin, m["slen"]) - min(off, m["slen"]))
                    pos = int(w[2])
                    mx = None if w[3] == "-" else int(w[3])
                    flags = int(w[4])
                    ic, oc, st = int(f["in"]), int(f["out"]), f["st"]
                    space = max(0, L - pos) if mx is None else max(0, min(mx, L - pos))
                    if ic > offered:
                        bad = "op#%d consumed %d of %d offered bytes" % (k, ic, offered)
                    elif oc > space:
                        bad = "op#%d wrote %d bytes into %d available" % (k, oc, space)
                    elif f.get("outside") != "same":
                        bad = "op#%d changed bytes outside the granted window" % k
                    elif not geometry_valid(L, pos, flags):
                        if st != "-3" or ic or oc:
                            bad = "op#%d unusable geometry (len %d pos %d flags %d) not refused as parameter error: %s" % (k, L, pos, flags, line[:60])
                    elif st == "-3":
                        bad = "op#%d parameter error on usable geometry (len %d pos %d flags %d)" % (k, L, pos, flags)
                    elif failed and (st != "-1" or ic or oc):
                        bad = "op#%d after a failed stream returned st=%s in=%d out=%d (must keep failing until re-initialised)" % (k, st, ic, oc)
                    if st == "-1" and geometry_valid(L, pos, flags):
                        failed = True
                    if bad:
                        break
                elif w[0] == "drive" and cid.startswith("s_"):
                    f = parse_fields(line)
                    if f.get("st") != "0":
                        bad = "op#%d `%s`: a valid stream fed in small pieces ended with status %s" % (k, op, f.get("st"))
                        break
                elif w[0] == "iscall":
                    f = parse_fields(line)
                    nin = int(w[1][1:].split(":")[1]) if w[1].startswith("@") else 0
                    if int(f["in"]) > nin or int(f["out"]) > int(w[2]):
                        bad = "op#%d inflate() counts exceed the offered buffers: %s" % (k, line[:80])
                        break
            if bad:
                fails.append((cid, "%s build: %s" % (tag, bad)))
                break
    return fails


def check_C05(rep, tier, seed, replay):
    ctx = Ctx(rep, tier, seed)
    proof_ok = core.prove(rep, "C05", PROP_THEOREMS["C05"])
    if replay:
        load_replay(ctx, replay)
        for cid, ops in ctx.cases:
            slen = 0
            for o in ops:
                if o.startswith("in "):
                    slen = len(o.split()[1]) // 2 if o.split()[1] != "-" else 0
            ctx.meta[cid].update(kind="hist", slen=slen)
    else:
        c05_cases(ctx)
    return standard_run(ctx, proof_ok, c05_eval, MODEL_INFLATE_OPS,
                        "call histories on one decoder object: (valid | mutated | random) bytes x flag words (incl. all-ones) x output "
                        "lengths {0,1,2,3,5,7,100,2^k,2^k+-1,40000} x out_pos in {0,1,len/2,len-3,len-1,len,len+1} x budgets "
                        "{0,1,2,3,258,259,inf} x re-init / buffer swaps in between, continuing after every status; wrappers with "
                        "arbitrary arguments; debug and release builds; oracle: no panic, counts within bounds, geometry rule, "
                        "sticky failure, untouched bytes")


# ===================================================================================== C06

def c06_cases(ctx):
    rng = ctx.rng
    n = 40 if ctx.tier == "quick" else 400
    k = 0
    for name, s, z, p in corpus(ctx, n, 200):
        for t in range(2 if ctx.tier == "quick" else 4):
            k += 1
            tk = rng.below(5)
            tl = rng.choice([0, 1, 2, 4, 8, 64])
            if tk == 0:
                trail = bytes(tl)
            elif tk == 1:
                trail = b"\xff" * tl
            elif tk == 2:
                trail = streams.gen_stream(rng, 20, zlib_wrap=z)[0][:64]
            else:
                trail = rng.bytes(tl)
            st = s + trail
            # raw streams also with COMPUTE_ADLER32 / IGNORE_ADLER32 / STOP_ON_BLOCK_BOUNDARY-free combinations
            fl = 1 if z else rng.choice([0, 0, 8, 64, 72])
            near = max(0, len(s) - rng.range(0, 6))
            ops = ["in %s" % hx(st),
                   # (one spare output byte whenever input is chunked: upstream issue 110)
                   ("drive @ flat %d 0 %d 100000:-" % (len(p), fl | 4) if rng.chance(1, 3) else
                    "drive @ flat %d 0 %d %s" % (len(p) + rng.choice([1, 9]), fl | 4, rng.choice(["100000:-", "1:-", "%d:-,1:-" % near, "3:2"]))),
                   "drive @ ring 32768 0 %d %s" % (fl, rng.choice(["100000:-", "1:-", "%d:-,1:-" % near, "5:7"])),
                   "isnew %d" % fmt_of(z),
                   "isdrive @ %s" % rng.choice(["100000:100000:0", "1:100000:0", "%d:50000:0,1:50000:0" % near, "3:5:0", "100000:100000:4"]),
                   "ziinit %d" % (15 if z else -15),
                   "zcall inflate @ %d %d" % (len(p) + 10, rng.choice([0, 2, 4])),
                   "tinfl_new",
                   "tinfl_call @ %d 0 %d" % (max(1, 1 << (len(p) + 1).bit_length()), fl | 4),
                   # output window filling within the last compressed bytes, then more calls (look-ahead carried over)
                   "drive @ ring 32768 0 %d %s" % (fl, "%d:%d,100000:-" % (near, max(1, len(p) - rng.range(0, 3)))),
                   "drive @ flat %d 0 %d 100000:%d,100000:-" % (len(p) + 1, fl | 4, max(1, len(p) - rng.range(0, 3)))]
            # the C stream over several calls: a first call without Finish, then Finish with too little room (recoverable
            # buffer error with progress), then more: totals and pointers must keep following what was really consumed
            ops += ["ziinit %d" % (15 if z else -15),
                    # (Finish promises that all input is there: a Finish item offers everything that is left)
                    "zdrive @ %s" % ",".join("%d:%d:%d" % (100000 if fl_ == 4 else rng.choice([1, 7, 100000]),
                                                          rng.choice([1, 5, max(1, len(p) // 3), 100000]), fl_)
                                             for fl_ in ([0] + [rng.choice([0, 2, 4, 4]) for _ in range(rng.range(1, 3))]))]
            ctx.add("e%d" % k, ops, kind="eos", stream=s, z=z, full=st, plain=p)


def c06_eval(ctx):
    fails = []
    orc = oracle_streams(ctx, [(c, ctx.meta[c]["z"], ctx.meta[c]["full"]) for c, _ in ctx.cases])
    for cid, ops in ctx.cases:
        m = ctx.meta[cid]
        o = orc[cid]
        if o["verdict"] != "done":
            ctx.rep.tie_broken.append("spec does not accept stream+trailer %s: %s" % (cid, o["_"]))
            continue
        n = o["n"]
        if int(n) != len(m["stream"]):
            ctx.rep.tie_broken.append("generator and spec disagree on encoded length in %s: %s vs %d" % (cid, n, len(m["stream"])))
        for tag, res in (("debug", ctx.impl), ("release", ctx.impl_rel)):
            if not res:
                continue
            for k, op in enumerate(ops, 1):
                w = op.split()
                f = parse_fields(res.get((cid, k), ("", "MISSING"))[1])
                got = None
                if w[0] == "drive" and f.get("st") == "0":
                    got = f.get("in")
                elif w[0] == "drive":
                    fails.append((cid, "%s: valid stream followed by %d unrelated bytes not decoded to Done by `%s`: %s" % (tag, len(m["full"]) - len(m["stream"]), op[:40], str(f)[:100])))
                    break
                elif w[0] == "isdrive":
                    if f.get("st") != "1":
                        fails.append((cid, "%s: streaming wrapper did not reach stream end: %s" % (tag, str(f)[:120])))
                        break
                    got = f.get("in")
                elif w[0] == "zcall":
                    if f.get("r") != "1":
                        fails.append((cid, "%s: mz_inflate did not reach stream end in one call with ample space: %s" % (tag, str(f)[:120])))
                        break
                    got = f.get("dti")
                    if f.get("dni") != got or f.get("dai") != got:
                        fails.append((cid, "%s: mz_inflate pointer/avail/total accounting disagree: %s" % (tag, str(f)[:120])))
                        break
                elif w[0] == "zdrive":
                    if f.get("r") != "1" or f.get("o") != core_show(m["plain"]):
                        fails.append((cid, "%s: mz_inflate driven by `%s` did not deliver the plaintext and stream end: r=%s to=%s calls=%s" % (
                            tag, op[:60], f.get("r"), f.get("to"), f.get("calls"))))
                        break
                    got = f.get("ti")
                elif w[0] == "tinfl_call":
                    if f.get("r") != "0":
                        fails.append((cid, "%s: tinfl_decompress did not finish: %s" % (tag, str(f)[:120])))
                        break
                    got = f.get("in")
                if got is not None and got != n:
                    fails.append((cid, "%s: `%s` reports %s bytes consumed at end of stream, exact encoded length is %s (trailing %d bytes)" % (
                        tag, w[0], got, n, len(m["full"]) - len(m["stream"]))))
                    break
    return fails


def check_C06(rep, tier, seed, replay):
    ctx = Ctx(rep, tier, seed)
    proof_ok = core.prove(rep, "C06", PROP_THEOREMS["C06"])
    if replay:
        load_replay(ctx, replay)
        for cid, ops in ctx.cases:
            st = b""
            for o in ops:
                if o.startswith("in "):
                    st = bytes.fromhex(o.split()[1])
            ctx.meta[cid].update(kind="eos", stream=st, z=any(o.startswith("isnew 0") for o in ops), full=st)
    else:
        c06_cases(ctx)
    return standard_run(ctx, proof_ok, c06_eval, MODEL_INFLATE_OPS,
                        "valid streams (final block ending at every bit position occurs in the grammar corpus) x trailing strings of "
                        "0..64 bytes (zeros, 0xFF, a second valid stream, random) x chunkings (one shot, one byte, cut near the end) x "
                        "{flat, 32 KiB ring, inflate(), mz_inflate (total_in/next_in/avail_in), tinfl_decompress}; oracle: spec's exact "
                        "encoded length")


# ===================================================================================== C07

def c07_cases(ctx):
    rng = ctx.rng
    n = 10 if ctx.tier == "quick" else 300
    base = corpus(ctx, n, 150)
    k = 0
    for name, s, z, p in base:
        mutated = rng.chance(1, 3)
        if mutated:
            s, _ = streams.mutate(rng, s)
        fl = 1 if z else 0
        L = len(p) + 400
        scheds = ["100000:-", "1:-"]
        if len(s) <= 64:
            scheds += ["%d:-,100000:-" % c for c in range(0, len(s) + 1)]
            if ctx.tier == "thorough" and len(s) <= 24:
                scheds += ["%d:-,%d:-,100000:-" % (a, b) for a in range(len(s)) for b in range(len(s) - a)]
        else:
            scheds += ["%d:-,100000:-" % rng.range(0, len(s)) for _ in range(8)]
        scheds += ["100000:%d" % b for b in (1, 2, 3, 4, 5, 7, 257, 258, 259, 260)]
        scheds += [sched_progress(rng) for _ in range(6)]
        scheds += ["%d:%d" % (rng.range(1, 5), rng.range(1, 5)), "2:0,1:1", "0:-,1:-"]
        k += 1
        ops = ["in %s" % hx(s)]
        for sc in scheds:
            ops.append("drive @ flat %d 7 %d %s" % (L, fl | 4, sc))
        ctx.add("f%d" % k, ops, kind="same", mode="flat")
        ops = ["in %s" % hx(s)]
        for sc in scheds:
            # ring decoding of streams longer than the ring needs the output drained, which drive does
            ops.append("drive @ ring %d 7 %d %s" % (32768, fl, sc))
        ctx.add("r%d" % k, ops, kind="same", mode="ring")
        # the streaming wrapper is compared on valid streams only: on corrupt input it returns the data
        # error before handing over window bytes still pending (inherited from miniz, "oh well" there),
        # and the property's any-input clause is about the low-level decoder's two buffer modes
        if not mutated:
            ops = ["in %s" % hx(s), ]
            for sc in ["100000:100000:0", "1:100000:0", "100000:1:0", "1:1:0", "3:7:0", "7:3:2"]:
                ops += ["isnew %d" % fmt_of(z), "isdrive @ %s" % sc]
            ctx.add("s%d" % k, ops, kind="same", mode="stream")


def c07_bulk(ctx):
    rng = ctx.rng
    k = 0
    pool = [(n, s, False, p) for n, s, p in streams.directed_streams(rng)]
    pool += [(n, s, False, b"") for n, s in streams.targeted_invalid(rng)]
    for name, s, z, p in pool:
        if len(s) > 1300 and ctx.tier == "quick":
            continue
        k += 1
        L = len(p) + 400
        cutpts = range(0, len(s) + 1) if len(s) <= 1500 else sorted(set([0, len(s)] + list(range(max(0, len(s) - 80), len(s) + 1)) +
                                                                        [rng.range(0, len(s)) for _ in range(40)]))
        scheds = ["100000:-", "1:-", "2:-"] + ["%d:-,100000:-" % c for c in cutpts]
        scheds += ["100000:%d" % b for b in (1, 2, 3, 4, 5, 7, 257, 258, 259, 260)] + ["1:1", "3:2"]
        ops = ["in %s" % hx(s)] + ["drive @ flat %d 7 4 %s" % (L, sc) for sc in scheds]
        ctx.add("bf%d" % k, ops, model=False, kind="same", mode="flat")
        ops = ["in %s" % hx(s)] + ["drive @ ring 32768 7 0 %s" % sc for sc in scheds]
        ctx.add("br%d" % k, ops, model=False, kind="same", mode="ring", xmode=("bf%d" % k) if p else None)
        if name.startswith("ring"):
            import re as _re
            R = int((_re.search(r"_L(\d+)", name) or _re.match(r"ring(\d+)", name)).group(1))
            rs = ["100000:-", "1:-", "100000:1", "100000:2", "100000:3", "100000:5", "7:11"] + ["100000:%d" % b for b in range(1, 40)]
            ops = ["in %s" % hx(s)] + ["drive @ ring %d 7 0 %s" % (R, sc) for sc in rs]
            ctx.add("bq%d" % k, ops, model=(ctx.tier == "thorough"), kind="same", mode="ring", xmode="bf%d" % k)
        if name.startswith("match_then_stored") or name.startswith("fast_lit_258") or name.startswith("short_stored"):
            # output-full suspension at every budget, then the rest of the input in 1-, 2- or 3-byte pieces
            ops = ["in %s" % hx(s)]
            for b in range(1, min(len(p), 560)):
                ops.append("drive @ flat %d 7 4 100000:%d|%d:-" % (L, b, 1 + b % 3))
            ctx.add("bs%d" % k, ops, model=False, kind="same", mode="flat", xmode="bf%d" % k)
            ops = ["in %s" % hx(s)]
            for b in range(1, min(len(p), 560), 3):
                ops.append("drive @ ring 32768 7 0 100000:%d|%d:-" % (b, 1 + b % 3))
            ctx.add("bt%d" % k, ops, model=False, kind="same", mode="ring", xmode="bf%d" % k)


def c07_eval(ctx):
    fails = []
    refs = {}
    for cid, ops in ctx.cases:
        for tag, res in (("debug", ctx.impl), ("release", ctx.impl_rel)):
            if not res:
                continue
            ref = None
            xm = ctx.meta[cid].get("xmode")
            if xm and (xm, tag) in refs and refs[(xm, tag)][0][0] == "0":
                # a stream that decodes to Done in the flat reference case is valid: results agree across modes too
                ref = refs[(xm, tag)]
            for k, op in enumerate(ops, 1):
                w = op.split()
                if w[0] not in ("drive", "isdrive"):
                    continue
                f = parse_fields(res.get((cid, k), ("", "MISSING"))[1])
                if f.get("why") not in ("end",):
                    # driver gave up (stall on a budget-0 schedule etc.): not a completed execution
                    if f.get("why") in ("stall", "cap", "outfull"):
                        # a stalled schedule is only acceptable if it offered no progress possibility
                        continue
                if "PANIC" in res.get((cid, k), ("", "MISSING"))[1]:
                    fails.append((cid, "%s: `%s` panicked" % (tag, op[:70])))
                    break
                obs = (f.get("st"), f.get("in"), f.get("out"), f.get("o"))
                if ref is None:
                    ref = (obs, op)
                    refs[(cid, tag)] = ref
                elif obs != ref[0]:
                    fails.append((cid, "%s: same input, same buffer mode, different schedules give different results: `%s` -> %s but `%s` -> %s" % (
                        tag, ref[1][-40:], ref[0], op[-40:], obs)))
                    break
    return fails


def check_C07(rep, tier, seed, replay):
    ctx = Ctx(rep, tier, seed)
    proof_ok = core.prove(rep, "C07", PROP_THEOREMS["C07"])
    if replay:
        load_replay(ctx, replay)
    else:
        c07_cases(ctx)
        c07_bulk(ctx)
    return standard_run(ctx, proof_ok, c07_eval, MODEL_INFLATE_OPS,
                        "streams (valid and mutated) x {every single cut point for streams <= 64 bytes (pairs of cuts in thorough), "
                        "one-byte feeding, per-call budgets 1..5,7,257..260, random partitions} within flat / 32 KiB ring / inflate(); "
                        "oracle: all completed executions of one input in one mode agree on (status, consumed, produced, bytes)")


# ===================================================================================== C08

def c08_cases(ctx):
    rng = ctx.rng
    n = 40 if ctx.tier == "quick" else 300
    k = 0
    for name, s, z, p in corpus(ctx, n, 150):
        fl = 1 if z else 0
        k += 1
        L = len(p)
        # (out_pos, budget, len) grids around the natural size; sentinel fill so that stray writes show
        ops = ["in %s" % hx(s)]
        for j in range(6):
            blen = rng.choice([L, L + 1, L + 3, max(0, L - 1), L + 300, 2 * L + 7])
            pos = rng.choice([0, 0, 1, 3, blen // 2])
            if pos > blen:
                pos = blen
            bud = rng.choice(["-", "1", "2", "3", "4", "5", "6", "7", "258", "259", str(max(1, L // 2)), str(max(0, L - 1)), str(max(0, L - 2)), str(max(0, L - 3))])
            ops += ["dnew", "buf %d %d" % (blen, 0xA5), "dcall @ %d %s %d" % (pos, bud, fl | 4)]
            # continue the same stream after a limited call, with the remaining input unknown to us: restart instead
        ctx.add("w%d" % k, ops, kind="win", plain=p)
        lim_ops = ["in %s" % hx(s)]
        for lim in sorted(set([0, max(0, L - 1), L, L + 1, 1 << 40])):
            lim_ops.append("dvec %d %d @" % (fl, lim))
        ctx.add("l%d" % k, lim_ops, kind="limit", plain=p, z=z, stream=s)
        # ring: budget-limited calls in a ring, matches crossing the granted window's end
        rops = ["in %s" % hx(s), "drive @ ring 32768 165 %d 100000:%d" % (fl, rng.choice([1, 2, 3, 5, 259])),
                "drive @ flat %d 165 %d 100000:%d,100000:%d" % (L + 2, fl | 4, rng.range(1, 7), rng.range(1, 300))]
        ctx.add("g%d" % k, rops, kind="drv", plain=p)


def c08_bulk(ctx):
    rng = ctx.rng
    for name, s, p in streams.directed_streams(rng):
        L = len(p)
        if L > 1500 and ctx.tier == "quick":
            continue
        ops = ["in %s" % hx(s)]
        step = 1 if L <= 700 else 3
        for b in list(range(0, min(L, 700) + 2, step)) + [L - 2, L - 1, L, L + 1]:
            if b < 0:
                continue
            pos = (b * 7) % 5
            ops += ["dnew", "buf %d 165" % (L + 9), "dcall @ %d %d 4" % (pos, b)]
        ctx.add("s_" + name, ops, model=False, kind="win", plain=p, pos_shift=True)
        lim_ops = ["in %s" % hx(s)]
        for lim in sorted(set([0, max(0, L - 1), L, L + 1])):
            lim_ops.append("dvec 0 %d @" % lim)
        lim_ops.append("dslices 0 0 %d @ -" % L)
        ctx.add("sl_" + name, lim_ops, model=False, kind="limit", plain=p, z=False, stream=s)


def c08_eval(ctx):
    fails = []
    orc = oracle_streams(ctx, [(c, ctx.meta[c]["z"], ctx.meta[c]["stream"]) for c, _ in ctx.cases if ctx.meta[c]["kind"] == "limit"])
    for cid, ops in ctx.cases:
        m = ctx.meta[cid]
        for tag, res in (("debug", ctx.impl), ("release", ctx.impl_rel)):
            if not res:
                continue
            blen = 0
            for k, op in enumerate(ops, 1):
                w = op.split()
                line = res.get((cid, k), ("", "MISSING"))[1]
                f = parse_fields(line)
                bad = None
                if w[0] == "buf":
                    blen = int(w[1])
                elif w[0] == "dcall":
                    pos = int(w[2])
                    bud = None if w[3] == "-" else int(w[3])
                    space = blen - pos if bud is None else min(bud, blen - pos)
                    if "out" not in f or "in" not in f:
                        fails.append((cid, "%s build, op#%d `%s`: no result (panic): %s" % (tag, k, op[:60], line[:40])))
                        break
                    oc, ic, st = int(f["out"]), int(f["in"]), f["st"]
                    offered = len(bytes.fromhex(ops[0].split()[1])) if ops[0].split()[1] != "-" else 0
                    if f.get("outside") != "same":
                        bad = "bytes outside [out_pos, out_pos+written) changed"
                    elif oc > space:
                        bad = "wrote %d bytes, granted %d" % (oc, space)
                    elif st == "2" and oc != space:
                        bad = "has-more-output reported with %d of %d granted bytes written" % (oc, space)
                    elif st == "1" and ic != offered:
                        bad = "needs-more-input reported with %d of %d offered bytes consumed" % (ic, offered)
                    elif f.get("o") != core_show(m["plain"][:oc]):
                        bad = "written bytes are not the plaintext prefix"
                elif w[0] == "dvec":
                    L = len(m["plain"])
                    lim = int(w[2])
                    o = orc[cid]
                    if o["verdict"] != "done" or int(o["len"]) != L:
                        ctx.rep.tie_broken.append("spec/generator disagree on %s" % cid)
                        break
                    if lim >= L:
                        if f["_"][:1] != ["ok"] or f.get("o") != o["o"]:
                            bad = "limit %d >= true size %d but the vector function did not succeed with the plaintext: %s" % (lim, L, line[:80])
                    else:
                        if f["_"][:1] != ["err"] or f.get("st") != "2":
                            bad = "limit %d < true size %d but result is %s" % (lim, L, line[:80])
                        elif int(f["len"]) > lim:
                            bad = "returned %s bytes for limit %d" % (f["len"], lim)
                        elif f.get("o") != core_show(m["plain"][:int(f["len"])]):
                            bad = "failed vector decode does not carry the decoded prefix"
                elif w[0] == "dslices":
                    if f["_"][:1] != ["ok"] or f.get("o") != core_show(m["plain"]):
                        bad = "single slice into an output of exactly the true size did not succeed: %s" % line[:80]
                elif w[0] == "drive":
                    if f.get("st") != "0" or f.get("o") != core_show(m["plain"]):
                        bad = "budget-limited driver loop did not produce the plaintext: %s" % str(f)[:100]
                if bad:
                    fails.append((cid, "%s build, op#%d `%s`: %s" % (tag, k, op[:60], bad)))
                    break
    return fails


def core_show(b):
    if len(b) <= 48:
        return hx(b)
    h = 0xcbf29ce484222325
    for x in b:
        h ^= x
        h = (h * 0x100000001b3) & 0xFFFFFFFFFFFFFFFF
    return "#%d:%016x" % (len(b), h)


def check_C08(rep, tier, seed, replay):
    ctx = Ctx(rep, tier, seed)
    proof_ok = core.prove(rep, "C08", PROP_THEOREMS["C08"])
    if replay:
        load_replay(ctx, replay)
        for cid, ops in ctx.cases:
            ctx.meta[cid].update(kind="win", plain=b"")
    else:
        c08_cases(ctx)
        c08_bulk(ctx)
    return standard_run(ctx, proof_ok, c08_eval, MODEL_INFLATE_OPS,
                        "valid streams x (out_pos, per-call budget, slice length) grids around the true size and around match ends "
                        "(budgets 1..7, 258, 259, n-1..n-3), sentinel-filled buffers compared byte for byte outside the window; "
                        "limits {0, n-1, n, n+1, 2^40} for the vector functions; budget-limited driver loops in flat and ring mode")


# ===================================================================================== C13

def c13_cases(ctx):
    rng = ctx.rng
    n = 30 if ctx.tier == "quick" else 200
    base = corpus(ctx, n, 100)
    k = 0
    depth = 3       # 64^3 sequences when exhaustive (thorough); depth 4 would be 16.7 million per stream
    alpha_in = [0, 1, 2, 100000]
    alpha_out = [0, 1, 3, 100000]
    alpha_fl = [0, 2, 4, 3]
    # exhaustive call sequences on three short streams
    shorts = [b for b in base if 4 <= len(b[1]) <= 40][:3]
    seqs = []

    def rec(prefix):
        if len(prefix) == depth:
            seqs.append(list(prefix))
            return
        for a in alpha_in:
            for o in alpha_out:
                for f in alpha_fl:
                    rec(prefix + [(a, o, f)])
    if ctx.tier == "thorough":
        rec([])
        for _ in range(20000):
            seqs.append([(rng.choice(alpha_in), rng.choice(alpha_out), rng.choice(alpha_fl)) for _ in range(rng.range(4, 7))])
        shorts = shorts[:1]
    else:
        # quick: random sequences of up to three calls
        for _ in range(1500):
            seqs.append([(rng.choice(alpha_in), rng.choice(alpha_out), rng.choice(alpha_fl)) for _ in range(rng.range(1, 4))])
    for name, s, z, p in shorts:
        for variant in ("valid", "trunc", "corrupt", "trail"):
            if variant == "valid":
                st = s
            elif variant == "trunc":
                st = s[:max(1, len(s) - 3)]
            elif variant == "corrupt":
                st = bytes([s[0] | 7]) + s[1:] if not z else s[:2] + bytes([s[2] | 6]) + s[3:]
            else:
                st = s + b"\x00\x11\x22"
            chunk = max(1, len(seqs) // 40)
            for gi in range(0, len(seqs), chunk):
                k += 1
                ops = ["in %s" % hx(st)]
                for sq in seqs[gi:gi + chunk]:
                    ops.append("isnew %d" % fmt_of(z))
                    off = 0
                    for (a, o, f) in sq:
                        ops.append("iscall @%d:%d %d %d" % (off, a, o, f))
                        off += a if a < 100000 else 0   # the driver re-offers from a guessed offset: any history is legal
                ctx.add("x%d" % k, ops, kind="seq", variant=variant, plain=p, stream=st, z=z)
    # random long histories with faithful offset tracking are done by isdrive
    for name, s, z, p in base:
        for variant in ("valid", "trunc", "corrupt", "trail"):
            k += 1
            if variant == "valid":
                st = s
            elif variant == "trunc":
                st = s[:rng.range(0, max(0, len(s) - 1))]
            elif variant == "corrupt":
                st, _ = streams.mutate(rng, s)
            else:
                st = s + rng.bytes(rng.range(1, 9))
            ops = ["in %s" % hx(st)]
            for j in range(3):
                ops += ["isnew %d" % fmt_of(z), "isdrive @ %s" % sched_stream(rng, finish_ok=False)]
            ops += ["isnew %d" % fmt_of(z), "isdrive @ 100000:%d:4" % (len(p) + 5),
                    "iscall - 10 4", "iscall - 10 0",
                    "isnew %d" % fmt_of(z), "iscall @ 100000 3"]
            ctx.add("d%d" % k, ops, kind="drv", variant=variant, plain=p, stream=st, z=z)


def c13_eval(ctx):
    fails = []
    items = [(c, ctx.meta[c]["z"], ctx.meta[c]["stream"]) for c, _ in ctx.cases if ctx.meta[c]["kind"] == "drv"]
    orc = oracle_streams(ctx, items)
    for cid, ops in ctx.cases:
        m = ctx.meta[cid]
        plain = m["plain"]
        for tag, res in (("debug", ctx.impl), ("release", ctx.impl_rel)):
            if not res:
                continue
            bad = None
            delivered = b""
            ended = False
            data_err = False
            slen = len(m["stream"])
            for k, op in enumerate(ops, 1):
                w = op.split()
                line = res.get((cid, k), ("", "MISSING"))[1]
                if "PANIC" in line or line == "MISSING":
                    bad = "op#%d panicked" % k
                    break
                f = parse_fields(line)
                if w[0] == "isnew":
                    delivered, ended, data_err = b"", False, False
                elif w[0] == "iscall":
                    if w[1].startswith("@") and ":" in w[1]:
                        off, nin = [int(x) for x in w[1][1:].split(":")]
                        offered = max(0, min(off + nin, slen) - min(off, slen))
                    elif w[1] == "@":
                        offered = slen
                    else:
                        offered = 0
                    outlen, fl = int(w[2]), int(w[3])
                    st, ic, oc = int(f["st"]), int(f["in"]), int(f["out"])
                    if ic > offered or oc > outlen:
                        bad = "op#%d counts exceed the offered buffers (%d/%d in, %d/%d out)" % (k, ic, offered, oc, outlen)
                    elif fl == 3 and (st != -2 or ic or oc):
                        bad = "op#%d full-flush request must be a stream error with no effect, got %s" % (k, line[:50])
                    elif data_err and fl != 3 and st != -3:
                        bad = "op#%d data error is not sticky: got st=%d" % (k, st)
                    elif ended and fl != 3 and st == 0 and (ic or oc):
                        bad = "op#%d progress reported after stream end" % k
                    elif offered > 0 and outlen > 0 and fl != 3 and st == 0 and ic == 0 and oc == 0:
                        bad = "op#%d given non-empty input and output made no progress and returned Ok" % k
                    if st == -3:
                        data_err = True
                    if st == 1:
                        ended = True
                    if bad:
                        break
                elif w[0] == "isdrive":
                    o = orc.get(cid)
                    if o is None:
                        continue
                    st = f.get("st")
                    if m["variant"] in ("valid", "trail") and o["verdict"] == "done":
                        if st != "1" or f.get("o") != o["o"] or f.get("in") != o["n"]:
                            bad = "op#%d driver loop over a valid stream ended with st=%s in=%s out=%s (why=%s), expected stream end with the whole plaintext (n=%s len=%s)" % (
                                k, st, f.get("in"), f.get("out"), f.get("why"), o["n"], o["len"])
                    elif m["variant"] == "trunc" and o["verdict"] == "trunc":
                        if st == "1" or st == "-3":
                            bad = "op#%d truncated stream ended with st=%s" % (k, st)
                        elif w[2].endswith(":4") and st != "-5":
                            bad = "op#%d finish on a truncated stream must be a buffer error, got %s" % (k, st)
                    elif o["verdict"] == "err" and o.get("ekind") == "distance":
                        pass    # inflate() decodes into its own 32 KiB ring: a distance reaching before the start of the output
                                # reads the (zeroed) window and is not an error there (C04: ring-window semantics in wrapping mode)
                    elif o["verdict"] != "done" and st == "1":
                        bad = "op#%d stream end reported on a stream the specification does not accept (%s)" % (k, o["verdict"])
                    if bad:
                        break
            if bad:
                fails.append((cid, "%s build [%s stream]: %s" % (tag, m["variant"], bad)))
                break
    return fails


def check_C13(rep, tier, seed, replay):
    ctx = Ctx(rep, tier, seed)
    proof_ok = core.prove(rep, "C13", PROP_THEOREMS["C13"])
    if replay:
        load_replay(ctx, replay)
        for cid, ops in ctx.cases:
            st = b""
            for o in ops:
                if o.startswith("in ") and o.split()[1] != "-":
                    st = bytes.fromhex(o.split()[1])
            ctx.meta[cid].update(kind="seq", variant="replay", plain=b"", stream=st, z=any(o.startswith("isnew 0") for o in ops))
    else:
        c13_cases(ctx)
    return standard_run(ctx, proof_ok, c13_eval, MODEL_INFLATE_OPS,
                        "streams {valid, truncated, corrupt, with trailing bytes} x call sequences over (input 0/1/2/rest) x (output "
                        "0/1/3/large) x (None/Sync/Finish/Full): exhaustive to depth 3 plus 20000 random sequences of 4-6 calls in thorough, 1500 random sequences of depth <=3 "
                        "in quick, plus random progress-making driver loops; oracle: per-call protocol clauses and the spec plaintext")


# ===================================================================================== C19

def c19_cases(ctx):
    rng = ctx.rng
    n = 25 if ctx.tier == "quick" else 200
    k = 0
    for name, s, z, p in corpus(ctx, n, 200):
        fl = 1 if z else 0
        k += 1
        scs = ["1:-", sched_progress(rng), "3:2"]
        for mode in ("plain", "clone", "json", "rmp"):
            ops = ["in %s" % hx(s), "snap %s" % mode]
            for sc in scs:
                ops.append("drive @ flat %d 0 %d %s" % (len(p) + 2, fl | 4, sc))
                ops.append("drive @ ring 32768 0 %d %s" % (fl, sc))
            ops += ["isnew %d" % fmt_of(z), "isdrive @ 2:3:0"]
            ctx.add("s%d_%s" % (k, mode), ops, kind="snap", group=k, mode=mode)
        chunk = rng.choice([1, 3, 100000])
        ctx.add("b%d_plain" % k, ["in %s" % hx(s), "bbdrive @ %d %d" % (fl, chunk)], kind="bb", group=k, mode="plain", stream=s, z=z)
        ctx.add("b%d_rebuild" % k, ["in %s" % hx(s), "bbdrive @ %d %d rebuild" % (fl, chunk)], kind="bb", group=k, mode="rebuild", stream=s, z=z)


def c19_eval(ctx):
    fails = []
    orc = oracle_streams(ctx, [(c, ctx.meta[c]["z"], ctx.meta[c]["stream"]) for c, _ in ctx.cases if ctx.meta[c]["kind"] == "bb" and ctx.meta[c]["mode"] == "plain"])
    groups = {}
    for cid, ops in ctx.cases:
        m = ctx.meta[cid]
        groups.setdefault((m["kind"], m["group"]), {})[m["mode"]] = (cid, ops)
    for (kind, g), members in groups.items():
        for tag, res in (("debug", ctx.impl), ("release", ctx.impl_rel)):
            if not res:
                continue
            if kind == "snap":
                ref_cid, ref_ops = members["plain"]
                for mode, (cid, ops) in members.items():
                    if mode == "plain":
                        continue
                    for k in range(3, len(ops) + 1):
                        a = res.get((ref_cid, k), ("", "MISSING"))[1]
                        b = res.get((cid, k), ("", "MISSING2"))[1]
                        if a != b:
                            fails.append((cid, "%s: continuing from a %s snapshot taken before every call differs from the uninterrupted decoder at `%s`: [%s] vs [%s]" % (
                                tag, mode, ops[k - 1][:50], b[:120], a[:120])))
                            break
            else:
                pc, pops = members["plain"]
                rc, rops = members["rebuild"]
                fa = parse_fields(res.get((pc, 2), ("", "MISSING"))[1])
                fb = parse_fields(res.get((rc, 2), ("", "MISSING"))[1])
                o = orc.get(pc, {})
                for key in ("st", "in", "out", "nb", "ad", "log"):
                    if fa.get(key) != fb.get(key):
                        fails.append((rc, "%s: decoder rebuilt from the block-boundary record + last 32 KiB diverges from the uninterrupted one on %s: %s vs %s" % (tag, key, fb.get(key), fa.get(key))))
                        break
                else:
                    if o.get("verdict") == "done":
                        if fa.get("st") != "0" or fa.get("out") != o["len"]:
                            fails.append((pc, "%s: stop-at-block-boundary decoding did not finish the valid stream: %s" % (tag, str(fa)[:100])))
                        elif int(fa.get("nb", -1)) != int(o["blocks"]) - 1:
                            fails.append((pc, "%s: %s block-boundary stops reported for a stream with %s blocks (exactly one per non-final block expected)" % (tag, fa.get("nb"), o["blocks"])))
                        else:
                            log = fa.get("log", "-")
                            if log != "-":
                                for ent in log.strip(";").split(";"):
                                    parts = ent.split(":")
                                    if int(parts[2]) >= 8 or parts[3] != parts[4]:
                                        fails.append((pc, "%s: boundary record %s: pending bits must be < 8 and equal the top bits of the last consumed byte" % (tag, ent)))
                                        break
    return fails


def check_C19(rep, tier, seed, replay):
    ctx = Ctx(rep, tier, seed)
    proof_ok = core.prove(rep, "C19", PROP_THEOREMS["C19"])
    if replay:
        load_replay(ctx, replay)
    else:
        c19_cases(ctx)
    return standard_run(ctx, proof_ok, c19_eval, MODEL_INFLATE_OPS,
                        "valid streams (raw, zlib) x schedules (one-byte, random, 3:2): before EVERY call the decoder is replaced by its "
                        "clone / JSON round trip / MessagePack round trip and the remaining observables compared with the uninterrupted "
                        "run and with the model (which has no snapshots); stop-at-block-boundary runs, rebuilt at every boundary from the "
                        "record + last 32 KiB (older output zeroed)")


# theorems named in each props file (for Print Assumptions); filled by props modules that exist
PROP_THEOREMS = {
    "C03": ["C03_decoder_tables_are_rfc_tables", "C03_stored_block_streams_decode_partial",
            "C03_stored_block_streams_decode_under_every_schedule_partial",
            "C03_stored_streams_through_vector_and_slice_entry_points_partial",
            "C03_stored_block_streams_any_output_placement_partial"],
    "C04": ["C04_bad_zlib_header_never_accepted", "C04_rejected_iff_rfc_invalid", "C04_prefix_of_stored_stream_partial",
            "C04_reserved_block_type_never_accepted_partial", "C04_stored_length_check_never_accepted_partial",
            "C04_truncated_without_more_input_flag_partial"],
    "C05": ["C05_bad_geometry_is_param_error", "C05_failure_is_absorbing", "C05_counts_within_bounds",
            "C05_returns_on_stored_streams_partial", "C05_model_constants_are_source_constants"],
    "C06": ["C06_undo_leaves_less_than_a_byte", "C06_stored_streams_consumed_exactly_partial"],
    "C07": ["C07_read_bits_resume_partial", "C07_stored_streams_any_input_split_partial",
            "C07_stored_streams_any_schedule_partial"],
    "C08": ["C08_window_and_truthful_status", "C08_bad_geometry_untouched", "C08_driver_loop_progress",
            "C08_vector_limit_on_stored_streams_partial"],
    "C13": ["C13_full_flush_is_stream_error", "C13_errors_are_sticky", "C13_nonfinish_after_finish",
            "C13_counts_within_offered_buffers", "C13_wf_of_constructors", "C13_inflate_on_stored_streams_partial",
            "C13_inflate_finish_on_fresh_object_partial",
            "C13_ok_means_progress", "C13_progress_invariant_is_reachable",
            "C13_finish_on_truncated_stored_stream_is_buffer_error_partial",
            "C13_stream_end_is_stable_on_stored_streams_partial"],
    "C19": ["C19_boundary_record_roundtrip", "C19_no_record_elsewhere",
            "C19_rebuilt_decoder_continues_stored_streams_partial",
            "C19_stop_once_per_nonfinal_stored_block_partial", "C19_one_call_stops_after_exactly_one_stored_block_partial"],
}
