"""Per-property checks. Each property has: a proof cone (props/Cxx.v), a case generator, and an
evaluator that (a) compares implementation and model line by line and (b) applies the
property's own oracle to the implementation's results."""
import os
import sys
import traceback
import zlib

from . import core
from .core import Report, Rng, hx, parse_fields

WORK = os.path.join(core.BUILD, "work")


class Ctx:
    """Everything one check run needs: cases, results of the three executions."""

    def __init__(self, rep, tier, seed):
        self.rep = rep
        self.tier = tier
        self.rng = Rng(seed)
        self.cases = []          # (id, [ops])
        self.meta = {}           # id -> dict (generator's knowledge: plaintext etc.)
        self.impl = {}           # debug build results
        self.impl_rel = {}       # release build results
        self.model = {}
        self.workdir = os.path.join(WORK, rep.prop)

    def add(self, cid, ops, model=True, **meta):
        """model=False: implementation-only case (judged by the property's oracle, not compared with the model)"""
        self.cases.append((cid, ops))
        meta["_model"] = model
        self.meta[cid] = meta

    def case_text(self, cid):
        for c, ops in self.cases:
            if c == cid:
                return "case %s\n%s\nend\n" % (c, "\n".join(ops))
        return "case %s\nend\n" % cid


def build_all(rep, simd=False):
    ok, log = core.build_harness(simd=simd)
    if not ok:
        rep.tie_broken.append("harness build failed: " + log[-800:])
        return False
    ok, log = core.build_mzm()
    if not ok:
        rep.tie_broken.append("model driver build failed: " + log[-800:])
        return False
    return True


def execute(ctx, model=True, release=True, simd=False):
    """Run all cases through debug impl, release impl and the model."""
    rep = ctx.rep
    ctx.impl, p1 = core.run_binary_on_cases(core.mzh_path("debug", simd), ctx.cases, "dbg", ctx.workdir)
    probs = list(p1)
    if release:
        ctx.impl_rel, p2 = core.run_binary_on_cases(core.mzh_path("release", simd), ctx.cases, "rel", ctx.workdir)
        probs += p2
    if model:
        mcases = [c for c in ctx.cases if ctx.meta.get(c[0], {}).get("_model", True)]
        ctx.model, p3 = core.run_binary_on_cases(os.path.join(core.BUILD, "mzm"), mcases, "mod", ctx.workdir)
        probs += p3
    for p in probs:
        rep.tie_broken.append("process died: %s" % p)
    return probs


def oracle_run(ctx, cases, tag="orc"):
    res, probs = core.run_binary_on_cases(os.path.join(core.BUILD, "mzm"), cases, tag, ctx.workdir)
    for p in probs:
        ctx.rep.tie_broken.append("oracle process died: %s" % p)
    return res


def correspondence(ctx, ops=None, ignore=()):
    """model vs debug impl, model vs release impl, debug vs release. Returns list of disagreeing case ids."""
    rep = ctx.rep
    bad = []
    n1, d1 = core.diff_results(ctx.impl, ctx.model, ops, ignore)
    n2, d2 = core.diff_results(ctx.impl_rel, ctx.model, ops, ignore) if ctx.impl_rel else (0, [])
    n3, d3 = core.diff_results(ctx.impl, ctx.impl_rel, None, ()) if ctx.impl_rel else (0, [])
    rep.coverage["traces_validated_against_impl"] = rep.coverage.get("traces_validated_against_impl", 0) + n1
    rep.coverage["model_lines_compared_debug"] = n1
    rep.coverage["model_lines_compared_release"] = n2
    rep.coverage["debug_vs_release_lines"] = n3
    for which, ds in (("model-vs-debug", d1), ("model-vs-release", d2), ("debug-vs-release", d3)):
        for key, op, a, b in ds[:50]:
            rep.tie_broken.append("%s case=%s op#%s %s: impl=[%s] other=[%s]" % (which, key[0], key[1], op, a[:200], b[:200]))
            if key[0] not in bad:
                bad.append(key[0])
    return bad


def conclude(ctx, proof_ok, failures, tie_cases):
    """failures: list of (case_id, what) where the property itself fails on the implementation."""
    rep = ctx.rep
    kf = core.known_findings()
    reported = set()
    for cid, what in failures:
        known = None
        for k in kf:
            if k.get("kind") == "known" and k.get("property") == rep.prop and k.get("class") and \
                    ctx.meta.get(cid, {}).get("finding_class") == k["class"]:
                known = k
        if known:
            msg = "%s (%s)" % (known.get("what", ""), known.get("class"))
            if msg not in rep.known:
                rep.known.append(msg)
            continue
        if cid in reported or len(rep.violations) >= 5:
            continue
        reported.add(cid)
        rep.violation(what, "# property=%s\n# %s\n%s" % (rep.prop, what, ctx.case_text(cid)), True, "fail_" + str(cid))
    if not failures or not rep.violations:
        real_fail = [f for f in failures if True]
        if not proof_ok and not rep.violations:
            rep.violation("proof obligation no longer checks: %s" % rep.proof_broken,
                          "# property=%s\n# theorem/correspondence that no longer checks:\n# %s\n" % (rep.prop, rep.proof_broken),
                          False, "proof")
        if rep.tie_broken and not rep.violations:
            txt = "# property=%s\n# correspondence (model vs implementation) no longer checks:\n" % rep.prop
            for t in rep.tie_broken[:10]:
                txt += "# " + t.replace("\n", " ")[:400] + "\n"
            for cid in tie_cases[:3]:
                txt += ctx.case_text(cid)
            rep.violation("correspondence broken: %s" % rep.tie_broken[0][:200], txt, False, "tie")
    return rep.finish()


# ===================================================================================== generators

def fib_data(rng, n=None, M=None, r=None, S=None):
    """Literal statistics that force the Huffman length limiter: S symbols occurring once each (adjacent in the input), under
    a chain of r symbols in which every count exceeds everything merged below it, so the optimal code is a chain of depth
    about r + log2(S) > 15 and the rarest literals get 15-bit codes.  No byte value occurs twice in a row (no runs for the
    RLE strategy); a short prefix varies the bit phase.  About 4-45 KB; M extra heavy symbols widen the top of the tree."""
    vals = list(range(256))
    for i in range(255, 0, -1):
        j = rng.below(i + 1)
        vals[i], vals[j] = vals[j], vals[i]
    if M == 64:
        # wide variant: 64 equally frequent values (few repeated trigrams, so the LZ matchers leave the histogram alone)
        # over a Fibonacci chain of rare values: optimal depth about 6 + r
        r = r or 11
        chain = []
        a, b = 1, 2
        for sym in vals[64:64 + r]:
            chain += [sym] * a
            a, b = b, a + b
        body = chain + [v for v in vals[:64] for _ in range(len(chain) + 24)]
        for i in range(len(body) - 1, 0, -1):
            j = rng.below(i + 1)
            body[i], body[j] = body[j], body[i]
        # reorder so that no trigram occurs twice (take the next pending byte that forms a new trigram)
        seen = set()
        out = []
        pending = []
        for x in body:
            pending.append(x)
            k = 0
            while k < len(pending):
                y = pending[k]
                if len(out) < 2 or (out[-2], out[-1], y) not in seen:
                    if len(out) >= 2:
                        seen.add((out[-2], out[-1], y))
                    out.append(y)
                    pending.pop(k)
                    k = 0
                else:
                    k += 1
        out += pending
        if n is not None:
            while len(out) < n:
                out += out[:n - len(out)]
            out = out[:n]
        return bytes(out)
    S = rng.choice([0, 4, 31, 40]) if S is None else S
    r = r or (rng.range(11, 14) if S >= 4 else rng.range(16, 19))
    M = rng.choice([0, 0, 2]) if M is None else min(M, 2)
    w = S + 1
    while True:
        leaves = [w]
        acc = w
        for j in range(1, r):
            leaves.append(max(acc, leaves[-1]) + 1)
            acc += leaves[-2]
        for j in range(M):
            leaves.append(leaves[-1] + 1)
        if sum(leaves) + S <= 30000 or r <= 8:      # one block: the statistics are per block
            break
        r -= 1
    syms = vals[:len(leaves)]
    ones = vals[len(leaves):len(leaves) + S]
    counts = list(leaves)
    body = []
    prev = -1
    order = sorted(range(len(counts)), key=lambda i: -counts[i])
    for _ in range(sum(counts)):
        best = -1
        for i in order[:4] if len(order) > 4 else order:
            if i != prev and counts[i] > 0 and (best < 0 or counts[i] > counts[best]):
                best = i
        if best < 0:
            for i in range(len(counts)):
                if i != prev and counts[i] > 0 and (best < 0 or counts[i] > counts[best]):
                    best = i
        if best < 0:
            break
        body.append(syms[best])
        counts[best] -= 1
        prev = best
        if counts[best] == 0 or (len(order) > 1 and counts[best] < counts[order[min(4, len(order) - 1)]]):
            order.sort(key=lambda i: -counts[i])
    out = [syms[-1]] * rng.below(4) + [syms[-2]] * rng.below(4) + ones + body
    if n is not None:
        while len(out) < n:
            out += out[:n - len(out)]
        out = out[:n]
    return bytes(out)


def core_show_bytes(b):
    """the harness's rendering of a byte string: hex up to 48 bytes, else #len:fnv64"""
    if len(b) == 0:
        return "-"
    if len(b) <= 48:
        return b.hex()
    h = 0xcbf29ce484222325
    for x in b:
        h = ((h ^ x) * 0x100000001b3) & 0xFFFFFFFFFFFFFFFF
    return "#%d:%016x" % (len(b), h)


def geom_data(rng, n, uniq=24, ratio=0.75):
    """bytes with geometrically decreasing frequencies (deep Huffman codes) and, at a random offset, a run of `uniq`
    values that occur nowhere else"""
    vals = list(range(256))
    for i in range(255, 0, -1):
        j = rng.below(i + 1)
        vals[i], vals[j] = vals[j], vals[i]
    common = vals[:200]
    ones = vals[200:200 + uniq]
    # inverse-CDF sampling of a geometric distribution over `common`
    import math
    out = bytearray()
    lr = math.log(ratio)
    for _ in range(n):
        u = (rng.below(1 << 30) + 1) / float((1 << 30) + 1)
        kx = int(math.log(u) / lr)
        out.append(common[min(kx, len(common) - 1)])
    at = rng.range(1000, max(1001, n - 1000))
    out[at:at] = bytes(ones)
    return bytes(out[:n + uniq])


def data_classes(rng, n):
    """byte strings of length n of several content classes"""
    k = rng.below(8)
    if k == 7:
        return fib_data(rng, n)
    if k == 0:
        return bytes(n)
    if k == 1:
        return b"\xff" * n
    if k == 2:
        return rng.bytes(n)
    if k == 3:
        alpha = rng.bytes(rng.range(2, 4))
        return bytes(alpha[rng.below(len(alpha))] for _ in range(n))
    if k == 4:
        words = [b"the ", b"quick ", b"brown ", b"fox ", b"jumps ", b"over ", b"lazy ", b"dog ", b"deflate ", b"\n"]
        out = bytearray()
        while len(out) < n:
            out += words[rng.below(len(words))]
        return bytes(out[:n])
    if k == 5:
        # repeats at a chosen distance
        d = rng.choice([1, 2, 3, 4, 257, 258, 259, 4095, 4096, 4097, 8191, 8192, 8193, 32767, 32768, 32769])
        base = rng.bytes(min(d, max(1, n)))
        out = bytearray(base)
        while len(out) < n:
            out += out[-d:][:max(1, min(d, n - len(out)))] if d <= len(out) else base
        return bytes(out[:n])
    # runs
    out = bytearray()
    while len(out) < n:
        out += bytes([rng.below(256)]) * rng.range(1, 300)
    return bytes(out[:n])


# ===================================================================================== C16

C16_LENS = [0, 1, 2, 15, 16, 17, 31, 32, 33, 63, 64, 65, 255, 256, 5551, 5552, 5553, 22207, 22208, 22209,
            65535, 65536, 65537]


def c16_cases(ctx):
    rng = ctx.rng
    thorough = ctx.tier == "thorough"
    lens = list(C16_LENS) + ([1 << 20, 300000] if thorough else [100000])
    n = 0
    for ln in lens:
        for content in range(3):
            data = [bytes(ln), b"\xff" * ln, rng.bytes(ln)][content]
            n += 1
            cid = "ck%d" % n
            ops = ["in %s" % hx(data)]
            # starting values that are checksums of random prefixes
            pre = rng.bytes(rng.range(0, 40))
            a0 = zlib.adler32(pre) if rng.chance(1, 2) else 1
            c0 = zlib.crc32(pre) if rng.chance(1, 2) else 0
            cuts = sorted(rng.range(0, max(ln, 1)) for _ in range(rng.range(1, 4)))
            if ln <= 64:
                cuts = list(range(0, ln + 1))
            cs = ",".join(str(c) for c in cuts)
            hi = rng.range(1, 0xFFFFFFFF) << 32
            ops += ["adler %d @" % a0, "adlersplit %d @ %s" % (a0, cs), "crc %d @" % c0, "crcsplit %d @ %s" % (c0, cs),
                    "adler %d @" % a0, "mzadler %d @" % (a0 + hi), "crc %d @" % c0, "mzcrc %d @" % (c0 + hi)]
            ctx.add(cid, ops, kind="sum", ln=ln)
    # modular boundaries: starting values chosen so that the low (resp. high) half of the running Adler-32 lands exactly
    # on a multiple of 65521 at the end of a short piece (and at the end of each prefix of a split)
    for ln in list(range(1, 34)) + [63, 64, 65, 255, 5552, 5553]:
        for which in range(3):
            data = rng.bytes(ln) if which < 2 else b"\xff" * ln
            s1 = (65521 - sum(data) % 65521) % 65521 if which != 1 else rng.below(65521)
            t = zlib.adler32(data, s1) >> 16          # high half reached from s2 = 0
            s2 = (65521 - t) % 65521 if which >= 1 else rng.below(65521)
            a0 = (s2 << 16) | s1
            n += 1
            cs = ",".join(str(c) for c in range(0, ln + 1)) if ln <= 64 else "%d,%d" % (ln // 2, ln - 1)
            hi = rng.range(1, 0xFFFFFFFF) << 32
            c0 = zlib.crc32(rng.bytes(3))
            ops = ["in %s" % hx(data), "adler %d @" % a0, "adlersplit %d @ %s" % (a0, cs), "crc %d @" % c0, "crcsplit %d @ %s" % (c0, cs),
                   "adler %d @" % a0, "mzadler %d @" % (a0 + hi), "crc %d @" % c0, "mzcrc %d @" % (c0 + hi)]
            ctx.add("ckb%d" % n, ops, kind="sum", ln=ln)
    ctx.add("cknull", ["mzadler 12345 null", "mzcrc 12345 null"], kind="null")
    # running checksums: compressor (zlib format) and decoders
    nrun = 40 if thorough else 14
    for i in range(nrun):
        ln = rng.choice([0, 1, 5, 100, 3000, 70000])
        data = data_classes(rng, ln)
        level = rng.range(0, 10)
        ops = ["in %s" % hx(data), "cparams 0 %d %d 15" % (level, rng.range(0, 4)),
               "cdrive @ %s" % ",".join("%d:%d:%d" % (rng.choice([1, 50, 3000, 100000]), rng.choice([1, 7, 300, 200000]), rng.choice([0, 0, 2, 3]))
                                        for _ in range(rng.range(1, 3)))]
        ctx.add("run_c%d" % i, ops, kind="crun", data=data)
        comp = zlib.compress(data, rng.range(0, 9))
        ops = ["in %s" % hx(comp), "buf %d 0" % (len(data) + 7)]
        pos = 0
        step = rng.choice([1, 2, 7, 50, 100000])
        ops2 = ["in %s" % hx(comp), "ziinit 15"]
        ctx.add("run_d%d" % i, ops + ["drive @ flat %d 0 5 %d:%d" % (len(data) + 3, step, rng.choice([-1, 1, 3, 1000]))],
                kind="drun", data=data)
        # (every second case ends with Finish calls into small buffers: recoverable buffer errors in between)
        items = ["%d:%d:0" % (step, rng.choice([1, 9, 100000])) for _ in range(rng.range(1, 4))]
        if i % 2 == 1:
            items.append("100000:%d:4" % rng.choice([1, 9, 300, 32768]))
        ops2.append("zdrive @ %s" % ",".join(items))
        ctx.add("run_z%d" % i, ops2, kind="zrun", data=data, comp=comp)
        # the C deflate stream's adler field, zlib and raw (negative window bits; the checksum is still requested): every
        # call gets ample output, so it consumes exactly what it is offered
        cutsz = sorted(set([0, ln] + [rng.range(0, ln) for _ in range(rng.range(1, 4))]))
        opsz = ["in %s" % hx(data), "zdinit %d 8 %d 9 %d" % (rng.range(0, 9), rng.choice([15, -15]), rng.range(0, 4))]
        for a, b in zip(cutsz, cutsz[1:]):
            opsz.append("zcall deflate @%d:%d %d %d" % (a, b - a, 2 * ln + 1000, rng.choice([0, 0, 2, 3])))
        opsz.append("zcall deflate - %d 4" % (2 * ln + 1000))
        ctx.add("run_y%d" % i, opsz, kind="zcrun", data=data)


def c16_eval(ctx):
    """the property's oracle on the implementation's lines; returns failures"""
    fails = []
    oq = []
    for cid, ops in ctx.cases:
        m = ctx.meta[cid]
        for tag, res in (("debug", ctx.impl), ("release", ctx.impl_rel)):
            if not res:
                continue
            if m["kind"] == "sum":
                # ops: 1 in, 2 adler, 3 adlersplit, 4 crc, 5 crcsplit, 6 adler, 7 mzadler, 8 crc, 9 mzcrc
                exp_a = ctx.model.get((cid, 2), ("", "?"))[1]
                exp_c = ctx.model.get((cid, 4), ("", "?"))[1]
                got = [res.get((cid, k), ("", "<none>"))[1] for k in range(2, 10)]
                for k, e in ((0, exp_a), (1, exp_a), (2, exp_c), (3, exp_c), (4, exp_a), (5, exp_a), (6, exp_c), (7, exp_c)):
                    if got[k] != e:
                        fails.append((cid, "%s build: checksum op#%d returned %s, definition gives %s (len %d)" % (tag, k + 2, got[k], e, m["ln"])))
                        break
            elif m["kind"] == "null":
                if res.get((cid, 1), ("", ""))[1] != "1" or res.get((cid, 2), ("", ""))[1] != "0":
                    fails.append((cid, "%s build: null-pointer checksum calls returned %s / %s" % (tag, res.get((cid, 1)), res.get((cid, 2)))))
    # second phase: running checksums need spec values of data-dependent prefixes
    for cid, ops in ctx.cases:
        m = ctx.meta[cid]
        if m["kind"] == "crun":
            q = ["in %s" % hx(m["data"])]
            idx = []
            f = parse_fields(ctx.impl.get((cid, 3), ("", ""))[1])
            m["cpairs"] = []
            for j, p in enumerate(x for x in f.get("atr", "").split(";") if x and x != "-"):
                off, ad = p.split(":")
                q.append("adler 1 @0:%s" % off)
                m["cpairs"].append((j + 1, len(q), ad))
            idx.append((3, 2))
            oq.append((cid, q))
            m["idx"] = idx
        elif m["kind"] == "zcrun":
            q = ["in %s" % hx(m["data"])]
            m["ypairs"] = []
            tin = 0
            for k in range(3, len(ops) + 1):
                f = parse_fields(ctx.impl.get((cid, k), ("", ""))[1])
                if "dti" not in f:
                    continue
                tin += int(f["dti"])
                q.append("adler 1 @0:%d" % tin)
                m["ypairs"].append((k, len(q), f.get("adler")))
            oq.append((cid, q))
            m["idx"] = [(3, 2)]
        elif m["kind"] in ("drun", "zrun"):
            q = ["in %s" % hx(m["data"])]
            idx = []
            if m["kind"] == "drun":
                f = parse_fields(ctx.impl.get((cid, 3), ("", ""))[1])
                q.append("adler 1 @0:%s" % f.get("out", "0"))
                idx.append((3, 2))
            else:
                # mz_stream.adler covers what the decoder has produced into its window, which may run ahead of what the
                # caller's (small) buffers have taken: it must be the Adler-32 of a prefix of the plaintext that contains
                # everything delivered, is at most one window ahead of it, and is exactly the delivered bytes at stream end.
                # The prefix length is searched here (zlib.adler32); the value is then judged by the extracted definition.
                run = [1]
                for b in range(len(m["data"])):
                    run.append(zlib.adler32(m["data"][b:b + 1], run[-1]))
                f = parse_fields(ctx.impl.get((cid, 3), ("", ""))[1])
                pairs = [p.split(":") for p in f.get("tra", "").split(";") if p]
                m["zpairs"] = []
                for j, (to, ad) in enumerate(pairs):
                    total, want = int(to), int(ad)
                    L = total
                    last = (j == len(pairs) - 1 and f.get("r") == "1" and int(f.get("calls", "0")) == len(pairs))
                    if not last:
                        for cand in range(total, min(len(m["data"]), total + 32768) + 1):
                            if run[cand] == want:
                                L = cand
                                break
                    q.append("adler 1 @0:%d" % L)
                    m["zpairs"].append((j + 1, len(q), ad))
                idx.append((3, 2))
            oq.append((cid, q))
            m["idx"] = idx
    orc = oracle_run(ctx, oq)
    for cid, q in oq:
        m = ctx.meta[cid]
        for tag, res in (("debug", ctx.impl), ("release", ctx.impl_rel)):
            if not res:
                continue
            for k, qi in m["idx"]:
                f = parse_fields(res.get((cid, k), ("", ""))[1])
                exp = orc.get((cid, qi), ("", "?"))[1]
                if m["kind"] == "zcrun":
                    for tg2, rs2 in (("debug", ctx.impl), ("release", ctx.impl_rel)):
                        if rs2 is not res:
                            continue
                    badp = None
                    for (kk, qj, _) in m["ypairs"]:
                        ad = parse_fields(res.get((cid, kk), ("", ""))[1]).get("adler")
                        e = orc.get((cid, qj), ("", "?"))[1]
                        if ad != e:
                            badp = (kk, ad, e)
                            break
                    if badp:
                        fails.append((cid, "%s build: mz_stream.adler after deflate call op#%d is %s, the Adler-32 of the input consumed so far "
                                           "is %s" % (tag, badp[0], badp[1], badp[2])))
                    break
                if m["kind"] == "crun":
                    badp = None
                    for (j, qj, ad) in m["cpairs"]:
                        e = orc.get((cid, qj), ("", "?"))[1]
                        if ad != e:
                            badp = (j, ad, e)
                            break
                    if badp:
                        fails.append((cid, "%s build: the compressor's running Adler-32 after call %d is %s, the Adler-32 of the input "
                                           "consumed so far is %s" % (tag, badp[0], badp[1], badp[2])))
                    break
                elif m["kind"] == "drun":
                    got = f.get("ad")
                    if f.get("st") != "0":
                        fails.append((cid, "%s build: valid zlib stream not decoded to Done: %s" % (tag, f)))
                        break
                else:
                    if f.get("r") != "1" or f.get("o") != core_show_bytes(m["data"]):
                        fails.append((cid, "%s build: mz_inflate driven over a valid zlib stream ended with r=%s to=%s" % (tag, f.get("r"), f.get("to"))))
                        break
                    badp = None
                    for (j, qj, ad) in m["zpairs"]:
                        e = orc.get((cid, qj), ("", "?"))[1]
                        if ad != e and not (ad == "0" and e == "1"):
                            badp = (j, ad, e)
                            break
                    if badp:
                        fails.append((cid, "%s build: mz_stream.adler after call %d is %s: not the Adler-32 of the bytes delivered so far (%s) "
                                           "nor of a longer prefix of the plaintext within one window" % (tag, badp[0], badp[1], badp[2])))
                    break
                if got != exp:
                    fails.append((cid, "%s build: running checksum after op#%d is %s: not the Adler-32 of the bytes so far (%s) nor of any longer prefix within one window" % (tag, k, got, exp)))
                    break
    return fails


def check_C16(rep, tier, seed, replay):
    ctx = Ctx(rep, tier, seed)
    proof_ok = core.prove(rep, "C16", ["C16_adler_compose", "C16_adler_closed", "C16_crc_compose", "C16_empty_update",
                                      "C16_level0_compressor_running_adler_partial", "C16_stored_streams_decoder_running_adler_partial"])
    if replay:
        load_replay(ctx, replay)
    else:
        c16_cases(ctx)
    fails = []
    ties = []
    for simd in (False, True):
        if not build_all(rep, simd=simd):
            break
        execute(ctx, simd=simd)
        ties += correspondence(ctx, ops={"adler", "adlersplit", "crc", "crcsplit"})
        fails += [(c, ("simd " if simd else "scalar ") + w) for c, w in c16_eval(ctx)]
    rep.coverage["evaluations"] = len(ctx.cases) * 4
    rep.coverage["distinct_nontrivial"] = len([c for c in ctx.cases if ctx.meta[c[0]].get("ln", 1) > 0])
    rep.coverage["rule"] = ("buffers of lengths %s x {zeros, 0xFF, random} x starting values that are checksums of random prefixes x "
                            "split points (every split for len<=64, random otherwise) x {scalar, simd} x {debug, release}; "
                            "running checksums of compressor / decoder / mz_stream.adler after every call; "
                            "non-trivial = non-empty buffer" % C16_LENS)
    rep.add_samples([{"case": c, "ops": [o[:120] for o in ops[:4]]} for c, ops in ctx.cases[3:6]])
    rep.notes.append("adler2 / simd-adler32 / crc32fast kernels are tied by differential only (third-party crates)")
    return conclude(ctx, proof_ok, fails, ties)


# ===================================================================================== C09 (header part; trailer with models)

def c09_cases(ctx):
    rng = ctx.rng
    # every two-byte header x flat / ring sizes, against the regenerated validate_zlib_header
    ops = []
    masks = [0, 1, 255, 32767, 65535, (1 << 64) - 1]
    k = 0
    hdrs = [(c, f) for c in range(256) for f in range(256)]
    step = 1 if ctx.tier == "thorough" else 5
    chunk = []
    for i, (c, f) in enumerate(hdrs):
        if i % step != (ctx.rng.s % step) and not ((c * 256 + f) % 31 == 0):
            continue
        for nonwrap in (0, 4):
            mk = rng.choice(masks[:-1]) if not nonwrap else masks[-1]
            chunk.append("fn validate_zlib_header %d %d %d %d" % (c, f, nonwrap | rng.choice([0, 1, 2, 64]), mk))
        if len(chunk) >= 400:
            k += 1
            ctx.add("vh%d" % k, chunk, kind="fn")
            chunk = []
    if chunk:
        ctx.add("vh%d" % (k + 1), chunk, kind="fn")
    # header production for all levels / strategies / window bits via flags
    ops = []
    for level in range(-1, 12):
        for strat in range(0, 5):
            for wbits in (15, -15):
                ops.append("fn create_comp_flags_from_zip_params %d %d %d" % (level, wbits, strat))
    ctx.add("cf", ops, kind="fn")
    ops = []
    flagset = [0, 1, 2, 6, 16, 32, 128, 256, 512, 767, 768, 1500, 4095]
    for fl in flagset:
        for extra in (0, 0x4000, 0x10000, 0x14000, 0x1000, 0x80000):
            for wb in range(0, 16):
                ops.append("fn header_from_flags %d %d" % (fl | extra, wb))
    ctx.add("hf", ops, kind="fn")
    ops = []
    for wb in range(0, 16):
        for lvl in range(0, 11):
            for st in range(0, 5):
                ops.append("fn limit_level_by_window_bits %d %d %d" % (wb, lvl, st))
    ctx.add("ll", ops, kind="fn")
    ops = ["fn window_bits_from_flags %d" % (f | e) for f in flagset for e in (0, 0x10000, 0x80000, 0x90000)]
    ops += ["fn probes_from_flags %d" % f for f in flagset]
    ops += ["fn update_hash %d %d" % (rng.below(65536), rng.below(256)) for _ in range(200)]
    ops += ["fn num_extra_bits_for_distance_code %d" % c for c in range(256)]
    ops += ["fn mz_deflateBound %d" % n for n in [0, 1, 100, 31743, 31744, 31745, 65535, 65536, 1 << 20, (1 << 32) - 1, 1 << 40]]
    ctx.add("misc", ops, kind="fn")
    # real streams: header + trailer of every configuration, and trailer corruption on decode
    n = 0
    for fmt in (0,):
        for level in ([0, 1, 2, 6, 9, 10] if ctx.tier == "quick" else range(0, 11)):
            for strat in range(0, 5):
                for wb in ([8, 9, 12, 15] if ctx.tier == "quick" else range(8, 16)):
                    n += 1
                    data = data_classes(rng, rng.choice([0, 1, 10, 300, 5000]))
                    sched = "%d:%d:%d" % (rng.choice([1, 7, 100000]), rng.choice([1, 3, 100, 100000]), rng.choice([0, 0, 2, 3]))
                    ctx.add("z%d" % n, ["in %s" % hx(data), "cparams 0 %d %d %d" % (level, strat, wb), "cdrive @ %s" % sched],
                            kind="zstream", data=data, wb=wb)
    # a compress call that stops early (its block does not fit the output space) leaves input unconsumed: the
    # running Adler-32 must cover the consumed part only, the caller offers the rest again
    for level in ([0, 1, 6] if ctx.tier == "quick" else [0, 1, 2, 4, 6, 9]):
        for osz in (100, 4093, 20000):
            n += 1
            data = rng.bytes(rng.choice([40000, 100000, 150000]))
            ctx.add("z%d" % n, ["in %s" % hx(data), "cparams 0 %d 0 15" % level, "cdrive @ 100000000:%d:%d" % (osz, rng.choice([0, 4]))],
                    kind="zstream", data=data, wb=15)
    # the framing of a stream written after reset(): an abandoned earlier stream (blocks flushed off a byte boundary,
    # pending output, an open block) must leave nothing behind in the header or the trailer
    for j in range(24 if ctx.tier == "quick" else 200):
        n += 1
        first = data_classes(rng, rng.choice([48, 60, 100, 300, 5000, 40000]))
        data = data_classes(rng, rng.choice([0, 1, 300, 5000]))
        level, strat, wb = rng.choice([1, 2, 6, 9]), rng.choice([0, 0, 1, 4]), rng.choice([15, 15, 12, 9])
        hist = []
        for _ in range(rng.range(1, 3)):
            hist.append("ccall %s %d %d" % (hx(first[:rng.range(48, max(49, len(first)))] if len(first) >= 48 else first), rng.choice([3, 50, 200000]),
                                           rng.choice([7, 7, 1, 5, 0, 2])))
        ctx.add("z%d" % n, ["in %s" % hx(data), "cparams 0 %d %d %d" % (level, strat, wb)] + hist + ["creset", "cdrive @ 100000000:200000:4"],
                model=False, kind="zstream", data=data, wb=wb)
    # decode side: trailer / body corruption
    for i in range(60 if ctx.tier == "quick" else 400):
        data = data_classes(rng, rng.choice([1, 20, 400, 40000]))
        comp = bytearray(zlib.compress(data, rng.range(0, 9)))
        kind = rng.below(4)
        if kind == 0:
            pos = len(comp) - 1 - rng.below(4)
            comp[pos] ^= 1 << rng.below(8)
            expect = "adler"
        elif kind == 1:
            expect = "ok"
        elif kind == 2:
            pos = len(comp) - 1 - rng.below(4)
            comp[pos] = (comp[pos] + rng.range(1, 255)) & 255
            expect = "adler"
        else:
            expect = "ok"
        step = rng.choice([1, 3, 100000])
        ring = rng.chance(1, 2) and len(data) >= 1
        ignore = rng.chance(1, 4)
        flags = 1 | (64 if ignore else 0) | (0 if ring else 4)
        mode = "ring 32768" if ring else "flat %d" % (len(data) + 5)
        ctx.add("t%d" % i, ["in %s" % hx(bytes(comp)), "drive @ %s 0 %d %d:%d" % (mode, flags, step, rng.choice([-1, 1, 1000]))],
                kind="trailer", expect=expect, ignore=ignore, data=data)


def c09_eval(ctx):
    fails = []
    oq = []
    for cid, ops in ctx.cases:
        m = ctx.meta[cid]
        if m["kind"] == "zstream":
            f = parse_fields(ctx.impl.get((cid, len(ops)), ("", ""))[1])
            full = f.get("full", "-")
            oq.append((cid, ["in %s" % hx(m["data"]), "sinflate 1 %s" % full, "adler 1 @"]))
    orc = oracle_run(ctx, oq)
    for cid, ops in ctx.cases:
        m = ctx.meta[cid]
        for tag, res in (("debug", ctx.impl), ("release", ctx.impl_rel)):
            if not res:
                continue
            if m["kind"] == "zstream":
                f = parse_fields(res.get((cid, len(ops)), ("", ""))[1])
                full = f.get("full", "-")
                if f.get("st") != "1" or full == "-" or len(full) < 12:
                    fails.append((cid, "%s: zlib compression did not finish: %s" % (tag, str(f)[:200])))
                    continue
                b = bytes.fromhex(full)
                cmf, flg = b[0], b[1]
                exp_ad = orc.get((cid, 3), ("", "?"))[1]
                problems = []
                if (cmf * 256 + flg) % 31 != 0:
                    problems.append("FCHECK")
                if cmf & 15 != 8:
                    problems.append("CM")
                if cmf >> 4 > 7:
                    problems.append("CINFO>7")
                if cmf >> 4 > max(m["wb"], 8) - 8:
                    problems.append("CINFO %d declares more than 2^max(w,8) for w=%d" % (cmf >> 4, m["wb"]))
                if flg & 32:
                    problems.append("FDICT")
                if str(int.from_bytes(b[-4:], "big")) != exp_ad:
                    problems.append("trailer %d != Adler-32 of input %s" % (int.from_bytes(b[-4:], "big"), exp_ad))
                spec = orc.get((cid, 2), ("", "?"))[1]
                if tag == "debug" and not spec.startswith("done"):
                    problems.append("reference decoder rejects the stream: %s" % spec[:80])
                if problems:
                    fails.append((cid, "%s: zlib framing wrong: %s (header %02x %02x)" % (tag, "; ".join(problems), cmf, flg)))
            elif m["kind"] == "trailer":
                f = parse_fields(res.get((cid, 2), ("", ""))[1])
                st = f.get("st")
                if m["expect"] == "ok" or m["ignore"]:
                    if st != "0":
                        fails.append((cid, "%s: valid zlib stream (or ignored checksum) not accepted: st=%s" % (tag, st)))
                elif st != "-2":
                    fails.append((cid, "%s: corrupted Adler-32 trailer gave status %s instead of checksum mismatch" % (tag, st)))
    return fails


def check_C09(rep, tier, seed, replay):
    ctx = Ctx(rep, tier, seed)
    proof_ok = core.prove(rep, "C09", ["C09_header_valid", "C09_header_check", "C09_trailer_checked_on_stored_streams_partial"])
    if replay:
        load_replay(ctx, replay)
    else:
        c09_cases(ctx)
    fails, ties = [], []
    if build_all(rep):
        execute(ctx)
        ties = correspondence(ctx, ops={"fn"})
        fails = c09_eval(ctx)
    nfn = sum(len(ops) for c, ops in ctx.cases if ctx.meta[c]["kind"] == "fn")
    rep.coverage["evaluations"] = nfn + len([c for c in ctx.cases if ctx.meta[c[0]]["kind"] != "fn"])
    rep.coverage["distinct_nontrivial"] = nfn
    rep.coverage["rule"] = ("translated functions vs Rust on (sub)grids of their domains (all 65536 headers in thorough, every "
                            "FCHECK-valid one + 1/5 of the rest in quick); every (level, strategy, window_bits) configuration "
                            "compressed and its first 2 / last 4 bytes checked against RFC 1950 and the spec Adler-32; "
                            "trailer corruptions x chunkings x flat/ring x ignore-checksum; non-trivial = function evaluation")
    rep.add_samples([{"case": c, "ops": [o[:100] for o in ops[:3]]} for c, ops in ctx.cases if ctx.meta[c]["kind"] != "fn"][:4])
    return conclude(ctx, proof_ok, fails, ties)


# ===================================================================================== replay / dispatch

def load_replay(ctx, path):
    cid, ops = None, []
    for line in open(path):
        line = line.rstrip("\n")
        if line.startswith("#") or not line.strip():
            continue
        if line.startswith("case "):
            cid, ops = line.split()[1], []
        elif line.strip() == "end":
            if cid is not None:
                ctx.add(cid, ops, kind="replay")
            cid = None
        else:
            ops.append(line)


CHECKS = {"C16": check_C16, "C09": check_C09}


def all_checks():
    from . import inflate_checks as ic
    from . import deflate_checks as dc
    d = dict(CHECKS)
    d.update({"C03": ic.check_C03, "C04": ic.check_C04, "C05": ic.check_C05, "C06": ic.check_C06, "C07": ic.check_C07,
              "C08": ic.check_C08, "C13": ic.check_C13, "C19": ic.check_C19,
              "C01": dc.check_C01, "C02": dc.check_C02, "C10": dc.check_C10, "C11": dc.check_C11, "C12": dc.check_C12,
              "C14": dc.check_C14, "C15": dc.check_C15})
    from . import misc_checks as mc
    d.update({"C17": mc.check_C17, "C18": mc.check_C18, "C20": mc.check_C20})
    return d


def run_property(prop, tier, seed, replay):
    rep = Report(prop, tier, seed)
    fn = all_checks().get(prop)
    if fn is None:
        print("no check registered for %s" % prop)
        return 2
    try:
        return fn(rep, tier, seed, replay)
    except Exception:
        traceback.print_exc()
        print("CHECK-ERROR property=%s (the check itself crashed; this is not a verdict about the code)" % prop)
        return 2
