#!/bin/bash
# extract the Coq models and build the OCaml driver (build/mzm)
set -e
V=/verif
mkdir -p $V/build/extract
cd $V/build/extract
coqc -Q $V/coq/lib MZ.lib -Q $V/coq/spec MZ.spec -Q $V/coq/gen MZ.gen -Q $V/coq/model MZ.model \
     -Q $V/coq/proofs MZ.proofs -Q $V/coq/extract MZ.extract $V/coq/extract/Extract.v > extract.log 2>&1 || { cat extract.log; exit 1; }
cp $V/ocaml/mzm.ml $V/ocaml/mzm_models.ml .
ocamlfind ocamlopt -O3 -unboxed-types 2>/dev/null >/dev/null || true
ocamlfind ocamlopt -w -a -inline 200 -o $V/build/mzm mzmodel.mli mzmodel.ml mzm_models.ml mzm.ml 2>&1 | grep -v "^$" | head -20
test -x $V/build/mzm
