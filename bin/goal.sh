#!/bin/bash
# usage: goal.sh <file.v> <line>  -- print the proof state just before <line>
f=$1; n=$2
head -n $((n-1)) $f > /tmp/goal_tmp.v
echo "Show. Abort." >> /tmp/goal_tmp.v
cd /verif/coq && coqc -noglob -Q lib MZ.lib -Q spec MZ.spec -Q gen MZ.gen -Q model MZ.model -Q proofs MZ.proofs -Q props MZ.props /tmp/goal_tmp.v 2>&1 | head -${3:-80}
