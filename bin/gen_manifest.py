#!/usr/bin/env python3
"""Regenerate MANIFEST.json from the table below (kept in one place so that level texts stay honest)."""
import json
CLAIMS = {
 "C01": ("Coq theorems: (a) on the flag function REGENERATED from deflate/core.rs, every level above 10 yields the flags of level 10; (b) level 0 is lossless for EVERY input: whatever the Coq model of compress_to_vec_inner (control plane, stored engine, grow-and-retry loop; tied to the code line by line on every run) returns for a flag word with TDEFL_FORCE_ALL_RAW_BLOCKS is decoded by the RFC 1951/1950 specification to exactly the input with all output consumed, and has length n + 5(n/31745+1) (+6 for zlib). "
         "For levels 1-10 the round-trip clause is decided per explored run: the crate's one-shot decoder AND the extracted specification must reproduce the input from the emitted bytes (inputs include lazy-match staircases straddling block flushes and Huffman-depth-limit statistics).",
         "PARTIAL: the forall-input round-trip theorem covers level 0 (partial correctness: if the model returns a vector); the Huffman/LZ engines of levels >= 1 are outside the model and rest on the spec oracle.",
         "Coq proof (model of compress_to_vec at level 0 refines a stored-block encoder; spec decodes it) + source-regenerated flag function + extracted-spec oracle + level-0 model differential"),
 "C03": ("Coq theorem (kernel computation over the tables REGENERATED from inflate/core.rs): the decoder's LENGTH_BASE/LENGTH_EXTRA/DIST_BASE/length-order tables and the distance-extra formula equal the RFC 1951 tables of the specification on all live symbols. M_inf (complete Gallina transliteration of decompress_with_limit and all wrappers) is compared line by line with the implementation (debug+release) on grammar-generated valid streams through 7 entry points; the extracted specification is the oracle for plaintext and consumed length.",
         "PARTIAL: the simulation M_inf -> specification (T_sim/T_abs) is not proved; conformance is decided per explored stream by the spec oracle.",
         "Coq table proof + executable model differential + extracted-spec oracle"),
 "C04": ("Coq theorems on M_inf: a zlib stream whose header RFC 1950 makes invalid (or whose declared window exceeds the caller's ring) is rejected after exactly two bytes for every continuation, buffer, position, budget and flag word, and the rejection criterion is exactly the RFC's (via the regenerated validate_zlib_header). Accept/reject and output of mutated, targeted-invalid, random and truncated streams are compared with the extracted specification (flat and ring semantics).",
         "PARTIAL: general soundness (Done => spec accepts) is open (needs T_sim/T_abs); decided per explored run by the spec oracle.",
         "Coq proof (symbolic execution of the model through the header states) + spec oracle on mutants"),
 "C05": ("Coq theorems on M_inf over every decoder value / input / buffer / flag word: unusable geometry => BadParam with decoder and buffer untouched; a failed decoder keeps returning Failed with nothing consumed or written and the same state; on every normal return consumed <= offered and written <= min(budget, len-out_pos). Model and implementation (debug and release) are compared on random call histories incl. all-ones flags, every geometry class, re-init and buffer swaps.",
         "PARTIAL: the model's Panic/OutOfFuel results are not yet proved unreachable (T_safe's no-panic/termination half); the debug-build harness would show a panic as a disagreement. ",
         "Coq proof on the executable model + debug/release differential"),
 "C06": ("Coq lemma on the model's undo_bytes (hands back every whole byte in the bit buffer, < 8 bits remain) - the arithmetic core of the mechanism. The property itself is decided per explored run: valid streams + 0..64 trailing bytes x chunkings x {flat, ring, inflate(), mz_inflate, tinfl_decompress}, consumed count == the specification's exact encoded length.",
         "PARTIAL: the invariant relating the bit buffer to consumed input (relation R, DESIGN 4.2) is not proved.",
         "Coq lemma + extracted-spec oracle + model differential"),
 "C08": ("Coq theorem T_frame on M_inf (complete model of decompress_with_limit), for EVERY decoder value, input, slice, out_pos, budget, flags: on every normal return consumed <= offered, written <= min(budget, len-out_pos), every byte outside [out_pos, out_pos+written) unchanged, HasMoreOutput only with the granted window full, NeedsMoreInput only with all input consumed (invariant through all 35 states, fast/medium/slow tiers, transfer/apply_match, using the regenerated LENGTH tables). Tied by line-by-line differential incl. an `outside=same` byte comparison on sentinel-filled buffers; vector-limit clauses by oracle.",
         "Conditional on the call returning (model Panic excluded, see C05). Vector-function limit clauses are decided per run, not yet proved.",
         "Coq invariant proof over the executable model + differential"),
 "C09": ("Coq theorems over definitions REGENERATED from the Rust source on every run: header_from_flags yields an RFC-1950-valid header for every flag word and window_bits <= 15 with no debug panic; validate_zlib_header rejects exactly the invalid headers (all 65536 by kernel computation) plus too-small rings. Header/trailer bytes of every configuration and trailer corruption on decode are checked against the extracted spec.",
         "Trailer / running-Adler clauses are decided per explored run against the spec oracle.",
         "Coq proof over source-regenerated definitions + differential"),
 "C10": ("Coq theorems (kernel computation over tables REGENERATED from deflate/core.rs): what the encoder emits for any match length 3..258 and any distance 1..32768 (symbol, extra bits) decodes under the specification's RFC tables to that length/distance. Validity and mode clauses are decided on the token trace recovered from the emitted bytes by the extracted spec decoder (shares no code with the crate).",
         "PARTIAL: engine contracts K_lz/K_huff not proved; effectiveness clause has no forall form (searched on X++X).",
         "Coq table proofs + verified-spec token oracle"),
 "C11": ("Coq theorems on regenerated functions: CINFO = max(w,8)-8 <= 7; window_bits < 12 forces (one probe + RLE) or no matches; 12..14 forces level <= 1 (all 16x11x5 configurations by kernel computation). Token-level maximal distance and a decode on a ring of exactly the declared size are checked per run. Two genuine defects found and fixed (fix: commits 7072712, c521b8c).",
         "PARTIAL: that compress_fast/compress_normal honour the distance cap is decided per run on the token trace, not proved.",
         "Coq proof over source-regenerated routing + spec token oracle"),
 "C13": ("Coq theorems on the model of inflate(): full-flush => stream error with no effect; errors sticky (same class, nothing consumed/written); non-Finish after Finish => stream error; and for every state reachable from a constructor or reset, every input, output length and flush value: consumed <= offered, delivered <= out_len, window bookkeeping (dict_ofs + dict_avail <= 32768) preserved - built on the core frame theorem. Exhaustive/random call sequences are compared with the model line by line and judged by the protocol clauses and the spec plaintext.",
         "PARTIAL: the progress and stream-end clauses (and prefix-of-plaintext) need the simulation M_inf -> specification and are decided per run.",
         "Coq proof on the wrapper model + differential + protocol oracle"),
 "C14": ("Coq theorems on the model of deflate()/compress_inner (control plane shared by all levels): empty output refused with the compressor untouched; after stream end Finish => stream end/0/0 and anything else => buffer error; non-Finish after Finish => parameter error consuming and emitting nothing. Exhaustive/random call sequences vs model (byte-exact at level 0) and protocol oracle.",
         "PARTIAL: progress/termination under Finish decided per run; engines above level 0 not modelled.",
         "Coq proof on the control-plane model + differential + protocol oracle"),
 "C15": ("Coq theorems on the bound formula REGENERATED from src/lib.rs: no overflow below 2^56, equals 128+n+n/8+5(n/31744+1) (dominates miniz's max(128+1.1n, 128+n+5(n/31744+1)); allows 9 bits per input byte), monotone; and for EVERY input the level-0 zlib output of the compress_to_vec model has exactly 2+n+5(floor(n/31745)+1)+4 bytes and is within the bound (C15_level0_output_within_bound, via the level-0 round-trip theorem). Adversarial search over content classes/levels/strategies (incl. 9-bit literals under the fixed code beyond the window: the defect repaired in ff08c25) records the worst size/bound ratio.",
         "PARTIAL BY NATURE: the worst-case size of Huffman-coded blocks for every input is not proved (needs optimality bounds of length-limited codes).",
         "Coq proof over source-regenerated formula + adversarial search"),
 "C02": ("Coq theorems on the model of the control plane + stored engine (compress_inner, flush_block, flush_output_buffer, compress_stored; every flag word with FORCE_ALL_RAW_BLOCKS, tied to the code line by line on every run): (a) for every compressor state, chunk, output length and flush mode a call reports consumed <= offered and written <= out_len; (b) losslessness under EVERY schedule at level 0: for every input and every sequence of compress() calls (any chunking, any output buffer lengths, flush None/Sync/Full/Finish, unconsumed input offered again) that ends with Done, the concatenated output is decoded by the RFC 1951/1950 specification to exactly the input consumed, with all output used (invariant: what has been delivered plus what is pending is a header followed by whole stored blocks carrying the prefix flushed so far). For levels 1-10 losslessness under (level, strategy, format, window bits) x schedules x sinks is decided per explored schedule by the extracted specification on the concatenated output.",
         "PARTIAL: engines above level 0 (match finders, Huffman coder) are not modelled; the forall-schedule theorem is partial correctness (schedules on which the model returns) at level 0 with flush values None/Sync/Full/Finish.",
         "Coq invariant/refinement proof on the control-plane + stored-engine model + extracted-spec oracle + differential"),
 "C07": ("Coq theorem on M_inf: suspend/resume of the bit reader - if read_bits starves on a prefix of the input, resuming from the saved state with the rest equals reading the whole input at once, for every state, bit count, continuation and flag words (base case of T_sim). The property is decided per explored stream by comparing every single cut point (directed corpus up to 1300 bytes), byte-wise feeding, budget sweeps and random partitions with each other within flat / ring / inflate(), plus the model line by line.",
         "PARTIAL: the lift to the whole automaton (T_sim) is open.",
         "Coq proof (resume lemma) + exhaustive cut-point differential"),
 "C12": ("Coq theorem on the specification: the marker a sync/full flush ends with (000, zero padding, 00 00 FF FF) is read by the RFC 1951 spec as one empty non-final stored block ending byte-aligned, at every bit alignment and for every continuation. Per explored flush point (premises of the property checked literally) the spec's prefix decoder must decode the bytes emitted so far to all input so far, find the marker, and - after a full flush - decode the remainder on its own; NoSync;Sync == Sync. Level-0 bytes are byte-exact against the model.",
         "PARTIAL: that the compressor emits the marker / clears history is decided per run, not proved on the model yet.",
         "Coq proof on the spec + spec prefix-decoder oracle + level-0 model differential"),
 "C17": ("Coq theorems: the shim's accounting around a stream call (pointer advance = drop in avail = rise in the wrapping 64-bit total, never beyond what was available; model of lib_oxide.rs), and on functions REGENERATED from the source the flush-value mapping (anything outside 0..4 => MZ_PARAM_ERROR) and the window-bits validation (|w| = 15 only). mz_deflate/mz_inflate are compared call by call with deflate()/inflate() (status, consumed, written, bytes, adler), all caller buffers flush against PROT_NONE guard pages; misuse table (null stream/buffers/dest_len, other-kind stream, allocators, bad method/mem_level/window_bits/flush/level, ended streams); one-call helpers vs Rust vector functions.",
         "PARTIAL BY NATURE: that the unsafe slice constructions, Box hand-offs and catch_unwind behave like the model's regions is Rust/OS semantics (root crate uses panic=abort); exercised, not proved.",
         "Coq proof of the accounting/mapping + guard-page differential against the Rust API"),
 "C18": ("Determinism is definitional (models are Coq functions). Coq theorems on the models: CompressorOxide::reset == freshly constructed compressor (record equality); ZeroReset/FullReset restore every wrapper field and re-init the decoder; MinReset REFUTED with a concrete witness (known finding F3). Per run: random histories (cut streams, flushes, corrupt input, errors, interrupted Finish) then reset then a different stream, compared with fresh objects for InflateState x 3 policies, DecompressorOxide::init, CompressorOxide::reset, mz_deflateReset.",
         "PARTIAL: that init() hides every stale decoder field (liveness relation) is decided per explored history, not proved.",
         "Coq proof/refutation on the models + reset-vs-fresh differential"),
 "C19": ("The model has no notion of a snapshot: the correspondence requires the implementation, with the decoder replaced before EVERY call by its clone / JSON round trip / MessagePack round trip, to produce the model's lines. Coq theorems on the model of the block-boundary record: it captures exactly state, pending bits (<8), header bytes and running checksum, and the rebuilt decoder agrees on them. Per run: rebuild at every boundary from record + last 32 KiB (older output zeroed) vs uninterrupted; exactly one stop per non-final block; pending bits == top bits of the last consumed byte.",
         "PARTIAL: derive macros / rmp-serde / serde_json are outside any model; deadness of the other fields at a boundary is decided per run.",
         "snapshot-at-every-call differential against the executable model + Coq lemma on the boundary record"),
 "C20": ("Coq theorems evaluated by the kernel on the CURRENT sources (regenerated into coq/gen/GenSources.v each run): no `unsafe` token outside comments/literals in any .rs file under miniz_oxide/src (compiled-in or not), lib.rs carries #![forbid(unsafe_code)] and the no_std cfg_attr; scanner sanity Examples. Compiler verdicts per run: cargo rustc -F unsafe_code for 8 feature sets, a #![no_std] no-alloc user crate, Send+Sync+Clone+'static assertions on the public state types; scanner and compiler verdicts must agree.",
         "PARTIAL BY NATURE: feature-matrix builds and auto-trait resolution are facts about rustc; the scanner's relational soundness lemma is not proved (only its discrimination Examples).",
         "kernel-evaluated source scan + rustc feature-matrix correspondence"),
 "C16": ("Coq theorems (closed): Adler-32 and CRC-32 as defined by RFC 1950 / ISO 3309 compose over any split; the extracted definitions are the oracle for the exported update functions (scalar and simd builds, debug and release), the C exports (null pointer, 64-bit high bits) and the running checksums of compressor, decoder and mz_stream.adler after every call.",
         "adler2 / simd-adler32 / crc32fast kernels are third-party and tied by differential only.",
         "Coq proof of the composition laws + extracted-spec differential"),
}
REFS = {k: "DESIGN.md section 6 " + k for k in CLAIMS}
props = [json.loads(l) for l in open('/verif/properties.jsonl')]
m = {"version": 1, "setup_cmd": "bash bin/setup",
     "hooks": {"guard": "--cfg miniz_oxide_verif",
               "enable": "RUSTFLAGS=\"--cfg miniz_oxide_verif\" cargo build --offline (harness crate with path deps on /repo and /repo/miniz_oxide)",
               "baseline_off_cmd": "cd /repo && cargo test --workspace --no-fail-fast --offline",
               "source_commits": ["c4b58e0"], "add_only": True},
     "engines": [{"name": "check", "path": "bin/check", "serves_properties": sorted(CLAIMS),
                  "kind_free_text": "Coq 8.16 proofs + extracted OCaml model/spec vs Rust harness differential"}],
     "checks": [], "not_applicable": [],
     "notes": "See DESIGN.md. Every check: regenerate coq/gen from /repo, make the property's .vo cone, Print Assumptions, rebuild harness from the working tree (hooks on, debug+release), run correspondence and spec oracle. Genuine defects found: known_findings.json."}
for p in props:
    i = p["id"]
    if i in CLAIMS:
        text, note, tech = CLAIMS[i]
        m["checks"].append({"property_id": i, "quick_cmd": "bin/check %s --tier quick" % i,
                            "thorough_cmd": "bin/check %s --tier thorough" % i, "evidence_file": "evidence/%s.json" % i,
                            "replay_cmd_template": "bin/check %s --replay {path}" % i, "engine": "check",
                            "level_claimed": {"category": "proof", "text": text, "design_ref": REFS[i]},
                            "level_note": note, "technique": tech})
    else:
        m["not_applicable"].append({"property_id": i, "reason": "not claimed in this commit: the check for this property is still under construction (no technique switch intended; see DESIGN.md section 11)"})
json.dump(m, open('/verif/MANIFEST.json', 'w'), indent=1)
print("claimed", len(m["checks"]), "unclaimed", len(m["not_applicable"]))
