(* mzm: interprets case files with the extracted Coq specification / models and prints one
   canonical line per operation, in the same format as the Rust harness (harness/src/main.rs).
   Only parsing, printing and conversion between OCaml ints and Coq numbers live here. *)
open Mzmodel

(* ---------------------------------------------------------------- conversions *)
let rec pos_of_int (i : int) : positive =
  if i = 1 then XH
  else if i land 1 = 0 then XO (pos_of_int (i lsr 1))
  else XI (pos_of_int (i lsr 1))

let n_of_int (i : int) : n = if i = 0 then N0 else Npos (pos_of_int i)

let rec int_of_pos (p : positive) : int =
  match p with XH -> 1 | XO q -> 2 * int_of_pos q | XI q -> 2 * int_of_pos q + 1

let int_of_n (x : n) : int = match x with N0 -> 0 | Npos p -> int_of_pos p
let z_of_int (i : int) : z = if i = 0 then Z0 else if i > 0 then Zpos (pos_of_int i) else Zneg (pos_of_int (-i))
let int_of_z (x : z) : int = match x with Z0 -> 0 | Zpos p -> int_of_pos p | Zneg p -> - (int_of_pos p)

(* decimal strings of any size, through Coq's own Z arithmetic *)
let z_of_string (s : string) : z =
  if s = "-" then z_of_int (-1)
  else if String.length s < 18 then z_of_int (int_of_string s)
  else begin
    let neg = s.[0] = '-' in
    let acc = ref Z0 in
    String.iteri (fun i c -> if not (i = 0 && neg) then
      acc := Z.add (Z.mul !acc (z_of_int 10)) (z_of_int (Char.code c - 48))) s;
    if neg then Z.opp !acc else !acc
  end

let rec nat_of_int (i : int) : nat = if i <= 0 then O else S (nat_of_int (i - 1))

let hexval c =
  match c with
  | '0' .. '9' -> Char.code c - 48
  | 'a' .. 'f' -> Char.code c - 87
  | 'A' .. 'F' -> Char.code c - 55
  | _ -> failwith "bad hex"

let bytes_of_hex (s : string) : int array =
  if s = "-" then [||]
  else Array.init (String.length s / 2) (fun i -> hexval s.[2 * i] * 16 + hexval s.[2 * i + 1])

let nlist_of_array (a : int array) : n list =
  let r = ref [] in
  for i = Array.length a - 1 downto 0 do r := n_of_int a.(i) :: !r done;
  !r

let array_of_nlist (l : n list) : int array = Array.of_list (List.map int_of_n l)

let fnv_init = 0xcbf29ce484222325L
let fnv_prime = 0x100000001b3L

let fnv (a : int array) : int64 =
  let h = ref fnv_init in
  Array.iter (fun b -> h := Int64.mul (Int64.logxor !h (Int64.of_int b)) fnv_prime) a;
  !h

let fnv_step (h : int64) (x : int) : int64 =
  let h = ref h in
  for i = 0 to 7 do
    h := Int64.mul (Int64.logxor !h (Int64.of_int ((x lsr (8 * i)) land 0xff))) fnv_prime
  done;
  !h

let hex (a : int array) : string =
  if Array.length a = 0 then "-"
  else begin
    let b = Buffer.create (2 * Array.length a) in
    Array.iter (fun x -> Buffer.add_string b (Printf.sprintf "%02x" x)) a;
    Buffer.contents b
  end

let show (a : int array) : string =
  if Array.length a <= 48 then hex a else Printf.sprintf "#%d:%016Lx" (Array.length a) (fnv a)

let num (s : string) : int = if s = "-" then -1 else int_of_string s

(* ---------------------------------------------------------------- registers *)
let input : int array ref = ref [||]

let bytes (s : string) : int array =
  if s = "@" then !input
  else if String.length s > 0 && s.[0] = '@' then begin
    match String.split_on_char ':' (String.sub s 1 (String.length s - 1)) with
    | [o; l] ->
        let o = int_of_string o and l = int_of_string l in
        let e = min (o + l) (Array.length !input) in
        let o = min o e in
        Array.sub !input o (e - o)
    | _ -> failwith "bad slice"
  end else bytes_of_hex s

let ekind_name (e : ekind) : string =
  match e with
  | EBlockType -> "blocktype" | EStoredLen -> "storedlen" | ETableSizes -> "tablesizes"
  | EClenCode -> "clencode" | ERepeatFirst -> "repeatfirst" | ERepeatOverrun -> "repeatoverrun"
  | ELitlenCode -> "litlencode" | EDistCode -> "distcode" | EBadSymbol -> "badsymbol"
  | EDistance -> "distance" | EZlibHeader -> "zlibheader" | EAdler -> "adler"

let summary_string (bs : block list) : string =
  let s = summarize bs in
  Printf.sprintf "blocks=%d stored=%d fixed=%d dynamic=%d finals=%d lastfinal=%d matches=%d lits=%d maxdist=%d minlen=%d maxlen=%d maxstored=%d maxhlit=%d maxhdist=%d maxcodelen=%d fixedne=%d"
    (int_of_n s.ts_blocks) (int_of_n s.ts_stored) (int_of_n s.ts_fixed) (int_of_n s.ts_dynamic)
    (int_of_n s.ts_finals) (if s.ts_last_final then 1 else 0) (int_of_n s.ts_matches) (int_of_n s.ts_lits)
    (int_of_n s.ts_maxdist) (int_of_n s.ts_minlen) (int_of_n s.ts_maxlen) (int_of_n s.ts_maxstored)
    (int_of_n s.ts_maxhlit) (int_of_n s.ts_maxhdist) (int_of_n s.ts_maxcodelen) (int_of_n s.ts_fixed_nonempty)

let zpair (p : (z * z)) = Printf.sprintf "%d,%d" (int_of_z (fst p)) (int_of_z (snd p))

(* ---------------------------------------------------------------- ops *)
let exec (a : string array) : string option =
  match a.(0) with
  | "in" -> input := bytes_of_hex a.(1); Some (Printf.sprintf "len=%d" (Array.length !input))
  | "adler" ->
      Some (string_of_int (int_of_n (adler32 (n_of_int (num a.(1))) (nlist_of_array (bytes a.(2))))))
  | "crc" ->
      Some (string_of_int (int_of_n (crc32 (n_of_int (num a.(1))) (nlist_of_array (bytes a.(2))))))
  | "adlersplit" | "crcsplit" ->
      let f = if a.(0) = "adlersplit" then adler32 else crc32 in
      let cuts = List.map (fun c -> n_of_int (num c)) (String.split_on_char ',' a.(3)) in
      Some (string_of_int (int_of_n (thread_splits f (n_of_int (num a.(1))) (nlist_of_array (bytes a.(2))) N0 cuts)))
  | "fn" -> begin
      let zi i = z_of_string a.(i) in
      let okflag k = if k then "" else " DEBUG-PANIC" in
      match a.(1) with
      | "header_from_flags" ->
          let (r, k) = header_from_flags (zi 2) (zi 3) in Some (zpair r ^ okflag k)
      | "validate_zlib_header" ->
          let ((_, st), k) = validate_zlib_header (zi 2) (zi 3) (zi 4) (zi 5) in
          Some (string_of_int (int_of_z st) ^ okflag k)
      | "num_extra_bits_for_distance_code" ->
          let (r, k) = num_extra_bits_for_distance_code (zi 2) in Some (string_of_int (int_of_z r) ^ okflag k)
      | "create_comp_flags_from_zip_params" ->
          let (r, k) = create_comp_flags_from_zip_params (zi 2) (zi 3) (zi 4) in
          Some (string_of_int (int_of_z r) ^ okflag k)
      | "limit_level_by_window_bits" ->
          let (r, k) = limit_level_by_window_bits (zi 2) (zi 3) (zi 4) in Some (zpair r ^ okflag k)
      | "window_bits_from_flags" ->
          let (r, k) = window_bits_from_flags (zi 2) in Some (string_of_int (int_of_z r) ^ okflag k)
      | "probes_from_flags" ->
          let (r, k) = probes_from_flags (zi 2) in Some (zpair r ^ okflag k)
      | "update_hash" ->
          let (r, k) = update_hash (zi 2) (zi 3) in Some (string_of_int (int_of_z r) ^ okflag k)
      | "mz_deflateBound" ->
          let (r, k) = mz_deflateBound () (zi 2) in Some (string_of_int (int_of_z r) ^ okflag k)
      | _ -> None
    end
  (* ---- oracle queries (written by bin/check from the implementation's outputs) *)
  | "sinflate" ->
      (* sinflate <0 raw | 1 zlib | 2 zlib-ignore-checksum> <hex> *)
      let data = nlist_of_array (bytes a.(2)) in
      let r = match num a.(1) with
        | 0 -> inflate_spec data
        | 1 -> zlib_spec true data
        | _ -> zlib_spec false data in
      Some (match r with
        | SDone (out, nb, bs) ->
            let o = array_of_nlist out in
            Printf.sprintf "done n=%d len=%d o=%s %s" (int_of_n nb) (Array.length o) (show o) (summary_string bs)
        | STrunc -> "trunc"
        | SErr e -> "err " ^ ekind_name e)
  | "sinflatering" ->
      (* sinflatering <0 raw | 1 zlib> <ring len> <fill> <hex> *)
      let data = nlist_of_array (bytes a.(4)) in
      let r = spec_ring (num a.(1) <> 0) true (n_of_int (num a.(2))) (n_of_int (num a.(3))) data in
      Some (match r with
        | SDone (out, nb, bs) ->
            let o = array_of_nlist out in
            Printf.sprintf "done n=%d len=%d o=%s" (int_of_n nb) (Array.length o) (show o)
        | STrunc -> "trunc"
        | SErr e -> "err " ^ ekind_name e)
  | "sprefix" ->
      (* sprefix <hex>: raw deflate prefix; which whole blocks are present and what they expand to *)
      let data = nlist_of_array (bytes a.(1)) in
      let ((((out, consumed), clean), fin), bs) = prefix_spec data in
      let lastsync = match List.rev bs with b :: _ -> block_is_sync b | [] -> false in
      Some (match out with
        | None -> "baddist"
        | Some o ->
            let o = array_of_nlist o in
            Printf.sprintf "bits=%d clean=%d final=%d lastsync=%d blocks=%d len=%d o=%s"
              (int_of_n consumed) (if clean then 1 else 0) (if fin then 1 else 0)
              (if lastsync then 1 else 0) (List.length bs) (Array.length o) (show o))
  | _ -> Mzm_models.exec a input bytes show

let () =
  let ic = open_in Sys.argv.(1) in
  let case = ref "?" and opn = ref 0 in
  (try
     while true do
       let line = input_line ic in
       let toks = Array.of_list (List.filter (fun s -> s <> "") (String.split_on_char ' ' line)) in
       if Array.length toks > 0 && toks.(0).[0] <> '#' then begin
         if toks.(0) = "case" then begin
           case := toks.(1); opn := 0; input := [||]; Mzm_models.reset ()
         end else if toks.(0) <> "end" then begin
           incr opn;
           match (try exec toks with Stack_overflow -> Some "MODEL-STACK-OVERFLOW") with
           | Some s -> Printf.printf "%s %d %s %s\n" !case !opn toks.(0) s
           | None -> ()
         end
       end
     done
   with End_of_file -> ());
  flush stdout
