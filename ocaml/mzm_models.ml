(* Model-side operations: the extracted state machines of coq/model behind the same op
   language as the Rust harness.  Only parsing, printing and int<->N conversion live here. *)
open Mzmodel

let rec pos_of_int (i : int) : positive =
  if i = 1 then XH else if i land 1 = 0 then XO (pos_of_int (i lsr 1)) else XI (pos_of_int (i lsr 1))
let n_of_int (i : int) : n = if i = 0 then N0 else Npos (pos_of_int i)
let rec int_of_pos (p : positive) : int =
  match p with XH -> 1 | XO q -> 2 * int_of_pos q | XI q -> 2 * int_of_pos q + 1
let int_of_n (x : n) : int = match x with N0 -> 0 | Npos p -> int_of_pos p
let int_of_z (x : z) : int = match x with Z0 -> 0 | Zpos p -> int_of_pos p | Zneg p -> - (int_of_pos p)
let nlist_of_array (a : int array) : n list =
  let r = ref [] in
  for i = Array.length a - 1 downto 0 do r := n_of_int a.(i) :: !r done; !r
let array_of_nlist (l : n list) : int array = Array.of_list (List.map int_of_n l)
let usize_max = Npos (let rec ones k = if k = 1 then XH else XI (ones (k - 1)) in ones 64)

let fnv_init = 0xcbf29ce484222325L
let fnv_prime = 0x100000001b3L
let fnv (a : int array) : int64 =
  let h = ref fnv_init in
  Array.iter (fun b -> h := Int64.mul (Int64.logxor !h (Int64.of_int b)) fnv_prime) a; !h
let fnv_step (h : int64) (x : int) : int64 =
  let h = ref h in
  for i = 0 to 7 do
    h := Int64.mul (Int64.logxor !h (Int64.of_int ((x lsr (8 * i)) land 0xff))) fnv_prime
  done; !h

let num (s : string) : int = if s = "-" then -1 else int_of_string s
let lim (s : string) : n = if s = "-" then usize_max else n_of_int (int_of_string s)

let arr_to_array (a : arr) : int array =
  let n = int_of_n (alen a) in
  Array.init n (fun i -> int_of_n (aget a (n_of_int i)))

(* ---- registers *)
let d : dec ref = ref dec_default
let buf : arr ref = ref (amake N0 N0)

let is : istream ref = ref (is_new FRaw)
let c : comp option ref = ref None
let reset () = d := dec_default; buf := amake N0 N0; is := is_new FRaw; c := None
let z_of_int (i : int) : z = if i = 0 then Z0 else if i > 0 then Zpos (pos_of_int i) else Zneg (pos_of_int (-i))
let hexs (a : int array) : string =
  if Array.length a = 0 then "-" else begin
    let b = Buffer.create (2 * Array.length a) in
    Array.iter (fun x -> Buffer.add_string b (Printf.sprintf "%02x" x)) a; Buffer.contents b end
let fmt_of i = match i with 0 -> FZlib | 1 -> FZlibIgnore | _ -> FRaw
let sched3_of (s : string) : (int * int * int) list =
  List.map (fun it ->
      match String.split_on_char ':' it with
      | [a; b; c] -> (num a, num b, num c)
      | _ -> failwith "bad sched") (String.split_on_char ',' s)

let adler_str (r : dec) = match dec_adler32 r with Some x -> string_of_int (int_of_n x) | None -> "-1"

let sched_of (s : string) : (n * n option) list =
  List.map (fun it ->
      match String.split_on_char ':' it with
      | [a; b] -> (n_of_int (num a), if b = "-" then None else Some (n_of_int (num b)))
      | _ -> failwith "bad sched") (String.split_on_char ',' s)

let exec (a : string array) (_input : int array ref) (bytes : string -> int array)
    (show : int array -> string) : string option =
  match a.(0) with
  | "snap" -> Some "ok"
  | "buf" -> buf := amake (n_of_int (num a.(1))) (n_of_int (num a.(2))); Some "ok"
  | "bufset" -> buf := aset_list !buf (n_of_int (num a.(1))) (nlist_of_array (bytes a.(2))); Some "ok"
  | "dnew" -> d := dec_default; Some "ok"
  | "dinit" -> d := dec_init !d; Some "ok"
  | "dcall" -> begin
      let inp = nlist_of_array (bytes a.(1)) in
      let pos = num a.(2) in
      match decompress !d inp !buf (n_of_int pos) (lim a.(3)) (n_of_int (num a.(4))) with
      | Panic _ -> d := dec_default; buf := amake N0 N0; Some "PANIC"
      | OutOfFuel -> Some "MODEL-OUT-OF-FUEL"
      | Ret r ->
          let before = arr_to_array !buf in
          d := r.cr_dec; buf := r.cr_buf;
          let b = arr_to_array r.cr_buf in
          let oc = int_of_n r.cr_out in
          let lo = min pos (Array.length b) in
          let hi = min (pos + oc) (Array.length b) in
          let same = ref true in
          Array.iteri (fun i x -> if (i < lo || i >= hi) && before.(i) <> x then same := false) b;
          Some (Printf.sprintf "st=%d in=%d out=%d o=%s bh=%016Lx ad=%s outside=%s"
                  (int_of_z (status_code r.cr_status)) (int_of_n r.cr_in) oc
                  (show (Array.sub b lo (hi - lo))) (fnv b) (adler_str r.cr_dec)
                  (if !same then "same" else "CHANGED"))
    end
  | "drive" -> begin
      let inp = nlist_of_array (bytes a.(1)) in
      let ring = a.(2) = "ring" in
      let len = n_of_int (num a.(3)) in
      let start = if Array.length a <= 7 then None else Some (!d, !buf) in
      let (pre, cyc) = match String.index_opt a.(6) '|' with
        | Some i -> (sched_of (String.sub a.(6) 0 i), sched_of (String.sub a.(6) (i + 1) (String.length a.(6) - i - 1)))
        | None -> ([], sched_of a.(6)) in
      let (w, s) = drive inp ring len (n_of_int (num a.(4))) (n_of_int (num a.(5))) pre cyc start in
      match w with
      | WPanic _ -> d := dec_default; buf := amake N0 N0; Some "PANIC"
      | WFuel -> Some "MODEL-OUT-OF-FUEL"
      | _ ->
          d := s.ds_dec; buf := s.ds_buf;
          let out = array_of_nlist (List.rev s.ds_rout) in
          let trace = List.rev s.ds_trace in
          let th = List.fold_left (fun h ((l, ic), oc) ->
              fnv_step (fnv_step (fnv_step h (int_of_z l + 16)) (int_of_n ic)) (int_of_n oc)) fnv_init trace in
          let tr = Buffer.create 64 in
          List.iteri (fun i ((l, ic), oc) ->
              if i < 40 then Buffer.add_string tr (Printf.sprintf "%d/%d/%d;" (int_of_z l) (int_of_n ic) (int_of_n oc))) trace;
          let whys = match w with WCap -> "cap" | WEnd -> "end" | WStall -> "stall" | WOutFull -> "outfull" | _ -> "?" in
          Some (Printf.sprintf "st=%d in=%d out=%d calls=%d why=%s o=%s bh=%016Lx th=%016Lx ad=%s tr=%s"
                  (int_of_z s.ds_last) (int_of_n s.ds_in_off) (Array.length out) (int_of_n s.ds_calls) whys
                  (show out) (fnv (arr_to_array s.ds_buf)) th (adler_str s.ds_dec)
                  (if Buffer.length tr = 0 then "-" else Buffer.contents tr))
    end
  | "isnew" -> is := is_new (fmt_of (num a.(1))); Some "ok"
  | "isreset" ->
      (match num a.(1) with
       | 0 -> is := min_reset !is
       | 1 -> is := zero_reset !is
       | _ -> is := full_reset (fmt_of (num a.(2))) !is);
      Some "ok"
  | "iscall" -> begin
      match inflate !is (nlist_of_array (bytes a.(1))) (n_of_int (num a.(2))) (n_of_int (num a.(3))) with
      | Panic _ -> is := is_new FRaw; Some "PANIC"
      | OutOfFuel -> Some "MODEL-OUT-OF-FUEL"
      | Ret r ->
          is := r.sr_state;
          let o = array_of_nlist r.sr_out in
          Some (Printf.sprintf "st=%d in=%d out=%d o=%s ls=%d ad=%s" (int_of_z r.sr_code) (int_of_n r.sr_in)
                  (Array.length o) (show o) (int_of_z (status_code r.sr_state.is_last)) (adler_str r.sr_state.is_dec))
    end
  | "isdrive" -> begin
      let input = bytes a.(1) in
      let sc = Array.of_list (sched3_of a.(2)) in
      let n = Array.length sc in
      let in_off = ref 0 and out = Buffer.create 256 and calls = ref 0 and stall = ref 0 in
      let th = ref fnv_init and last = ref 99 and why = ref "cap" and tr = Buffer.create 64 in
      let panic = ref false in
      (try
        while !calls < 200000 do
          let (nin, nout, fl) = sc.(!calls mod n) in
          let e = min (!in_off + nin) (Array.length input) in
          let chunk = Array.sub input !in_off (e - !in_off) in
          (match inflate !is (nlist_of_array chunk) (n_of_int nout) (n_of_int fl) with
           | Ret r ->
               is := r.sr_state;
               let o = array_of_nlist r.sr_out in
               Array.iter (fun b -> Buffer.add_char out (Char.chr b)) o;
               let ic = int_of_n r.sr_in and oc = Array.length o in
               in_off := !in_off + ic;
               incr calls;
               last := int_of_z r.sr_code;
               th := fnv_step (fnv_step (fnv_step !th (!last + 20000)) ic) oc;
               if !calls <= 40 then Buffer.add_string tr (Printf.sprintf "%d/%d/%d;" !last ic oc);
               if !last = 1 || (!last < 0 && !last <> -5) then begin why := "end"; raise Exit end;
               if ic = 0 && oc = 0 then incr stall else stall := 0;
               if !stall > n then begin why := "stall"; raise Exit end
           | _ -> panic := true; raise Exit)
        done
      with Exit -> ());
      if !panic then begin is := is_new FRaw; Some "PANIC" end
      else begin
        let o = Array.init (Buffer.length out) (fun i -> Char.code (Buffer.nth out i)) in
        Some (Printf.sprintf "st=%d in=%d out=%d calls=%d why=%s o=%s th=%016Lx ls=%d ad=%s tr=%s"
                !last !in_off (Array.length o) !calls !why (show o) !th
                (int_of_z (status_code !is.is_last)) (adler_str !is.is_dec)
                (if Buffer.length tr = 0 then "-" else Buffer.contents tr))
      end
    end
  | "dvec" -> begin
      let z = num a.(1) <> 0 in
      let inp = nlist_of_array (bytes a.(3)) in
      match decompress_to_vec_inner inp (if z then n_of_int 1 else N0) (lim a.(2)) with
      | Panic _ -> Some "PANIC"
      | OutOfFuel -> Some "MODEL-OUT-OF-FUEL"
      | Ret (VOk o) -> let o = array_of_nlist o in Some (Printf.sprintf "ok len=%d o=%s" (Array.length o) (show o))
      | Ret (VErr (st, o)) ->
          let o = array_of_nlist o in
          Some (Printf.sprintf "err st=%d len=%d o=%s" (int_of_z (status_code st)) (Array.length o) (show o))
    end
  | "dslices" -> begin
      let z = num a.(1) <> 0 and ig = num a.(2) <> 0 in
      let inp = bytes a.(4) in
      let cuts = if a.(5) = "-" then [] else
          List.sort compare (List.map (fun c -> min (num c) (Array.length inp)) (String.split_on_char ',' a.(5))) in
      let rec mk prev cs = match cs with
        | [] -> [nlist_of_array (Array.sub inp prev (Array.length inp - prev))]
        | c :: rest -> nlist_of_array (Array.sub inp prev (c - prev)) :: mk c rest in
      match decompress_slice_iter_to_slice (n_of_int (num a.(3))) (mk 0 cuts) z ig with
      | Panic _ -> Some "PANIC"
      | OutOfFuel -> Some "MODEL-OUT-OF-FUEL"
      | Ret ((st, n), o) ->
          if int_of_z (status_code st) = 0 then begin
            let b = Array.sub (arr_to_array o) 0 (int_of_n n) in
            Some (Printf.sprintf "ok len=%d o=%s" (int_of_n n) (show b))
          end else Some (Printf.sprintf "err st=%d" (int_of_z (status_code st)))
    end
  | "cnew" -> c := Some (comp_new (n_of_int (num a.(1))) (n_of_int 15)); Some "ok"
  | "cnewzip" ->
      let (r, _) = create_comp_flags_from_zip_params (z_of_int (num a.(1))) (z_of_int (num a.(2))) (z_of_int (num a.(3))) in
      let f = (int_of_z r) lor 0x2000 in
      c := Some (comp_new (n_of_int f) (n_of_int 15)); Some (Printf.sprintf "flags=%d" f)
  | "cdefault" -> c := Some (comp_new dEFAULT_FLAGS (n_of_int 15)); Some "ok"
  | "cparams" ->
      let cc = with_params (num a.(1) <> 2) (n_of_int (num a.(2))) (n_of_int (num a.(3))) (n_of_int (num a.(4))) in
      c := Some cc; Some (Printf.sprintf "flags=%d" (int_of_n cc.c_flags))
  | "cflags" ->
      let (r, _) = create_comp_flags_from_zip_params (z_of_int (num a.(1))) (z_of_int (num a.(2))) (z_of_int (num a.(3))) in
      Some (string_of_int (int_of_z r))
  | "creset" -> (match !c with Some cc -> c := Some (comp_reset cc) | None -> ()); Some "ok"
  | "csetlevel" -> c := None; None
  | "ccall" -> begin
      match !c with None -> None | Some cc ->
      match compress cc (nlist_of_array (bytes a.(1))) (n_of_int (num a.(2))) (n_of_int (num a.(3))) with
      | Panic _ -> c := None; Some "PANIC"
      | OutOfFuel -> Some "MODEL-OUT-OF-FUEL"
      | Ret CUnmodelled -> c := None; None
      | Ret (CRet r) ->
          c := Some r.r_comp;
          let o = array_of_nlist r.r_out in
          Some (Printf.sprintf "st=%d in=%d out=%d o=%s ad=%d ub=%d"
                  (int_of_z (tstatus_code r.r_status)) (int_of_n r.r_in)
                  (Array.length o) (show o) (int_of_n r.r_comp.c_adler)
                  (int_of_n r.r_comp.c_sbits))
    end
  | "ccallf" -> begin
      match !c with None -> None | Some cc ->
      let acc = if a.(3) = "-" then None else Some (n_of_int (num a.(3))) in
      match compress_to_output cc (nlist_of_array (bytes a.(1))) (n_of_int (num a.(2))) acc with
      | Panic _ -> c := None; Some "PANIC"
      | OutOfFuel -> Some "MODEL-OUT-OF-FUEL"
      | Ret CUnmodelled -> c := None; None
      | Ret (CRet r) ->
          c := Some r.r_comp;
          let o = array_of_nlist r.r_out in
          let calls = match r.r_cb with CFunc (_, _, k) -> int_of_n k | _ -> 0 in
          Some (Printf.sprintf "st=%d in=%d cb=%d o=%s ad=%d"
                  (int_of_z (tstatus_code r.r_status)) (int_of_n r.r_in)
                  calls (show o) (int_of_n r.r_comp.c_adler))
    end
  | "dfcall" -> begin
      match !c with None -> None | Some cc ->
      match deflate cc (nlist_of_array (bytes a.(1))) (n_of_int (num a.(2))) (n_of_int (num a.(3))) with
      | Panic _ -> c := None; Some "PANIC"
      | OutOfFuel -> Some "MODEL-OUT-OF-FUEL"
      | Ret DUnmodelled -> c := None; None
      | Ret (DRet (code, cons, out, cc')) ->
          c := Some cc';
          let o = array_of_nlist out in
          Some (Printf.sprintf "st=%d in=%d out=%d o=%s ps=%d ad=%d" (int_of_z code) (int_of_n cons) (Array.length o)
                  (show o) (int_of_z (tstatus_code cc'.c_prev)) (int_of_n cc'.c_adler))
    end
  | "cdrive" | "dfdrive" -> begin
      match !c with None -> None | Some cc0 ->
      let stream = a.(0) = "dfdrive" in
      let input = bytes a.(1) in
      let sc = Array.of_list (sched3_of a.(2)) in
      let n = Array.length sc in
      let cc = ref cc0 in
      let in_off = ref 0 and out = Buffer.create 256 and calls = ref 0 and stall = ref 0 in
      let th = ref fnv_init and last = ref 99 and why = ref "cap" and tr = Buffer.create 64 in
      let marks = Buffer.create 64 in
      let finishing = ref false in
      let abort = ref 0 in
      let prev_unused = ref true in
      let done_all = ref true in
      let atr = Buffer.create 64 in
      let drain_mark = ref None in
      (* the unconsumed input as a shared list: a chunk that covers all of it costs nothing *)
      let suffix = ref (nlist_of_array input) in
      let rec drop k l = if k = 0 then l else (match l with [] -> [] | _ :: t -> drop (k - 1) t) in
      let rec take k l = if k = 0 then [] else (match l with [] -> [] | x :: t -> x :: take (k - 1) t) in
      (try
        while !calls < 400000 do
          let (nin, nout, fl0) = sc.(!calls mod n) in
          let e = min (!in_off + nin) (Array.length input) in
          let clen = e - !in_off in
          let chunk_l = if e = Array.length input then !suffix else take clen !suffix in
          if fl0 = 4 || (!in_off >= Array.length input && !calls >= n) then finishing := true;
          let fl = if !finishing then 4 else fl0 in
          let res =
            if stream then
              (match deflate !cc chunk_l (n_of_int nout) (n_of_int fl) with
               | Ret (DRet (code, cons, o, cc')) -> Some (int_of_z code, int_of_n cons, array_of_nlist o, cc')
               | Ret DUnmodelled -> abort := 1; None
               | _ -> abort := 2; None)
            else
              (match compress !cc chunk_l (n_of_int nout) (n_of_int fl) with
               | Ret (CRet r) ->
                   Some (int_of_z (tstatus_code r.r_status), int_of_n r.r_in,
                         array_of_nlist r.r_out, r.r_comp)
               | Ret CUnmodelled -> abort := 1; None
               | _ -> abort := 2; None) in
          (match res with
           | None -> raise Exit
           | Some (st, ic, o, cc') ->
               cc := cc';
               let oc = Array.length o in
               Array.iter (fun b -> Buffer.add_char out (Char.chr b)) o;
               in_off := !in_off + ic;
               suffix := drop ic !suffix;
               incr calls;
               last := st;
               th := fnv_step (fnv_step (fnv_step !th (st + 20000)) ic) oc;
               if !calls <= 40 then begin
                 Buffer.add_string tr (Printf.sprintf "%d/%d/%d/%d;" fl st ic oc);
                 Buffer.add_string atr (Printf.sprintf "%d:%d;" !in_off (int_of_n cc'.c_adler)) end;
               if fl >= 1 && fl <= 3 && !prev_unused && ic = clen && oc < nout && Buffer.length marks < 400 then begin
                 Buffer.add_string marks (Printf.sprintf "%d:%d:%d;" fl !in_off (Buffer.length out));
                 drain_mark := None end
               else if fl >= 1 && fl <= 3 && !prev_unused && ic = clen && oc = nout then
                 drain_mark := Some (fl, !in_off)
               else (match !drain_mark with
                 | Some (f0, i0) ->
                     if ic = 0 && !in_off = i0 && fl = f0 then begin
                       if oc < nout then begin
                         if Buffer.length marks < 400 then
                           Buffer.add_string marks (Printf.sprintf "%d:%d:%d;" (f0 + 10) i0 (Buffer.length out));
                         drain_mark := None end end
                     else drain_mark := None
                 | None -> ());
               prev_unused := oc < nout;
               if st = 1 || (st < 0 && not (stream && st = -5)) then begin why := "end"; done_all := (ic = clen); raise Exit end;
               if ic = 0 && oc = 0 then incr stall else stall := 0;
               if !stall > n + 2 then begin why := "stall"; raise Exit end)
        done
      with Exit -> ());
      if !abort = 1 then begin c := None; None end
      else if !abort = 2 then begin c := None; Some "PANIC" end
      else begin
        c := Some !cc;
        let o = Array.init (Buffer.length out) (fun i -> Char.code (Buffer.nth out i)) in
        Some (Printf.sprintf "st=%d in=%d out=%d calls=%d why=%s viol=0 dn=%d th=%016Lx ad=%d ub=%d marks=%s tr=%s atr=%s full=%s"
                !last !in_off (Array.length o) !calls !why (if !done_all then 1 else 0) !th (int_of_n !cc.c_adler)
                (int_of_n !cc.c_sbits)
                (if Buffer.length marks = 0 then "-" else Buffer.contents marks)
                (if Buffer.length tr = 0 then "-" else Buffer.contents tr)
                (if Buffer.length atr = 0 then "-" else Buffer.contents atr) (hexs o))
      end
    end
  | "cvec" -> begin
      let (fl, _) = create_comp_flags_from_zip_params (z_of_int (num a.(1))) (z_of_int (if num a.(2) <> 0 then 1 else 0)) Z0 in
      match compress_to_vec_inner (nlist_of_array (bytes a.(3))) (n_of_int (int_of_z fl)) with
      | Ret (VBytes o) -> let o = array_of_nlist o in Some (Printf.sprintf "len=%d full=%s" (Array.length o) (hexs o))
      | Ret VUnmodelled -> None
      | _ -> Some "PANIC"
    end
  | _ -> None
