(* Model-side operations (inflate/deflate state machines extracted from coq/model).
   Filled in as the models come online; an op that is not modelled prints nothing. *)
let reset () = ()
let exec (_a : string array) (_input : int array ref) (_bytes : string -> int array)
    (_show : int array -> string) : string option = None
