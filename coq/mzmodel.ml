
(** val implb : bool -> bool -> bool **)

let implb b1 b2 =
  if b1 then b2 else true

(** val negb : bool -> bool **)

let negb = function
| true -> false
| false -> true

type nat =
| O
| S of nat

(** val fst : ('a1 * 'a2) -> 'a1 **)

let fst = function
| (x, _) -> x

(** val snd : ('a1 * 'a2) -> 'a2 **)

let snd = function
| (_, y) -> y

(** val length : 'a1 list -> nat **)

let rec length = function
| [] -> O
| _ :: l' -> S (length l')

(** val app : 'a1 list -> 'a1 list -> 'a1 list **)

let rec app l m =
  match l with
  | [] -> m
  | a :: l1 -> a :: (app l1 m)

type comparison =
| Eq
| Lt
| Gt

(** val compOpp : comparison -> comparison **)

let compOpp = function
| Eq -> Eq
| Lt -> Gt
| Gt -> Lt

module Coq__1 = struct
 (** val add : nat -> nat -> nat **)
 let rec add n0 m =
   match n0 with
   | O -> m
   | S p -> S (add p m)
end
include Coq__1

(** val sub : nat -> nat -> nat **)

let rec sub n0 m =
  match n0 with
  | O -> n0
  | S k -> (match m with
            | O -> n0
            | S l -> sub k l)

(** val leb : nat -> nat -> bool **)

let rec leb n0 m =
  match n0 with
  | O -> true
  | S n' -> (match m with
             | O -> false
             | S m' -> leb n' m')

(** val ltb : nat -> nat -> bool **)

let ltb n0 m =
  leb (S n0) m

type positive =
| XI of positive
| XO of positive
| XH

type n =
| N0
| Npos of positive

type z =
| Z0
| Zpos of positive
| Zneg of positive

module Pos =
 struct
  type mask =
  | IsNul
  | IsPos of positive
  | IsNeg
 end

module Coq_Pos =
 struct
  (** val succ : positive -> positive **)

  let rec succ = function
  | XI p -> XO (succ p)
  | XO p -> XI p
  | XH -> XO XH

  (** val add : positive -> positive -> positive **)

  let rec add x y =
    match x with
    | XI p ->
      (match y with
       | XI q -> XO (add_carry p q)
       | XO q -> XI (add p q)
       | XH -> XO (succ p))
    | XO p ->
      (match y with
       | XI q -> XI (add p q)
       | XO q -> XO (add p q)
       | XH -> XI p)
    | XH -> (match y with
             | XI q -> XO (succ q)
             | XO q -> XI q
             | XH -> XO XH)

  (** val add_carry : positive -> positive -> positive **)

  and add_carry x y =
    match x with
    | XI p ->
      (match y with
       | XI q -> XI (add_carry p q)
       | XO q -> XO (add_carry p q)
       | XH -> XI (succ p))
    | XO p ->
      (match y with
       | XI q -> XO (add_carry p q)
       | XO q -> XI (add p q)
       | XH -> XO (succ p))
    | XH ->
      (match y with
       | XI q -> XI (succ q)
       | XO q -> XO (succ q)
       | XH -> XI XH)

  (** val pred_double : positive -> positive **)

  let rec pred_double = function
  | XI p -> XI (XO p)
  | XO p -> XI (pred_double p)
  | XH -> XH

  (** val pred_N : positive -> n **)

  let pred_N = function
  | XI p -> Npos (XO p)
  | XO p -> Npos (pred_double p)
  | XH -> N0

  type mask = Pos.mask =
  | IsNul
  | IsPos of positive
  | IsNeg

  (** val succ_double_mask : mask -> mask **)

  let succ_double_mask = function
  | IsNul -> IsPos XH
  | IsPos p -> IsPos (XI p)
  | IsNeg -> IsNeg

  (** val double_mask : mask -> mask **)

  let double_mask = function
  | IsPos p -> IsPos (XO p)
  | x0 -> x0

  (** val double_pred_mask : positive -> mask **)

  let double_pred_mask = function
  | XI p -> IsPos (XO (XO p))
  | XO p -> IsPos (XO (pred_double p))
  | XH -> IsNul

  (** val sub_mask : positive -> positive -> mask **)

  let rec sub_mask x y =
    match x with
    | XI p ->
      (match y with
       | XI q -> double_mask (sub_mask p q)
       | XO q -> succ_double_mask (sub_mask p q)
       | XH -> IsPos (XO p))
    | XO p ->
      (match y with
       | XI q -> succ_double_mask (sub_mask_carry p q)
       | XO q -> double_mask (sub_mask p q)
       | XH -> IsPos (pred_double p))
    | XH -> (match y with
             | XH -> IsNul
             | _ -> IsNeg)

  (** val sub_mask_carry : positive -> positive -> mask **)

  and sub_mask_carry x y =
    match x with
    | XI p ->
      (match y with
       | XI q -> succ_double_mask (sub_mask_carry p q)
       | XO q -> double_mask (sub_mask p q)
       | XH -> IsPos (pred_double p))
    | XO p ->
      (match y with
       | XI q -> double_mask (sub_mask_carry p q)
       | XO q -> succ_double_mask (sub_mask_carry p q)
       | XH -> double_pred_mask p)
    | XH -> IsNeg

  (** val mul : positive -> positive -> positive **)

  let rec mul x y =
    match x with
    | XI p -> add y (XO (mul p y))
    | XO p -> XO (mul p y)
    | XH -> y

  (** val iter : ('a1 -> 'a1) -> 'a1 -> positive -> 'a1 **)

  let rec iter f x = function
  | XI n' -> f (iter f (iter f x n') n')
  | XO n' -> iter f (iter f x n') n'
  | XH -> f x

  (** val pow : positive -> positive -> positive **)

  let pow x =
    iter (mul x) XH

  (** val div2 : positive -> positive **)

  let div2 = function
  | XI p0 -> p0
  | XO p0 -> p0
  | XH -> XH

  (** val div2_up : positive -> positive **)

  let div2_up = function
  | XI p0 -> succ p0
  | XO p0 -> p0
  | XH -> XH

  (** val compare_cont : comparison -> positive -> positive -> comparison **)

  let rec compare_cont r x y =
    match x with
    | XI p ->
      (match y with
       | XI q -> compare_cont r p q
       | XO q -> compare_cont Gt p q
       | XH -> Gt)
    | XO p ->
      (match y with
       | XI q -> compare_cont Lt p q
       | XO q -> compare_cont r p q
       | XH -> Gt)
    | XH -> (match y with
             | XH -> r
             | _ -> Lt)

  (** val compare : positive -> positive -> comparison **)

  let compare =
    compare_cont Eq

  (** val eqb : positive -> positive -> bool **)

  let rec eqb p q =
    match p with
    | XI p0 -> (match q with
                | XI q0 -> eqb p0 q0
                | _ -> false)
    | XO p0 -> (match q with
                | XO q0 -> eqb p0 q0
                | _ -> false)
    | XH -> (match q with
             | XH -> true
             | _ -> false)

  (** val coq_Nsucc_double : n -> n **)

  let coq_Nsucc_double = function
  | N0 -> Npos XH
  | Npos p -> Npos (XI p)

  (** val coq_Ndouble : n -> n **)

  let coq_Ndouble = function
  | N0 -> N0
  | Npos p -> Npos (XO p)

  (** val coq_lor : positive -> positive -> positive **)

  let rec coq_lor p q =
    match p with
    | XI p0 ->
      (match q with
       | XI q0 -> XI (coq_lor p0 q0)
       | XO q0 -> XI (coq_lor p0 q0)
       | XH -> p)
    | XO p0 ->
      (match q with
       | XI q0 -> XI (coq_lor p0 q0)
       | XO q0 -> XO (coq_lor p0 q0)
       | XH -> XI p0)
    | XH -> (match q with
             | XO q0 -> XI q0
             | _ -> q)

  (** val coq_land : positive -> positive -> n **)

  let rec coq_land p q =
    match p with
    | XI p0 ->
      (match q with
       | XI q0 -> coq_Nsucc_double (coq_land p0 q0)
       | XO q0 -> coq_Ndouble (coq_land p0 q0)
       | XH -> Npos XH)
    | XO p0 ->
      (match q with
       | XI q0 -> coq_Ndouble (coq_land p0 q0)
       | XO q0 -> coq_Ndouble (coq_land p0 q0)
       | XH -> N0)
    | XH -> (match q with
             | XO _ -> N0
             | _ -> Npos XH)

  (** val ldiff : positive -> positive -> n **)

  let rec ldiff p q =
    match p with
    | XI p0 ->
      (match q with
       | XI q0 -> coq_Ndouble (ldiff p0 q0)
       | XO q0 -> coq_Nsucc_double (ldiff p0 q0)
       | XH -> Npos (XO p0))
    | XO p0 ->
      (match q with
       | XI q0 -> coq_Ndouble (ldiff p0 q0)
       | XO q0 -> coq_Ndouble (ldiff p0 q0)
       | XH -> Npos p)
    | XH -> (match q with
             | XO _ -> Npos XH
             | _ -> N0)

  (** val coq_lxor : positive -> positive -> n **)

  let rec coq_lxor p q =
    match p with
    | XI p0 ->
      (match q with
       | XI q0 -> coq_Ndouble (coq_lxor p0 q0)
       | XO q0 -> coq_Nsucc_double (coq_lxor p0 q0)
       | XH -> Npos (XO p0))
    | XO p0 ->
      (match q with
       | XI q0 -> coq_Nsucc_double (coq_lxor p0 q0)
       | XO q0 -> coq_Ndouble (coq_lxor p0 q0)
       | XH -> Npos (XI p0))
    | XH ->
      (match q with
       | XI q0 -> Npos (XO q0)
       | XO q0 -> Npos (XI q0)
       | XH -> N0)

  (** val iter_op : ('a1 -> 'a1 -> 'a1) -> positive -> 'a1 -> 'a1 **)

  let rec iter_op op p a =
    match p with
    | XI p0 -> op a (iter_op op p0 (op a a))
    | XO p0 -> iter_op op p0 (op a a)
    | XH -> a

  (** val to_nat : positive -> nat **)

  let to_nat x =
    iter_op Coq__1.add x (S O)

  (** val of_succ_nat : nat -> positive **)

  let rec of_succ_nat = function
  | O -> XH
  | S x -> succ (of_succ_nat x)
 end

module N =
 struct
  (** val succ_double : n -> n **)

  let succ_double = function
  | N0 -> Npos XH
  | Npos p -> Npos (XI p)

  (** val double : n -> n **)

  let double = function
  | N0 -> N0
  | Npos p -> Npos (XO p)

  (** val succ_pos : n -> positive **)

  let succ_pos = function
  | N0 -> XH
  | Npos p -> Coq_Pos.succ p

  (** val add : n -> n -> n **)

  let add n0 m =
    match n0 with
    | N0 -> m
    | Npos p -> (match m with
                 | N0 -> n0
                 | Npos q -> Npos (Coq_Pos.add p q))

  (** val sub : n -> n -> n **)

  let sub n0 m =
    match n0 with
    | N0 -> N0
    | Npos n' ->
      (match m with
       | N0 -> n0
       | Npos m' ->
         (match Coq_Pos.sub_mask n' m' with
          | Coq_Pos.IsPos p -> Npos p
          | _ -> N0))

  (** val mul : n -> n -> n **)

  let mul n0 m =
    match n0 with
    | N0 -> N0
    | Npos p -> (match m with
                 | N0 -> N0
                 | Npos q -> Npos (Coq_Pos.mul p q))

  (** val compare : n -> n -> comparison **)

  let compare n0 m =
    match n0 with
    | N0 -> (match m with
             | N0 -> Eq
             | Npos _ -> Lt)
    | Npos n' -> (match m with
                  | N0 -> Gt
                  | Npos m' -> Coq_Pos.compare n' m')

  (** val eqb : n -> n -> bool **)

  let eqb n0 m =
    match n0 with
    | N0 -> (match m with
             | N0 -> true
             | Npos _ -> false)
    | Npos p -> (match m with
                 | N0 -> false
                 | Npos q -> Coq_Pos.eqb p q)

  (** val leb : n -> n -> bool **)

  let leb x y =
    match compare x y with
    | Gt -> false
    | _ -> true

  (** val ltb : n -> n -> bool **)

  let ltb x y =
    match compare x y with
    | Lt -> true
    | _ -> false

  (** val min : n -> n -> n **)

  let min n0 n' =
    match compare n0 n' with
    | Gt -> n'
    | _ -> n0

  (** val max : n -> n -> n **)

  let max n0 n' =
    match compare n0 n' with
    | Gt -> n0
    | _ -> n'

  (** val div2 : n -> n **)

  let div2 = function
  | N0 -> N0
  | Npos p0 -> (match p0 with
                | XI p -> Npos p
                | XO p -> Npos p
                | XH -> N0)

  (** val even : n -> bool **)

  let even = function
  | N0 -> true
  | Npos p -> (match p with
               | XO _ -> true
               | _ -> false)

  (** val odd : n -> bool **)

  let odd n0 =
    negb (even n0)

  (** val pow : n -> n -> n **)

  let pow n0 = function
  | N0 -> Npos XH
  | Npos p0 -> (match n0 with
                | N0 -> N0
                | Npos q -> Npos (Coq_Pos.pow q p0))

  (** val pos_div_eucl : positive -> n -> n * n **)

  let rec pos_div_eucl a b =
    match a with
    | XI a' ->
      let (q, r) = pos_div_eucl a' b in
      let r' = succ_double r in
      if leb b r' then ((succ_double q), (sub r' b)) else ((double q), r')
    | XO a' ->
      let (q, r) = pos_div_eucl a' b in
      let r' = double r in
      if leb b r' then ((succ_double q), (sub r' b)) else ((double q), r')
    | XH ->
      (match b with
       | N0 -> (N0, (Npos XH))
       | Npos p -> (match p with
                    | XH -> ((Npos XH), N0)
                    | _ -> (N0, (Npos XH))))

  (** val div_eucl : n -> n -> n * n **)

  let div_eucl a b =
    match a with
    | N0 -> (N0, N0)
    | Npos na -> (match b with
                  | N0 -> (N0, a)
                  | Npos _ -> pos_div_eucl na b)

  (** val div : n -> n -> n **)

  let div a b =
    fst (div_eucl a b)

  (** val modulo : n -> n -> n **)

  let modulo a b =
    snd (div_eucl a b)

  (** val coq_lor : n -> n -> n **)

  let coq_lor n0 m =
    match n0 with
    | N0 -> m
    | Npos p -> (match m with
                 | N0 -> n0
                 | Npos q -> Npos (Coq_Pos.coq_lor p q))

  (** val coq_land : n -> n -> n **)

  let coq_land n0 m =
    match n0 with
    | N0 -> N0
    | Npos p -> (match m with
                 | N0 -> N0
                 | Npos q -> Coq_Pos.coq_land p q)

  (** val ldiff : n -> n -> n **)

  let ldiff n0 m =
    match n0 with
    | N0 -> N0
    | Npos p -> (match m with
                 | N0 -> n0
                 | Npos q -> Coq_Pos.ldiff p q)

  (** val coq_lxor : n -> n -> n **)

  let coq_lxor n0 m =
    match n0 with
    | N0 -> m
    | Npos p -> (match m with
                 | N0 -> n0
                 | Npos q -> Coq_Pos.coq_lxor p q)

  (** val shiftr : n -> n -> n **)

  let shiftr a = function
  | N0 -> a
  | Npos p -> Coq_Pos.iter div2 a p

  (** val to_nat : n -> nat **)

  let to_nat = function
  | N0 -> O
  | Npos p -> Coq_Pos.to_nat p

  (** val of_nat : nat -> n **)

  let of_nat = function
  | O -> N0
  | S n' -> Npos (Coq_Pos.of_succ_nat n')
 end

(** val nth : nat -> 'a1 list -> 'a1 -> 'a1 **)

let rec nth n0 l default =
  match n0 with
  | O -> (match l with
          | [] -> default
          | x :: _ -> x)
  | S m -> (match l with
            | [] -> default
            | _ :: t -> nth m t default)

(** val rev : 'a1 list -> 'a1 list **)

let rec rev = function
| [] -> []
| x :: l' -> app (rev l') (x :: [])

(** val map : ('a1 -> 'a2) -> 'a1 list -> 'a2 list **)

let rec map f = function
| [] -> []
| a :: t -> (f a) :: (map f t)

(** val flat_map : ('a1 -> 'a2 list) -> 'a1 list -> 'a2 list **)

let rec flat_map f = function
| [] -> []
| x :: t -> app (f x) (flat_map f t)

(** val fold_left : ('a1 -> 'a2 -> 'a1) -> 'a2 list -> 'a1 -> 'a1 **)

let rec fold_left f l a0 =
  match l with
  | [] -> a0
  | b :: t -> fold_left f t (f a0 b)

(** val forallb : ('a1 -> bool) -> 'a1 list -> bool **)

let rec forallb f = function
| [] -> true
| a :: l0 -> (&&) (f a) (forallb f l0)

(** val filter : ('a1 -> bool) -> 'a1 list -> 'a1 list **)

let rec filter f = function
| [] -> []
| x :: l0 -> if f x then x :: (filter f l0) else filter f l0

(** val find : ('a1 -> bool) -> 'a1 list -> 'a1 option **)

let rec find f = function
| [] -> None
| x :: tl -> if f x then Some x else find f tl

(** val combine : 'a1 list -> 'a2 list -> ('a1 * 'a2) list **)

let rec combine l l' =
  match l with
  | [] -> []
  | x :: tl ->
    (match l' with
     | [] -> []
     | y :: tl' -> (x, y) :: (combine tl tl'))

(** val firstn : nat -> 'a1 list -> 'a1 list **)

let rec firstn n0 l =
  match n0 with
  | O -> []
  | S n1 -> (match l with
             | [] -> []
             | a :: l0 -> a :: (firstn n1 l0))

(** val skipn : nat -> 'a1 list -> 'a1 list **)

let rec skipn n0 l =
  match n0 with
  | O -> l
  | S n1 -> (match l with
             | [] -> []
             | _ :: l0 -> skipn n1 l0)

(** val seq : nat -> nat -> nat list **)

let rec seq start = function
| O -> []
| S len0 -> start :: (seq (S start) len0)

(** val repeat : 'a1 -> nat -> 'a1 list **)

let rec repeat x = function
| O -> []
| S k -> x :: (repeat x k)

module Z =
 struct
  (** val double : z -> z **)

  let double = function
  | Z0 -> Z0
  | Zpos p -> Zpos (XO p)
  | Zneg p -> Zneg (XO p)

  (** val succ_double : z -> z **)

  let succ_double = function
  | Z0 -> Zpos XH
  | Zpos p -> Zpos (XI p)
  | Zneg p -> Zneg (Coq_Pos.pred_double p)

  (** val pred_double : z -> z **)

  let pred_double = function
  | Z0 -> Zneg XH
  | Zpos p -> Zpos (Coq_Pos.pred_double p)
  | Zneg p -> Zneg (XI p)

  (** val pos_sub : positive -> positive -> z **)

  let rec pos_sub x y =
    match x with
    | XI p ->
      (match y with
       | XI q -> double (pos_sub p q)
       | XO q -> succ_double (pos_sub p q)
       | XH -> Zpos (XO p))
    | XO p ->
      (match y with
       | XI q -> pred_double (pos_sub p q)
       | XO q -> double (pos_sub p q)
       | XH -> Zpos (Coq_Pos.pred_double p))
    | XH ->
      (match y with
       | XI q -> Zneg (XO q)
       | XO q -> Zneg (Coq_Pos.pred_double q)
       | XH -> Z0)

  (** val add : z -> z -> z **)

  let add x y =
    match x with
    | Z0 -> y
    | Zpos x' ->
      (match y with
       | Z0 -> x
       | Zpos y' -> Zpos (Coq_Pos.add x' y')
       | Zneg y' -> pos_sub x' y')
    | Zneg x' ->
      (match y with
       | Z0 -> x
       | Zpos y' -> pos_sub y' x'
       | Zneg y' -> Zneg (Coq_Pos.add x' y'))

  (** val opp : z -> z **)

  let opp = function
  | Z0 -> Z0
  | Zpos x0 -> Zneg x0
  | Zneg x0 -> Zpos x0

  (** val sub : z -> z -> z **)

  let sub m n0 =
    add m (opp n0)

  (** val mul : z -> z -> z **)

  let mul x y =
    match x with
    | Z0 -> Z0
    | Zpos x' ->
      (match y with
       | Z0 -> Z0
       | Zpos y' -> Zpos (Coq_Pos.mul x' y')
       | Zneg y' -> Zneg (Coq_Pos.mul x' y'))
    | Zneg x' ->
      (match y with
       | Z0 -> Z0
       | Zpos y' -> Zneg (Coq_Pos.mul x' y')
       | Zneg y' -> Zpos (Coq_Pos.mul x' y'))

  (** val pow_pos : z -> positive -> z **)

  let pow_pos z0 =
    Coq_Pos.iter (mul z0) (Zpos XH)

  (** val pow : z -> z -> z **)

  let pow x = function
  | Z0 -> Zpos XH
  | Zpos p -> pow_pos x p
  | Zneg _ -> Z0

  (** val compare : z -> z -> comparison **)

  let compare x y =
    match x with
    | Z0 -> (match y with
             | Z0 -> Eq
             | Zpos _ -> Lt
             | Zneg _ -> Gt)
    | Zpos x' -> (match y with
                  | Zpos y' -> Coq_Pos.compare x' y'
                  | _ -> Gt)
    | Zneg x' ->
      (match y with
       | Zneg y' -> compOpp (Coq_Pos.compare x' y')
       | _ -> Lt)

  (** val leb : z -> z -> bool **)

  let leb x y =
    match compare x y with
    | Gt -> false
    | _ -> true

  (** val ltb : z -> z -> bool **)

  let ltb x y =
    match compare x y with
    | Lt -> true
    | _ -> false

  (** val geb : z -> z -> bool **)

  let geb x y =
    match compare x y with
    | Lt -> false
    | _ -> true

  (** val gtb : z -> z -> bool **)

  let gtb x y =
    match compare x y with
    | Gt -> true
    | _ -> false

  (** val eqb : z -> z -> bool **)

  let eqb x y =
    match x with
    | Z0 -> (match y with
             | Z0 -> true
             | _ -> false)
    | Zpos p -> (match y with
                 | Zpos q -> Coq_Pos.eqb p q
                 | _ -> false)
    | Zneg p -> (match y with
                 | Zneg q -> Coq_Pos.eqb p q
                 | _ -> false)

  (** val max : z -> z -> z **)

  let max n0 m =
    match compare n0 m with
    | Lt -> m
    | _ -> n0

  (** val min : z -> z -> z **)

  let min n0 m =
    match compare n0 m with
    | Gt -> m
    | _ -> n0

  (** val to_nat : z -> nat **)

  let to_nat = function
  | Zpos p -> Coq_Pos.to_nat p
  | _ -> O

  (** val of_N : n -> z **)

  let of_N = function
  | N0 -> Z0
  | Npos p -> Zpos p

  (** val pos_div_eucl : positive -> z -> z * z **)

  let rec pos_div_eucl a b =
    match a with
    | XI a' ->
      let (q, r) = pos_div_eucl a' b in
      let r' = add (mul (Zpos (XO XH)) r) (Zpos XH) in
      if ltb r' b
      then ((mul (Zpos (XO XH)) q), r')
      else ((add (mul (Zpos (XO XH)) q) (Zpos XH)), (sub r' b))
    | XO a' ->
      let (q, r) = pos_div_eucl a' b in
      let r' = mul (Zpos (XO XH)) r in
      if ltb r' b
      then ((mul (Zpos (XO XH)) q), r')
      else ((add (mul (Zpos (XO XH)) q) (Zpos XH)), (sub r' b))
    | XH -> if leb (Zpos (XO XH)) b then (Z0, (Zpos XH)) else ((Zpos XH), Z0)

  (** val div_eucl : z -> z -> z * z **)

  let div_eucl a b =
    match a with
    | Z0 -> (Z0, Z0)
    | Zpos a' ->
      (match b with
       | Z0 -> (Z0, a)
       | Zpos _ -> pos_div_eucl a' b
       | Zneg b' ->
         let (q, r) = pos_div_eucl a' (Zpos b') in
         (match r with
          | Z0 -> ((opp q), Z0)
          | _ -> ((opp (add q (Zpos XH))), (add b r))))
    | Zneg a' ->
      (match b with
       | Z0 -> (Z0, a)
       | Zpos _ ->
         let (q, r) = pos_div_eucl a' b in
         (match r with
          | Z0 -> ((opp q), Z0)
          | _ -> ((opp (add q (Zpos XH))), (sub b r)))
       | Zneg b' -> let (q, r) = pos_div_eucl a' (Zpos b') in (q, (opp r)))

  (** val modulo : z -> z -> z **)

  let modulo a b =
    let (_, r) = div_eucl a b in r

  (** val quotrem : z -> z -> z * z **)

  let quotrem a b =
    match a with
    | Z0 -> (Z0, Z0)
    | Zpos a0 ->
      (match b with
       | Z0 -> (Z0, a)
       | Zpos b0 ->
         let (q, r) = N.pos_div_eucl a0 (Npos b0) in ((of_N q), (of_N r))
       | Zneg b0 ->
         let (q, r) = N.pos_div_eucl a0 (Npos b0) in
         ((opp (of_N q)), (of_N r)))
    | Zneg a0 ->
      (match b with
       | Z0 -> (Z0, a)
       | Zpos b0 ->
         let (q, r) = N.pos_div_eucl a0 (Npos b0) in
         ((opp (of_N q)), (opp (of_N r)))
       | Zneg b0 ->
         let (q, r) = N.pos_div_eucl a0 (Npos b0) in
         ((of_N q), (opp (of_N r))))

  (** val quot : z -> z -> z **)

  let quot a b =
    fst (quotrem a b)

  (** val rem : z -> z -> z **)

  let rem a b =
    snd (quotrem a b)

  (** val div2 : z -> z **)

  let div2 = function
  | Z0 -> Z0
  | Zpos p -> (match p with
               | XH -> Z0
               | _ -> Zpos (Coq_Pos.div2 p))
  | Zneg p -> Zneg (Coq_Pos.div2_up p)

  (** val shiftl : z -> z -> z **)

  let shiftl a = function
  | Z0 -> a
  | Zpos p -> Coq_Pos.iter (mul (Zpos (XO XH))) a p
  | Zneg p -> Coq_Pos.iter div2 a p

  (** val shiftr : z -> z -> z **)

  let shiftr a n0 =
    shiftl a (opp n0)

  (** val coq_lor : z -> z -> z **)

  let coq_lor a b =
    match a with
    | Z0 -> b
    | Zpos a0 ->
      (match b with
       | Z0 -> a
       | Zpos b0 -> Zpos (Coq_Pos.coq_lor a0 b0)
       | Zneg b0 -> Zneg (N.succ_pos (N.ldiff (Coq_Pos.pred_N b0) (Npos a0))))
    | Zneg a0 ->
      (match b with
       | Z0 -> a
       | Zpos b0 -> Zneg (N.succ_pos (N.ldiff (Coq_Pos.pred_N a0) (Npos b0)))
       | Zneg b0 ->
         Zneg
           (N.succ_pos (N.coq_land (Coq_Pos.pred_N a0) (Coq_Pos.pred_N b0))))

  (** val coq_land : z -> z -> z **)

  let coq_land a b =
    match a with
    | Z0 -> Z0
    | Zpos a0 ->
      (match b with
       | Z0 -> Z0
       | Zpos b0 -> of_N (Coq_Pos.coq_land a0 b0)
       | Zneg b0 -> of_N (N.ldiff (Npos a0) (Coq_Pos.pred_N b0)))
    | Zneg a0 ->
      (match b with
       | Z0 -> Z0
       | Zpos b0 -> of_N (N.ldiff (Npos b0) (Coq_Pos.pred_N a0))
       | Zneg b0 ->
         Zneg (N.succ_pos (N.coq_lor (Coq_Pos.pred_N a0) (Coq_Pos.pred_N b0))))

  (** val coq_lxor : z -> z -> z **)

  let coq_lxor a b =
    match a with
    | Z0 -> b
    | Zpos a0 ->
      (match b with
       | Z0 -> a
       | Zpos b0 -> of_N (Coq_Pos.coq_lxor a0 b0)
       | Zneg b0 ->
         Zneg (N.succ_pos (N.coq_lxor (Npos a0) (Coq_Pos.pred_N b0))))
    | Zneg a0 ->
      (match b with
       | Z0 -> a
       | Zpos b0 ->
         Zneg (N.succ_pos (N.coq_lxor (Coq_Pos.pred_N a0) (Npos b0)))
       | Zneg b0 -> of_N (N.coq_lxor (Coq_Pos.pred_N a0) (Coq_Pos.pred_N b0)))
 end

(** val aDLER_MOD : n **)

let aDLER_MOD =
  Npos (XI (XO (XO (XO (XI (XI (XI (XI (XI (XI (XI (XI (XI (XI (XI
    XH)))))))))))))))

(** val adler_step : (n * n) -> n -> n * n **)

let adler_step s b =
  let s1 = N.modulo (N.add (fst s) b) aDLER_MOD in
  (s1, (N.modulo (N.add (snd s) s1) aDLER_MOD))

(** val adler_unpack : n -> n * n **)

let adler_unpack a =
  ((N.modulo a (Npos (XO (XO (XO (XO (XO (XO (XO (XO (XO (XO (XO (XO (XO (XO
     (XO (XO XH)))))))))))))))))),
    (N.div a (Npos (XO (XO (XO (XO (XO (XO (XO (XO (XO (XO (XO (XO (XO (XO
      (XO (XO XH)))))))))))))))))))

(** val adler_pack : (n * n) -> n **)

let adler_pack s =
  N.add
    (N.mul (snd s) (Npos (XO (XO (XO (XO (XO (XO (XO (XO (XO (XO (XO (XO (XO
      (XO (XO (XO XH)))))))))))))))))) (fst s)

(** val adler32 : n -> n list -> n **)

let adler32 a data =
  adler_pack (fold_left adler_step data (adler_unpack a))

(** val cRC_POLY : n **)

let cRC_POLY =
  Npos (XO (XO (XO (XO (XO (XI (XO (XO (XI (XI (XO (XO (XO (XO (XO (XI (XO
    (XO (XO (XI (XI (XI (XO (XI (XI (XO (XI (XI (XO (XI (XI
    XH)))))))))))))))))))))))))))))))

(** val m32 : n **)

let m32 =
  Npos (XI (XI (XI (XI (XI (XI (XI (XI (XI (XI (XI (XI (XI (XI (XI (XI (XI
    (XI (XI (XI (XI (XI (XI (XI (XI (XI (XI (XI (XI (XI (XI
    XH)))))))))))))))))))))))))))))))

(** val crc_bit : n -> n **)

let crc_bit c =
  if N.odd c
  then N.coq_lxor (N.shiftr c (Npos XH)) cRC_POLY
  else N.shiftr c (Npos XH)

(** val crc_byte : n -> n -> n **)

let crc_byte c b =
  let c0 = N.coq_lxor c b in
  crc_bit
    (crc_bit (crc_bit (crc_bit (crc_bit (crc_bit (crc_bit (crc_bit c0)))))))

(** val crc_raw : n -> n list -> n **)

let crc_raw c data =
  fold_left crc_byte data c

(** val crc32 : n -> n list -> n **)

let crc32 c data =
  N.coq_lxor (crc_raw (N.coq_lxor c m32) data) m32

(** val b2n : bool -> n **)

let b2n = function
| true -> Npos XH
| false -> N0

(** val byte_bits_aux : nat -> n -> bool list **)

let rec byte_bits_aux n0 x =
  match n0 with
  | O -> []
  | S n' -> (N.odd x) :: (byte_bits_aux n' (N.div2 x))

(** val byte_bits : n -> bool list **)

let byte_bits x =
  byte_bits_aux (S (S (S (S (S (S (S (S O)))))))) x

(** val bits_of_bytes : n list -> bool list **)

let rec bits_of_bytes = function
| [] -> []
| x :: l' -> app (byte_bits x) (bits_of_bytes l')

(** val take_bits : nat -> bool list -> (n * bool list) option **)

let rec take_bits n0 bits =
  match n0 with
  | O -> Some (N0, bits)
  | S n' ->
    (match bits with
     | [] -> None
     | b :: bits' ->
       (match take_bits n' bits' with
        | Some p ->
          let (v, rest) = p in
          Some ((N.add (b2n b) (N.mul (Npos (XO XH)) v)), rest)
        | None -> None))

(** val take_bytes : nat -> bool list -> (n list * bool list) option **)

let rec take_bytes n0 bits =
  match n0 with
  | O -> Some ([], bits)
  | S n' ->
    (match take_bits (S (S (S (S (S (S (S (S O)))))))) bits with
     | Some p ->
       let (v, rest) = p in
       (match take_bytes n' rest with
        | Some p0 -> let (vs, rest') = p0 in Some ((v :: vs), rest')
        | None -> None)
     | None -> None)

(** val mAXBITS : nat **)

let mAXBITS =
  S (S (S (S (S (S (S (S (S (S (S (S (S (S (S O))))))))))))))

(** val count_len : n list -> n -> n **)

let count_len lens len =
  N.of_nat (length (filter (N.eqb len) lens))

(** val bl_count : n list -> n list **)

let bl_count lens =
  map (fun i -> count_len lens (N.of_nat i)) (seq (S O) mAXBITS)

(** val syms_of_len : n list -> n -> n -> n list **)

let rec syms_of_len lens len i =
  match lens with
  | [] -> []
  | l :: lens' ->
    if N.eqb l len
    then i :: (syms_of_len lens' len (N.add i (Npos XH)))
    else syms_of_len lens' len (N.add i (Npos XH))

(** val canon_syms : n list -> n list **)

let canon_syms lens =
  flat_map (fun i -> syms_of_len lens (N.of_nat i) N0) (seq (S O) mAXBITS)

(** val kraft : n list -> n **)

let kraft lens =
  fold_left (fun acc l ->
    if N.eqb l N0
    then acc
    else N.add acc (N.pow (Npos (XO XH)) (N.sub (Npos (XI (XI (XI XH)))) l)))
    lens N0

(** val max_len : n list -> n **)

let max_len lens =
  fold_left N.max lens N0

(** val over_subscribed : n list -> bool **)

let over_subscribed lens =
  N.ltb (N.pow (Npos (XO XH)) (Npos (XI (XI (XI XH))))) (kraft lens)

(** val complete : n list -> bool **)

let complete lens =
  N.eqb (kraft lens) (N.pow (Npos (XO XH)) (Npos (XI (XI (XI XH)))))

(** val lens_ok : bool -> n list -> bool **)

let lens_ok strict lens =
  (&&)
    ((&&) (forallb (fun l -> N.leb l (Npos (XI (XI (XI XH))))) lens)
      (negb (over_subscribed lens)))
    ((||) (complete lens)
      ((&&) (negb strict) (N.leb (max_len lens) (Npos XH))))

type dsym =
| DSym of n * bool list
| DTrunc
| DInvalid

(** val decode_aux : n list -> n list -> n -> n -> n -> bool list -> dsym **)

let rec decode_aux counts syms code first index bits =
  match counts with
  | [] -> DInvalid
  | count :: counts' ->
    (match bits with
     | [] -> DTrunc
     | b :: bits' ->
       let code0 = N.add code (b2n b) in
       if (&&) (N.leb first code0) (N.ltb (N.sub code0 first) count)
       then DSym ((nth (N.to_nat (N.add index (N.sub code0 first))) syms N0),
              bits')
       else decode_aux counts' syms (N.mul (Npos (XO XH)) code0)
              (N.mul (Npos (XO XH)) (N.add first count)) (N.add index count)
              bits')

type hcode = { hc_counts : n list; hc_syms : n list }

(** val mk_hcode : n list -> hcode **)

let mk_hcode lens =
  { hc_counts = (bl_count lens); hc_syms = (canon_syms lens) }

(** val decode_sym : hcode -> bool list -> dsym **)

let decode_sym h bits =
  decode_aux h.hc_counts h.hc_syms N0 N0 N0 bits

(** val length_base : n list **)

let length_base =
  (Npos (XI XH)) :: ((Npos (XO (XO XH))) :: ((Npos (XI (XO XH))) :: ((Npos
    (XO (XI XH))) :: ((Npos (XI (XI XH))) :: ((Npos (XO (XO (XO
    XH)))) :: ((Npos (XI (XO (XO XH)))) :: ((Npos (XO (XI (XO
    XH)))) :: ((Npos (XI (XI (XO XH)))) :: ((Npos (XI (XO (XI
    XH)))) :: ((Npos (XI (XI (XI XH)))) :: ((Npos (XI (XO (XO (XO
    XH))))) :: ((Npos (XI (XI (XO (XO XH))))) :: ((Npos (XI (XI (XI (XO
    XH))))) :: ((Npos (XI (XI (XO (XI XH))))) :: ((Npos (XI (XI (XI (XI
    XH))))) :: ((Npos (XI (XI (XO (XO (XO XH)))))) :: ((Npos (XI (XI (XO (XI
    (XO XH)))))) :: ((Npos (XI (XI (XO (XO (XI XH)))))) :: ((Npos (XI (XI (XO
    (XI (XI XH)))))) :: ((Npos (XI (XI (XO (XO (XO (XO XH))))))) :: ((Npos
    (XI (XI (XO (XO (XI (XO XH))))))) :: ((Npos (XI (XI (XO (XO (XO (XI
    XH))))))) :: ((Npos (XI (XI (XO (XO (XI (XI XH))))))) :: ((Npos (XI (XI
    (XO (XO (XO (XO (XO XH)))))))) :: ((Npos (XI (XI (XO (XO (XO (XI (XO
    XH)))))))) :: ((Npos (XI (XI (XO (XO (XO (XO (XI XH)))))))) :: ((Npos (XI
    (XI (XO (XO (XO (XI (XI XH)))))))) :: ((Npos (XO (XI (XO (XO (XO (XO (XO
    (XO XH))))))))) :: []))))))))))))))))))))))))))))

(** val length_extra : n list **)

let length_extra =
  N0 :: (N0 :: (N0 :: (N0 :: (N0 :: (N0 :: (N0 :: (N0 :: ((Npos XH) :: ((Npos
    XH) :: ((Npos XH) :: ((Npos XH) :: ((Npos (XO XH)) :: ((Npos (XO
    XH)) :: ((Npos (XO XH)) :: ((Npos (XO XH)) :: ((Npos (XI XH)) :: ((Npos
    (XI XH)) :: ((Npos (XI XH)) :: ((Npos (XI XH)) :: ((Npos (XO (XO
    XH))) :: ((Npos (XO (XO XH))) :: ((Npos (XO (XO XH))) :: ((Npos (XO (XO
    XH))) :: ((Npos (XI (XO XH))) :: ((Npos (XI (XO XH))) :: ((Npos (XI (XO
    XH))) :: ((Npos (XI (XO XH))) :: (N0 :: []))))))))))))))))))))))))))))

(** val dist_base : n list **)

let dist_base =
  (Npos XH) :: ((Npos (XO XH)) :: ((Npos (XI XH)) :: ((Npos (XO (XO
    XH))) :: ((Npos (XI (XO XH))) :: ((Npos (XI (XI XH))) :: ((Npos (XI (XO
    (XO XH)))) :: ((Npos (XI (XO (XI XH)))) :: ((Npos (XI (XO (XO (XO
    XH))))) :: ((Npos (XI (XO (XO (XI XH))))) :: ((Npos (XI (XO (XO (XO (XO
    XH)))))) :: ((Npos (XI (XO (XO (XO (XI XH)))))) :: ((Npos (XI (XO (XO (XO
    (XO (XO XH))))))) :: ((Npos (XI (XO (XO (XO (XO (XI XH))))))) :: ((Npos
    (XI (XO (XO (XO (XO (XO (XO XH)))))))) :: ((Npos (XI (XO (XO (XO (XO (XO
    (XI XH)))))))) :: ((Npos (XI (XO (XO (XO (XO (XO (XO (XO
    XH))))))))) :: ((Npos (XI (XO (XO (XO (XO (XO (XO (XI
    XH))))))))) :: ((Npos (XI (XO (XO (XO (XO (XO (XO (XO (XO
    XH)))))))))) :: ((Npos (XI (XO (XO (XO (XO (XO (XO (XO (XI
    XH)))))))))) :: ((Npos (XI (XO (XO (XO (XO (XO (XO (XO (XO (XO
    XH))))))))))) :: ((Npos (XI (XO (XO (XO (XO (XO (XO (XO (XO (XI
    XH))))))))))) :: ((Npos (XI (XO (XO (XO (XO (XO (XO (XO (XO (XO (XO
    XH)))))))))))) :: ((Npos (XI (XO (XO (XO (XO (XO (XO (XO (XO (XO (XI
    XH)))))))))))) :: ((Npos (XI (XO (XO (XO (XO (XO (XO (XO (XO (XO (XO (XO
    XH))))))))))))) :: ((Npos (XI (XO (XO (XO (XO (XO (XO (XO (XO (XO (XO (XI
    XH))))))))))))) :: ((Npos (XI (XO (XO (XO (XO (XO (XO (XO (XO (XO (XO (XO
    (XO XH)))))))))))))) :: ((Npos (XI (XO (XO (XO (XO (XO (XO (XO (XO (XO
    (XO (XO (XI XH)))))))))))))) :: ((Npos (XI (XO (XO (XO (XO (XO (XO (XO
    (XO (XO (XO (XO (XO (XO XH))))))))))))))) :: ((Npos (XI (XO (XO (XO (XO
    (XO (XO (XO (XO (XO (XO (XO (XO (XI
    XH))))))))))))))) :: [])))))))))))))))))))))))))))))

(** val dist_extra : n list **)

let dist_extra =
  N0 :: (N0 :: (N0 :: (N0 :: ((Npos XH) :: ((Npos XH) :: ((Npos (XO
    XH)) :: ((Npos (XO XH)) :: ((Npos (XI XH)) :: ((Npos (XI XH)) :: ((Npos
    (XO (XO XH))) :: ((Npos (XO (XO XH))) :: ((Npos (XI (XO XH))) :: ((Npos
    (XI (XO XH))) :: ((Npos (XO (XI XH))) :: ((Npos (XO (XI XH))) :: ((Npos
    (XI (XI XH))) :: ((Npos (XI (XI XH))) :: ((Npos (XO (XO (XO
    XH)))) :: ((Npos (XO (XO (XO XH)))) :: ((Npos (XI (XO (XO
    XH)))) :: ((Npos (XI (XO (XO XH)))) :: ((Npos (XO (XI (XO
    XH)))) :: ((Npos (XO (XI (XO XH)))) :: ((Npos (XI (XI (XO
    XH)))) :: ((Npos (XI (XI (XO XH)))) :: ((Npos (XO (XO (XI
    XH)))) :: ((Npos (XO (XO (XI XH)))) :: ((Npos (XI (XO (XI
    XH)))) :: ((Npos (XI (XO (XI XH)))) :: [])))))))))))))))))))))))))))))

(** val clen_order : n list **)

let clen_order =
  (Npos (XO (XO (XO (XO XH))))) :: ((Npos (XI (XO (XO (XO XH))))) :: ((Npos
    (XO (XI (XO (XO XH))))) :: (N0 :: ((Npos (XO (XO (XO XH)))) :: ((Npos (XI
    (XI XH))) :: ((Npos (XI (XO (XO XH)))) :: ((Npos (XO (XI XH))) :: ((Npos
    (XO (XI (XO XH)))) :: ((Npos (XI (XO XH))) :: ((Npos (XI (XI (XO
    XH)))) :: ((Npos (XO (XO XH))) :: ((Npos (XO (XO (XI XH)))) :: ((Npos (XI
    XH)) :: ((Npos (XI (XO (XI XH)))) :: ((Npos (XO XH)) :: ((Npos (XO (XI
    (XI XH)))) :: ((Npos XH) :: ((Npos (XI (XI (XI
    XH)))) :: []))))))))))))))))))

(** val fixed_litlen_lens : n list **)

let fixed_litlen_lens =
  app
    (repeat (Npos (XO (XO (XO XH)))) (S (S (S (S (S (S (S (S (S (S (S (S (S
      (S (S (S (S (S (S (S (S (S (S (S (S (S (S (S (S (S (S (S (S (S (S (S (S
      (S (S (S (S (S (S (S (S (S (S (S (S (S (S (S (S (S (S (S (S (S (S (S (S
      (S (S (S (S (S (S (S (S (S (S (S (S (S (S (S (S (S (S (S (S (S (S (S (S
      (S (S (S (S (S (S (S (S (S (S (S (S (S (S (S (S (S (S (S (S (S (S (S (S
      (S (S (S (S (S (S (S (S (S (S (S (S (S (S (S (S (S (S (S (S (S (S (S (S
      (S (S (S (S (S (S (S (S (S (S (S
      O)))))))))))))))))))))))))))))))))))))))))))))))))))))))))))))))))))))))))))))))))))))))))))))))))))))))))))))))))))))))))))))))))))))))))))))))))
    (app
      (repeat (Npos (XI (XO (XO XH)))) (S (S (S (S (S (S (S (S (S (S (S (S (S
        (S (S (S (S (S (S (S (S (S (S (S (S (S (S (S (S (S (S (S (S (S (S (S
        (S (S (S (S (S (S (S (S (S (S (S (S (S (S (S (S (S (S (S (S (S (S (S
        (S (S (S (S (S (S (S (S (S (S (S (S (S (S (S (S (S (S (S (S (S (S (S
        (S (S (S (S (S (S (S (S (S (S (S (S (S (S (S (S (S (S (S (S (S (S (S
        (S (S (S (S (S (S (S
        O)))))))))))))))))))))))))))))))))))))))))))))))))))))))))))))))))))))))))))))))))))))))))))))))))))))))))))))))))
      (app
        (repeat (Npos (XI (XI XH))) (S (S (S (S (S (S (S (S (S (S (S (S (S (S
          (S (S (S (S (S (S (S (S (S (S O)))))))))))))))))))))))))
        (repeat (Npos (XO (XO (XO XH)))) (S (S (S (S (S (S (S (S O)))))))))))

(** val fixed_dist_lens : n list **)

let fixed_dist_lens =
  repeat (Npos (XI (XO XH))) (S (S (S (S (S (S (S (S (S (S (S (S (S (S (S (S
    (S (S (S (S (S (S (S (S (S (S (S (S (S (S (S (S
    O))))))))))))))))))))))))))))))))

type token =
| Lit of n
| Match of n * n

type bkind =
| Stored
| Fixed
| Dynamic

type block = { b_final : bool; b_kind : bkind; b_tokens : token list;
               b_litlens : n list; b_distlens : n list; b_clens : n list }

type ekind =
| EBlockType
| EStoredLen
| ETableSizes
| EClenCode
| ERepeatFirst
| ERepeatOverrun
| ELitlenCode
| EDistCode
| EBadSymbol
| EDistance
| EZlibHeader
| EAdler

type 'a pres =
| POk of 'a * bool list
| PTrunc
| PErr of ekind

(** val parse_tokens :
    bool list -> hcode -> hcode -> bool list -> token list -> token list pres **)

let rec parse_tokens fuel lit dist bits acc =
  match fuel with
  | [] -> PTrunc
  | _ :: fuel' ->
    (match decode_sym lit bits with
     | DSym (s, bits1) ->
       if N.ltb s (Npos (XO (XO (XO (XO (XO (XO (XO (XO XH)))))))))
       then parse_tokens fuel' lit dist bits1 ((Lit s) :: acc)
       else if N.eqb s (Npos (XO (XO (XO (XO (XO (XO (XO (XO XH)))))))))
            then POk ((rev acc), bits1)
            else if N.ltb (Npos (XI (XO (XI (XI (XI (XO (XO (XO XH))))))))) s
                 then PErr EBadSymbol
                 else let i =
                        N.to_nat
                          (N.sub s (Npos (XI (XO (XO (XO (XO (XO (XO (XO
                            XH))))))))))
                      in
                      (match take_bits (N.to_nat (nth i length_extra N0))
                               bits1 with
                       | Some p ->
                         let (e, bits2) = p in
                         let len = N.add (nth i length_base N0) e in
                         (match decode_sym dist bits2 with
                          | DSym (d, bits3) ->
                            if N.ltb (Npos (XI (XO (XI (XI XH))))) d
                            then PErr EBadSymbol
                            else let j = N.to_nat d in
                                 (match take_bits
                                          (N.to_nat (nth j dist_extra N0))
                                          bits3 with
                                  | Some p0 ->
                                    let (e2, bits4) = p0 in
                                    parse_tokens fuel' lit dist bits4 ((Match
                                      (len,
                                      (N.add (nth j dist_base N0) e2))) :: acc)
                                  | None -> PTrunc)
                          | DTrunc -> PTrunc
                          | DInvalid -> PErr EBadSymbol)
                       | None -> PTrunc)
     | DTrunc -> PTrunc
     | DInvalid -> PErr EBadSymbol)

(** val parse_lens :
    bool list -> hcode -> n -> bool list -> n list -> n list pres **)

let rec parse_lens fuel cl total bits acc =
  if N.leb total (N.of_nat (length acc))
  then if N.eqb total (N.of_nat (length acc))
       then POk ((rev acc), bits)
       else PErr ERepeatOverrun
  else (match fuel with
        | [] -> PTrunc
        | _ :: fuel' ->
          (match decode_sym cl bits with
           | DSym (s, bits1) ->
             if N.ltb s (Npos (XO (XO (XO (XO XH)))))
             then parse_lens fuel' cl total bits1 (s :: acc)
             else if N.eqb s (Npos (XO (XO (XO (XO XH)))))
                  then (match acc with
                        | [] -> PErr ERepeatFirst
                        | prev :: _ ->
                          (match take_bits (S (S O)) bits1 with
                           | Some p ->
                             let (e, bits2) = p in
                             parse_lens fuel' cl total bits2
                               (app
                                 (repeat prev
                                   (N.to_nat (N.add (Npos (XI XH)) e))) acc)
                           | None -> PTrunc))
                  else if N.eqb s (Npos (XI (XO (XO (XO XH)))))
                       then (match take_bits (S (S (S O))) bits1 with
                             | Some p ->
                               let (e, bits2) = p in
                               parse_lens fuel' cl total bits2
                                 (app
                                   (repeat N0
                                     (N.to_nat (N.add (Npos (XI XH)) e))) acc)
                             | None -> PTrunc)
                       else (match take_bits (S (S (S (S (S (S (S O)))))))
                                     bits1 with
                             | Some p ->
                               let (e, bits2) = p in
                               parse_lens fuel' cl total bits2
                                 (app
                                   (repeat N0
                                     (N.to_nat
                                       (N.add (Npos (XI (XI (XO XH)))) e)))
                                   acc)
                             | None -> PTrunc)
           | DTrunc -> PTrunc
           | DInvalid -> PErr EBadSymbol))

(** val take_clens :
    nat -> bool list -> n list -> (n list * bool list) option **)

let rec take_clens n0 bits acc =
  match n0 with
  | O -> Some ((rev acc), bits)
  | S n' ->
    (match take_bits (S (S (S O))) bits with
     | Some p -> let (v, rest) = p in take_clens n' rest (v :: acc)
     | None -> None)

(** val clens_at : n list -> n list **)

let clens_at vals =
  map (fun sym ->
    match find (fun p -> N.eqb (fst p) sym) (combine clen_order vals) with
    | Some p -> snd p
    | None -> N0)
    (map N.of_nat
      (seq O (S (S (S (S (S (S (S (S (S (S (S (S (S (S (S (S (S (S (S
        O)))))))))))))))))))))

(** val mkblock :
    bool -> bkind -> token list -> n list -> n list -> n list -> block **)

let mkblock fin k toks ll dl cl =
  { b_final = fin; b_kind = k; b_tokens = toks; b_litlens = ll; b_distlens =
    dl; b_clens = cl }

(** val parse_block : bool list -> n -> (block * n) pres **)

let parse_block bits consumed =
  let total0 = N.of_nat (length bits) in
  (match take_bits (S (S (S O))) bits with
   | Some p ->
     let (hdr, bits1) = p in
     let fin = N.odd hdr in
     let ty = N.div hdr (Npos (XO XH)) in
     let ret = fun b rest -> POk ((b,
       (N.add consumed (N.sub total0 (N.of_nat (length rest))))), rest)
     in
     if N.eqb ty N0
     then let pad =
            N.to_nat
              (N.modulo
                (N.sub (Npos (XO (XO (XO XH))))
                  (N.modulo (N.add consumed (Npos (XI XH))) (Npos (XO (XO (XO
                    XH)))))) (Npos (XO (XO (XO XH)))))
          in
          (match take_bits pad bits1 with
           | Some p0 ->
             let (_, bits2) = p0 in
             (match take_bits (S (S (S (S (S (S (S (S (S (S (S (S (S (S (S (S
                      O)))))))))))))))) bits2 with
              | Some p1 ->
                let (len, bits3) = p1 in
                (match take_bits (S (S (S (S (S (S (S (S (S (S (S (S (S (S (S
                         (S O)))))))))))))))) bits3 with
                 | Some p2 ->
                   let (nlen, bits4) = p2 in
                   if negb
                        (N.eqb (N.add len nlen) (Npos (XI (XI (XI (XI (XI (XI
                          (XI (XI (XI (XI (XI (XI (XI (XI (XI
                          XH)))))))))))))))))
                   then PErr EStoredLen
                   else (match take_bytes (N.to_nat len) bits4 with
                         | Some p3 ->
                           let (bytes, bits5) = p3 in
                           ret
                             (mkblock fin Stored (map (fun x -> Lit x) bytes)
                               [] [] []) bits5
                         | None -> PTrunc)
                 | None -> PTrunc)
              | None -> PTrunc)
           | None -> PTrunc)
     else if N.eqb ty (Npos XH)
          then (match parse_tokens bits1 (mk_hcode fixed_litlen_lens)
                        (mk_hcode fixed_dist_lens) bits1 [] with
                | POk (toks, rest) ->
                  ret (mkblock fin Fixed toks [] [] []) rest
                | PTrunc -> PTrunc
                | PErr e -> PErr e)
          else if N.eqb ty (Npos (XO XH))
               then (match take_bits (S (S (S (S (S O))))) bits1 with
                     | Some p0 ->
                       let (hlit, bits2) = p0 in
                       (match take_bits (S (S (S (S (S O))))) bits2 with
                        | Some p1 ->
                          let (hdist, bits3) = p1 in
                          (match take_bits (S (S (S (S O)))) bits3 with
                           | Some p2 ->
                             let (hclen, bits4) = p2 in
                             if (||)
                                  (N.ltb (Npos (XO (XI (XI (XI (XI (XO (XO
                                    (XO XH)))))))))
                                    (N.add hlit (Npos (XI (XO (XO (XO (XO (XO
                                      (XO (XO XH)))))))))))
                                  (N.ltb (Npos (XO (XI (XI (XI XH)))))
                                    (N.add hdist (Npos XH)))
                             then PErr ETableSizes
                             else (match take_clens
                                           (N.to_nat
                                             (N.add hclen (Npos (XO (XO XH)))))
                                           bits4 [] with
                                   | Some p3 ->
                                     let (cvals, bits5) = p3 in
                                     let cl = clens_at cvals in
                                     if negb (lens_ok true cl)
                                     then PErr EClenCode
                                     else (match parse_lens bits5
                                                   (mk_hcode cl)
                                                   (N.add
                                                     (N.add
                                                       (N.add hlit (Npos (XI
                                                         (XO (XO (XO (XO (XO
                                                         (XO (XO XH))))))))))
                                                       hdist) (Npos XH))
                                                   bits5 [] with
                                           | POk (lens, bits6) ->
                                             let ll =
                                               firstn
                                                 (N.to_nat
                                                   (N.add hlit (Npos (XI (XO
                                                     (XO (XO (XO (XO (XO (XO
                                                     XH))))))))))) lens
                                             in
                                             let dl =
                                               skipn
                                                 (N.to_nat
                                                   (N.add hlit (Npos (XI (XO
                                                     (XO (XO (XO (XO (XO (XO
                                                     XH))))))))))) lens
                                             in
                                             if negb (lens_ok false ll)
                                             then PErr ELitlenCode
                                             else if negb (lens_ok false dl)
                                                  then PErr EDistCode
                                                  else (match parse_tokens
                                                                bits6
                                                                (mk_hcode ll)
                                                                (mk_hcode dl)
                                                                bits6 [] with
                                                        | POk (toks, rest) ->
                                                          ret
                                                            (mkblock fin
                                                              Dynamic toks ll
                                                              dl cl) rest
                                                        | PTrunc -> PTrunc
                                                        | PErr e -> PErr e)
                                           | PTrunc -> PTrunc
                                           | PErr e -> PErr e)
                                   | None -> PTrunc)
                           | None -> PTrunc)
                        | None -> PTrunc)
                     | None -> PTrunc)
               else PErr EBlockType
   | None -> PTrunc)

(** val parse_blocks :
    bool list -> bool list -> n -> block list -> (block list * n) pres **)

let rec parse_blocks fuel bits consumed acc =
  match fuel with
  | [] -> PTrunc
  | _ :: fuel' ->
    (match parse_block bits consumed with
     | POk (a, rest) ->
       let (b, consumed') = a in
       if b.b_final
       then POk (((rev (b :: acc)), consumed'), rest)
       else parse_blocks fuel' rest consumed' (b :: acc)
     | PTrunc -> PTrunc
     | PErr e -> PErr e)

(** val parse_stream : bool list -> (block list * n) pres **)

let parse_stream bits =
  parse_blocks (true :: bits) bits N0 []

(** val cycle_take : nat -> n list -> n list -> n list **)

let rec cycle_take n0 pat cur =
  match n0 with
  | O -> []
  | S n' ->
    (match cur with
     | [] ->
       (match pat with
        | [] -> []
        | x :: cur' -> x :: (cycle_take n' pat cur'))
     | x :: cur' -> x :: (cycle_take n' pat cur'))

(** val match_bytes : n list -> n -> n -> n list **)

let match_bytes rout len dist =
  let pat = rev (firstn (N.to_nat dist) rout) in
  cycle_take (N.to_nat len) pat pat

(** val expand_tokens : token list -> n list -> n -> n list option **)

let rec expand_tokens toks rout avail =
  match toks with
  | [] -> Some rout
  | t :: toks' ->
    (match t with
     | Lit b -> expand_tokens toks' (b :: rout) (N.add avail (Npos XH))
     | Match (len, dist) ->
       if (||) (N.eqb dist N0) (N.ltb avail dist)
       then None
       else expand_tokens toks' (app (rev (match_bytes rout len dist)) rout)
              (N.add avail len))

(** val all_tokens : block list -> token list **)

let all_tokens bs =
  flat_map (fun b -> b.b_tokens) bs

(** val expand : n list -> block list -> n list option **)

let expand pre bs =
  match expand_tokens (all_tokens bs) pre (N.of_nat (length pre)) with
  | Some rout -> Some (rev (firstn (sub (length rout) (length pre)) rout))
  | None -> None

type sres =
| SDone of n list * n * block list
| STrunc
| SErr of ekind

(** val inflate_spec_bits : n list -> bool list -> sres **)

let inflate_spec_bits pre bits =
  match parse_stream bits with
  | POk (a, _) ->
    let (bs, nbits) = a in
    (match expand pre bs with
     | Some out ->
       SDone (out,
         (N.div (N.add nbits (Npos (XI (XI XH)))) (Npos (XO (XO (XO XH))))),
         bs)
     | None -> SErr EDistance)
  | PTrunc -> STrunc
  | PErr e -> SErr e

(** val inflate_spec : n list -> sres **)

let inflate_spec data =
  inflate_spec_bits [] (bits_of_bytes data)

(** val zlib_header_ok : n -> n -> bool **)

let zlib_header_ok cmf flg =
  (&&)
    ((&&)
      ((&&)
        (N.eqb
          (N.modulo
            (N.add
              (N.mul cmf (Npos (XO (XO (XO (XO (XO (XO (XO (XO XH))))))))))
              flg) (Npos (XI (XI (XI (XI XH)))))) N0)
        (N.eqb (N.modulo cmf (Npos (XO (XO (XO (XO XH)))))) (Npos (XO (XO (XO
          XH))))))
      (N.leb (N.div cmf (Npos (XO (XO (XO (XO XH)))))) (Npos (XI (XI XH)))))
    (N.eqb
      (N.modulo (N.div flg (Npos (XO (XO (XO (XO (XO XH))))))) (Npos (XO XH)))
      N0)

(** val be32_val : n list -> n **)

let be32_val = function
| [] -> N0
| a :: l0 ->
  (match l0 with
   | [] -> N0
   | b :: l1 ->
     (match l1 with
      | [] -> N0
      | c :: l2 ->
        (match l2 with
         | [] -> N0
         | d :: l3 ->
           (match l3 with
            | [] ->
              N.add
                (N.mul
                  (N.add
                    (N.mul
                      (N.add
                        (N.mul a (Npos (XO (XO (XO (XO (XO (XO (XO (XO
                          XH)))))))))) b) (Npos (XO (XO (XO (XO (XO (XO (XO
                      (XO XH)))))))))) c) (Npos (XO (XO (XO (XO (XO (XO (XO
                  (XO XH)))))))))) d
            | _ :: _ -> N0))))

(** val zlib_spec : bool -> n list -> sres **)

let zlib_spec check = function
| [] -> STrunc
| cmf :: l ->
  (match l with
   | [] -> STrunc
   | flg :: body ->
     if negb (zlib_header_ok cmf flg)
     then SErr EZlibHeader
     else (match inflate_spec body with
           | SDone (out, n0, bs) ->
             let trailer = firstn (S (S (S (S O)))) (skipn (N.to_nat n0) body)
             in
             if ltb (length trailer) (S (S (S (S O))))
             then STrunc
             else if (&&) check
                       (negb
                         (N.eqb (be32_val trailer) (adler32 (Npos XH) out)))
                  then SErr EAdler
                  else SDone (out, (N.add n0 (Npos (XO (XI XH)))), bs)
           | x -> x))

(** val uwrap : z -> z -> z **)

let uwrap w x =
  Z.modulo x (Z.pow (Zpos (XO XH)) w)

(** val swrap : z -> z -> z **)

let swrap w x =
  Z.sub
    (Z.modulo (Z.add x (Z.pow (Zpos (XO XH)) (Z.sub w (Zpos XH))))
      (Z.pow (Zpos (XO XH)) w)) (Z.pow (Zpos (XO XH)) (Z.sub w (Zpos XH)))

(** val inrange : z -> z -> z -> bool **)

let inrange lo hi x =
  (&&) (Z.leb lo x) (Z.leb x hi)

(** val tnth : z list -> z -> z **)

let tnth l i =
  nth (Z.to_nat i) l Z0

(** val tz_NUM_PROBES : z list **)

let tz_NUM_PROBES =
  Z0 :: ((Zpos XH) :: ((Zpos (XO (XI XH))) :: ((Zpos (XO (XO (XO (XO (XO
    XH)))))) :: ((Zpos (XO (XO (XO (XO XH))))) :: ((Zpos (XO (XO (XO (XO (XO
    XH)))))) :: ((Zpos (XO (XO (XO (XO (XO (XO (XO XH)))))))) :: ((Zpos (XO
    (XO (XO (XO (XO (XO (XO (XO XH))))))))) :: ((Zpos (XO (XO (XO (XO (XO (XO
    (XO (XO (XO XH)))))))))) :: ((Zpos (XO (XO (XO (XO (XO (XO (XO (XO (XI
    XH)))))))))) :: ((Zpos (XO (XO (XI (XI (XI (XO (XI (XI (XI (XO
    XH))))))))))) :: []))))))))))

(** val tag_Action_Jump : z **)

let tag_Action_Jump =
  Zpos XH

(** val add_fcheck : z -> z -> z * bool **)

let add_fcheck cmf flg =
  let t_1 = Z.mul cmf (Zpos (XO (XO (XO (XO (XO (XO (XO (XO XH))))))))) in
  let t_2 = Z.add (uwrap (Zpos (XO (XO (XO (XO (XO (XO XH))))))) t_1) flg in
  let rem_3 =
    Z.rem (uwrap (Zpos (XO (XO (XO (XO (XO (XO XH))))))) t_2) (Zpos (XI (XI
      (XI (XI XH)))))
  in
  let flg_4 = Z.coq_land flg (Zpos (XO (XO (XO (XO (XO (XI (XI XH)))))))) in
  let t_5 =
    Z.sub (Zpos (XI (XI (XI (XI XH))))) (uwrap (Zpos (XO (XO (XO XH)))) rem_3)
  in
  let t_6 = Z.add flg_4 (uwrap (Zpos (XO (XO (XO XH)))) t_5) in
  ((uwrap (Zpos (XO (XO (XO XH)))) t_6),
  ((&&)
    ((&&)
      ((&&)
        ((&&)
          (inrange Z0 (Zpos (XI (XI (XI (XI (XI (XI (XI (XI (XI (XI (XI (XI
            (XI (XI (XI (XI (XI (XI (XI (XI (XI (XI (XI (XI (XI (XI (XI (XI
            (XI (XI (XI (XI (XI (XI (XI (XI (XI (XI (XI (XI (XI (XI (XI (XI
            (XI (XI (XI (XI (XI (XI (XI (XI (XI (XI (XI (XI (XI (XI (XI (XI
            (XI (XI (XI
            XH))))))))))))))))))))))))))))))))))))))))))))))))))))))))))))))))
            t_1)
          (inrange Z0 (Zpos (XI (XI (XI (XI (XI (XI (XI (XI (XI (XI (XI (XI
            (XI (XI (XI (XI (XI (XI (XI (XI (XI (XI (XI (XI (XI (XI (XI (XI
            (XI (XI (XI (XI (XI (XI (XI (XI (XI (XI (XI (XI (XI (XI (XI (XI
            (XI (XI (XI (XI (XI (XI (XI (XI (XI (XI (XI (XI (XI (XI (XI (XI
            (XI (XI (XI
            XH))))))))))))))))))))))))))))))))))))))))))))))))))))))))))))))))
            t_2)) (negb (Z.eqb (Zpos (XI (XI (XI (XI XH))))) Z0)))
      (inrange Z0 (Zpos (XI (XI (XI (XI (XI (XI (XI XH)))))))) t_5))
    (inrange Z0 (Zpos (XI (XI (XI (XI (XI (XI (XI XH)))))))) t_6)))

(** val zlib_level_from_flags : z -> z * bool **)

let zlib_level_from_flags flags =
  let num_probes_1 =
    Z.coq_land flags (Zpos (XI (XI (XI (XI (XI (XI (XI (XI (XI (XI (XI
      XH))))))))))))
  in
  let c_2 =
    (||)
      (negb
        (Z.eqb
          (Z.coq_land flags (Zpos (XO (XO (XO (XO (XO (XO (XO (XO (XO (XO (XO
            (XO (XO (XO XH)))))))))))))))) Z0))
      (negb
        (Z.eqb
          (Z.coq_land flags (Zpos (XO (XO (XO (XO (XO (XO (XO (XO (XO (XO (XO
            (XO (XO (XO (XO (XO XH)))))))))))))))))) Z0))
  in
  let c_3 = Z.leb num_probes_1 (Zpos XH) in
  let c_4 =
    Z.geb num_probes_1
      (uwrap (Zpos (XO (XO (XO (XO (XO XH))))))
        (tnth tz_NUM_PROBES (Zpos (XI (XO (XO XH))))))
  in
  ((if c_2
    then if c_3 then Z0 else Zpos XH
    else if c_4 then Zpos (XI XH) else Zpos (XO XH)),
  (implb (negb c_2) (Z.ltb (Zpos (XI (XO (XO XH)))) (Zpos (XI (XI (XO XH)))))))

(** val header_from_level : z -> z -> (z * z) * bool **)

let header_from_level level window_bits =
  let cmf_1 =
    Z.coq_lor (Zpos (XO (XO (XO XH))))
      (uwrap (Zpos (XO (XO (XO XH))))
        (Z.shiftl (Z.max Z0 (Z.sub window_bits (Zpos (XO (XO (XO XH))))))
          (Zpos (XO (XO XH)))))
  in
  let (r_2, k_3) =
    add_fcheck cmf_1
      (uwrap (Zpos (XO (XO (XO XH)))) (Z.shiftl level (Zpos (XO (XI XH)))))
  in
  ((cmf_1, r_2),
  ((&&)
    ((&&) (inrange Z0 (Zpos (XI (XI XH))) (Zpos (XO (XO XH))))
      (inrange Z0 (Zpos (XI (XI XH))) (Zpos (XO (XI XH))))) k_3))

(** val header_from_flags : z -> z -> (z * z) * bool **)

let header_from_flags flags window_bits =
  let (r_1, k_2) = zlib_level_from_flags flags in
  let (r_4, k_5) = header_from_level r_1 window_bits in (r_4, ((&&) k_2 k_5))

(** val validate_zlib_header : z -> z -> z -> z -> (z * z) * bool **)

let validate_zlib_header cmf flg flags mask0 =
  let t_1 = Z.mul cmf (Zpos (XO (XO (XO (XO (XO (XO (XO (XO XH))))))))) in
  let t_2 = Z.add (uwrap (Zpos (XO (XO (XO (XO (XO XH)))))) t_1) flg in
  let failed_3 =
    (||)
      ((||)
        (negb
          (Z.eqb
            (Z.rem (uwrap (Zpos (XO (XO (XO (XO (XO XH)))))) t_2) (Zpos (XI
              (XI (XI (XI XH)))))) Z0))
        (negb (Z.eqb (Z.coq_land flg (Zpos (XO (XO (XO (XO (XO XH))))))) Z0)))
      (negb
        (Z.eqb (Z.coq_land cmf (Zpos (XI (XI (XI XH))))) (Zpos (XO (XO (XO
          XH))))))
  in
  let t_4 = Z.add (Z.shiftr cmf (Zpos (XO (XO XH)))) (Zpos (XO (XO (XO XH))))
  in
  let window_size_5 =
    uwrap (Zpos (XO (XO (XO (XO (XO (XO XH)))))))
      (Z.shiftl (Zpos XH) (uwrap (Zpos (XO (XO (XO (XO (XO XH)))))) t_4))
  in
  let c_6 = Z.eqb (Z.coq_land flags (Zpos (XO (XO XH)))) Z0 in
  let t_7 = Z.add mask0 (Zpos XH) in
  let failed_8 =
    (||) failed_3
      (Z.ltb (uwrap (Zpos (XO (XO (XO (XO (XO (XO XH))))))) t_7)
        window_size_5)
  in
  let failed_9 =
    (||) (if c_6 then failed_8 else failed_3)
      (Z.gtb window_size_5 (Zpos (XO (XO (XO (XO (XO (XO (XO (XO (XO (XO (XO
        (XO (XO (XO (XO XH)))))))))))))))))
  in
  ((tag_Action_Jump,
  (if failed_9 then Zpos (XI (XO (XI (XI XH)))) else Zpos (XI XH))),
  ((&&)
    ((&&)
      ((&&)
        ((&&)
          ((&&)
            ((&&)
              (inrange Z0 (Zpos (XI (XI (XI (XI (XI (XI (XI (XI (XI (XI (XI
                (XI (XI (XI (XI (XI (XI (XI (XI (XI (XI (XI (XI (XI (XI (XI
                (XI (XI (XI (XI (XI XH)))))))))))))))))))))))))))))))) t_1)
              (inrange Z0 (Zpos (XI (XI (XI (XI (XI (XI (XI (XI (XI (XI (XI
                (XI (XI (XI (XI (XI (XI (XI (XI (XI (XI (XI (XI (XI (XI (XI
                (XI (XI (XI (XI (XI XH)))))))))))))))))))))))))))))))) t_2))
            (negb (Z.eqb (Zpos (XI (XI (XI (XI XH))))) Z0)))
          (inrange Z0 (Zpos (XI (XI (XI (XI XH))))) (Zpos (XO (XO XH)))))
        (inrange Z0 (Zpos (XI (XI (XI (XI (XI (XI (XI (XI (XI (XI (XI (XI (XI
          (XI (XI (XI (XI (XI (XI (XI (XI (XI (XI (XI (XI (XI (XI (XI (XI (XI
          (XI XH)))))))))))))))))))))))))))))))) t_4))
      (inrange Z0 (Zpos (XI (XI (XI (XI (XI XH))))))
        (uwrap (Zpos (XO (XO (XO (XO (XO XH)))))) t_4)))
    (implb c_6
      (inrange Z0 (Zpos (XI (XI (XI (XI (XI (XI (XI (XI (XI (XI (XI (XI (XI
        (XI (XI (XI (XI (XI (XI (XI (XI (XI (XI (XI (XI (XI (XI (XI (XI (XI
        (XI (XI (XI (XI (XI (XI (XI (XI (XI (XI (XI (XI (XI (XI (XI (XI (XI
        (XI (XI (XI (XI (XI (XI (XI (XI (XI (XI (XI (XI (XI (XI (XI (XI
        XH))))))))))))))))))))))))))))))))))))))))))))))))))))))))))))))))
        t_7))))

(** val num_extra_bits_for_distance_code : z -> z * bool **)

let num_extra_bits_for_distance_code code =
  let c_1 = Z.shiftr code (Zpos XH) in
  ((Z.max Z0 (Z.sub c_1 (Zpos XH))),
  (inrange Z0 (Zpos (XI (XI XH))) (Zpos XH)))

(** val create_comp_flags_from_zip_params : z -> z -> z -> z * bool **)

let create_comp_flags_from_zip_params level window_bits strategy =
  let c_1 = Z.geb level Z0 in
  let c_2 = Z.gtb level (Zpos (XO (XI (XO XH)))) in
  let num_probes_3 =
    uwrap (Zpos (XO (XO (XO (XO (XO (XO XH)))))))
      (if c_1
       then if c_2 then Zpos (XO (XI (XO XH))) else level
       else swrap (Zpos (XO (XO (XO (XO (XO XH)))))) (Zpos (XO (XI XH))))
  in
  let c_4 = Z.leb level (Zpos (XI XH)) in
  let greedy_5 =
    if c_4
    then Zpos (XO (XO (XO (XO (XO (XO (XO (XO (XO (XO (XO (XO (XO (XO
           XH))))))))))))))
    else Z0
  in
  let comp_flags_6 =
    Z.coq_lor
      (uwrap (Zpos (XO (XO (XO (XO (XO XH))))))
        (tnth tz_NUM_PROBES num_probes_3)) greedy_5
  in
  let c_7 = Z.gtb window_bits Z0 in
  let comp_flags_8 =
    Z.coq_lor comp_flags_6 (Zpos (XO (XO (XO (XO (XO (XO (XO (XO (XO (XO (XO
      (XO XH)))))))))))))
  in
  let c_9 = Z.eqb level Z0 in
  let comp_flags_10 =
    Z.coq_lor (if c_7 then comp_flags_8 else comp_flags_6) (Zpos (XO (XO (XO
      (XO (XO (XO (XO (XO (XO (XO (XO (XO (XO (XO (XO (XO (XO (XO (XO
      XH))))))))))))))))))))
  in
  let c_11 =
    Z.eqb strategy (swrap (Zpos (XO (XO (XO (XO (XO XH)))))) (Zpos XH))
  in
  let comp_flags_12 =
    Z.coq_lor (if c_7 then comp_flags_8 else comp_flags_6) (Zpos (XO (XO (XO
      (XO (XO (XO (XO (XO (XO (XO (XO (XO (XO (XO (XO (XO (XO
      XH))))))))))))))))))
  in
  let c_13 =
    Z.eqb strategy (swrap (Zpos (XO (XO (XO (XO (XO XH)))))) (Zpos (XO XH)))
  in
  let comp_flags_14 =
    Z.coq_land (if c_7 then comp_flags_8 else comp_flags_6)
      (Z.coq_lxor (Zpos (XI (XI (XI (XI (XI (XI (XI (XI (XI (XI (XI
        XH)))))))))))) (Zpos (XI (XI (XI (XI (XI (XI (XI (XI (XI (XI (XI (XI
        (XI (XI (XI (XI (XI (XI (XI (XI (XI (XI (XI (XI (XI (XI (XI (XI (XI
        (XI (XI XH)))))))))))))))))))))))))))))))))
  in
  let c_15 =
    Z.eqb strategy
      (swrap (Zpos (XO (XO (XO (XO (XO XH)))))) (Zpos (XO (XO XH))))
  in
  let comp_flags_16 =
    Z.coq_lor (if c_7 then comp_flags_8 else comp_flags_6) (Zpos (XO (XO (XO
      (XO (XO (XO (XO (XO (XO (XO (XO (XO (XO (XO (XO (XO (XO (XO
      XH)))))))))))))))))))
  in
  let c_17 =
    Z.eqb strategy (swrap (Zpos (XO (XO (XO (XO (XO XH)))))) (Zpos (XI XH)))
  in
  let comp_flags_18 =
    Z.coq_lor (if c_7 then comp_flags_8 else comp_flags_6) (Zpos (XO (XO (XO
      (XO (XO (XO (XO (XO (XO (XO (XO (XO (XO (XO (XO (XO XH)))))))))))))))))
  in
  ((if c_9
    then comp_flags_10
    else if c_11
         then comp_flags_12
         else if c_13
              then comp_flags_14
              else if c_15
                   then comp_flags_16
                   else if c_17
                        then comp_flags_18
                        else if c_7 then comp_flags_8 else comp_flags_6),
  (Z.ltb num_probes_3 (Zpos (XI (XI (XO XH))))))

(** val limit_level_by_window_bits : z -> z -> z -> (z * z) * bool **)

let limit_level_by_window_bits window_bits current_level current_strategy =
  let c_1 = Z.ltb window_bits (Zpos (XO (XO (XI XH)))) in
  let c_2 =
    (&&) (negb (Z.eqb current_strategy (Zpos (XO XH))))
      (negb (Z.eqb current_level Z0))
  in
  let c_3 =
    Z.ltb window_bits
      (uwrap (Zpos (XO (XO (XO XH)))) (Zpos (XI (XI (XI XH)))))
  in
  (((if c_1
     then if c_2 then Zpos XH else current_level
     else if c_3 then Z.min current_level (Zpos XH) else current_level),
  (if c_1
   then if c_2 then Zpos (XI XH) else current_strategy
   else current_strategy)), true)

(** val window_bits_from_flags : z -> z * bool **)

let window_bits_from_flags flags =
  let c_1 =
    (||)
      (negb
        (Z.eqb
          (Z.coq_land
            (Z.coq_land flags (Zpos (XO (XO (XO (XO (XO (XO (XO (XO (XO (XO
              (XO (XO (XO (XO (XO (XO (XO (XO (XO XH)))))))))))))))))))))
            (Zpos (XO (XO (XO (XO (XO (XO (XO (XO (XO (XO (XO (XO (XO (XO (XO
            (XO XH)))))))))))))))))) Z0))
      (Z.eqb
        (Z.coq_land flags (Zpos (XI (XI (XI (XI (XI (XI (XI (XI (XI (XI (XI
          XH))))))))))))) Z0)
  in
  let c_2 =
    Z.eqb
      (Z.coq_land flags (Zpos (XI (XI (XI (XI (XI (XI (XI (XI (XI (XI (XI
        XH))))))))))))) (Zpos XH)
  in
  ((if c_1
    then Zpos XH
    else if c_2 then Zpos (XO (XO (XI XH))) else Zpos (XI (XI (XI XH)))),
  true)

(** val probes_from_flags : z -> (z * z) * bool **)

let probes_from_flags flags =
  let t_1 =
    Z.add
      (Z.coq_land flags (Zpos (XI (XI (XI (XI (XI (XI (XI (XI (XI (XI (XI
        XH))))))))))))) (Zpos (XO XH))
  in
  let t_2 =
    Z.add (Zpos XH)
      (Z.quot (uwrap (Zpos (XO (XO (XO (XO (XO XH)))))) t_1) (Zpos (XI XH)))
  in
  let t_3 =
    Z.add
      (Z.shiftr
        (Z.coq_land flags (Zpos (XI (XI (XI (XI (XI (XI (XI (XI (XI (XI (XI
          XH))))))))))))) (Zpos (XO XH))) (Zpos (XO XH))
  in
  let t_4 =
    Z.add (Zpos XH)
      (Z.quot (uwrap (Zpos (XO (XO (XO (XO (XO XH)))))) t_3) (Zpos (XI XH)))
  in
  (((uwrap (Zpos (XO (XO (XO (XO (XO XH)))))) t_2),
  (uwrap (Zpos (XO (XO (XO (XO (XO XH)))))) t_4)),
  ((&&)
    ((&&)
      ((&&)
        ((&&)
          ((&&)
            ((&&)
              (inrange Z0 (Zpos (XI (XI (XI (XI (XI (XI (XI (XI (XI (XI (XI
                (XI (XI (XI (XI (XI (XI (XI (XI (XI (XI (XI (XI (XI (XI (XI
                (XI (XI (XI (XI (XI XH)))))))))))))))))))))))))))))))) t_1)
              (negb (Z.eqb (Zpos (XI XH)) Z0)))
            (inrange Z0 (Zpos (XI (XI (XI (XI (XI (XI (XI (XI (XI (XI (XI (XI
              (XI (XI (XI (XI (XI (XI (XI (XI (XI (XI (XI (XI (XI (XI (XI (XI
              (XI (XI (XI XH)))))))))))))))))))))))))))))))) t_2))
          (inrange Z0 (Zpos (XI (XI (XI (XI XH))))) (Zpos (XO XH))))
        (inrange Z0 (Zpos (XI (XI (XI (XI (XI (XI (XI (XI (XI (XI (XI (XI (XI
          (XI (XI (XI (XI (XI (XI (XI (XI (XI (XI (XI (XI (XI (XI (XI (XI (XI
          (XI XH)))))))))))))))))))))))))))))))) t_3))
      (negb (Z.eqb (Zpos (XI XH)) Z0)))
    (inrange Z0 (Zpos (XI (XI (XI (XI (XI (XI (XI (XI (XI (XI (XI (XI (XI (XI
      (XI (XI (XI (XI (XI (XI (XI (XI (XI (XI (XI (XI (XI (XI (XI (XI (XI
      XH)))))))))))))))))))))))))))))))) t_4)))

(** val update_hash : z -> z -> z * bool **)

let update_hash current_hash byte =
  let t_1 =
    Z.sub
      (uwrap (Zpos (XO (XO (XO (XO XH))))) (Zpos (XO (XO (XO (XO (XO (XO (XO
        (XO (XO (XO (XO (XO (XO (XO (XO XH))))))))))))))))) (Zpos XH)
  in
  ((Z.coq_land
     (Z.coq_lxor
       (uwrap (Zpos (XO (XO (XO (XO XH)))))
         (Z.shiftl current_hash (Zpos (XI (XO XH)))))
       (uwrap (Zpos (XO (XO (XO (XO XH))))) byte))
     (uwrap (Zpos (XO (XO (XO (XO XH))))) t_1)),
  ((&&) (inrange Z0 (Zpos (XI (XI (XI XH)))) (Zpos (XI (XO XH))))
    (inrange Z0 (Zpos (XI (XI (XI (XI (XI (XI (XI (XI (XI (XI (XI (XI (XI (XI
      (XI XH)))))))))))))))) t_1)))

(** val mz_deflateBound : unit -> z -> z * bool **)

let mz_deflateBound _ source_len =
  let t_1 = Z.mul source_len (Zpos (XO (XI (XI (XI (XO (XI XH))))))) in
  let t_2 =
    Z.add (Zpos (XO (XO (XO (XO (XO (XO (XO XH))))))))
      (Z.quot (uwrap (Zpos (XO (XO (XO (XO (XO (XO XH))))))) t_1) (Zpos (XO
        (XO (XI (XO (XO (XI XH))))))))
  in
  let t_3 = Z.add (Zpos (XO (XO (XO (XO (XO (XO (XO XH)))))))) source_len in
  let t_4 =
    Z.mul (Zpos (XI (XI (XI (XI XH))))) (Zpos (XO (XO (XO (XO (XO (XO (XO (XO
      (XO (XO XH)))))))))))
  in
  let t_5 =
    Z.add
      (Z.quot source_len (uwrap (Zpos (XO (XO (XO (XO (XO (XO XH))))))) t_4))
      (Zpos XH)
  in
  let t_6 =
    Z.mul (uwrap (Zpos (XO (XO (XO (XO (XO (XO XH))))))) t_5) (Zpos (XI (XO
      XH)))
  in
  let t_7 =
    Z.add (uwrap (Zpos (XO (XO (XO (XO (XO (XO XH))))))) t_3)
      (uwrap (Zpos (XO (XO (XO (XO (XO (XO XH))))))) t_6)
  in
  ((Z.max (uwrap (Zpos (XO (XO (XO (XO (XO (XO XH))))))) t_2)
     (uwrap (Zpos (XO (XO (XO (XO (XO (XO XH))))))) t_7)),
  ((&&)
    ((&&)
      ((&&)
        ((&&)
          ((&&)
            ((&&)
              ((&&)
                ((&&)
                  (inrange Z0 (Zpos (XI (XI (XI (XI (XI (XI (XI (XI (XI (XI
                    (XI (XI (XI (XI (XI (XI (XI (XI (XI (XI (XI (XI (XI (XI
                    (XI (XI (XI (XI (XI (XI (XI (XI (XI (XI (XI (XI (XI (XI
                    (XI (XI (XI (XI (XI (XI (XI (XI (XI (XI (XI (XI (XI (XI
                    (XI (XI (XI (XI (XI (XI (XI (XI (XI (XI (XI
                    XH))))))))))))))))))))))))))))))))))))))))))))))))))))))))))))))))
                    t_1)
                  (negb (Z.eqb (Zpos (XO (XO (XI (XO (XO (XI XH))))))) Z0)))
                (inrange Z0 (Zpos (XI (XI (XI (XI (XI (XI (XI (XI (XI (XI (XI
                  (XI (XI (XI (XI (XI (XI (XI (XI (XI (XI (XI (XI (XI (XI (XI
                  (XI (XI (XI (XI (XI (XI (XI (XI (XI (XI (XI (XI (XI (XI (XI
                  (XI (XI (XI (XI (XI (XI (XI (XI (XI (XI (XI (XI (XI (XI (XI
                  (XI (XI (XI (XI (XI (XI (XI
                  XH))))))))))))))))))))))))))))))))))))))))))))))))))))))))))))))))
                  t_2))
              (inrange Z0 (Zpos (XI (XI (XI (XI (XI (XI (XI (XI (XI (XI (XI
                (XI (XI (XI (XI (XI (XI (XI (XI (XI (XI (XI (XI (XI (XI (XI
                (XI (XI (XI (XI (XI (XI (XI (XI (XI (XI (XI (XI (XI (XI (XI
                (XI (XI (XI (XI (XI (XI (XI (XI (XI (XI (XI (XI (XI (XI (XI
                (XI (XI (XI (XI (XI (XI (XI
                XH))))))))))))))))))))))))))))))))))))))))))))))))))))))))))))))))
                t_3))
            (inrange Z0 (Zpos (XI (XI (XI (XI (XI (XI (XI (XI (XI (XI (XI (XI
              (XI (XI (XI (XI (XI (XI (XI (XI (XI (XI (XI (XI (XI (XI (XI (XI
              (XI (XI (XI (XI (XI (XI (XI (XI (XI (XI (XI (XI (XI (XI (XI (XI
              (XI (XI (XI (XI (XI (XI (XI (XI (XI (XI (XI (XI (XI (XI (XI (XI
              (XI (XI (XI
              XH))))))))))))))))))))))))))))))))))))))))))))))))))))))))))))))))
              t_4))
          (negb
            (Z.eqb (uwrap (Zpos (XO (XO (XO (XO (XO (XO XH))))))) t_4) Z0)))
        (inrange Z0 (Zpos (XI (XI (XI (XI (XI (XI (XI (XI (XI (XI (XI (XI (XI
          (XI (XI (XI (XI (XI (XI (XI (XI (XI (XI (XI (XI (XI (XI (XI (XI (XI
          (XI (XI (XI (XI (XI (XI (XI (XI (XI (XI (XI (XI (XI (XI (XI (XI (XI
          (XI (XI (XI (XI (XI (XI (XI (XI (XI (XI (XI (XI (XI (XI (XI (XI
          XH))))))))))))))))))))))))))))))))))))))))))))))))))))))))))))))))
          t_5))
      (inrange Z0 (Zpos (XI (XI (XI (XI (XI (XI (XI (XI (XI (XI (XI (XI (XI
        (XI (XI (XI (XI (XI (XI (XI (XI (XI (XI (XI (XI (XI (XI (XI (XI (XI
        (XI (XI (XI (XI (XI (XI (XI (XI (XI (XI (XI (XI (XI (XI (XI (XI (XI
        (XI (XI (XI (XI (XI (XI (XI (XI (XI (XI (XI (XI (XI (XI (XI (XI
        XH))))))))))))))))))))))))))))))))))))))))))))))))))))))))))))))))
        t_6))
    (inrange Z0 (Zpos (XI (XI (XI (XI (XI (XI (XI (XI (XI (XI (XI (XI (XI (XI
      (XI (XI (XI (XI (XI (XI (XI (XI (XI (XI (XI (XI (XI (XI (XI (XI (XI (XI
      (XI (XI (XI (XI (XI (XI (XI (XI (XI (XI (XI (XI (XI (XI (XI (XI (XI (XI
      (XI (XI (XI (XI (XI (XI (XI (XI (XI (XI (XI (XI (XI
      XH)))))))))))))))))))))))))))))))))))))))))))))))))))))))))))))))) t_7)))

(** val thread_splits :
    (n -> n list -> n) -> n -> n list -> n -> n list -> n **)

let rec thread_splits f cur data prev = function
| [] -> f cur data
| c :: cuts' ->
  let c0 = N.max prev (N.min c (N.add prev (N.of_nat (length data)))) in
  let k = N.to_nat (N.sub c0 prev) in
  thread_splits f (f cur (firstn k data)) (skipn k data) c0 cuts'

type tsum = { ts_blocks : n; ts_stored : n; ts_fixed : n; ts_dynamic : 
              n; ts_finals : n; ts_last_final : bool; ts_matches : n;
              ts_lits : n; ts_maxdist : n; ts_minlen : n; ts_maxlen : 
              n; ts_maxstored : n; ts_maxhlit : n; ts_maxhdist : n;
              ts_maxcodelen : n }

(** val tok_fold :
    ((((n * n) * n) * n) * n) -> token -> (((n * n) * n) * n) * n **)

let tok_fold acc t =
  let (p, maxl) = acc in
  let (p0, minl) = p in
  let (p1, maxd) = p0 in
  let (m, l) = p1 in
  (match t with
   | Lit _ -> ((((m, (N.add l (Npos XH))), maxd), minl), maxl)
   | Match (len, d) ->
     (((((N.add m (Npos XH)), l), (N.max maxd d)), (N.min minl len)),
       (N.max maxl len)))

(** val is_kind : bkind -> block -> bool **)

let is_kind k b =
  match k with
  | Stored -> (match b.b_kind with
               | Stored -> true
               | _ -> false)
  | Fixed -> (match b.b_kind with
              | Fixed -> true
              | _ -> false)
  | Dynamic -> (match b.b_kind with
                | Dynamic -> true
                | _ -> false)

(** val count_if : ('a1 -> bool) -> 'a1 list -> n **)

let count_if f l =
  N.of_nat (length (filter f l))

(** val summarize : block list -> tsum **)

let summarize bs =
  let nonstored = filter (fun b -> negb (is_kind Stored b)) bs in
  let (p, maxl) =
    fold_left tok_fold (flat_map (fun b -> b.b_tokens) nonstored) ((((N0,
      N0), N0), (Npos (XO (XO (XO (XI (XO (XI (XI (XI (XI XH))))))))))), N0)
  in
  let (p0, minl) = p in
  let (p1, maxd) = p0 in
  let (m, l) = p1 in
  { ts_blocks = (N.of_nat (length bs)); ts_stored =
  (count_if (is_kind Stored) bs); ts_fixed = (count_if (is_kind Fixed) bs);
  ts_dynamic = (count_if (is_kind Dynamic) bs); ts_finals =
  (count_if (fun b -> b.b_final) bs); ts_last_final =
  (match rev bs with
   | [] -> false
   | b :: _ -> b.b_final); ts_matches = m; ts_lits = l; ts_maxdist = maxd;
  ts_minlen = minl; ts_maxlen = maxl; ts_maxstored =
  (fold_left N.max
    (map (fun b ->
      if is_kind Stored b then N.of_nat (length b.b_tokens) else N0) bs) N0);
  ts_maxhlit =
  (fold_left N.max (map (fun b -> N.of_nat (length b.b_litlens)) bs) N0);
  ts_maxhdist =
  (fold_left N.max (map (fun b -> N.of_nat (length b.b_distlens)) bs) N0);
  ts_maxcodelen =
  (fold_left N.max (flat_map (fun b -> app b.b_litlens b.b_distlens) bs) N0) }

(** val parse_prefix :
    bool list -> bool list -> n -> block list -> ((block
    list * n) * bool) * bool **)

let rec parse_prefix fuel bits consumed acc =
  match fuel with
  | [] -> ((((rev acc), consumed), true), false)
  | _ :: fuel' ->
    (match parse_block bits consumed with
     | POk (a, rest) ->
       let (b, consumed') = a in
       if b.b_final
       then ((((rev (b :: acc)), consumed'), true), true)
       else parse_prefix fuel' rest consumed' (b :: acc)
     | PTrunc -> ((((rev acc), consumed), true), false)
     | PErr _ -> ((((rev acc), consumed), false), false))

(** val prefix_spec :
    n list -> (((n list option * n) * bool) * bool) * block list **)

let prefix_spec data =
  let bits = bits_of_bytes data in
  let (p, fin) = parse_prefix (true :: bits) bits N0 [] in
  let (p0, clean) = p in
  let (bs, consumed) = p0 in (((((expand [] bs), consumed), clean), fin), bs)

(** val block_is_sync : block -> bool **)

let block_is_sync b =
  (&&) (is_kind Stored b) (match b.b_tokens with
                           | [] -> true
                           | _ :: _ -> false)
