(* Shifts and masks on N as arithmetic. *)
From Coq Require Import NArith List Lia.
Import ListNotations.
Local Open Scope N_scope.

Definition mask (k : N) : N := N.ones k.
Definition trunc (k x : N) : N := N.land x (N.ones k).

Lemma trunc_mod k x : trunc k x = x mod 2 ^ k.
Proof. unfold trunc. apply N.land_ones. Qed.

Lemma trunc_lt k x : trunc k x < 2 ^ k.
Proof. rewrite trunc_mod. apply N.mod_lt. apply N.pow_nonzero. lia. Qed.

Lemma trunc_small k x : x < 2 ^ k -> trunc k x = x.
Proof. intros H. rewrite trunc_mod. now apply N.mod_small. Qed.

Lemma shiftr_div k x : N.shiftr x k = x / 2 ^ k.
Proof. apply N.shiftr_div_pow2. Qed.

Lemma shiftl_mul k x : N.shiftl x k = x * 2 ^ k.
Proof. apply N.shiftl_mul_pow2. Qed.

Lemma testbit_above a n m : a < 2 ^ n -> n <= m -> N.testbit a m = false.
Proof.
  intros Ha Hnm. destruct (N.eq_dec a 0) as [->|Hz]; [apply N.bits_0|].
  apply N.bits_above_log2. apply N.lt_le_trans with n; [|exact Hnm].
  apply N.log2_lt_pow2; lia.
Qed.

Lemma lor_disjoint_add a b n : a < 2 ^ n -> N.lor a (N.shiftl b n) = a + b * 2 ^ n.
Proof.
  intros Ha. rewrite <- shiftl_mul.
  rewrite <- N.lxor_lor.
  - symmetry. apply N.add_nocarry_lxor.
    apply N.bits_inj_0. intros m. rewrite N.land_spec.
    destruct (N.lt_ge_cases m n) as [Hlt|Hge].
    + rewrite N.shiftl_spec_low by exact Hlt. apply Bool.andb_false_r.
    + rewrite (testbit_above a n m Ha Hge). reflexivity.
  - apply N.bits_inj_0. intros m. rewrite N.land_spec.
    destruct (N.lt_ge_cases m n) as [Hlt|Hge].
    + rewrite N.shiftl_spec_low by exact Hlt. apply Bool.andb_false_r.
    + rewrite (testbit_above a n m Ha Hge). reflexivity.
Qed.

Lemma shiftr_lt a n k : a < 2 ^ n -> k <= n -> N.shiftr a k < 2 ^ (n - k).
Proof.
  intros Ha Hk. rewrite shiftr_div.
  apply N.div_lt_upper_bound; [apply N.pow_nonzero; lia|].
  rewrite <- N.pow_add_r. replace (k + (n - k)) with n by lia. exact Ha.
Qed.

Lemma pow2_pos k : 0 < 2 ^ k.
Proof. apply N.neq_0_lt_0, N.pow_nonzero. lia. Qed.

Lemma pow2_le_mono a b : a <= b -> 2 ^ a <= 2 ^ b.
Proof. intros H. apply N.pow_le_mono_r; lia. Qed.

Lemma pow2_lt_mono a b : a < b -> 2 ^ a < 2 ^ b.
Proof. intros H. apply N.pow_lt_mono_r; lia. Qed.

(* Pushing k bits [v] onto a bit buffer [bb] holding [nb] bits. *)
Lemma push_bits_lt bb nb v k :
  bb < 2 ^ nb -> v < 2 ^ k -> N.lor bb (N.shiftl v nb) < 2 ^ (nb + k).
Proof.
  intros Hb Hv. rewrite lor_disjoint_add by exact Hb.
  rewrite N.pow_add_r.
  assert (H1 : v * 2 ^ nb <= (2 ^ k - 1) * 2 ^ nb) by (apply N.mul_le_mono_r; lia).
  pose proof (pow2_pos k). pose proof (pow2_pos nb). nia.
Qed.

(* little-endian byte list <-> number *)
Fixpoint le_bytes (n : nat) (x : N) : list N :=
  match n with
  | O => []
  | S n' => (x mod 256) :: le_bytes n' (x / 256)
  end.

Fixpoint of_le_bytes (l : list N) : N :=
  match l with
  | [] => 0
  | b :: l' => b + 256 * of_le_bytes l'
  end.

Definition byte_list (l : list N) : Prop := Forall (fun b => b < 256) l.
Definition byte_listb (l : list N) : bool := forallb (fun b => b <? 256) l.

Lemma byte_listb_spec l : byte_listb l = true <-> byte_list l.
Proof.
  unfold byte_listb, byte_list. rewrite forallb_forall, Forall_forall.
  split; intros H x Hx; specialize (H x Hx); [apply N.ltb_lt in H|apply N.ltb_lt]; exact H.
Qed.
