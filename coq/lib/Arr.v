(* Arrays of N backed by PositiveMap, with an explicit length.
   Reads/writes outside the length are reported (None), never silently
   defaulted: the Rust code panics there. *)
From Coq Require Import NArith List Lia FMapPositive.
Import ListNotations.
Local Open Scope N_scope.

Record arr := mkArr { alen : N; adef : N; amap : PositiveMap.t N }.

Definition amake (n d : N) : arr := mkArr n d (PositiveMap.empty N).

(* unchecked read: index is expected to be < alen *)
Definition aget (a : arr) (i : N) : N :=
  match PositiveMap.find (N.succ_pos i) (amap a) with
  | Some v => v
  | None => adef a
  end.

Definition aset (a : arr) (i v : N) : arr :=
  mkArr (alen a) (adef a) (PositiveMap.add (N.succ_pos i) v (amap a)).

(* checked versions *)
Definition aget_opt (a : arr) (i : N) : option N :=
  if i <? alen a then Some (aget a i) else None.

Definition aset_opt (a : arr) (i v : N) : option arr :=
  if i <? alen a then Some (aset a i v) else None.

Definition afill_all (a : arr) (v : N) : arr := amake (alen a) v.

Fixpoint aset_list (a : arr) (i : N) (l : list N) : arr :=
  match l with
  | [] => a
  | x :: l' => aset_list (aset a i x) (i + 1) l'
  end.

Fixpoint aget_list_nat (a : arr) (i : N) (n : nat) : list N :=
  match n with
  | O => []
  | S n' => aget a i :: aget_list_nat a (i + 1) n'
  end.
Definition aget_list (a : arr) (i n : N) : list N := aget_list_nat a i (N.to_nat n).

Definition aof_list (l : list N) : arr :=
  aset_list (amake (N.of_nat (length l)) 0) 0 l.

Definition ato_list (a : arr) : list N := aget_list a 0 (alen a).

(* fill [i, i+n) with v *)
Fixpoint afill_nat (a : arr) (i : N) (n : nat) (v : N) : arr :=
  match n with
  | O => a
  | S n' => afill_nat (aset a i v) (i + 1) n' v
  end.
Definition afill (a : arr) (i n v : N) : arr := afill_nat a i (N.to_nat n) v.

Lemma succ_pos_inj i j : N.succ_pos i = N.succ_pos j -> i = j.
Proof.
  intros H. apply (f_equal Npos) in H. rewrite !N.succ_pos_spec in H. lia.
Qed.

Lemma aget_aset_same a i v : aget (aset a i v) i = v.
Proof. unfold aget, aset; cbn. now rewrite PositiveMap.gss. Qed.

Lemma aget_aset_other a i j v : i <> j -> aget (aset a i v) j = aget a j.
Proof.
  intros H. unfold aget, aset; cbn.
  rewrite PositiveMap.gso; [reflexivity|].
  intros E. apply succ_pos_inj in E. congruence.
Qed.

Lemma alen_aset a i v : alen (aset a i v) = alen a.
Proof. reflexivity. Qed.

Lemma alen_aset_list l : forall a i, alen (aset_list a i l) = alen a.
Proof. induction l as [|x l IH]; intros a i; cbn; [reflexivity|]. now rewrite IH. Qed.

Lemma aget_aset_list_out l : forall a i j,
  (j < i \/ i + N.of_nat (length l) <= j) -> aget (aset_list a i l) j = aget a j.
Proof.
  induction l as [|x l IH]; intros a i j H; cbn [aset_list]; [reflexivity|].
  rewrite IH.
  - apply aget_aset_other. cbn [length] in H. lia.
  - cbn [length] in H. lia.
Qed.

Lemma aget_aset_list_in l : forall a i k,
  (k < length l)%nat -> aget (aset_list a i l) (i + N.of_nat k) = nth k l 0.
Proof.
  induction l as [|x l IH]; intros a i k H; cbn [aset_list length] in *; [lia|].
  destruct k as [|k].
  - rewrite aget_aset_list_out by lia. cbn. replace (i + 0) with i by lia.
    apply aget_aset_same.
  - replace (i + N.of_nat (S k)) with ((i + 1) + N.of_nat k) by lia.
    rewrite IH by lia. reflexivity.
Qed.

Lemma alen_afill_nat n : forall a i v, alen (afill_nat a i n v) = alen a.
Proof. induction n as [|n IH]; intros; cbn; [reflexivity|]. now rewrite IH. Qed.

Lemma aget_afill_nat_out n : forall a i v j,
  (j < i \/ i + N.of_nat n <= j) -> aget (afill_nat a i n v) j = aget a j.
Proof.
  induction n as [|n IH]; intros a i v j H; cbn [afill_nat]; [reflexivity|].
  rewrite IH by lia. apply aget_aset_other. lia.
Qed.

Lemma aget_afill_nat_in n : forall a i v j,
  i <= j < i + N.of_nat n -> aget (afill_nat a i n v) j = v.
Proof.
  induction n as [|n IH]; intros a i v j H; cbn [afill_nat]; [lia|].
  destruct (N.eq_dec i j) as [->|Hne].
  - rewrite aget_afill_nat_out by lia. apply aget_aset_same.
  - apply IH. lia.
Qed.

Lemma length_aget_list_nat n : forall a i, length (aget_list_nat a i n) = n.
Proof. induction n as [|n IH]; intros; cbn; [reflexivity|]. now rewrite IH. Qed.

Lemma nth_aget_list_nat n : forall a i k,
  (k < n)%nat -> nth k (aget_list_nat a i n) 0 = aget a (i + N.of_nat k).
Proof.
  induction n as [|n IH]; intros a i k H; [lia|]. cbn [aget_list_nat].
  destruct k as [|k]; cbn [nth].
  - f_equal. lia.
  - rewrite IH by lia. f_equal. lia.
Qed.
