(* Machine-level conventions: results with panics, fixed-width helpers. *)
From Coq Require Import NArith ZArith List.
Import ListNotations.
Local Open Scope N_scope.

(* A Rust computation either returns, panics (debug-profile semantics: overflow checks,
   debug_assert!, slice bounds, unwrap), or exhausts the model's fuel. [Panic n]: n is a
   site number for replay messages. *)
Inductive res (A : Type) : Type :=
  | Ret (a : A)
  | Panic (site : N)
  | OutOfFuel.
Arguments Ret {A}. Arguments Panic {A}. Arguments OutOfFuel {A}.

Definition bind {A B} (m : res A) (f : A -> res B) : res B :=
  match m with
  | Ret a => f a
  | Panic s => Panic s
  | OutOfFuel => OutOfFuel
  end.

Notation "x <- m ;; k" := (bind m (fun x => k)) (at level 61, m at next level, right associativity).
Notation "' p <- m ;; k" := (bind m (fun p => k)) (at level 61, p pattern, m at next level, right associativity).

Definition guard (b : bool) (site : N) : res unit := if b then Ret tt else Panic site.

Definition U8 : N := 256.
Definition U16 : N := 65536.
Definition U32 : N := 4294967296.
Definition U64 : N := 18446744073709551616.
Definition USIZE_MAX : N := 18446744073709551615.

(* checked subtraction: Rust `a - b` on unsigned *)
Definition csub (a b site : N) : res N := if b <=? a then Ret (a - b) else Panic site.
(* checked addition at a width given by its modulus *)
Definition cadd (m a b site : N) : res N := if a + b <? m then Ret (a + b) else Panic site.

(* i16 <-> N (two's complement), for the Huffman tables *)
Definition i16_enc (z : Z) : N := Z.to_N (z mod 65536)%Z.
Definition i16_dec (u : N) : Z := if u <? 32768 then Z.of_N u else (Z.of_N u - 65536)%Z.

(* bit reversal of the low [k] bits *)
Fixpoint rev_bits_nat (k : nat) (x acc : N) : N :=
  match k with
  | O => acc
  | S k' => rev_bits_nat k' (N.div2 x) (2 * acc + (if N.odd x then 1 else 0))
  end.
Definition rev16 (x : N) : N := rev_bits_nat 16 x 0.

(* run [f] up to 2^k times until it produces a result *)
Fixpoint iter_pow {S R} (k : nat) (f : S -> S + R) (s : S) : S + R :=
  match k with
  | O => f s
  | S k' =>
      match iter_pow k' f s with
      | inl s' => iter_pow k' f s'
      | inr r => inr r
      end
  end.
