(* The accounting the C-ABI shim performs around a stream call (src/lib_oxide.rs
   mz_deflate_oxide / mz_inflate_oxide, src/c_export.rs into_mz_stream): the Rust call reports
   (consumed, written); the shim advances the slices and the wrapping 64-bit totals. Pointers are
   offsets into the caller's regions. *)
From Coq Require Import NArith ZArith Bool Lia.
Local Open Scope N_scope.

Record mzs := { next_in : N; avail_in : N; total_in : N; next_out : N; avail_out : N; total_out : N }.

Definition C_ULONG : N := 18446744073709551616.

(* `*next_in = &next_in[consumed..]` panics (and the oxidize! wrapper reports a stream error)
   when consumed > avail_in; likewise for the output *)
Definition mz_apply (s : mzs) (consumed written : N) : option mzs :=
  if (consumed <=? avail_in s) && (written <=? avail_out s) then
    Some {| next_in := next_in s + consumed; avail_in := avail_in s - consumed;
            total_in := (total_in s + consumed) mod C_ULONG;
            next_out := next_out s + written; avail_out := avail_out s - written;
            total_out := (total_out s + written) mod C_ULONG |}
  else None.
