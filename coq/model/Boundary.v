(* DecompressorOxide::block_boundary_state / from_block_boundary_state (feature block-boundary). *)
From Coq Require Import NArith ZArith List Bool.
From MZ.lib Require Import Arr Mach.
From MZ.model Require Import InflateCore.
Local Open Scope N_scope.

Record bbstate := { bs_num_bits : N; bs_bit_buf : N; bs_zh0 : N; bs_zh1 : N; bs_check : N }.

Definition block_boundary_state (r : dec) : res (option bbstate) :=
  match d_state r with
  | ReadBlockHeader =>
      _ <- guard (d_num_bits r <? 8) 401 ;;            (* assert!(self.num_bits < 8) *)
      Ret (Some {| bs_num_bits := d_num_bits r mod 256; bs_bit_buf := d_bit_buf r mod 256;
                   bs_zh0 := d_zh0 r; bs_zh1 := d_zh1 r; bs_check := d_check r |})
  | _ => Ret None
  end.

Definition from_block_boundary_state (b : bbstate) : dec :=
  {| d_state := ReadBlockHeader; d_num_bits := bs_num_bits b; d_zh0 := bs_zh0 b; d_zh1 := bs_zh1 b;
     d_zadler := 1; d_finish := 0; d_block_type := 0; d_check := bs_check b; d_dist := 0; d_counter := 0;
     d_num_extra := 0; d_ts0 := 0; d_ts1 := 0; d_ts2 := 0; d_bit_buf := bs_bit_buf b;
     d_t0 := new_table; d_t1 := new_table; d_t2 := new_table;
     d_cs_lit := amake 288 0; d_cs_dist := amake 32 0; d_cs_huff := amake 19 0;
     d_raw := amake 4 0; d_len_codes := amake 512 0 |}.
