(* Protocol-respecting drivers of the low-level decoder (mirrors `drive` in harness/src/main.rs):
   the caller re-offers unconsumed input, keeps the buffer, advances out_pos by the reported
   count (modulo the ring size in ring mode). *)
From Coq Require Import NArith ZArith List Bool.
From MZ.lib Require Import Arr Bits Mach.
From MZ.model Require Import InflateCore.
Import ListNotations.
Local Open Scope N_scope.

Record dstate := {
  ds_dec : dec; ds_buf : arr; ds_in : list N; ds_in_off : N; ds_out_pos : N;
  ds_rout : list N; ds_calls : N; ds_stall : N; ds_trace : list (Z * N * N); ds_last : Z
}.

Inductive why := WCap | WEnd | WStall | WOutFull | WPanic (site : N) | WFuel.

Section Drive.
Variable ring : bool.
Variable len : N.            (* buffer length *)
Variable flags : N.
Variable in_len : N.
Variable pre : list (N * option N).     (* items used once *)
Variable npre : N.
Variable sched : list (N * option N).   (* (bytes offered, budget), used cyclically afterwards *)
Variable nsched : N.
Variable max_calls : N.

Definition drive_turn (s : dstate) : dstate + (why * dstate) :=
  if max_calls <=? ds_calls s then inr (WCap, s)
  else
    let '(nin, bud) := if ds_calls s <? npre then nth (N.to_nat (ds_calls s)) pre (0, None)
                       else nth (N.to_nat ((ds_calls s - npre) mod nsched)) sched (0, None) in
    let end_ := N.min (ds_in_off s + nin) in_len in
    let chunk := firstn (N.to_nat (end_ - ds_in_off s)) (ds_in s) in
    let fl := N.lor flags (if end_ <? in_len then 2 else 0) in
    let bud := match bud with Some b => b | None => USIZE_MAX end in
    match decompress (ds_dec s) chunk (ds_buf s) (ds_out_pos s) bud fl with
    | Panic n => inr (WPanic n, s)
    | OutOfFuel => inr (WFuel, s)
    | Ret r =>
        let ic := cr_in r in
        let oc := cr_out r in
        let lo := N.min (ds_out_pos s) (alen (cr_buf r)) in
        let hi := N.min (ds_out_pos s + oc) (alen (cr_buf r)) in
        let rout := rev_append (aget_list (cr_buf r) lo (hi - lo)) (ds_rout s) in
        let out_pos := if ring && (0 <? len) then (ds_out_pos s + oc) mod len else ds_out_pos s + oc in
        let last := status_code (cr_status r) in
        let stall := if (ic =? 0) && (oc =? 0) then ds_stall s + 1 else 0 in
        let s' := {| ds_dec := cr_dec r; ds_buf := cr_buf r;
                     ds_in := skipn (N.to_nat ic) (ds_in s); ds_in_off := ds_in_off s + ic;
                     ds_out_pos := out_pos; ds_rout := rout; ds_calls := ds_calls s + 1;
                     ds_stall := (if (last =? 3)%Z then 0 else stall);
                     ds_trace := (last, ic, oc) :: ds_trace s; ds_last := last |} in
        if (last <=? 0)%Z then inr (WEnd, s')
        else if (last =? 3)%Z then inl s'
        else if nsched <? stall then inr (WStall, s')
        else if negb ring && (last =? 2)%Z && (len <=? out_pos) then inr (WOutFull, s')
        else inl s'
    end.

Definition drive_run (s : dstate) : why * dstate :=
  match iter_pow 20 drive_turn s with
  | inl s' => (WFuel, s')
  | inr r => r
  end.
End Drive.

Definition drive (input : list N) (ring : bool) (len fill flags : N) (pre sched : list (N * option N))
           (start : option (dec * arr)) : why * dstate :=
  let '(d, b) := match start with Some p => p | None => (dec_default, amake len fill) end in
  drive_run ring len flags (N.of_nat (length input)) pre (N.of_nat (length pre)) sched (N.of_nat (length sched)) 200000
            {| ds_dec := d; ds_buf := b; ds_in := input; ds_in_off := 0; ds_out_pos := 0; ds_rout := [];
               ds_calls := 0; ds_stall := 0; ds_trace := []; ds_last := 99%Z |}.
