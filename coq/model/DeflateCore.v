(* M_def: executable transliteration of the compressor's control plane
   (deflate/core.rs: compress_inner, flush_block, flush_output_buffer, the output callbacks),
   of the stored engine (deflate/stored.rs), of deflate::stream::deflate and of
   deflate::compress_to_vec_inner.

   Scope of this file: every configuration whose flags contain TDEFL_FORCE_ALL_RAW_BLOCKS
   (level 0) is modelled completely, byte for byte.  For other flag words the match finders and
   the Huffman block coder are not modelled here; [compress] then returns [Unmodelled] and the
   correspondence check skips the line (the spec oracle still judges the implementation's
   output).

   The pending-output bookkeeping (local_buf, flush_ofs, flush_remaining) is represented by the
   list of bytes still to be delivered: flush_remaining = its length. *)
From Coq Require Import NArith ZArith List Bool.
From MZ.lib Require Import Arr Bits Mach.
From MZ.spec Require Import Adler.
From MZ.gen Require GenTables GenZlib.
Import ListNotations.
Local Open Scope N_scope.

(* TDEFLFlush *)
Definition TF_NONE : N := 0.
Definition TF_PARTIAL : N := 1.
Definition TF_SYNC : N := 2.
Definition TF_FULL : N := 3.
Definition TF_FINISH : N := 4.
Definition TF_PARTIAL_OPT : N := 5.
Definition TF_SYNC_OPT : N := 6.
Definition TF_NOSYNC : N := 7.

(* TDEFLStatus *)
Inductive tstatus := TBadParam | TPutBufFailed | TOkay | TDone.
Definition tstatus_code (s : tstatus) : Z :=
  match s with TBadParam => -2 | TPutBufFailed => -1 | TOkay => 0 | TDone => 1 end%Z.

Definition FLAG_ZLIB : N := 4096.       (* TDEFL_WRITE_ZLIB_HEADER *)
Definition FLAG_ADLER : N := 8192.      (* TDEFL_COMPUTE_ADLER32 *)
Definition FLAG_RAW : N := 524288.      (* TDEFL_FORCE_ALL_RAW_BLOCKS *)
Definition hasf (flags f : N) : bool := negb (N.land flags f =? 0).

Definition C_DICT_SIZE : N := 32768.
Definition DMASK : N := 32767.
Definition C_MAX_MATCH : N := 258.
Definition OUT_CAP : N := 85180.        (* OUT_BUF_SIZE - 16: capacity of one flush_block *)

Record comp := {
  c_flags : N; c_wbits : N; c_block_index : N;
  c_flush : N; c_pending : list N;         (* local_buf[flush_ofs, +flush_remaining) *)
  c_finished : bool; c_adler : N; c_prev : tstatus;
  c_sbuf : N; c_sbits : N;                 (* saved_bit_buffer / saved_bits_in *)
  c_saved_match_len : N;
  (* dictionary *)
  c_dict : arr; c_cbdp : N;                (* code_buf_dict_pos *)
  c_la_size : N; c_la_pos : N; c_dsize : N;
  (* lz *)
  c_total_bytes : N
}.

Definition comp_new (flags wbits : N) : comp :=
  {| c_flags := flags; c_wbits := wbits; c_block_index := 0; c_flush := TF_NONE; c_pending := [];
     c_finished := false; c_adler := 1; c_prev := TOkay; c_sbuf := 0; c_sbits := 0;
     c_saved_match_len := 0;
     c_dict := amake 33026 0; c_cbdp := 0; c_la_size := 0; c_la_pos := 0; c_dsize := 0;
     c_total_bytes := 0 |}.

(* CompressorOxide::reset *)
Definition comp_reset (c : comp) : comp := comp_new (c_flags c) (c_wbits c).

Definition mkc fl wb bi fs pe fi ad pr sb sn sml di cb ls lp ds tb : comp :=
  {| c_flags := fl; c_wbits := wb; c_block_index := bi; c_flush := fs; c_pending := pe;
     c_finished := fi; c_adler := ad; c_prev := pr; c_sbuf := sb; c_sbits := sn;
     c_saved_match_len := sml; c_dict := di; c_cbdp := cb; c_la_size := ls; c_la_pos := lp;
     c_dsize := ds; c_total_bytes := tb |}.

Definition set_prev c v := mkc (c_flags c) (c_wbits c) (c_block_index c) (c_flush c) (c_pending c) (c_finished c) (c_adler c) v (c_sbuf c) (c_sbits c) (c_saved_match_len c) (c_dict c) (c_cbdp c) (c_la_size c) (c_la_pos c) (c_dsize c) (c_total_bytes c).
Definition set_flush c v := mkc (c_flags c) (c_wbits c) (c_block_index c) v (c_pending c) (c_finished c) (c_adler c) (c_prev c) (c_sbuf c) (c_sbits c) (c_saved_match_len c) (c_dict c) (c_cbdp c) (c_la_size c) (c_la_pos c) (c_dsize c) (c_total_bytes c).
Definition set_pending c v := mkc (c_flags c) (c_wbits c) (c_block_index c) (c_flush c) v (c_finished c) (c_adler c) (c_prev c) (c_sbuf c) (c_sbits c) (c_saved_match_len c) (c_dict c) (c_cbdp c) (c_la_size c) (c_la_pos c) (c_dsize c) (c_total_bytes c).
Definition set_finished c v := mkc (c_flags c) (c_wbits c) (c_block_index c) (c_flush c) (c_pending c) v (c_adler c) (c_prev c) (c_sbuf c) (c_sbits c) (c_saved_match_len c) (c_dict c) (c_cbdp c) (c_la_size c) (c_la_pos c) (c_dsize c) (c_total_bytes c).
Definition set_adler c v := mkc (c_flags c) (c_wbits c) (c_block_index c) (c_flush c) (c_pending c) (c_finished c) v (c_prev c) (c_sbuf c) (c_sbits c) (c_saved_match_len c) (c_dict c) (c_cbdp c) (c_la_size c) (c_la_pos c) (c_dsize c) (c_total_bytes c).
Definition set_dsize c v := mkc (c_flags c) (c_wbits c) (c_block_index c) (c_flush c) (c_pending c) (c_finished c) (c_adler c) (c_prev c) (c_sbuf c) (c_sbits c) (c_saved_match_len c) (c_dict c) (c_cbdp c) (c_la_size c) (c_la_pos c) v (c_total_bytes c).
Definition set_la c di ls lp ds tb := mkc (c_flags c) (c_wbits c) (c_block_index c) (c_flush c) (c_pending c) (c_finished c) (c_adler c) (c_prev c) (c_sbuf c) (c_sbits c) 0 di (c_cbdp c) ls lp ds tb.

(* ------------------------------------------------------------------ OutputBufferOxide *)
Record obuf := { ob_rev : list N; ob_n : N; ob_bb : N; ob_bits : N }.

Definition ob_flush_bytes (fuel : nat) : obuf -> res obuf :=
  (fix go (fuel : nat) (o : obuf) : res obuf :=
     if 8 <=? ob_bits o then
       match fuel with
       | O => OutOfFuel
       | S fuel' =>
           _ <- guard (ob_n o <? OUT_CAP) 301 ;;       (* self.inner[self.inner_pos] *)
           go fuel' {| ob_rev := (ob_bb o mod 256) :: ob_rev o; ob_n := ob_n o + 1;
                       ob_bb := N.shiftr (ob_bb o) 8; ob_bits := ob_bits o - 8 |}
       end
     else Ret o) fuel.

Definition put_bits_no_flush (o : obuf) (bits len : N) : obuf :=
  {| ob_rev := ob_rev o; ob_n := ob_n o;
     ob_bb := N.lor (ob_bb o) (N.shiftl bits (ob_bits o)) mod U32; ob_bits := ob_bits o + len |}.

Definition put_bits (o : obuf) (bits len : N) : res obuf :=
  _ <- guard (len <? 32) 302 ;;
  _ <- guard (bits <=? N.ones len) 303 ;;             (* assert!(bits <= ((1u32 << len) - 1u32)) *)
  ob_flush_bytes 8 (put_bits_no_flush o bits len).

Definition ob_pad_to_bytes (o : obuf) : res obuf :=
  if negb (ob_bits o =? 0) then
    len <- csub 8 (ob_bits o) 304 ;; put_bits o 0 len
  else Ret o.

Definition write_bytes (o : obuf) (bytes : list N) : res obuf :=
  _ <- guard (ob_bits o =? 0) 305 ;;                  (* debug_assert_eq!(self.bits_in, 0) *)
  let n := N.of_nat (length bytes) in
  _ <- guard (ob_n o + n <=? OUT_CAP) 306 ;;
  Ret {| ob_rev := rev_append bytes (ob_rev o); ob_n := ob_n o + n; ob_bb := ob_bb o; ob_bits := ob_bits o |}.

(* take at most [k] elements: (taken, rest, number taken); linear in the number taken *)
Fixpoint ntake_f {A} (l : list A) (k : N) (acc : list A) (cnt : N) : list A * list A * N :=
  match l with
  | [] => (rev_append acc [], [], cnt)
  | x :: l' => if k =? 0 then (rev_append acc [], l, cnt) else ntake_f l' (k - 1) (x :: acc) (cnt + 1)
  end.
Definition ntake {A} (l : list A) (k : N) : list A * list A * N := ntake_f l k [] 0.

(* ------------------------------------------------------------------ output callbacks *)
(* the caller's output: a buffer of [co_len] bytes into which [co_rev] (reversed) have been
   written so far, or a function accepting the next [co_accept] invocations *)
Inductive cbout :=
  | CBuf (len : N) (rev_written : list N) (ofs : N)
  | CFunc (accept_left : option N) (rev_written : list N) (calls : N).

(* CallbackOxide::flush_output: deliver the bytes of one flush_block *)
Definition flush_output (c : comp) (cb : cbout) (bytes : list N) : Z * comp * cbout :=
  let n := N.of_nat (length bytes) in
  if n =? 0 then (Z.of_N (N.of_nat (length (c_pending c))), c, cb)
  else
    match cb with
    | CFunc acc w calls =>
        let ok := match acc with Some 0 => false | _ => true end in
        if ok then
          (Z.of_N (N.of_nat (length (c_pending c))), c,
           CFunc (match acc with Some k => Some (k - 1) | None => None end) (rev_append bytes w) (calls + 1))
        else ((-1)%Z, set_prev c TPutBufFailed, CFunc acc w (calls + 1))
    | CBuf len w ofs =>
        let '(now, later, k) := ntake bytes (len - ofs) in
        let c' := match later with [] => c | _ => set_pending c later end in
        (Z.of_N (N.of_nat (length (c_pending c'))), c', CBuf len (rev_append now w) (ofs + k))
    end.

(* ------------------------------------------------------------------ flush_block (raw path) *)
Definition dict_range (d : arr) (start len : N) : list N :=
  (* the block's bytes: [start, start+len) modulo the 32 KiB dictionary *)
  let e := N.land (start + len) DMASK in
  if start <? e then aget_list d start (e - start)
  else if 0 <? len then aget_list d start (C_DICT_SIZE - start) ++ aget_list d 0 e
  else [].

Inductive fb_result := FbOk (n : Z) (c : comp) (cb : cbout) | FbErr (c : comp) (cb : cbout) | FbUnmodelled.

Definition flush_block (c : comp) (cb : cbout) (flush : N) : res fb_result :=
  let o := {| ob_rev := []; ob_n := 0; ob_bb := c_sbuf c; ob_bits := c_sbits c |} in
  o <- (if hasf (c_flags c) FLAG_ZLIB && (c_block_index c =? 0) then
          let '((h0, h1), _) := GenZlib.header_from_flags (Z.of_N (c_flags c)) (Z.of_N (c_wbits c)) in
          put_bits (put_bits_no_flush o (Z.to_N h0) 8) (Z.to_N h1) 8
        else Ret o) ;;
  r <- (if (0 <? c_total_bytes c) || (flush =? TF_FINISH) then
          la <- csub (c_la_pos c) (c_cbdp c) 310 ;;
          let use_raw_block := hasf (c_flags c) FLAG_RAW && (la <=? c_dsize c) in
          _ <- guard (Bool.eqb use_raw_block (hasf (c_flags c) FLAG_RAW)) 311 ;;     (* debug_assert_eq *)
          _ <- guard (match c_pending c with [] => true | _ => false end) 312 ;;   (* debug_assert!(flush_remaining == 0) *)
          if negb use_raw_block then Ret None
          else
            o <- put_bits o (if flush =? TF_FINISH then 1 else 0) 1 ;;
            o <- put_bits o 0 2 ;;
            o <- ob_pad_to_bytes o ;;
            let tb := c_total_bytes c in
            o <- put_bits o (N.land tb 65535) 16 ;;
            o <- put_bits o (N.land (N.lxor tb 4294967295) 65535) 16 ;;
            o <- write_bytes o (dict_range (c_dict c) (N.land (c_cbdp c) DMASK) tb) ;;
            Ret (Some o)
        else Ret (Some o)) ;;
  match r with
  | None => Ret FbUnmodelled
  | Some o =>
      o <- (if flush =? TF_FINISH then
              o <- ob_pad_to_bytes o ;;
              if hasf (c_flags c) FLAG_ZLIB then
                let a := c_adler c in
                o <- put_bits o (a / 16777216 mod 256) 8 ;;
                o <- put_bits o (a / 65536 mod 256) 8 ;;
                o <- put_bits o (a / 256 mod 256) 8 ;;
                put_bits o (a mod 256) 8
              else Ret o
            else if flush =? TF_PARTIAL then put_bits o 2 10
            else if flush =? TF_PARTIAL_OPT then
              (if negb (ob_bits o =? 0) then put_bits o 2 10 else Ret o)
            else if (flush =? TF_SYNC) || (flush =? TF_FULL) then
              o <- put_bits o 0 3 ;; o <- ob_pad_to_bytes o ;; o <- put_bits o 0 16 ;; put_bits o 65535 16
            else if flush =? TF_SYNC_OPT then
              (if negb (ob_bits o =? 0) then
                 o <- put_bits o 0 3 ;; o <- ob_pad_to_bytes o ;; o <- put_bits o 0 16 ;; put_bits o 65535 16
               else Ret o)
            else Ret o) ;;
      let c1 := mkc (c_flags c) (c_wbits c) (c_block_index c + 1) (c_flush c) (c_pending c) (c_finished c)
                    (c_adler c) (c_prev c) (ob_bb o) (ob_bits o) (c_saved_match_len c) (c_dict c)
                    (c_cbdp c + c_total_bytes c) (c_la_size c) (c_la_pos c) (c_dsize c) 0 in
      let '(n, c2, cb2) := flush_output c1 cb (rev_append (ob_rev o) []) in
      Ret (FbOk n c2 cb2)
  end.

(* ------------------------------------------------------------------ compress_stored *)
(* copy bytes into the dictionary at (pos) mod 32 KiB, mirroring the first 257 bytes *)
Fixpoint dict_put (d : arr) (pos : N) (bytes : list N) : arr :=
  match bytes with
  | [] => d
  | b :: rest =>
      let p := N.land pos DMASK in
      let d := aset d p b in
      let d := if p <? C_MAX_MATCH - 1 then aset d (C_DICT_SIZE + p) b else d in
      dict_put d (pos + 1) rest
  end.

Record sstate := { s_c : comp; s_cb : cbout; s_in : list N; s_inleft : N; s_src : N;
                   s_bw : N; s_ls : N; s_lp : N }.

Inductive stres := SRet (ok : bool) (c : comp) (cb : cbout) (src_pos : N) | SUnmodelled.

Definition stored_turn (s : sstate) : sstate + res stres :=
  let c := s_c s in
  let in_left := s_inleft s in
  if (0 <? in_left) || (negb (c_flush c =? TF_NONE) && negb (s_ls s =? 0)) then
    match csub C_MAX_MATCH (s_ls s) 320 with
    | Panic n => inr (Panic n) | OutOfFuel => inr OutOfFuel
    | Ret room =>
        let n := N.min in_left room in
        let bytes := firstn (N.to_nat n) (s_in s) in
        let d := dict_put (c_dict c) (s_lp s + s_ls s) bytes in
        let ls := s_ls s + n in
        let src := s_src s + n in
        let rest := skipn (N.to_nat n) (s_in s) in
        let dsize := N.min (C_DICT_SIZE - ls) (c_dsize c) in
        if (c_flush c =? TF_NONE) && (ls <? C_MAX_MATCH) then
          inr (Ret (SRet true (set_la c d ls (s_lp s) dsize (s_bw s)) (s_cb s) src))
        else
          (* len_to_move = 1 *)
          match csub ls 1 321 with
          | Panic k => inr (Panic k) | OutOfFuel => inr OutOfFuel
          | Ret ls1 =>
              let bw := s_bw s + 1 in
              let lp := s_lp s + 1 in
              let dsize := N.min (dsize + 1) C_DICT_SIZE in
              if 31744 <? bw then
                let c1 := set_la c d ls1 lp dsize bw in
                match flush_block c1 (s_cb s) TF_NONE with
                | Panic k => inr (Panic k) | OutOfFuel => inr OutOfFuel
                | Ret FbUnmodelled => inr (Ret SUnmodelled)
                | Ret (FbErr c2 cb2) => inr (Ret (SRet false c2 cb2 src))
                | Ret (FbOk nn c2 cb2) =>
                    if negb (nn =? 0)%Z then inr (Ret (SRet (0 <? nn)%Z c2 cb2 src))
                    else inl {| s_c := c2; s_cb := cb2; s_in := rest; s_inleft := in_left - n; s_src := src;
                                s_bw := c_total_bytes c2; s_ls := ls1; s_lp := lp |}
                end
              else
                inl {| s_c := set_la c d ls1 lp dsize (c_total_bytes c); s_cb := s_cb s; s_in := rest; s_inleft := in_left - n;
                       s_src := src; s_bw := bw; s_ls := ls1; s_lp := lp |}
          end
    end
  else
    inr (Ret (SRet true (set_la c (c_dict c) (s_ls s) (s_lp s) (c_dsize c) (s_bw s)) (s_cb s) (s_src s))).

Definition compress_stored (c : comp) (cb : cbout) (input : list N) : res stres :=
  match iter_pow 40 stored_turn
          {| s_c := c; s_cb := cb; s_in := input; s_inleft := N.of_nat (length input); s_src := 0; s_bw := c_total_bytes c;
             s_ls := c_la_size c; s_lp := c_la_pos c |} with
  | inl _ => OutOfFuel
  | inr r => r
  end.

(* ------------------------------------------------------------------ compress_inner *)
Record cresult := { r_status : tstatus; r_in : N; r_out : list N; r_comp : comp; r_cb : cbout }.

Definition cb_written (cb : cbout) : list N :=
  match cb with CBuf _ w _ => rev_append w [] | CFunc _ w _ => rev_append w [] end.
Definition cb_ofs (cb : cbout) : N := match cb with CBuf _ _ ofs => ofs | CFunc _ _ _ => 0 end.

(* flush_output_buffer *)
Definition flush_output_buffer (c : comp) (cb : cbout) : tstatus * comp * cbout :=
  let '(c, cb) :=
      match cb with
      | CBuf len w ofs =>
          let '(now, later, n) := ntake (c_pending c) (len - ofs) in
          (set_pending c later, CBuf len (rev_append now w) (ofs + n))
      | _ => (c, cb)
      end in
  let st := if c_finished c && match c_pending c with [] => true | _ => false end then TDone else TOkay in
  (st, c, cb).

Inductive cres := CRet (r : cresult) | CUnmodelled.

Definition compress_inner (c : comp) (cb : cbout) (input : list N) (flush : N) : res cres :=
  let prev_ok := match c_prev c with TOkay => true | _ => false end in
  let flush_finish_once := negb (c_flush c =? TF_FINISH) || (flush =? TF_FINISH) in
  let c := set_flush c flush in
  if negb prev_ok || negb flush_finish_once then
    Ret (CRet {| r_status := TBadParam; r_in := 0; r_out := []; r_comp := set_prev c TBadParam; r_cb := cb |})
  else if negb (match c_pending c with [] => true | _ => false end) || c_finished c then
    let '(st, c, cb) := flush_output_buffer c cb in
    Ret (CRet {| r_status := st; r_in := 0; r_out := cb_written cb; r_comp := set_prev c st; r_cb := cb |})
  else if negb (hasf (c_flags c) FLAG_RAW) then Ret CUnmodelled
  else
    s <- compress_stored c cb input ;;
    match s with
    | SUnmodelled => Ret CUnmodelled
    | SRet false c cb src =>
        Ret (CRet {| r_status := c_prev c; r_in := src; r_out := cb_written cb; r_comp := c; r_cb := cb |})
    | SRet true c cb src =>
        let c := if hasf (c_flags c) FLAG_ZLIB || hasf (c_flags c) FLAG_ADLER
                 then set_adler c (adler32 (c_adler c) (firstn (N.to_nat src) input)) else c in
        let flush_none := c_flush c =? TF_NONE in
        let in_left := N.of_nat (length input) - src in
        let remaining := negb (in_left =? 0) || negb (match c_pending c with [] => true | _ => false end) in
        r <- (if negb flush_none && (c_la_size c =? 0) && negb remaining then
                fb <- flush_block c cb (c_flush c) ;;
                match fb with
                | FbUnmodelled => Ret None
                | FbErr c cb => Ret (Some (inl (set_prev c TPutBufFailed, cb)))
                | FbOk n c cb =>
                    if (n <? 0)%Z then Ret (Some (inl (c, cb)))
                    else
                      let c := set_finished c (c_flush c =? TF_FINISH) in
                      let c := if c_flush c =? TF_FULL then set_dsize c 0 else c in
                      Ret (Some (inr (c, cb)))
                end
              else Ret (Some (inr (c, cb)))) ;;
        match r with
        | None => Ret CUnmodelled
        | Some (inl (c, cb)) =>
            Ret (CRet {| r_status := c_prev c; r_in := src; r_out := cb_written cb; r_comp := c; r_cb := cb |})
        | Some (inr (c, cb)) =>
            let '(st, c, cb) := flush_output_buffer c cb in
            Ret (CRet {| r_status := st; r_in := src; r_out := cb_written cb; r_comp := set_prev c st; r_cb := cb |})
        end
    end.

(* compress(d, in_buf, out_buf, flush) *)
Definition compress (c : comp) (input : list N) (out_len flush : N) : res cres :=
  compress_inner c (CBuf out_len [] 0) input flush.

(* compress_to_output with a callback accepting the next [accept] invocations *)
Definition compress_to_output (c : comp) (input : list N) (flush : N) (accept : option N) : res cres :=
  compress_inner c (CFunc accept [] 0) input flush.

(* ------------------------------------------------------------------ deflate() *)
Definition D_MZ_OK : Z := 0.
Definition D_MZ_STREAM_END : Z := 1.
Definition D_MZ_ERR_STREAM : Z := (-2).
Definition D_MZ_ERR_BUF : Z := (-5).
Definition D_MZ_ERR_PARAM : Z := (-10000).

(* TDEFLFlush::from(MZFlush) *)
Definition tdflush_of_mz (f : N) : N := if f <=? 4 then f else TF_NONE.

Record dfstate := { ds_c : comp; ds_in : list N; ds_room : N; ds_tin : N; ds_rout : list N }.
Inductive dres := DRet (code : Z) (consumed : N) (out : list N) (c : comp) | DUnmodelled.

Definition deflate_turn (flush : N) (s : dfstate) : dfstate + res dres :=
  match compress (ds_c s) (ds_in s) (ds_room s) (tdflush_of_mz flush) with
  | Panic n => inr (Panic n) | OutOfFuel => inr OutOfFuel
  | Ret CUnmodelled => inr (Ret DUnmodelled)
  | Ret (CRet r) =>
      let nin := skipn (N.to_nat (r_in r)) (ds_in s) in
      let room := ds_room s - N.of_nat (length (r_out r)) in
      let tin := ds_tin s + r_in r in
      let rout := rev_append (r_out r) (ds_rout s) in
      let fin code := inr (Ret (DRet code tin (rev_append rout []) (r_comp r))) in
      match r_status r with
      | TBadParam => fin D_MZ_ERR_PARAM
      | TPutBufFailed => fin D_MZ_ERR_STREAM
      | TDone => fin D_MZ_STREAM_END
      | TOkay =>
          if room =? 0 then fin D_MZ_OK
          else if match nin with [] => true | _ => false end && negb (flush =? 4) then
            let total_changed := negb (match rout with [] => true | _ => false end) || (0 <? tin) in
            if negb (flush =? 0) || total_changed then fin D_MZ_OK else fin D_MZ_ERR_BUF
          else inl {| ds_c := r_comp r; ds_in := nin; ds_room := room; ds_tin := tin; ds_rout := rout |}
      end
  end.

Definition deflate (c : comp) (input : list N) (out_len flush : N) : res dres :=
  if out_len =? 0 then Ret (DRet D_MZ_ERR_BUF 0 [] c)
  else if match c_prev c with TDone => true | _ => false end then
    Ret (if flush =? 4 then DRet D_MZ_STREAM_END 0 [] c else DRet D_MZ_ERR_BUF 0 [] c)
  else
    match iter_pow 40 (deflate_turn flush)
            {| ds_c := c; ds_in := input; ds_room := out_len; ds_tin := 0; ds_rout := [] |} with
    | inl _ => OutOfFuel
    | inr r => r
    end.

(* ------------------------------------------------------------------ compress_to_vec_inner *)
Record cvstate := { vs_c : comp; vs_in : list N; vs_len : N; vs_pos : N; vs_rout : list N }.
Inductive cvres := VBytes (out : list N) | VPanic | VUnmodelled.

Definition cvec_turn (s : cvstate) : cvstate + res cvres :=
  match compress (vs_c s) (vs_in s) (vs_len s - vs_pos s) TF_FINISH with
  | Panic n => inr (Panic n) | OutOfFuel => inr OutOfFuel
  | Ret CUnmodelled => inr (Ret VUnmodelled)
  | Ret (CRet r) =>
      let pos := vs_pos s + N.of_nat (length (r_out r)) in
      let rout := rev_append (r_out r) (vs_rout s) in
      match r_status r with
      | TDone => inr (Ret (VBytes (rev_append rout [])))
      | TOkay =>
          if r_in r <=? N.of_nat (length (vs_in s)) then
            let len := if vs_len s - pos <? 30 then vs_len s * 2 else vs_len s in
            inl {| vs_c := r_comp r; vs_in := skipn (N.to_nat (r_in r)) (vs_in s); vs_len := len;
                   vs_pos := pos; vs_rout := rout |}
          else inr (Ret VPanic)
      | _ => inr (Ret VPanic)     (* panic!("Bug! Unexpectedly failed to compress!") *)
      end
  end.

Definition compress_to_vec_inner (input : list N) (flags : N) : res cvres :=
  match iter_pow 40 cvec_turn
          {| vs_c := comp_new flags 15; vs_in := input;
             vs_len := N.max (N.of_nat (length input) / 2) 2; vs_pos := 0; vs_rout := [] |} with
  | inl _ => OutOfFuel
  | inr r => r
  end.

(* ------------------------------------------------------------------ constructors *)
(* CompressorOxide::with_params(format, level, strategy, window_bits); format: zlib? *)
Definition with_params (zlib : bool) (level strategy wbits : N) : comp :=
  let wb := N.min wbits 15 in
  let level := N.min level 10 in
  let '((lvl, strat), _) := GenZlib.limit_level_by_window_bits (Z.of_N wb) (Z.of_N level) (Z.of_N strategy) in
  let '(flags, _) := GenZlib.create_comp_flags_from_zip_params lvl (if zlib then Z.of_N wb else (- Z.of_N wb)%Z) strat in
  comp_new (Z.to_N flags) wb.

Definition DEFAULT_FLAGS : N := Z.to_N GenTables.c_DEFAULT_FLAGS.
