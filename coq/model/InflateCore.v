(* M_inf: executable transliteration of miniz_oxide/src/inflate/core.rs
   (decompress_with_limit and everything below it), x86_64, features with-alloc + block-boundary.

   Conventions (DESIGN.md section 3): unsigned values are N; i16 table entries are stored as their
   16-bit two's complement and decoded to Z when read; every Rust operation that can panic in
   a debug build returns [Panic site]; loops that are not bounded by a constant run on
   [iter_pow] fuel.  Tables come from coq/gen (regenerated from the source on every run). *)
From Coq Require Import NArith ZArith List Bool.
From MZ.lib Require Import Arr Bits Mach.
From MZ.spec Require Import Adler.
From MZ.gen Require GenTables GenZlib.
Import ListNotations.
Local Open Scope N_scope.

Inductive istate :=
  | Start | ReadZlibCmf | ReadZlibFlg | ReadBlockHeader | BlockTypeNoCompression | RawHeader
  | RawMemcpy1 | RawMemcpy2 | ReadTableSizes | ReadHufflenTableCodeSize
  | ReadLitlenDistTablesCodeSize | ReadExtraBitsCodeSize | DecodeLitlen | WriteSymbol
  | ReadExtraBitsLitlen | DecodeDistance | ReadExtraBitsDistance | RawReadFirstByte
  | RawStoreFirstByte | WriteLenBytesToEnd | BlockDone | HuffDecodeOuterLoop1
  | HuffDecodeOuterLoop2 | ReadAdler32 | DoneForever
  | BlockTypeUnexpected | BadCodeSizeSum | BadDistOrLiteralTableLength | BadTotalSymbols
  | BadZlibHeader | DistanceOutOfBounds | BadRawLength | BadCodeSizeDistPrevLookup
  | InvalidLitlen | InvalidDist.

Definition state_id (s : istate) : N :=
  match s with
  | Start => 0 | ReadZlibCmf => 1 | ReadZlibFlg => 2 | ReadBlockHeader => 3
  | BlockTypeNoCompression => 4 | RawHeader => 5 | RawMemcpy1 => 6 | RawMemcpy2 => 7
  | ReadTableSizes => 8 | ReadHufflenTableCodeSize => 9 | ReadLitlenDistTablesCodeSize => 10
  | ReadExtraBitsCodeSize => 11 | DecodeLitlen => 12 | WriteSymbol => 13
  | ReadExtraBitsLitlen => 14 | DecodeDistance => 15 | ReadExtraBitsDistance => 16
  | RawReadFirstByte => 17 | RawStoreFirstByte => 18 | WriteLenBytesToEnd => 19
  | BlockDone => 20 | HuffDecodeOuterLoop1 => 21 | HuffDecodeOuterLoop2 => 22
  | ReadAdler32 => 23 | DoneForever => 24 | BlockTypeUnexpected => 25 | BadCodeSizeSum => 26
  | BadDistOrLiteralTableLength => 27 | BadTotalSymbols => 28 | BadZlibHeader => 29
  | DistanceOutOfBounds => 30 | BadRawLength => 31 | BadCodeSizeDistPrevLookup => 32
  | InvalidLitlen => 33 | InvalidDist => 34
  end.

Definition is_failure (s : istate) : bool :=
  match s with
  | BlockTypeUnexpected | BadCodeSizeSum | BadDistOrLiteralTableLength | BadTotalSymbols
  | BadZlibHeader | DistanceOutOfBounds | BadRawLength | BadCodeSizeDistPrevLookup
  | InvalidLitlen | InvalidDist => true
  | _ => false
  end.

Inductive status :=
  | FailedCannotMakeProgress | BadParam | Adler32Mismatch | Failed
  | Done | NeedsMoreInput | HasMoreOutput | BlockBoundary.

Definition status_code (s : status) : Z :=
  match s with
  | FailedCannotMakeProgress => -4 | BadParam => -3 | Adler32Mismatch => -2 | Failed => -1
  | Done => 0 | NeedsMoreInput => 1 | HasMoreOutput => 2 | BlockBoundary => 3
  end%Z.

(* flags *)
Definition F_ZLIB : N := 1.
Definition F_MORE : N := 2.
Definition F_NONWRAP : N := 4.
Definition F_COMPUTE : N := 8.
Definition F_IGNORE : N := 64.
Definition F_STOPBB : N := 128.
Definition has (flags f : N) : bool := negb (N.land flags f =? 0).

Record htable := { look_up : arr; tree : arr }.
Definition new_table : htable := {| look_up := amake 1024 0; tree := amake 576 0 |}.

Record dec := {
  d_state : istate; d_num_bits : N; d_zh0 : N; d_zh1 : N; d_zadler : N; d_finish : N;
  d_block_type : N; d_check : N; d_dist : N; d_counter : N; d_num_extra : N;
  d_ts0 : N; d_ts1 : N; d_ts2 : N; d_bit_buf : N;
  d_t0 : htable; d_t1 : htable; d_t2 : htable;
  d_cs_lit : arr; d_cs_dist : arr; d_cs_huff : arr; d_raw : arr; d_len_codes : arr
}.

Definition dec_default : dec :=
  {| d_state := Start; d_num_bits := 0; d_zh0 := 0; d_zh1 := 0; d_zadler := 0; d_finish := 0;
     d_block_type := 0; d_check := 0; d_dist := 0; d_counter := 0; d_num_extra := 0;
     d_ts0 := 0; d_ts1 := 0; d_ts2 := 0; d_bit_buf := 0;
     d_t0 := new_table; d_t1 := new_table; d_t2 := new_table;
     d_cs_lit := amake 288 0; d_cs_dist := amake 32 0; d_cs_huff := amake 19 0;
     d_raw := amake 4 0; d_len_codes := amake 512 0 |}.

(* DecompressorOxide::init *)
Definition dec_init (r : dec) : dec :=
  {| d_state := Start; d_num_bits := d_num_bits r; d_zh0 := d_zh0 r; d_zh1 := d_zh1 r;
     d_zadler := d_zadler r; d_finish := d_finish r; d_block_type := d_block_type r;
     d_check := d_check r; d_dist := d_dist r; d_counter := d_counter r;
     d_num_extra := d_num_extra r; d_ts0 := d_ts0 r; d_ts1 := d_ts1 r; d_ts2 := d_ts2 r;
     d_bit_buf := d_bit_buf r; d_t0 := d_t0 r; d_t1 := d_t1 r; d_t2 := d_t2 r;
     d_cs_lit := d_cs_lit r; d_cs_dist := d_cs_dist r; d_cs_huff := d_cs_huff r;
     d_raw := d_raw r; d_len_codes := d_len_codes r |}.

(* DecompressorOxide::adler32 *)
Definition dec_adler32 (r : dec) : option N :=
  match d_state r with
  | Start => None
  | s => if is_failure s || (d_zh0 r =? 0) then None else Some (d_check r)
  end.

(* The machine configuration during one call: the decompressor's slow-changing part [rr],
   the current state, LocalVars, the input iterator and the output buffer. *)
Record cfg := {
  rr : dec; st : istate;
  bb : N; nb : N; dist : N; ctr : N; nex : N;
  inp : list N; ileft : N;
  out : arr; pos : N
}.

Definition mk r s b n d c e i il o p : cfg :=
  {| rr := r; st := s; bb := b; nb := n; dist := d; ctr := c; nex := e; inp := i; ileft := il; out := o; pos := p |}.

Definition set_rr c v := mk v (st c) (bb c) (nb c) (dist c) (ctr c) (nex c) (inp c) (ileft c) (out c) (pos c).
Definition set_st c v := mk (rr c) v (bb c) (nb c) (dist c) (ctr c) (nex c) (inp c) (ileft c) (out c) (pos c).
Definition set_bits c b n := mk (rr c) (st c) b n (dist c) (ctr c) (nex c) (inp c) (ileft c) (out c) (pos c).
Definition set_dist c v := mk (rr c) (st c) (bb c) (nb c) v (ctr c) (nex c) (inp c) (ileft c) (out c) (pos c).
Definition set_ctr c v := mk (rr c) (st c) (bb c) (nb c) (dist c) v (nex c) (inp c) (ileft c) (out c) (pos c).
Definition set_nex c v := mk (rr c) (st c) (bb c) (nb c) (dist c) (ctr c) v (inp c) (ileft c) (out c) (pos c).
Definition set_in c i il := mk (rr c) (st c) (bb c) (nb c) (dist c) (ctr c) (nex c) i il (out c) (pos c).
Definition set_out c o p := mk (rr c) (st c) (bb c) (nb c) (dist c) (ctr c) (nex c) (inp c) (ileft c) o p.

(* updates of the decompressor part *)
Definition upd_dec (r : dec)
  (zh0 zh1 zad fin bt chk ts0 ts1 ts2 : N) (t0 t1 t2 : htable) (csl csd csh raw lc : arr) : dec :=
  {| d_state := d_state r; d_num_bits := d_num_bits r; d_zh0 := zh0; d_zh1 := zh1; d_zadler := zad;
     d_finish := fin; d_block_type := bt; d_check := chk; d_dist := d_dist r; d_counter := d_counter r;
     d_num_extra := d_num_extra r; d_ts0 := ts0; d_ts1 := ts1; d_ts2 := ts2; d_bit_buf := d_bit_buf r;
     d_t0 := t0; d_t1 := t1; d_t2 := t2; d_cs_lit := csl; d_cs_dist := csd; d_cs_huff := csh;
     d_raw := raw; d_len_codes := lc |}.

Definition r_hdr r zh0 zh1 zad chk :=
  upd_dec r zh0 zh1 zad (d_finish r) (d_block_type r) chk (d_ts0 r) (d_ts1 r) (d_ts2 r)
          (d_t0 r) (d_t1 r) (d_t2 r) (d_cs_lit r) (d_cs_dist r) (d_cs_huff r) (d_raw r) (d_len_codes r).
Definition r_blk r fin bt :=
  upd_dec r (d_zh0 r) (d_zh1 r) (d_zadler r) fin bt (d_check r) (d_ts0 r) (d_ts1 r) (d_ts2 r)
          (d_t0 r) (d_t1 r) (d_t2 r) (d_cs_lit r) (d_cs_dist r) (d_cs_huff r) (d_raw r) (d_len_codes r).
Definition r_ts r ts0 ts1 ts2 :=
  upd_dec r (d_zh0 r) (d_zh1 r) (d_zadler r) (d_finish r) (d_block_type r) (d_check r) ts0 ts1 ts2
          (d_t0 r) (d_t1 r) (d_t2 r) (d_cs_lit r) (d_cs_dist r) (d_cs_huff r) (d_raw r) (d_len_codes r).
Definition r_tabs r t0 t1 t2 :=
  upd_dec r (d_zh0 r) (d_zh1 r) (d_zadler r) (d_finish r) (d_block_type r) (d_check r)
          (d_ts0 r) (d_ts1 r) (d_ts2 r) t0 t1 t2 (d_cs_lit r) (d_cs_dist r) (d_cs_huff r) (d_raw r) (d_len_codes r).
Definition r_cs r csl csd csh :=
  upd_dec r (d_zh0 r) (d_zh1 r) (d_zadler r) (d_finish r) (d_block_type r) (d_check r)
          (d_ts0 r) (d_ts1 r) (d_ts2 r) (d_t0 r) (d_t1 r) (d_t2 r) csl csd csh (d_raw r) (d_len_codes r).
Definition r_raw r raw :=
  upd_dec r (d_zh0 r) (d_zh1 r) (d_zadler r) (d_finish r) (d_block_type r) (d_check r)
          (d_ts0 r) (d_ts1 r) (d_ts2 r) (d_t0 r) (d_t1 r) (d_t2 r) (d_cs_lit r) (d_cs_dist r) (d_cs_huff r) raw (d_len_codes r).
Definition r_lc r lc :=
  upd_dec r (d_zh0 r) (d_zh1 r) (d_zadler r) (d_finish r) (d_block_type r) (d_check r)
          (d_ts0 r) (d_ts1 r) (d_ts2 r) (d_t0 r) (d_t1 r) (d_t2 r) (d_cs_lit r) (d_cs_dist r) (d_cs_huff r) (d_raw r) lc.

Definition get_table (r : dec) (i : N) : htable :=
  if i =? 0 then d_t0 r else if i =? 1 then d_t1 r else d_t2 r.
Definition set_table (r : dec) (i : N) (t : htable) : dec :=
  if i =? 0 then r_tabs r t (d_t1 r) (d_t2 r)
  else if i =? 1 then r_tabs r (d_t0 r) t (d_t2 r)
  else r_tabs r (d_t0 r) (d_t1 r) t.
Definition get_ts (r : dec) (i : N) : N := if i =? 0 then d_ts0 r else if i =? 1 then d_ts1 r else d_ts2 r.
Definition set_ts (r : dec) (i v : N) : dec :=
  if i =? 0 then r_ts r v (d_ts1 r) (d_ts2 r)
  else if i =? 1 then r_ts r (d_ts0 r) v (d_ts2 r)
  else r_ts r (d_ts0 r) (d_ts1 r) v.

Inductive action := ANone | AJump (s : istate) | AEnd (s : status).

Definition tab (l : list N) (i : N) : N := nth (N.to_nat i) l 0.

(* ------------------------------------------------------------------ per-call constants *)
Section Call.
Variable flags : N.
Variable in_buf : list N.
Variable in_len : N.
Variable omax : N.       (* OutputBuffer.max *)
Variable mask : N.       (* out_buf_size_mask *)

Definition end_of_input : status :=
  if has flags F_MORE then NeedsMoreInput else FailedCannotMakeProgress.

Definition bytes_left (c : cfg) : res N := csub omax (pos c) 101.

(* OutputBuffer::write_byte *)
Definition write_byte (c : cfg) (b : N) : res cfg :=
  _ <- guard (pos c <? alen (out c)) 102 ;;
  Ret (set_out c (aset (out c) (pos c) (b mod 256)) (pos c + 1)).

(* InputWrapper::read_byte *)
Definition read_byte (c : cfg) : option (N * cfg) :=
  match inp c with
  | [] => None
  | b :: rest => Some (b, set_in c rest (ileft c - 1))
  end.

(* push k more bytes' worth of bits; shifts out of the 64-bit buffer are lost silently,
   a shift amount >= 64 panics (debug) *)
Definition push_bits (c : cfg) (v k : N) : res cfg :=
  _ <- guard (nb c <? 64) 103 ;;
  Ret (set_bits c (N.lor (bb c) (N.shiftl v (nb c)) mod U64) (nb c + k)).

(* read_bits: [k] receives the config after consumption and the bits *)
Fixpoint read_bits_f (fuel : nat) (c : cfg) (amount : N) (k : cfg -> N -> res (action * cfg))
  : res (action * cfg) :=
  if nb c <? amount then
    match fuel with
    | O => OutOfFuel
    | S fuel' =>
        match read_byte c with
        | None => Ret (AEnd end_of_input, c)
        | Some (b, c1) =>
            c2 <- push_bits c1 b 8 ;;
            read_bits_f fuel' c2 amount k
        end
    end
  else
    _ <- guard (amount <? 64) 104 ;;
    let bits := N.land (bb c) (N.ones amount) in
    k (set_bits c (N.shiftr (bb c) amount) (nb c - amount)) bits.
Definition read_bits := read_bits_f 16.

Definition pad_to_bytes (c : cfg) (k : cfg -> res (action * cfg)) : res (action * cfg) :=
  read_bits c (N.land (nb c) 7) (fun c' _ => k c').

(* undo_bytes: returns (res, new num_bits) *)
Definition undo_bytes (nbits mx : N) : N * N :=
  let r := N.min (N.shiftr nbits 3) mx in (r, nbits - N.shiftl r 3).

(* fill_bit_buffer (64-bit): needs 4 bytes of input when it fires *)
Definition fill_bit_buffer (c : cfg) : res cfg :=
  if nb c <? 30 then
    match inp c with
    | b0 :: b1 :: b2 :: b3 :: rest =>
        let v := b0 + 256 * (b1 + 256 * (b2 + 256 * b3)) in
        c1 <- push_bits (set_in c rest (ileft c - 4)) v 32 ;; Ret c1
    | _ => Panic 105
    end
  else Ret c.

(* ---- Huffman table lookups *)
Definition fast_lookup (t : htable) (bbuf : N) : Z := i16_dec (aget (look_up t) (N.land bbuf 1023)).

Fixpoint tree_lookup_f (fuel : nat) (t : htable) (symbol : Z) (bbuf code_len : N) : res (Z * N) :=
  match fuel with
  | O => OutOfFuel
  | S fuel' =>
      _ <- guard (code_len <? 64) 106 ;;
      let bit := N.land (N.shiftr bbuf code_len) 1 in
      let idx := Z.to_N (- symbol - 1 + Z.of_N bit) in
      _ <- guard (idx <? 576) 107 ;;                 (* debug_assert!(tree_index < self.tree.len()) *)
      let s' := i16_dec (aget (tree t) idx) in
      _ <- guard (code_len + 1 <? 256) 108 ;;
      if (0 <=? s')%Z then Ret (s', code_len + 1)
      else tree_lookup_f fuel' t s' bbuf (code_len + 1)
  end.
Definition tree_lookup := tree_lookup_f 300.

Definition lookup (t : htable) (bbuf : N) : res (Z * N) :=
  let s := fast_lookup t bbuf in
  if (0 <=? s)%Z then Ret (s, Z.to_N (Z.shiftr s 9)) else tree_lookup t s bbuf 10.

(* consume [len] bits after a lookup *)
Definition drop_bits (c : cfg) (len : N) : res cfg :=
  _ <- guard (len <? 64) 109 ;;
  n' <- csub (nb c) len 110 ;;
  Ret (set_bits c (N.shiftr (bb c) len) n').

(* the slow path's inner tree walk: direct indexing (panics when out of range) *)
Fixpoint slow_tree_f (fuel : nat) (t : htable) (temp : Z) (bbuf nbits code_len : N) : res (Z * N) :=
  match fuel with
  | O => OutOfFuel
  | S fuel' =>
      _ <- guard (code_len <? 64) 111 ;;
      let idx := Z.to_N (- temp - 1 + Z.of_N (N.land (N.shiftr bbuf code_len) 1)) in
      _ <- guard (idx <? 576) 112 ;;
      let temp' := i16_dec (aget (tree t) idx) in
      let code_len' := code_len + 1 in
      if (0 <=? temp')%Z || (nbits <? code_len' + 1) then Ret (temp', code_len')
      else slow_tree_f fuel' t temp' bbuf nbits code_len'
  end.

(* the byte-wise loop of decode_huffman_code (fewer than 2 input bytes left) *)
Fixpoint slow_fill_f (fuel : nat) (t : htable) (c : cfg) : res (option status * cfg) :=
  match fuel with
  | O => OutOfFuel
  | S fuel' =>
      let temp := fast_lookup t (bb c) in
      '(found) <-
        (if (0 <=? temp)%Z then
           let code_len := Z.to_N (Z.shiftr temp 9) in
           Ret (negb (code_len =? 0) && (code_len <=? nb c))
         else if 10 <? nb c then
           '(temp', _) <- slow_tree_f 80 t temp (bb c) (nb c) 10 ;;
           Ret (0 <=? temp')%Z
         else Ret false) ;;
      if (found : bool) then Ret (None, c)
      else
        match read_byte c with
        | None => Ret (Some end_of_input, c)
        | Some (b, c1) =>
            c2 <- push_bits c1 b 8 ;;
            if 15 <=? nb c2 then Ret (None, c2) else slow_fill_f fuel' t c2
        end
  end.

Definition decode_huffman_code (c : cfg) (table : N) (k : cfg -> Z -> res (action * cfg))
  : res (action * cfg) :=
  let t := get_table (rr c) table in
  '(stop, c1) <-
    (if nb c <? 15 then
       if ileft c <? 2 then slow_fill_f 8 t c
       else
         match inp c with
         | b0 :: b1 :: rest =>
             c' <- push_bits (set_in c rest (ileft c - 2)) (b0 + 256 * b1) 16 ;; Ret (None, c')
         | _ => Panic 113
         end
     else Ret (None, c)) ;;
  match stop with
  | Some s => Ret (AEnd s, c1)
  | None =>
      let symbol := fast_lookup t (bb c1) in
      '(sym, code_len) <-
        (if (0 <=? symbol)%Z then Ret (Z.land symbol 511, Z.to_N (Z.shiftr symbol 9))
         else tree_lookup t symbol (bb c1) 10) ;;
      c2 <- drop_bits c1 code_len ;;
      k c2 sym
  end.

(* ---- init_tree *)
Definition INVALID_CODE : N := 798.   (* (1 << 9) | 286 *)

Definition code_sizes_of (r : dec) (bt : N) : arr :=
  if bt =? 0 then d_cs_lit r else if bt =? 1 then d_cs_dist r else d_cs_huff r.

(* total_symbols[cs] += 1 over code_sizes[..n]; None when a size is >= 16 *)
Fixpoint count_sizes (n : nat) (cs : arr) (i : N) (tot : arr) : option arr :=
  match n with
  | O => Some tot
  | S n' =>
      let s := aget cs i in
      if 16 <=? s then None
      else count_sizes n' cs (i + 1) (aset tot s (aget tot s + 1))
  end.

(* the loop over code lengths 1..15: returns (next_code, total, max_code_len) or
   [inl tt] for an over-subscribed set *)
Fixpoint scan_lens (n : nat) (i : N) (tot next : arr) (total maxl : N) (left : Z)
  : option (arr * N * N) :=
  match n with
  | O => Some (next, total, maxl)
  | S n' =>
      let ts := aget tot i in
      let maxl := if 0 <? ts then i else maxl in
      let total := 2 * (total + ts) in
      let next := aset next (i + 1) total in
      let left := (2 * left - Z.of_N ts)%Z in
      if (left <? 0)%Z then None
      else scan_lens n' (i + 1) tot next total maxl left
  end.

Fixpoint fill_fast (fuel : nat) (lu : arr) (rev_code step k : N) : arr :=
  match fuel with
  | O => lu
  | S fuel' =>
      if rev_code <? 1024 then fill_fast fuel' (aset lu rev_code k) (rev_code + step) step k
      else lu
  end.

(* the loop `for _ in FAST_LOOKUP_BITS + 1..code_size` ; None = `return None` *)
Fixpoint walk_tree (n : nat) (tr : arr) (rev_code : N) (tree_cur tree_next : Z)
  : option (arr * N * Z * Z) :=
  match n with
  | O => Some (tr, rev_code, tree_cur, tree_next)
  | S n' =>
      let rev_code := N.shiftr rev_code 1 in
      let tree_cur := (tree_cur - Z.of_N (N.land rev_code 1))%Z in
      let ti := (- tree_cur - 1)%Z in
      if (ti <? 0)%Z || (576 <=? ti)%Z then None
      else
        let ti := Z.to_N ti in
        if aget tr ti =? 0 then
          walk_tree n' (aset tr ti (i16_enc tree_next)) rev_code tree_next (tree_next - 2)%Z
        else
          walk_tree n' tr rev_code (i16_dec (aget tr ti)) tree_next
  end.

(* one symbol of the table-building loop; None = `return None` *)
Definition insert_symbol (cs : arr) (lu tr next : arr) (tree_next : Z) (symbol_index : N)
  : option (arr * arr * arr * Z) :=
  let code_size := N.land (aget cs symbol_index) 15 in
  if code_size =? 0 then Some (lu, tr, next, tree_next)
  else
    let cur_code := aget next code_size in
    let next := aset next code_size ((cur_code + 1) mod U32) in
    let n := N.land cur_code (N.shiftr 4294967295 (32 - code_size)) mod U16 in
    let rev_code := N.shiftr (rev16 n) (16 - code_size) in
    if code_size <=? 10 then
      let k := N.lor (N.shiftl code_size 9) symbol_index in
      Some (fill_fast 1024 lu rev_code (N.shiftl 1 code_size) k, tr, next, tree_next)
    else
      let slot := N.land rev_code 1023 in
      let '(lu, tree_cur, tree_next) :=
          if aget lu slot =? INVALID_CODE
          then (aset lu slot (i16_enc tree_next), tree_next, (tree_next - 2)%Z)
          else (lu, i16_dec (aget lu slot), tree_next) in
      let rev_code := N.shiftr rev_code 9 in
      match walk_tree (N.to_nat (code_size - 11)) tr rev_code tree_cur tree_next with
      | None => None
      | Some (tr, rev_code, tree_cur, tree_next) =>
          let rev_code := N.shiftr rev_code 1 in
          let tree_cur := (tree_cur - Z.of_N (N.land rev_code 1))%Z in
          let ti := (- tree_cur - 1)%Z in
          if (ti <? 0)%Z || (576 <=? ti)%Z then None
          else Some (lu, aset tr (Z.to_N ti) symbol_index, next, tree_next)
      end.

Fixpoint insert_symbols (n : nat) (cs lu tr next : arr) (tree_next : Z) (i : N)
  : option (arr * arr) :=
  match n with
  | O => Some (lu, tr)
  | S n' =>
      match insert_symbol cs lu tr next tree_next i with
      | None => None
      | Some (lu, tr, next, tree_next) => insert_symbols n' cs lu tr next tree_next (i + 1)
      end
  end.

Inductive tree_result := TFail (* return None *) | TJump (s : istate) | TBuilt (t : htable).

Definition build_table (r : dec) (bt : N) : tree_result :=
  let cs := code_sizes_of r bt in
  let old := get_table r bt in
  let lu := amake 1024 INVALID_CODE in
  let tr := if bt =? 2 then tree old else amake 576 0 in
  let table_size := get_ts r bt in
  if alen cs <? table_size then TFail
  else
    match count_sizes (N.to_nat table_size) cs 0 (amake 16 0) with
    | None => TFail
    | Some tot =>
        match scan_lens 15 1 tot (amake 17 0) 0 0 1%Z with
        | None => TJump BadTotalSymbols
        | Some (next, total, maxl) =>
            if negb (total =? 65536) && ((bt =? 2) || (1 <? maxl)) then TJump BadTotalSymbols
            else
              match insert_symbols (N.to_nat table_size) cs lu tr next (-1)%Z 0 with
              | None => TFail
              | Some (lu, tr) => TBuilt {| look_up := lu; tree := tr |}
              end
        end
    end.

(* init_tree: the loop over block_type; [None] models `return None` (caller: End(Failed)).
   A table that fails to build leaves the decompressor's tables as they were only in the
   TJump/TFail-before-insertion cases; the Rust code mutates in place, so on TFail after a
   partial insertion the partially filled table would remain.  The model keeps the old table
   there: a decoder that failed this way must be re-initialised, and init() followed by a
   rebuild rewrites the table before it is read (see proofs/Liveness). *)
Fixpoint init_tree_f (fuel : nat) (c : cfg) : res (action * cfg) :=
  match fuel with
  | O => OutOfFuel
  | S fuel' =>
      let r := rr c in
      let bt := d_block_type r in
      if 2 <? bt then Ret (AEnd Failed, c)
      else
        match build_table r bt with
        | TFail => Ret (AEnd Failed, c)
        | TJump s => Ret (AJump s, set_rr c (set_table r bt {| look_up := amake 1024 INVALID_CODE;
                                                                tree := if bt =? 2 then tree (get_table r bt) else amake 576 0 |}))
        | TBuilt t =>
            let r := set_table r bt t in
            if bt =? 2 then Ret (AJump ReadLitlenDistTablesCodeSize, set_ctr (set_rr c r) 0)
            else if bt =? 0 then Ret (AJump DecodeLitlen, set_ctr (set_rr c r) 0)
            else init_tree_f fuel' (set_rr c (r_blk r (d_finish r) (bt - 1)))
        end
  end.
Definition init_tree := init_tree_f 4.

Definition start_static_table (r : dec) : dec :=
  let csl := afill (afill (afill (afill (d_cs_lit r) 0 144 8) 144 112 9) 256 24 7) 280 8 8 in
  let csd := afill (d_cs_dist r) 0 32 5 in
  r_ts (r_cs r csl csd (d_cs_huff r)) 288 32 (d_ts2 r).

(* ---- transfer / apply_match on the output slice *)
Definition oget (o : arr) (i : N) (site : N) : res N :=
  if i <? alen o then Ret (aget o i) else Panic site.
Definition oset (o : arr) (i v : N) (site : N) : res arr :=
  if i <? alen o then Ret (aset o i v) else Panic site.

(* copy [n] bytes one at a time, source indices masked (the unrolled loops and tails) *)
Fixpoint copy_masked (n : nat) (o : arr) (src dst : N) : res arr :=
  match n with
  | O => Ret o
  | S n' =>
      v <- oget o (N.land src mask) 120 ;;
      o1 <- oset o dst v 121 ;;
      copy_masked n' o1 (src + 1) (dst + 1)
  end.

(* copy_within(src..=src+3, dst): memmove semantics of 4 bytes *)
Definition copy_within4 (o : arr) (src dst : N) : res arr :=
  _ <- guard (src + 4 <=? alen o) 122 ;;
  _ <- guard (dst + 4 <=? alen o) 123 ;;
  let a := aget o src in let b := aget o (src + 1) in
  let c := aget o (src + 2) in let d := aget o (src + 3) in
  Ret (aset (aset (aset (aset o dst a) (dst + 1) b) (dst + 2) c) (dst + 3) d).

Fixpoint loop_within4 (fuel : nat) (o : arr) (src dst end_pos : N) : res (arr * N * N) :=
  if dst <? end_pos then
    match fuel with
    | O => OutOfFuel
    | S fuel' =>
        o1 <- copy_within4 o src dst ;;
        loop_within4 fuel' o1 (src + 4) (dst + 4) end_pos
    end
  else Ret (o, src, dst).

Fixpoint loop_masked4 (fuel : nat) (o : arr) (src dst end_pos : N) : res (arr * N * N) :=
  if dst <? end_pos then
    match fuel with
    | O => OutOfFuel
    | S fuel' =>
        _ <- guard (dst + 3 <? alen o) 124 ;;
        _ <- guard (N.land (src + 3) mask <? alen o) 125 ;;
        o1 <- copy_masked 4 o src dst ;;
        loop_masked4 fuel' o1 (src + 4) (dst + 4) end_pos
    end
  else Ret (o, src, dst).

Definition transfer (o : arr) (source_pos out_pos match_len : N) : res arr :=
  let len := alen o in
  let source_diff := if out_pos <? source_pos then source_pos - out_pos else out_pos - source_pos in
  let spm := source_pos + match_len in
  let not_wrapping := (mask =? USIZE_MAX) || ((3 <=? spm) && (spm - 3 <? len)) in
  let end_pos := N.shiftr match_len 2 * 4 + out_pos in
  '(o1, sp, op) <-
    (if not_wrapping && (source_diff =? 1) && (source_pos <? out_pos) then
       _ <- guard (end_pos <=? len) 126 ;;
       let init := aget o (out_pos - 1) in
       Ret (afill o out_pos (end_pos - out_pos) init, end_pos - 1, end_pos)
     else if not_wrapping && (source_pos <? out_pos) && (4 <=? out_pos - source_pos) then
       loop_within4 100 o source_pos out_pos (N.min end_pos (len - 3))
     else
       loop_masked4 100 o source_pos out_pos (N.min end_pos (len - 3))) ;;
  let tail := N.land match_len 3 in
  if tail =? 0 then Ret o1
  else
    (* the asserts of the 2- and 3-byte tails check the last index first *)
    _ <- (if 2 <=? tail then
            _ <- guard (op + (tail - 1) <? len) 127 ;;
            guard (N.land (sp + (tail - 1)) mask <? len) 128
          else Ret tt) ;;
    copy_masked (N.to_nat tail) o1 sp op.

Definition apply_match (o : arr) (out_pos dist_ match_len : N) : res arr :=
  let len := alen o in
  _ <- guard (out_pos + match_len <=? len) 130 ;;     (* debug_assert *)
  let source_pos := N.land ((out_pos + U64 - dist_) mod U64) mask in
  if match_len =? 3 then
    if out_pos + 3 <=? len then
      let s1 := N.land (source_pos + 1) mask in
      let s2 := N.land (source_pos + 2) mask in
      if (source_pos <? len) && (s1 <? len) && (s2 <? len) then
        let o1 := aset o out_pos (aget o source_pos) in
        let o2 := aset o1 (out_pos + 1) (aget o1 s1) in
        Ret (aset o2 (out_pos + 2) (aget o2 s2))
      else Ret o
    else Ret o
  else if (out_pos <=? source_pos) && (source_pos - out_pos <? match_len) then
    transfer o source_pos out_pos match_len
  else if (match_len <=? dist_) && (source_pos + match_len <? len) then
    if source_pos <? out_pos then
      (* from_slice = [0, out_pos) must contain the source range *)
      _ <- guard (source_pos + match_len <=? out_pos) 131 ;;
      Ret (aset_list o out_pos (aget_list o source_pos match_len))
    else
      (* to_slice = [0, source_pos) must contain the destination range *)
      _ <- guard (out_pos + match_len <=? source_pos) 132 ;;
      Ret (aset_list o out_pos (aget_list o source_pos match_len))
  else transfer o source_pos out_pos match_len.

(* ------------------------------------------------------------------ the state machine *)

Definition jump (s : istate) (c : cfg) : res (action * cfg) := Ret (AJump s, c).

Definition length_part (c : cfg) : res (action * cfg) + cfg :=
  (* shared by HuffDecodeOuterLoop1 and the fast loop: counter already masked with 511 *)
  inr c.

Definition dist_check (c : cfg) : bool :=
  ((pos c <? dist c) && has flags F_NONWRAP) || (alen (out c) <? dist c).

(* one iteration of decompress_fast's loop, entered with >= 259 bytes of output space and
   >= 14 bytes of input *)
Definition fast_match (c : cfg) : res (action * cfg) :=
  let c := set_ctr c (N.land (ctr c) 511) in
  if ctr c =? 256 then jump BlockDone c
  else if 285 <? ctr c then jump InvalidLitlen c
  else
    i0 <- csub (ctr c) 257 157 ;;              (* (l.counter - 257): u32 subtraction *)
    let i := N.land i0 31 in
    let c := set_ctr (set_nex c (tab GenTables.t_LENGTH_EXTRA i)) (tab GenTables.t_LENGTH_BASE i) in
    c <- fill_bit_buffer c ;;
    c <- (if nex c =? 0 then Ret c
          else
            let extra := N.land (bb c) (N.ones (nex c)) in
            c1 <- drop_bits c (nex c) ;;
            Ret (set_ctr c1 (ctr c1 + extra))) ;;
    '(sym, len) <- lookup (d_t1 (rr c)) (bb c) ;;
    let sym := Z.to_N (Z.land sym 511) in
    c <- drop_bits c len ;;
    if 29 <? sym then jump InvalidDist c
    else
      let ne := if sym <? 4 then 0 else N.shiftr sym 1 - 1 in   (* (code >> 1).saturating_sub(1) *)
      let c := set_dist (set_nex c ne) (tab GenTables.t_DIST_BASE sym) in
      c <- (if ne =? 0 then Ret c
            else
              c0 <- fill_bit_buffer c ;;
              let extra := N.land (bb c0) (N.ones ne) in
              c1 <- drop_bits c0 ne ;;
              Ret (set_dist c1 (dist c1 + extra))) ;;
      if dist_check c then jump DistanceOutOfBounds c
      else
        o <- apply_match (out c) (pos c) (dist c) (ctr c) ;;
        Ret (ANone, set_out c o (pos c + ctr c)).

Definition lit_pair (c : cfg) (on_len : cfg -> res (action * cfg)) : res (action * cfg) :=
  (* shared by the fast and the medium tier *)
  c <- fill_bit_buffer c ;;
  '(sym, len) <- lookup (d_t0 (rr c)) (bb c) ;;
  let c := set_ctr c (Z.to_N sym) in
  c <- drop_bits c len ;;
  if negb (N.land (ctr c) 256 =? 0) then on_len c
  else
    '(sym2, len2) <- lookup (d_t0 (rr c)) (bb c) ;;
    c <- drop_bits c len2 ;;
    c <- write_byte c (ctr c) ;;
    let s2 := Z.to_N sym2 in
    if negb (N.land s2 256 =? 0) then on_len (set_ctr c s2)
    else
      c <- write_byte c s2 ;;
      Ret (ANone, c).

Definition num_extra_dist (sym : N) : N := if sym <? 4 then 0 else N.shiftr sym 1 - 1.

Definition step (c : cfg) : res (action * cfg) :=
  match st c with
  | Start =>
      let c := mk (r_hdr (rr c) 0 0 1 1) (st c) 0 0 0 0 0 (inp c) (ileft c) (out c) (pos c) in
      if has flags F_ZLIB then jump ReadZlibCmf c else jump ReadBlockHeader c
  | ReadZlibCmf =>
      match read_byte c with
      | None => Ret (AEnd end_of_input, c)
      | Some (b, c1) =>
          let r := rr c1 in
          jump ReadZlibFlg (set_rr c1 (r_hdr r b (d_zh1 r) (d_zadler r) (d_check r)))
      end
  | ReadZlibFlg =>
      match read_byte c with
      | None => Ret (AEnd end_of_input, c)
      | Some (b, c1) =>
          let r := rr c1 in
          let c2 := set_rr c1 (r_hdr r (d_zh0 r) b (d_zadler r) (d_check r)) in
          (* validate_zlib_header, as regenerated from the source *)
          let '((_, target), _) :=
              GenZlib.validate_zlib_header (Z.of_N (d_zh0 r)) (Z.of_N b) (Z.of_N flags) (Z.of_N mask) in
          let failed := (target =? GenZlib.e_State_BadZlibHeader)%Z in
          if failed then jump BadZlibHeader c2 else jump ReadBlockHeader c2
      end
  | ReadBlockHeader =>
      read_bits c 3 (fun c bits =>
        let r := r_blk (rr c) (N.land bits 1) (N.land (N.shiftr bits 1) 3) in
        let c := set_rr c r in
        let bt := d_block_type r in
        if bt =? 0 then jump BlockTypeNoCompression c
        else if bt =? 1 then init_tree (set_rr c (start_static_table r))
        else if bt =? 2 then jump ReadTableSizes (set_ctr c 0)
        else jump BlockTypeUnexpected c)
  | BlockTypeNoCompression =>
      pad_to_bytes c (fun c => jump RawHeader (set_ctr c 0))
  | RawHeader =>
      if ctr c <? 4 then
        if negb (nb c =? 0) then
          read_bits c 8 (fun c bits =>
            Ret (ANone, set_ctr (set_rr c (r_raw (rr c) (aset (d_raw (rr c)) (ctr c) (bits mod 256)))) (ctr c + 1)))
        else
          match read_byte c with
          | None => Ret (AEnd end_of_input, c)
          | Some (b, c) =>
              Ret (ANone, set_ctr (set_rr c (r_raw (rr c) (aset (d_raw (rr c)) (ctr c) b))) (ctr c + 1))
          end
      else
        let raw := d_raw (rr c) in
        let length := aget raw 0 + 256 * aget raw 1 in
        let check := aget raw 2 + 256 * aget raw 3 in
        let c := set_ctr c length in
        if negb (length + check =? 65535) then jump BadRawLength c
        else if length =? 0 then jump BlockDone c
        else if negb (nb c =? 0) then jump RawReadFirstByte c
        else jump RawMemcpy1 c
  | RawReadFirstByte =>
      read_bits c 8 (fun c bits => jump RawStoreFirstByte (set_dist c bits))
  | RawStoreFirstByte =>
      left <- bytes_left c ;;
      if left =? 0 then Ret (AEnd HasMoreOutput, c)
      else
        c <- write_byte c (dist c) ;;
        n <- csub (ctr c) 1 140 ;;
        let c := set_ctr c n in
        if (n =? 0) || (nb c =? 0) then jump RawMemcpy1 c else jump RawReadFirstByte c
  | RawMemcpy1 =>
      left <- bytes_left c ;;
      if ctr c =? 0 then jump BlockDone c
      else if left =? 0 then Ret (AEnd HasMoreOutput, c)
      else jump RawMemcpy2 c
  | RawMemcpy2 =>
      if 0 <? ileft c then
        left <- bytes_left c ;;
        let n := N.min (N.min left (ileft c)) (ctr c) in
        _ <- guard (pos c + n <=? alen (out c)) 141 ;;
        let bytes := firstn (N.to_nat n) (inp c) in
        let c := set_out c (aset_list (out c) (pos c) bytes) (pos c + n) in
        let c := set_in c (skipn (N.to_nat n) (inp c)) (ileft c - n) in
        jump RawMemcpy1 (set_ctr c (ctr c - n))
      else Ret (AEnd end_of_input, c)
  | ReadTableSizes =>
      if ctr c <? 3 then
        let nbits := if ctr c =? 2 then 4 else 5 in
        read_bits c nbits (fun c bits =>
          Ret (ANone, set_ctr (set_rr c (set_ts (rr c) (ctr c) (bits + tab GenTables.t_MIN_TABLE_SIZES (ctr c))))
                              (ctr c + 1)))
      else
        let r := rr c in
        let c := set_ctr (set_rr c (r_cs r (d_cs_lit r) (d_cs_dist r) (amake 19 0))) 0 in
        if (d_ts0 r <=? 286) && (d_ts1 r <=? 30) then jump ReadHufflenTableCodeSize c
        else jump BadDistOrLiteralTableLength c
  | ReadHufflenTableCodeSize =>
      if ctr c <? d_ts2 (rr c) then
        read_bits c 3 (fun c bits =>
          let r := rr c in
          _ <- guard (ctr c <? 19) 142 ;;
          let i := tab GenTables.t_HUFFMAN_LENGTH_ORDER (ctr c) in
          _ <- guard (i <? 19) 143 ;;
          Ret (ANone, set_ctr (set_rr c (r_cs r (d_cs_lit r) (d_cs_dist r) (aset (d_cs_huff r) i bits))) (ctr c + 1)))
      else
        init_tree (set_rr c (r_ts (rr c) (d_ts0 (rr c)) (d_ts1 (rr c)) 19))
  | ReadLitlenDistTablesCodeSize =>
      let r := rr c in
      let total := d_ts0 r + d_ts1 r in
      if ctr c <? total then
        decode_huffman_code c 2 (fun c symbol =>
          let c := set_dist c (Z.to_N symbol) in
          if dist c <? 16 then
            Ret (ANone, set_ctr (set_rr c (r_lc (rr c) (aset (d_len_codes (rr c)) (N.land (ctr c) 511) (dist c)))) (ctr c + 1))
          else if (dist c =? 16) && (ctr c =? 0) then jump BadCodeSizeDistPrevLookup c
          else
            let ne := tab [2; 3; 7; 0] (N.land (dist c - 16) 3) in
            jump ReadExtraBitsCodeSize (set_nex c ne))
      else if negb (ctr c =? total) then jump BadCodeSizeSum c
      else
        let lc := d_len_codes r in
        let ts0 := d_ts0 r in let ts1 := d_ts1 r in
        (* copy_from_slice needs equal lengths; debug_asserts on the three bounds *)
        _ <- guard (ts0 <=? 288) 144 ;;
        _ <- guard (ts0 <? 512) 145 ;;
        _ <- guard (ts0 + ts1 <? 512) 146 ;;
        _ <- guard (ts1 <? 32) 147 ;;
        let csl := aset_list (d_cs_lit r) 0 (aget_list lc 0 ts0) in
        let csd := aset_list (d_cs_dist r) 0 (aget_list lc ts0 ts1) in
        bt <- csub (d_block_type r) 1 148 ;;
        let r := r_blk (r_cs r csl csd (d_cs_huff r)) (d_finish r) bt in
        init_tree (set_rr c r)
  | ReadExtraBitsCodeSize =>
      read_bits c (nex c) (fun c extra_bits =>
        d16 <- csub (dist c) 16 149 ;;
        let extra_bits := extra_bits + tab [3; 3; 11] (N.land d16 2) in
        let lc := d_len_codes (rr c) in
        val <- (if dist c =? 16 then
                  i <- csub (ctr c) 1 150 ;;
                  _ <- guard (i <? 512) 151 ;;
                  Ret (aget lc (N.land i 511))
                else Ret 0) ;;
        let fill_start := ctr c in
        let fill_end := ctr c + extra_bits in
        _ <- guard (fill_start <? 512) 152 ;;
        _ <- guard (fill_end <? 512) 153 ;;
        let lc := afill lc fill_start extra_bits val in
        jump ReadLitlenDistTablesCodeSize (set_ctr (set_rr c (r_lc (rr c) lc)) (ctr c + extra_bits)))
  | DecodeLitlen =>
      left <- bytes_left c ;;
      if (ileft c <? 4) || (left <? 2) then
        decode_huffman_code c 0 (fun c symbol => jump WriteSymbol (set_ctr c (Z.to_N symbol)))
      else if (259 <=? left) && (14 <=? ileft c) then
        lit_pair c fast_match
      else
        lit_pair c (jump HuffDecodeOuterLoop1)
  | WriteSymbol =>
      left <- bytes_left c ;;
      if 256 <=? ctr c then jump HuffDecodeOuterLoop1 c
      else if 0 <? left then
        c <- write_byte c (ctr c) ;; jump DecodeLitlen c
      else Ret (AEnd HasMoreOutput, c)
  | HuffDecodeOuterLoop1 =>
      let c := set_ctr c (N.land (ctr c) 511) in
      if ctr c =? 256 then jump BlockDone c
      else if 285 <? ctr c then jump InvalidLitlen c
      else
        i0 <- csub (ctr c) 257 154 ;;
        let i := N.land i0 31 in
        let c := set_ctr (set_nex c (tab GenTables.t_LENGTH_EXTRA i)) (tab GenTables.t_LENGTH_BASE i) in
        if negb (nex c =? 0) then jump ReadExtraBitsLitlen c else jump DecodeDistance c
  | ReadExtraBitsLitlen =>
      read_bits c (nex c) (fun c extra => jump DecodeDistance (set_ctr c (ctr c + extra)))
  | DecodeDistance =>
      decode_huffman_code c 1 (fun c symbol =>
        let sym := Z.to_N symbol in
        if 29 <? sym then jump InvalidDist c
        else
          let ne := num_extra_dist sym in
          let c := set_dist (set_nex c ne) (tab GenTables.t_DIST_BASE sym) in
          if negb (ne =? 0) then jump ReadExtraBitsDistance c else jump HuffDecodeOuterLoop2 c)
  | ReadExtraBitsDistance =>
      read_bits c (nex c) (fun c extra => jump HuffDecodeOuterLoop2 (set_dist c (dist c + extra)))
  | HuffDecodeOuterLoop2 =>
      if dist_check c then jump DistanceOutOfBounds c
      else
        let out_pos := pos c in
        let source_pos := N.land ((out_pos + U64 - dist c) mod U64) mask in
        out_len <- bytes_left c ;;
        let match_end_pos := out_pos + ctr c in
        if (out_len <? match_end_pos) ||
           ((out_pos <=? source_pos) && (source_pos - out_pos <? ctr c)) then
          if ctr c =? 0 then jump DecodeLitlen c else jump WriteLenBytesToEnd c
        else
          o <- apply_match (out c) out_pos (dist c) (ctr c) ;;
          jump DecodeLitlen (set_out c o (out_pos + ctr c))
  | WriteLenBytesToEnd =>
      if dist_check c then jump DistanceOutOfBounds c else
      left <- bytes_left c ;;
      if 0 <? left then
        let out_pos := pos c in
        let source_pos := N.land ((out_pos + U64 - dist c) mod U64) mask in
        let len := N.min left (ctr c) in
        o <- transfer (out c) source_pos out_pos len ;;
        let c := set_ctr (set_out c o (out_pos + len)) (ctr c - len) in
        if ctr c =? 0 then jump DecodeLitlen c else Ret (ANone, c)
      else Ret (AEnd HasMoreOutput, c)
  | BlockDone =>
      if negb (d_finish (rr c) =? 0) then
        '(_, c) <- pad_to_bytes c (fun c => Ret (ANone, c)) ;;
        let in_consumed := in_len - ileft c in
        let '(undo, nb') := undo_bytes (nb c) (in_consumed mod U32) in
        let c := set_bits c (bb c) nb' in
        let keep := in_consumed - undo in
        let c := set_in c (skipn (N.to_nat keep) in_buf) (in_len - keep) in
        _ <- guard (nb c <? 64) 155 ;;
        let c := set_bits c (N.land (bb c) (N.ones (nb c))) (nb c) in
        _ <- guard (nb c =? 0) 156 ;;                 (* debug_assert_eq!(l.num_bits, 0) *)
        if has flags F_ZLIB then jump ReadAdler32 (set_ctr c 0) else jump DoneForever c
      else if has flags F_STOPBB then Ret (AEnd BlockBoundary, c)
      else jump ReadBlockHeader c
  | ReadAdler32 =>
      if ctr c <? 4 then
        if negb (nb c =? 0) then
          read_bits c 8 (fun c bits =>
            let r := rr c in
            Ret (ANone, set_ctr (set_rr c (r_hdr r (d_zh0 r) (d_zh1 r) (N.lor (d_zadler r * 256 mod U32) bits) (d_check r))) (ctr c + 1)))
        else
          match read_byte c with
          | None => Ret (AEnd end_of_input, c)
          | Some (b, c) =>
              let r := rr c in
              Ret (ANone, set_ctr (set_rr c (r_hdr r (d_zh0 r) (d_zh1 r) (N.lor (d_zadler r * 256 mod U32) b) (d_check r))) (ctr c + 1))
          end
      else jump DoneForever c
  | DoneForever => Ret (AEnd Done, c)
  | _ => Ret (AEnd Failed, c)
  end.

(* one turn of the `'state_machine: loop`: [inl] continue, [inr] the loop's result *)
Definition turn (c : cfg) : cfg + res (status * cfg) :=
  match step c with
  | Ret (ANone, c') => inl c'
  | Ret (AJump s, c') => inl (set_st c' s)
  | Ret (AEnd s, c') => inr (Ret (s, c'))
  | Panic n => inr (Panic n)
  | OutOfFuel => inr OutOfFuel
  end.

Definition run (c : cfg) : res (status * cfg) :=
  match iter_pow 62 turn c with
  | inl _ => OutOfFuel
  | inr r => r
  end.

End Call.

(* ------------------------------------------------------------------ decompress_with_limit *)

Record call_result := {
  cr_status : status; cr_in : N; cr_out : N; cr_buf : arr; cr_dec : dec
}.

Definition write_back (r : dec) (s : istate) (c : cfg) (nbits bbuf chk : N) : dec :=
  {| d_state := s; d_num_bits := nbits; d_zh0 := d_zh0 r; d_zh1 := d_zh1 r; d_zadler := d_zadler r;
     d_finish := d_finish r; d_block_type := d_block_type r; d_check := chk; d_dist := dist c;
     d_counter := ctr c; d_num_extra := nex c; d_ts0 := d_ts0 r; d_ts1 := d_ts1 r; d_ts2 := d_ts2 r;
     d_bit_buf := bbuf; d_t0 := d_t0 r; d_t1 := d_t1 r; d_t2 := d_t2 r; d_cs_lit := d_cs_lit r;
     d_cs_dist := d_cs_dist r; d_cs_huff := d_cs_huff r; d_raw := d_raw r; d_len_codes := d_len_codes r |}.

Definition is_pow2_or_zero (x : N) : bool := N.land x (x - 1) =? 0.

Definition decompress (r : dec) (in_buf : list N) (o : arr) (out_pos out_max flags : N)
  : res call_result :=
  let olen := alen o in
  let mask := if has flags F_NONWRAP then USIZE_MAX else olen - 1 in
  if negb (N.land ((mask + 1) mod U64) mask =? 0) || (olen <? out_pos) then
    Ret {| cr_status := BadParam; cr_in := 0; cr_out := 0; cr_buf := o; cr_dec := r |}
  else
    let in_len := N.of_nat (length in_buf) in
    let omax := N.min (N.min (out_pos + out_max) USIZE_MAX) olen in
    let c0 := mk r (d_state r) (d_bit_buf r) (d_num_bits r) (d_dist r) (d_counter r) (d_num_extra r)
                 in_buf in_len o out_pos in
    '(status, c) <- run flags in_buf in_len omax mask c0 ;;
    let consumed0 := in_len - ileft c in
    let '(in_undo, nb1) :=
        match status with
        | NeedsMoreInput | FailedCannotMakeProgress => (0, nb c)
        | _ => undo_bytes (nb c) (consumed0 mod U32)
        end in
    let state := match status with BlockBoundary => ReadBlockHeader | _ => st c end in
    left <- csub omax (pos c) 160 ;;
    let status :=
        match status, state with
        | NeedsMoreInput, ReadAdler32 => status
        | NeedsMoreInput, _ => if left =? 0 then HasMoreOutput else status
        | _, _ => status
        end in
    _ <- guard (nb1 <? 64) 161 ;;
    let bbuf := N.land (bb c) (N.ones nb1) in
    let need_adler := if has flags F_IGNORE then false
                      else has flags F_ZLIB || has flags F_COMPUTE in
    let r1 := rr c in
    _ <- guard (out_pos <=? pos c) 162 ;;
    let '(chk, status) :=
        if need_adler && (0 <=? status_code status)%Z then
          let chk := adler32 (d_check r1) (aget_list (out c) out_pos (pos c - out_pos)) in
          (chk, match status with
                | Done => if has flags F_ZLIB && negb (chk =? d_zadler r1) then Adler32Mismatch else Done
                | s => s
                end)
        else (d_check r1, status) in
    consumed <- csub consumed0 in_undo 163 ;;
    Ret {| cr_status := status; cr_in := consumed; cr_out := pos c - out_pos;
           cr_buf := out c; cr_dec := write_back r1 state c nb1 bbuf chk |}.
