(* A lexer for just enough of Rust's lexical structure to decide which identifier and
   punctuation tokens of a source file lie outside comments and literals (C20).

   Handled: line comments, nested block comments, string literals with escapes, raw strings
   with any number of hashes, byte strings and raw byte strings, character and byte literals
   versus lifetimes.  The file is given as a list of lines. *)
From Coq Require Import List Ascii String Bool Arith NArith.
Import ListNotations.
Local Open Scope char_scope.
Local Open Scope list_scope.

Definition is_ident_char (c : ascii) : bool :=
  let n := nat_of_ascii c in
  (((48 <=? n) && (n <=? 57)) || ((65 <=? n) && (n <=? 90)) || ((97 <=? n) && (n <=? 122)) || (n =? 95))%nat.

Inductive lstate :=
  | LCode
  | LBlock (depth : nat)
  | LStr
  | LRaw (hashes : nat).

Fixpoint chars (s : string) : list ascii :=
  match s with EmptyString => [] | String c r => c :: chars r end.

Fixpoint string_of (l : list ascii) : string :=
  match l with [] => EmptyString | c :: r => String c (string_of r) end.

Definition ceq (a b : ascii) : bool := Ascii.eqb a b.

(* does the list start with n hash characters *)
Fixpoint starts_hashes (n : nat) (l : list ascii) : bool :=
  match n with
  | O => true
  | S n' => match l with c :: r => ceq c "#" && starts_hashes n' r | [] => false end
  end.

Fixpoint count_hashes (l : list ascii) : nat * list ascii :=
  match l with
  | c :: r => if ceq c "#" then let '(n, rest) := count_hashes r in (S n, rest) else (O, l)
  | [] => (O, l)
  end.

(* flush the identifier being accumulated (reversed) into the token list (reversed) *)
Definition flush (cur : list ascii) (toks : list string) : list string :=
  match cur with [] => toks | _ => string_of (rev cur) :: toks end.

Definition next_is (l : list ascii) (c : ascii) : bool :=
  match l with x :: _ => ceq x c | [] => false end.

(* is the accumulated identifier (reversed) exactly one of: r, br, cr / b, c *)
Definition cur_is_raw_prefix (cur : list ascii) : bool :=
  match cur with
  | [a] => ceq a "r"
  | [a; b] => ceq a "r" && (ceq b "b" || ceq b "c")
  | _ => false
  end.
Definition cur_is_str_prefix (cur : list ascii) : bool :=
  match cur with [a] => ceq a "b" || ceq a "c" | _ => false end.

(* skip an escaped character literal: up to 12 characters to the closing quote *)
Fixpoint skip_char (k : nat) (x : list ascii) : option (list ascii) :=
  match k with
  | O => None
  | S k' => match x with
            | [] => None
            | c :: y => if ceq c "'" then Some y else skip_char k' y
            end
  end.

(* one line; fuel = length of the line + 1 (every step consumes at least one character) *)
Fixpoint lex_line (fuel : nat) (st : lstate) (l : list ascii) (cur : list ascii) (toks : list string)
  : lstate * list string :=
  match fuel with
  | O => (st, flush cur toks)
  | S fuel' =>
    match st with
    | LCode =>
        match l with
        | [] => (LCode, flush cur toks)
        | c :: r =>
            if ceq c "/" && next_is r "/" then (LCode, flush cur toks)              (* line comment *)
            else if ceq c "/" && next_is r "*" then lex_line fuel' (LBlock 1) (tl r) [] (flush cur toks)
            else if ceq c """" then
              (* a string; a prefix b / c directly before it belongs to the literal *)
              lex_line fuel' LStr r [] (if cur_is_str_prefix cur then toks else flush cur toks)
            else if ceq c "#" then
              if cur_is_raw_prefix cur then
                let '(n, rest) := count_hashes l in
                if next_is rest """" then lex_line fuel' (LRaw n) (tl rest) [] toks
                else lex_line fuel' LCode r [] ("#"%string :: flush cur toks)
              else lex_line fuel' LCode r [] ("#"%string :: flush cur toks)
            else if ceq c "'" then
              if next_is r "\" then
                match skip_char 12 (tl (tl r)) with
                | Some y => lex_line fuel' LCode y [] (flush cur toks)
                | None => (LCode, flush cur toks)
                end
              else if next_is (tl r) "'" then lex_line fuel' LCode (tl (tl r)) [] (flush cur toks)  (* one-character literal *)
              else lex_line fuel' LCode r [] (flush cur toks)                                       (* lifetime *)
            else if is_ident_char c then lex_line fuel' LCode r (c :: cur) toks
            else if ((nat_of_ascii c =? 32) || (nat_of_ascii c =? 9) || (nat_of_ascii c =? 13))%nat then
              lex_line fuel' LCode r [] (flush cur toks)
            else lex_line fuel' LCode r [] (String c EmptyString :: flush cur toks)
        end
    | LBlock d =>
        match l with
        | [] => (LBlock d, toks)
        | c :: r =>
            if ceq c "*" && next_is r "/" then
              match d with
              | S (S d') => lex_line fuel' (LBlock (S d')) (tl r) [] toks
              | _ => lex_line fuel' LCode (tl r) [] toks
              end
            else if ceq c "/" && next_is r "*" then lex_line fuel' (LBlock (S d)) (tl r) [] toks
            else lex_line fuel' (LBlock d) r [] toks
        end
    | LStr =>
        match l with
        | [] => (LStr, toks)                               (* strings may span lines *)
        | c :: r =>
            if ceq c "\" then lex_line fuel' LStr (tl r) [] toks
            else if ceq c """" then lex_line fuel' LCode r [] toks
            else lex_line fuel' LStr r [] toks
        end
    | LRaw n =>
        match l with
        | [] => (LRaw n, toks)
        | c :: r =>
            if ceq c """" && starts_hashes n r then lex_line fuel' LCode (skipn n r) [] toks
            else lex_line fuel' (LRaw n) r [] toks
        end
    end
  end.

(* Raw strings without hashes (the letter r directly followed by a double quote): lex_line treats
   the quote as an ordinary string start, in which backslashes escape; such a raw string containing
   a backslash followed by a quote would end later than assumed.  The checker below refuses any
   file containing that two-character sequence after a non-identifier character, so the
   approximation is never relied upon. *)
Fixpoint has_bare_raw (l : list ascii) (prev_ident : bool) : bool :=
  match l with
  | c :: r => (ceq c "r" && next_is r """" && negb prev_ident) || has_bare_raw r (is_ident_char c)
  | [] => false
  end.

Fixpoint lex_lines (st : lstate) (lines : list string) (toks : list string) : lstate * list string :=
  match lines with
  | [] => (st, toks)
  | ln :: rest =>
      let cs := chars ln in
      let '(st', toks') := lex_line (S (List.length cs)) st cs [] toks in
      lex_lines st' rest toks'
  end.

Definition tokens (lines : list string) : list string := rev (snd (lex_lines LCode lines [])).

Definition ends_in_code (lines : list string) : bool :=
  match fst (lex_lines LCode lines []) with LCode => true | _ => false end.

(* ---- the C20 predicates *)
Local Open Scope string_scope.

Definition no_unsafe (lines : list string) : bool :=
  ends_in_code lines
  && negb (existsb (fun ln => has_bare_raw (chars ln) false) lines)
  && negb (existsb (String.eqb "unsafe") (tokens lines)).

Fixpoint has_seq (pat toks : list string) : bool :=
  match toks with
  | [] => match pat with [] => true | _ => false end
  | t :: rest =>
      (fix pre (p x : list string) : bool :=
         match p with
         | [] => true
         | a :: p' => match x with b :: x' => String.eqb a b && pre p' x' | [] => false end
         end) pat toks || has_seq pat rest
  end.

Definition has_forbid_unsafe (lines : list string) : bool :=
  has_seq ["#"; "!"; "["; "forbid"; "("; "unsafe_code"; ")"; "]"] (tokens lines).

Definition has_no_std_attr (lines : list string) : bool :=
  has_seq ["#"; "!"; "["; "cfg_attr"; "("; "not"; "("; "feature"; "="; ")"; ","; "no_std"; ")"; "]"] (tokens lines).
