(* Executable helpers around the specification, extracted into the oracle driver. *)
From Coq Require Import NArith ZArith List Bool.
From MZ.spec Require Import Adler Crc DeflateSpec.
Import ListNotations.
Local Open Scope N_scope.

(* split [data] at increasing cut positions and thread the checksum through the pieces *)
Fixpoint thread_splits (f : N -> list N -> N) (cur : N) (data : list N) (prev : N) (cuts : list N) : N :=
  match cuts with
  | [] => f cur data
  | c :: cuts' =>
      let c := N.max prev (N.min c (prev + N.of_nat (length data))) in
      let k := N.to_nat (c - prev) in
      thread_splits f (f cur (firstn k data)) (skipn k data) c cuts'
  end.

(* token-level summary of a parsed stream, for the mode clauses of C10/C11/C12 *)
Record tsum := {
  ts_blocks : N; ts_stored : N; ts_fixed : N; ts_dynamic : N; ts_finals : N;
  ts_last_final : bool;
  ts_matches : N; ts_lits : N;
  ts_maxdist : N; ts_minlen : N; ts_maxlen : N; ts_maxstored : N;
  ts_maxhlit : N; ts_maxhdist : N; ts_maxcodelen : N;
  ts_fixed_nonempty : N   (* fixed blocks carrying tokens; an empty fixed block is a partial-flush marker *)
}.

Definition tok_fold (acc : N * N * N * N * N) (t : token) :=
  let '(m, l, maxd, minl, maxl) := acc in
  match t with
  | Lit _ => (m, l + 1, maxd, minl, maxl)
  | Match len d => (m + 1, l, N.max maxd d, N.min minl len, N.max maxl len)
  end.

Definition is_kind (k : bkind) (b : block) : bool :=
  match k, b_kind b with
  | Stored, Stored | Fixed, Fixed | Dynamic, Dynamic => true
  | _, _ => false
  end.

Definition count_if {A} (f : A -> bool) (l : list A) : N := N.of_nat (length (filter f l)).

Definition summarize (bs : list block) : tsum :=
  let nonstored := filter (fun b => negb (is_kind Stored b)) bs in
  let '(m, l, maxd, minl, maxl) :=
      fold_left tok_fold (flat_map b_tokens nonstored) (0, 0, 0, 1000, 0) in
  {| ts_blocks := N.of_nat (length bs);
     ts_stored := count_if (is_kind Stored) bs;
     ts_fixed := count_if (is_kind Fixed) bs;
     ts_dynamic := count_if (is_kind Dynamic) bs;
     ts_finals := count_if b_final bs;
     ts_last_final := match frev bs with b :: _ => b_final b | [] => false end;
     ts_matches := m; ts_lits := l; ts_maxdist := maxd; ts_minlen := minl; ts_maxlen := maxl;
     ts_maxstored := fold_left N.max (map (fun b => if is_kind Stored b then N.of_nat (length (b_tokens b)) else 0) bs) 0;
     ts_maxhlit := fold_left N.max (map (fun b => N.of_nat (length (b_litlens b))) bs) 0;
     ts_maxhdist := fold_left N.max (map (fun b => N.of_nat (length (b_distlens b))) bs) 0;
     ts_maxcodelen := fold_left N.max (flat_map (fun b => b_litlens b ++ b_distlens b) bs) 0;
     ts_fixed_nonempty := count_if (fun b => is_kind Fixed b && match b_tokens b with [] => false | _ => true end) bs |}.

(* A prefix of a stream (C12): parse as many whole blocks as are present; report the bytes
   they expand to, whether parsing stopped exactly at a block boundary for lack of input,
   and whether the last complete block was an empty stored block ending on a byte boundary. *)
Fixpoint parse_prefix (fuel : list bool) (bits : list bool) (consumed : N) (acc : list block)
  : list block * N * bool (* clean: stopped by truncation, not by error *) * bool (* saw final *) :=
  match fuel with
  | [] => (frev acc, consumed, true, false)
  | _ :: fuel' =>
      match parse_block bits consumed with
      | PTrunc => (frev acc, consumed, true, false)
      | PErr _ => (frev acc, consumed, false, false)
      | POk (b, consumed') rest =>
          if b_final b then (frev (b :: acc), consumed', true, true)
          else parse_prefix fuel' rest consumed' (b :: acc)
      end
  end.

Definition prefix_spec (data : list N) :=
  let bits := bits_of_bytes data in
  let '(bs, consumed, clean, fin) := parse_prefix (true :: bits) bits 0 [] in
  (expand [] bs, consumed, clean, fin, bs).

Definition block_is_sync (b : block) : bool :=
  is_kind Stored b && match b_tokens b with [] => true | _ => false end.

(* ring-window semantics (C04, wrapping mode): bytes before the start of the stream read the
   caller's buffer contents, here a buffer of [len] bytes all equal to [fill] *)
Definition spec_ring (zl check : bool) (len fill : N) (data : list N) : sres :=
  let pre := repeat fill (N.to_nat len) in
  let body_spec (body : list N) := inflate_spec_bits pre (bits_of_bytes body) in
  if zl then
    match data with
    | cmf :: flg :: body =>
        if negb (zlib_header_ok cmf flg) then SErr EZlibHeader
        else
          match body_spec body with
          | SDone out n bs =>
              let trailer := firstn 4 (skipn (N.to_nat n) body) in
              if Nat.ltb (length trailer) 4 then STrunc
              else if check && negb (be32_val trailer =? Adler.adler32 1 out) then SErr EAdler
              else SDone out (n + 6) bs
          | r => r
          end
    | _ => STrunc
    end
  else body_spec data.
