(* Executable models of the wrappers around the low-level decoder:
   inflate::stream::inflate (with the reset policies), inflate::decompress_to_vec*,
   inflate::decompress_slice_iter_to_slice.  Transliterations of inflate/stream.rs and
   inflate/mod.rs over M_inf. *)
From Coq Require Import NArith ZArith List Bool.
From MZ.lib Require Import Arr Bits Mach.
From MZ.model Require Import InflateCore.
Import ListNotations.
Local Open Scope N_scope.

Inductive dformat := FZlib | FZlibIgnore | FRaw.

(* MZFlush *)
Definition FL_NONE : N := 0.
Definition FL_FULL : N := 3.
Definition FL_FINISH : N := 4.

(* MZStatus / MZError as their C codes *)
Definition MZ_OK : Z := 0.
Definition MZ_STREAM_END : Z := 1.
Definition MZ_ERR_STREAM : Z := (-2).
Definition MZ_ERR_DATA : Z := (-3).
Definition MZ_ERR_BUF : Z := (-5).

Record istream := {
  is_dec : dec; is_dict : arr; is_ofs : N; is_avail : N;
  is_first : bool; is_flushed : bool; is_fmt : dformat; is_last : status
}.

Definition DICT : N := 32768.

Definition is_new (fmt : dformat) : istream :=
  {| is_dec := dec_default; is_dict := amake DICT 0; is_ofs := 0; is_avail := 0;
     is_first := true; is_flushed := false; is_fmt := fmt; is_last := NeedsMoreInput |}.

Definition mk_is d di o a f fl fm l : istream :=
  {| is_dec := d; is_dict := di; is_ofs := o; is_avail := a; is_first := f; is_flushed := fl;
     is_fmt := fm; is_last := l |}.

Definition min_reset (s : istream) : istream :=
  mk_is (dec_init (is_dec s)) (is_dict s) 0 0 true false (is_fmt s) NeedsMoreInput.
Definition zero_reset (s : istream) : istream :=
  mk_is (dec_init (is_dec s)) (amake DICT 0) 0 0 true false (is_fmt s) NeedsMoreInput.
Definition full_reset (fmt : dformat) (s : istream) : istream :=
  mk_is (dec_init (is_dec s)) (amake DICT 0) 0 0 true false fmt NeedsMoreInput.

Record sresult := { sr_code : Z; sr_in : N; sr_out : list N; sr_state : istream }.

Definition is_neg (s : status) : bool := (status_code s <? 0)%Z.
Definition status_eqb (a b : status) : bool := (status_code a =? status_code b)%Z.

(* push_dict_out: deliver up to [room] pending bytes of the window *)
Definition push_dict_out (s : istream) (room : N) : list N * istream :=
  let n := N.min (is_avail s) room in
  (aget_list (is_dict s) (is_ofs s) n,
   mk_is (is_dec s) (is_dict s) (N.land (is_ofs s + n) (DICT - 1)) (is_avail s - n)
         (is_first s) (is_flushed s) (is_fmt s) (is_last s)).

Record lstate := { l_s : istream; l_in : list N; l_room : N; l_tin : N; l_rout : list N }.

Section Loop.
Variable decomp_flags : N.
Variable flush : N.
Variable orig_in_len : N.

Definition loop_turn (l : lstate) : lstate + res (Z * lstate) :=
  let s := l_s l in
  (* the dictionary slice is 32 KiB, so dict_ofs + n never leaves it; a panic of the copy
     is modelled by the guard *)
  match decompress (is_dec s) (l_in l) (is_dict s) (is_ofs s) USIZE_MAX decomp_flags with
  | Panic n => inr (Panic n)
  | OutOfFuel => inr OutOfFuel
  | Ret r =>
      let st := cr_status r in
      let s1 := mk_is (cr_dec r) (cr_buf r) (is_ofs s) (cr_out r) (is_first s) (is_flushed s) (is_fmt s) st in
      if DICT <? is_ofs s1 + N.min (is_avail s1) (l_room l) then inr (Panic 201)
      else
      let '(bytes, s2) := push_dict_out s1 (l_room l) in
      let l' := {| l_s := s2; l_in := skipn (N.to_nat (cr_in r)) (l_in l);
                   l_room := l_room l - N.of_nat (length bytes);
                   l_tin := l_tin l + cr_in r; l_rout := rev_append bytes (l_rout l) |} in
      let in_empty := match l_in l' with [] => true | _ => false end in
      if status_eqb st FailedCannotMakeProgress then inr (Ret (MZ_ERR_BUF, l'))
      else if is_neg st then inr (Ret (MZ_ERR_DATA, l'))
      else if status_eqb st NeedsMoreInput && (orig_in_len =? 0) then inr (Ret (MZ_ERR_BUF, l'))
      else if flush =? FL_FINISH then
        if status_eqb st Done then
          inr (Ret (if negb (is_avail s2 =? 0) then MZ_ERR_BUF else MZ_STREAM_END, l'))
        else if l_room l' =? 0 then inr (Ret (MZ_ERR_BUF, l'))
        else inl l'
      else
        let empty_buf := in_empty || (l_room l' =? 0) in
        if status_eqb st Done || empty_buf || negb (is_avail s2 =? 0) then
          inr (Ret (if status_eqb st Done && (is_avail s2 =? 0) then MZ_STREAM_END else MZ_OK, l'))
        else inl l'
  end.

Definition inflate_loop (l : lstate) : res (Z * lstate) :=
  match iter_pow 40 loop_turn l with
  | inl _ => OutOfFuel
  | inr r => r
  end.
End Loop.

Definition set_first (s : istream) (b : bool) : istream :=
  mk_is (is_dec s) (is_dict s) (is_ofs s) (is_avail s) b (is_flushed s) (is_fmt s) (is_last s).
Definition set_flushed (s : istream) (b : bool) : istream :=
  mk_is (is_dec s) (is_dict s) (is_ofs s) (is_avail s) (is_first s) b (is_fmt s) (is_last s).
Definition set_last (s : istream) (l : status) : istream :=
  mk_is (is_dec s) (is_dict s) (is_ofs s) (is_avail s) (is_first s) (is_flushed s) (is_fmt s) l.
Definition set_dec (s : istream) (d : dec) : istream :=
  mk_is d (is_dict s) (is_ofs s) (is_avail s) (is_first s) (is_flushed s) (is_fmt s) (is_last s).

Definition err (code : Z) (s : istream) : res sresult :=
  Ret {| sr_code := code; sr_in := 0; sr_out := []; sr_state := s |}.

(* inflate(state, input, output (of length out_len), flush) *)
Definition inflate (s : istream) (input : list N) (out_len : N) (flush : N) : res sresult :=
  if flush =? FL_FULL then err MZ_ERR_STREAM s
  else
    let flags0 := match is_fmt s with FZlib => F_COMPUTE | _ => F_IGNORE end in
    let flags0 := match is_fmt s with FRaw => flags0 | _ => N.lor flags0 F_ZLIB end in
    let first_call := is_first s in
    let s := set_first s false in
    if status_eqb (is_last s) FailedCannotMakeProgress then err MZ_ERR_BUF s
    else if is_neg (is_last s) then err MZ_ERR_DATA s
    else if is_flushed s && negb (flush =? FL_FINISH) then err MZ_ERR_STREAM s
    else
      let s := set_flushed s (is_flushed s || (flush =? FL_FINISH)) in
      if (flush =? FL_FINISH) && first_call then
        let flags := N.lor flags0 F_NONWRAP in
        r <- decompress (is_dec s) input (amake out_len 0) 0 USIZE_MAX flags ;;
        let st := cr_status r in
        let s1 := set_last (set_dec s (cr_dec r)) st in
        let '(code, s2) :=
            if status_eqb st FailedCannotMakeProgress then (MZ_ERR_BUF, s1)
            else if is_neg st then (MZ_ERR_DATA, s1)
            else if negb (status_eqb st Done) then (MZ_ERR_BUF, set_last s1 Failed)
            else (MZ_STREAM_END, s1) in
        Ret {| sr_code := code; sr_in := cr_in r; sr_out := aget_list (cr_buf r) 0 (cr_out r);
               sr_state := s2 |}
      else
        let flags := if flush =? FL_FINISH then flags0 else N.lor flags0 F_MORE in
        if negb (is_avail s =? 0) then
          _ <- guard (is_ofs s + N.min (is_avail s) out_len <=? DICT) 202 ;;
          let '(bytes, s1) := push_dict_out s out_len in
          Ret {| sr_code := if status_eqb (is_last s1) Done && (is_avail s1 =? 0) then MZ_STREAM_END else MZ_OK;
                 sr_in := 0; sr_out := bytes; sr_state := s1 |}
        else
          '(code, l) <- inflate_loop flags flush (N.of_nat (length input))
                          {| l_s := s; l_in := input; l_room := out_len; l_tin := 0; l_rout := [] |} ;;
          Ret {| sr_code := code; sr_in := l_tin l; sr_out := rev_append (l_rout l) []; sr_state := l_s l |}.

(* ------------------------------------------------------------------ decompress_to_vec_inner *)

Definition aresize (a : arr) (n : N) : arr := mkArr n (adef a) (amap a).

Record vstate := { v_dec : dec; v_in : list N; v_ret : arr; v_pos : N }.

Inductive vres := VOk (out : list N) | VErr (st : status) (out : list N).

Section Vec.
Variable flags : N.
Variable max_output_size : N.

Definition vec_turn (v : vstate) : vstate + res vres :=
  match decompress (v_dec v) (v_in v) (v_ret v) (v_pos v) USIZE_MAX flags with
  | Panic n => inr (Panic n)
  | OutOfFuel => inr OutOfFuel
  | Ret r =>
      let out_pos := v_pos v + cr_out r in
      let ret := cr_buf r in
      match cr_status r with
      | Done => inr (Ret (VOk (aget_list ret 0 out_pos)))
      | HasMoreOutput =>
          if N.of_nat (length (v_in v)) <? cr_in r then inr (Ret (VErr HasMoreOutput (ato_list ret)))
          else if max_output_size <=? alen ret then inr (Ret (VErr HasMoreOutput (ato_list ret)))
          else
            let new_len := N.min (N.min (alen ret * 2) USIZE_MAX) max_output_size in
            inl {| v_dec := cr_dec r; v_in := skipn (N.to_nat (cr_in r)) (v_in v);
                   v_ret := aresize ret new_len; v_pos := out_pos |}
      | s => inr (Ret (VErr s (ato_list ret)))
      end
  end.
End Vec.

Definition decompress_to_vec_inner (input : list N) (flags max_output_size : N) : res vres :=
  let flags := N.lor flags F_NONWRAP in
  let n := N.min (N.min (N.of_nat (length input) * 2) USIZE_MAX) max_output_size in
  match iter_pow 8 (vec_turn flags max_output_size)
                 {| v_dec := dec_default; v_in := input; v_ret := amake n 0; v_pos := 0 |} with
  | inl _ => OutOfFuel
  | inr r => r
  end.

(* ------------------------------------------------------------------ decompress_slice_iter_to_slice *)

Fixpoint slice_iter (r : dec) (o : arr) (out_pos : N) (zlib ignore : bool) (slices : list (list N))
  : res (status * N * arr) :=
  match slices with
  | [] => Ret (FailedCannotMakeProgress, out_pos, o)
  | in_buf :: rest =>
      let has_more := match rest with [] => false | _ => true end in
      let f := F_NONWRAP + (if zlib then F_ZLIB else 0) + (if ignore then F_IGNORE else 0)
               + (if has_more then F_MORE else 0) in
      cr <- decompress r in_buf o out_pos USIZE_MAX f ;;
      let out_pos := out_pos + cr_out cr in
      match cr_status cr with
      | NeedsMoreInput => slice_iter (cr_dec cr) (cr_buf cr) out_pos zlib ignore rest
      | s => Ret (s, out_pos, cr_buf cr)
      end
  end.

Definition decompress_slice_iter_to_slice (out_len : N) (slices : list (list N)) (zlib ignore : bool)
  : res (status * N * arr) :=
  slice_iter dec_default (amake out_len 0) 0 zlib ignore slices.
