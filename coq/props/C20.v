(* C20 -- the core crate is safe Rust in every configuration.
   The textual half, decided by the kernel on the CURRENT sources (coq/gen/GenSources.v is
   regenerated from /repo on every run): no `unsafe` token outside comments and literals in any
   file under miniz_oxide/src (compiled-in or not), lib.rs carries #![forbid(unsafe_code)] and
   #![cfg_attr(not(feature = "std"), no_std)].  Feature-matrix builds under -F unsafe_code, the
   no_std/no-alloc build and the Send/Sync/Clone/'static assertions are rustc verdicts and form
   the implementation side of the correspondence (PARTIAL by nature, see DESIGN.md C20). *)
From Coq Require Import List String Bool.
From MZ.gen Require Import GenSources.
From MZ.model Require Import Scan.
Import ListNotations.
Local Open Scope string_scope.

Theorem C20_no_unsafe_token_in_any_source_file :
  forallb (fun f => no_unsafe (snd f)) sources = true.
Proof. vm_compute. reflexivity. Qed.

Theorem C20_forbid_and_no_std_attributes_present :
  existsb (fun f => String.eqb (fst f) "src/lib.rs" && has_forbid_unsafe (snd f) && has_no_std_attr (snd f))
          sources = true.
Proof. vm_compute. reflexivity. Qed.

(* the scanner discriminates: it sees the token in code, not in comments / strings / raw strings *)
Example C20_scanner_sees_unsafe : no_unsafe ["fn f() { unsafe { g() } }"] = false.
Proof. reflexivity. Qed.
Example C20_scanner_ignores_comments_and_literals :
  no_unsafe ["// unsafe"; "/* unsafe /* nested unsafe */ still unsafe */ let s = ""unsafe \"" unsafe"";";
             "let r = r#""unsafe "" unsafe""#; let c = '""'; let l: &'static str = ""x""; unsafe_code();"] = true.
Proof. reflexivity. Qed.
Example C20_scanner_after_literals : no_unsafe ["let s = ""a""; unsafe {}"] = false.
Proof. reflexivity. Qed.
Example C20_scanner_unterminated_comment : no_unsafe ["/* open"] = false.
Proof. reflexivity. Qed.
