(* C13 -- streaming inflate obeys its status protocol.  Proved on the model of inflate():
   full-flush requests, sticky errors, non-Finish after Finish, and - for every state reachable
   from a constructor, every input, output length and flush value - counts within the offered
   buffers with the window bookkeeping preserved (on top of the core frame theorem).  Progress
   and the stream-end clauses are decided per explored run. *)
From Coq Require Import NArith ZArith List.
From MZ.lib Require Import Mach.
From MZ.model Require Import InflateCore InflateStream.
From MZ.proofs Require Import Protocol InflateStreamCounts.
Import ListNotations.
Local Open Scope N_scope.

Theorem C13_full_flush_is_stream_error :
  forall s input out_len,
  inflate s input out_len FL_FULL
  = Ret {| sr_code := MZ_ERR_STREAM; sr_in := 0; sr_out := []; sr_state := s |}.
Proof. exact inflate_full_flush. Qed.

Theorem C13_errors_are_sticky :
  forall s input out_len flush,
  flush <> FL_FULL -> is_neg (is_last s) = true ->
  exists code,
    inflate s input out_len flush
    = Ret {| sr_code := code; sr_in := 0; sr_out := []; sr_state := set_first s false |}
    /\ (code = MZ_ERR_BUF \/ code = MZ_ERR_DATA)
    /\ (code = MZ_ERR_DATA <-> status_eqb (is_last s) FailedCannotMakeProgress = false)
    /\ is_last (set_first s false) = is_last s.
Proof. exact inflate_sticky_error. Qed.

Theorem C13_nonfinish_after_finish :
  forall s input out_len flush,
  flush <> FL_FULL -> flush <> FL_FINISH -> is_neg (is_last s) = false -> is_flushed s = true ->
  inflate s input out_len flush
  = Ret {| sr_code := MZ_ERR_STREAM; sr_in := 0; sr_out := []; sr_state := set_first s false |}.
Proof. exact inflate_nonfinish_after_finish. Qed.

Theorem C13_counts_within_offered_buffers :
  forall s input out_len flush r,
  WF s -> out_len <= USIZE_MAX ->
  inflate s input out_len flush = Ret r ->
  sr_in r <= N.of_nat (length input) /\ N.of_nat (length (sr_out r)) <= out_len /\ WF (sr_state r).
Proof. exact inflate_counts. Qed.

(* WF (window length 32768, dict_ofs + dict_avail <= 32768) holds for every constructor and reset policy, and by the
   theorem above after every call: it is an invariant of all reachable states *)
Theorem C13_wf_of_constructors :
  forall fmt s, WF (is_new fmt) /\ (WF s -> WF (min_reset s) /\ WF (zero_reset s) /\ WF (full_reset fmt s)).
Proof.
  intros fmt s. split; [apply WF_new|]. intros H.
  split; [apply WF_min_reset|split; [apply WF_zero_reset|apply WF_full_reset]]; exact H.
Qed.
