(* C13 -- streaming inflate obeys its status protocol.  Proved on the model of inflate():
   full-flush requests, sticky errors, non-Finish after Finish.  Counts, progress and the
   stream-end clauses rest on the core contract and are decided per explored run. *)
From Coq Require Import NArith ZArith List.
From MZ.lib Require Import Mach.
From MZ.model Require Import InflateCore InflateStream.
From MZ.proofs Require Import Protocol.
Import ListNotations.
Local Open Scope N_scope.

Theorem C13_full_flush_is_stream_error :
  forall s input out_len,
  inflate s input out_len FL_FULL
  = Ret {| sr_code := MZ_ERR_STREAM; sr_in := 0; sr_out := []; sr_state := s |}.
Proof. exact inflate_full_flush. Qed.

Theorem C13_errors_are_sticky :
  forall s input out_len flush,
  flush <> FL_FULL -> is_neg (is_last s) = true ->
  exists code,
    inflate s input out_len flush
    = Ret {| sr_code := code; sr_in := 0; sr_out := []; sr_state := set_first s false |}
    /\ (code = MZ_ERR_BUF \/ code = MZ_ERR_DATA)
    /\ (code = MZ_ERR_DATA <-> status_eqb (is_last s) FailedCannotMakeProgress = false)
    /\ is_last (set_first s false) = is_last s.
Proof. exact inflate_sticky_error. Qed.

Theorem C13_nonfinish_after_finish :
  forall s input out_len flush,
  flush <> FL_FULL -> flush <> FL_FINISH -> is_neg (is_last s) = false -> is_flushed s = true ->
  inflate s input out_len flush
  = Ret {| sr_code := MZ_ERR_STREAM; sr_in := 0; sr_out := []; sr_state := set_first s false |}.
Proof. exact inflate_nonfinish_after_finish. Qed.
