(* C13 -- streaming inflate obeys its status protocol.  Proved on the model of inflate():
   full-flush requests, sticky errors, non-Finish after Finish, and - for every state reachable
   from a constructor, every input, output length and flush value - counts within the offered
   buffers with the window bookkeeping preserved (on top of the core frame theorem).  Progress
   and the stream-end clauses are decided per explored run - and PROVED for streams of stored blocks
   (raw, zlib with the right trailer, zlib with the trailer ignored) under every sequence of calls that do
   not ask for Finish or a full flush (C13_inflate_on_stored_streams_partial; the trailer may hold ANY value):
   every call returns, the codes are MZ_OK / MZ_STREAM_END / MZ_BUF_ERROR (only for a call without input
   while nothing is pending) / MZ_DATA_ERROR (only for a checked trailer that is wrong; it then sticks), the
   bytes handed out are always a prefix of the plaintext, and MZ_STREAM_END is reported only when all of it
   has been handed out and the trailer is right.  Under the wrapper the decoder runs on the 32 KiB ring at a moving
   offset; the proof composes the decoder invariant with the ring bookkeeping (dict_ofs, dict_avail). *)
From Coq Require Import NArith ZArith List Bool.
From MZ.lib Require Import Mach.
From MZ.model Require Import InflateCore InflateStream.
From MZ.spec Require Import Adler Zlib.
From MZ.proofs Require Import Protocol InflateStreamCounts StoredSpec InflateStoredStream InflateStreamProgress InflateStoredFinishTruncated InflateStoredStable.
Import ListNotations.
Local Open Scope N_scope.

Theorem C13_full_flush_is_stream_error :
  forall s input out_len,
  inflate s input out_len FL_FULL
  = Ret {| sr_code := MZ_ERR_STREAM; sr_in := 0; sr_out := []; sr_state := s |}.
Proof. exact inflate_full_flush. Qed.

Theorem C13_errors_are_sticky :
  forall s input out_len flush,
  flush <> FL_FULL -> is_neg (is_last s) = true ->
  exists code,
    inflate s input out_len flush
    = Ret {| sr_code := code; sr_in := 0; sr_out := []; sr_state := set_first s false |}
    /\ (code = MZ_ERR_BUF \/ code = MZ_ERR_DATA)
    /\ (code = MZ_ERR_DATA <-> status_eqb (is_last s) FailedCannotMakeProgress = false)
    /\ is_last (set_first s false) = is_last s.
Proof. exact inflate_sticky_error. Qed.

Theorem C13_nonfinish_after_finish :
  forall s input out_len flush,
  flush <> FL_FULL -> flush <> FL_FINISH -> is_neg (is_last s) = false -> is_flushed s = true ->
  inflate s input out_len flush
  = Ret {| sr_code := MZ_ERR_STREAM; sr_in := 0; sr_out := []; sr_state := set_first s false |}.
Proof. exact inflate_nonfinish_after_finish. Qed.

Theorem C13_counts_within_offered_buffers :
  forall s input out_len flush r,
  WF s -> out_len <= USIZE_MAX ->
  inflate s input out_len flush = Ret r ->
  sr_in r <= N.of_nat (length input) /\ N.of_nat (length (sr_out r)) <= out_len /\ WF (sr_state r).
Proof. exact inflate_counts. Qed.

(* WF (window length 32768, dict_ofs + dict_avail <= 32768) holds for every constructor and reset policy, and by the
   theorem above after every call: it is an invariant of all reachable states *)
Theorem C13_wf_of_constructors :
  forall fmt s, WF (is_new fmt) /\ (WF s -> WF (min_reset s) /\ WF (zero_reset s) /\ WF (full_reset fmt s)).
Proof.
  intros fmt s. split; [apply WF_new|]. intros H.
  split; [apply WF_min_reset|split; [apply WF_zero_reset|apply WF_full_reset]]; exact H.
Qed.

Theorem C13_inflate_on_stored_streams_partial :
  forall fmt cmf flg A chunks last extra (calls : list (list N * N * N)) later,
  cmf < 256 -> flg < 256 -> valid_header (Z.of_N cmf) (Z.of_N flg) = true -> A < 2 ^ 32 ->
  chunks_ok chunks -> bytes_ok last -> N.of_nat (length last) <= 65535 ->
  let data := concat chunks ++ last in
  let zl := zl_of fmt in
  let stream := (if zl then [cmf; flg] else []) ++ stored_stream chunks last ++ (if zl then be32 A else []) in
  let offered := concat (map (fun it : list N * N * N => fst (fst it)) calls) in
  Forall (fun it : list N * N * N => snd it <> FL_FINISH /\ snd it <> FL_FULL) calls ->
  offered ++ later = stream ++ extra ->
  N.of_nat (length offered) < 2 ^ 57 -> N.of_nat (length data) < 2 ^ 40 ->
  exists codes acc s',
    sfeed (is_new fmt) [] calls [] [] = Ret (codes, acc, s') /\
    Forall code_ok codes /\ acc = firstn (length acc) data /\
    (In MZ_STREAM_END codes -> acc = data /\ (fmt = FZlib -> adler32 1 data = A)) /\
    (In MZ_ERR_DATA codes -> fmt = FZlib /\ adler32 1 data <> A).
Proof. exact inflate_on_stored_streams_any_trailer. Qed.

(* non-vacuity: a zlib stream of two stored blocks through inflate() with 3 bytes of input and 2 bytes of
   output space per call, then calls without input: the codes end with MZ_STREAM_END and everything is out *)
Example C13_inflate_small_buffers :
  let data := [97; 98; 99; 100; 101] in
  let stream := 120 :: 1 :: stored_stream [[97; 98; 99]] [100; 101] ++ be32 (adler32 1 data) in
  let calls := map (fun i => (firstn 3 (skipn (3 * i) stream), 2, 0)) (seq 0 7) ++ [([], 2, 0); ([], 2, 2)] in
  match sfeed (is_new FZlib) [] calls [] [] with
  | Ret (codes, acc, _) => acc = data /\ last codes 0%Z = MZ_STREAM_END /\ hd 0%Z codes = MZ_OK
  | _ => False
  end.
Proof. vm_compute. repeat split; reflexivity. Qed.

(* the one-call use (how mz_uncompress drives the wrapper): Finish on a fresh object with the whole stream and an
   output of more than the plaintext's length: MZ_STREAM_END, exactly the stream consumed, exactly the plaintext *)
Theorem C13_inflate_finish_on_fresh_object_partial :
  forall fmt cmf flg chunks last extra out_len,
  cmf < 256 -> flg < 256 -> valid_header (Z.of_N cmf) (Z.of_N flg) = true ->
  chunks_ok chunks -> bytes_ok last -> N.of_nat (length last) <= 65535 ->
  let data := concat chunks ++ last in
  let zl := zl_of fmt in
  let stream := (if zl then [cmf; flg] else []) ++ stored_stream chunks last ++ (if zl then be32 (adler32 1 data) else []) in
  N.of_nat (length data) < out_len -> out_len <= USIZE_MAX -> N.of_nat (length (stream ++ extra)) < 2 ^ 57 ->
  exists r, inflate (is_new fmt) (stream ++ extra) out_len FL_FINISH = Ret r /\
    sr_code r = MZ_STREAM_END /\ sr_in r = N.of_nat (length stream) /\ sr_out r = data.
Proof. exact inflate_finish_fresh. Qed.

(* the progress clause, for EVERY input (a valid stream or not) and every flush value: a call of inflate() given
   non-empty input and a non-empty output buffer that reports MZ_OK has consumed at least one byte or delivered at
   least one byte - every other code is a terminal or error result - for every state satisfying the window
   bookkeeping invariant with the offset inside the window, which every constructor, reset and call preserves *)
Theorem C13_ok_means_progress :
  forall s input out_len flush r,
  WFo s -> input <> [] -> (0 < out_len)%N ->
  inflate s input out_len flush = Ret r -> sr_code r = MZ_OK ->
  (0 < sr_in r)%N \/ sr_out r <> [].
Proof. exact inflate_progress. Qed.

Theorem C13_progress_invariant_is_reachable :
  forall fmt s input out_len flush r,
  WFo (is_new fmt) /\
  (WFo s -> WFo (min_reset s) /\ WFo (zero_reset s) /\ WFo (full_reset fmt s) /\
            ((out_len <= USIZE_MAX)%N -> inflate s input out_len flush = Ret r -> WFo (sr_state r))).
Proof.
  intros fmt s input out_len flush r. split; [apply WFo_new|]. intros H.
  split; [apply WFo_min_reset; exact H|]. split; [apply WFo_zero_reset; exact H|].
  split; [apply WFo_full_reset; exact H|]. intros Hol Hr. exact (inflate_WFo s input out_len flush r H Hol Hr).
Qed.

Example C13_ok_with_progress :
  match inflate (is_new FZlib) [120; 1; 0; 3] 10 0 with
  | Ret r => sr_code r = MZ_OK /\ sr_in r = 4%N
  | _ => False
  end.
Proof. vm_compute. split; reflexivity. Qed.

(* "a finish request on a truncated stream is a buffer error", on streams of stored blocks: Finish on a fresh object
   with a stream cut anywhere inside it (what is withheld is longer than what follows the stream) reports MZ_ERR_BUF,
   whatever the output length; what it handed out is a prefix of the plaintext *)
Theorem C13_finish_on_truncated_stored_stream_is_buffer_error_partial :
  forall fmt cmf flg A chunks last extra input fut out_len,
  cmf < 256 -> flg < 256 -> valid_header (Z.of_N cmf) (Z.of_N flg) = true -> A < 2 ^ 32 ->
  chunks_ok chunks -> bytes_ok last -> N.of_nat (length last) <= 65535 ->
  let zl := zl_of fmt in
  let stream := (if zl then [cmf; flg] else []) ++ stored_stream chunks last ++ (if zl then be32 A else []) in
  input ++ fut = stream ++ extra -> N.of_nat (length extra) < N.of_nat (length fut) ->
  out_len <= USIZE_MAX -> N.of_nat (length input) < 2 ^ 57 ->
  exists r, inflate (is_new fmt) input out_len FL_FINISH = Ret r /\ sr_code r = MZ_ERR_BUF /\
            sr_in r <= N.of_nat (length input) /\
            sr_out r = firstn (length (sr_out r)) (concat chunks ++ last).
Proof. exact inflate_finish_truncated. Qed.

Example C13_finish_truncated :
  match inflate (is_new FZlib) [120; 1; 1; 3; 0; 252; 255; 7; 8] 10 FL_FINISH with
  | Ret r => sr_code r = MZ_ERR_BUF /\ sr_out r = [7; 8]
  | _ => False
  end.
Proof. vm_compute. split; reflexivity. Qed.

(* "stream-end ... is stable afterwards", on streams of stored blocks: after ANY sequence of calls (without Finish / Full)
   that has brought the object to the end of the stream (last status Done, nothing pending in the window), all
   plaintext has been handed out, and a further call given input and output space reports MZ_STREAM_END again, consuming
   nothing and writing nothing.  (sfeedp is the caller's loop sfeed, returning also the input the last call left) *)
Theorem C13_stream_end_is_stable_on_stored_streams_partial :
  forall fmt cmf flg A chunks last extra calls later codes acc s' left piece out_len flush,
  cmf < 256 -> flg < 256 -> valid_header (Z.of_N cmf) (Z.of_N flg) = true -> A < 2 ^ 32 ->
  chunks_ok chunks -> bytes_ok last -> N.of_nat (length last) <= 65535 ->
  let data := concat chunks ++ last in
  let zl := zl_of fmt in
  let stream := (if zl then [cmf; flg] else []) ++ stored_stream chunks last ++ (if zl then be32 A else []) in
  let offered := concat (map (fun it : list N * N * N => fst (fst it)) calls) in
  Forall (fun it : list N * N * N => snd it <> FL_FINISH /\ snd it <> FL_FULL) calls ->
  offered ++ piece ++ later = stream ++ extra ->
  N.of_nat (length (offered ++ piece)) < 2 ^ 57 -> N.of_nat (length data) < 2 ^ 40 ->
  sfeedp (is_new fmt) [] calls [] [] = Ret (codes, acc, s', left) ->
  is_last s' = Done -> is_avail s' = 0 ->
  left ++ piece <> [] -> 0 < out_len -> flush <> FL_FINISH -> flush <> FL_FULL ->
  acc = data /\
  exists r, inflate s' (left ++ piece) out_len flush = Ret r /\
            sr_code r = MZ_STREAM_END /\ sr_in r = 0 /\ sr_out r = [].
Proof. exact stream_end_stable_after_any_schedule. Qed.

Example C13_stream_end_stable_runs :
  let data := [97; 98; 99; 100; 101] in
  let stream := 120 :: 1 :: stored_stream [[97; 98; 99]] [100; 101] ++ be32 (adler32 1 data) in
  match sfeedp (is_new FZlib) [] [(stream ++ [9; 9], 100, 0)] [] [] with
  | Ret (codes, acc, s', lft) =>
      codes = [MZ_STREAM_END] /\ acc = data /\ is_last s' = Done /\ is_avail s' = 0 /\ lft = [9; 9] /\
      match inflate s' lft 10 0 with
      | Ret r => sr_code r = MZ_STREAM_END /\ sr_in r = 0 /\ sr_out r = []
      | _ => False
      end
  | _ => False
  end.
Proof. vm_compute. repeat split; reflexivity. Qed.
