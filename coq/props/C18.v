(* C18 -- reset restores fresh behaviour; results are deterministic.
   Determinism is definitional: the models are Coq functions of their arguments.
   Proved on the models: CompressorOxide::reset yields exactly the freshly constructed compressor
   (record equality on the modelled state); ZeroReset/FullReset restore every field of the
   streaming inflater except the low-level decoder, which is re-initialised by init();
   MinReset keeps the window and IS distinguishable from a fresh object (refutation with a
   concrete witness = known finding F3).  That init() hides all stale decoder fields (liveness
   relation, DESIGN.md C18) is open; it is decided per explored history against fresh objects. *)
From Coq Require Import NArith ZArith List Bool.
From MZ.lib Require Import Arr Mach.
From MZ.model Require Import InflateCore InflateStream.
From MZ.model Require DeflateCore.
Import ListNotations.
Local Open Scope N_scope.

Theorem C18_compressor_reset_is_fresh :
  forall c, DeflateCore.comp_reset c = DeflateCore.comp_new (DeflateCore.c_flags c) (DeflateCore.c_wbits c).
Proof. reflexivity. Qed.

Theorem C18_inflate_reset_policies :
  forall s fmt,
  full_reset fmt s = mk_is (dec_init (is_dec s)) (is_dict (is_new fmt)) (is_ofs (is_new fmt)) (is_avail (is_new fmt))
                           (is_first (is_new fmt)) (is_flushed (is_new fmt)) fmt (is_last (is_new fmt))
  /\ zero_reset s = full_reset (is_fmt s) s
  /\ d_state (dec_init (is_dec s)) = d_state dec_default.
Proof. intros s fmt. repeat split. Qed.

(* F3: after decoding a one-byte stream, MinReset and a fresh object decode the stream
   "match(len 3, dist 32768); end" differently *)
Definition f3_history : list N := [1; 1; 0; 254; 255; 65].       (* stored block "A" *)
Definition f3_stream : list N := [3; 222; 255; 15; 0].
Definition f3_out (s : istream) : option (list N) :=
  match inflate s f3_stream 100 0 with Ret r => Some (sr_out r) | _ => None end.
Definition f3_after_history : option istream :=
  match inflate (is_new FRaw) f3_history 100 0 with Ret r => Some (sr_state r) | _ => None end.

Definition f3_state : istream :=
  match f3_after_history with Some s => s | None => is_new FRaw end.

Theorem C18_minreset_refuted :
  f3_after_history = Some f3_state /\
  f3_out (min_reset f3_state) = Some [65; 0; 0] /\ f3_out (is_new FRaw) = Some [0; 0; 0] /\
  f3_out (zero_reset f3_state) = Some [0; 0; 0].
Proof. split; [|split; [|split]]; vm_compute; reflexivity. Qed.
