(* C17 -- the C-ABI shim: exact accounting and error mapping.
   Proved: the accounting the shim performs around a stream call (pointer advance = drop in avail
   = rise in the wrapping total, never beyond what was available), and - on functions
   REGENERATED from the source - the flush-value mapping and the window-bits validation.
   PARTIAL BY NATURE: that the `unsafe` slice constructions, Box hand-offs and catch_unwind behave
   like the model's regions is Rust/OS semantics; it is exercised with guard pages per run. *)
From Coq Require Import NArith ZArith Bool.
From MZ.gen Require Import GenZlib.
From MZ.model Require Import Capi.
From MZ.proofs Require Import CapiProofs.

Theorem C17_stream_accounting :
  forall s c w s',
  (total_in s < C_ULONG)%N -> (total_out s < C_ULONG)%N -> (c < C_ULONG)%N -> (w < C_ULONG)%N ->
  mz_apply s c w = Some s' ->
  (next_in s' - next_in s = c /\ avail_in s - avail_in s' = c /\
   (total_in s' + C_ULONG - total_in s) mod C_ULONG = c /\
   next_in s' + avail_in s' = next_in s + avail_in s /\
   next_out s' - next_out s = w /\ avail_out s - avail_out s' = w /\
   (total_out s' + C_ULONG - total_out s) mod C_ULONG = w /\
   next_out s' + avail_out s' = next_out s + avail_out s)%N.
Proof. exact mz_apply_accounting. Qed.

Theorem C17_flush_mapping :
  forall f, (f < 0 \/ 4 < f)%Z -> fst (mzflush_new f) = (1, -10000)%Z.
Proof. exact mzflush_new_error. Qed.

Theorem C17_window_bits_check :
  forall w, (-2147483648 < w <= 2147483647)%Z ->
  invalid_window_bits w = (negb ((w =? 15) || (w =? -15))%Z, true).
Proof. exact invalid_window_bits_spec. Qed.
