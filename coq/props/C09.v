(* C09 -- zlib framing is produced correctly and verified on decode (header part).
   Statements are about the definitions regenerated from deflate/zlib.rs and inflate/core.rs. *)
From Coq Require Import ZArith Bool.
From MZ.gen Require Import GenZlib.
From MZ.spec Require Import Zlib.
From MZ.proofs Require Import ZlibHeader.
Local Open Scope Z_scope.

(* The header the compressor writes, for every flag word and every window_bits value the
   constructors can store: no debug-build panic, method 8, window field = max(wb,8)-8 <= 7,
   no preset dictionary, 16-bit value divisible by 31. *)
Theorem C09_header_valid :
  forall flags wb, 0 <= wb <= 15 ->
  let '((cmf, flg), ok) := header_from_flags flags wb in
  ok = true /\
  (cmf * 256 + flg) mod 31 = 0 /\ cmf mod 16 = 8 /\
  cmf / 16 = Z.max 0 (wb - 8) /\ cmf / 16 <= 7 /\ Z.land flg 32 = 0 /\
  0 <= cmf < 256 /\ 0 <= flg < 256 /\ valid_header cmf flg = true.
Proof. exact header_from_flags_valid. Qed.

(* The decoder's header check: rejects exactly the headers RFC 1950 makes invalid for this
   library, plus - for a ring buffer - a declared window larger than the buffer. *)
Theorem C09_header_check :
  forall cmf flg flags mask,
  0 <= cmf < 256 -> 0 <= flg < 256 -> 0 <= mask < 2 ^ 64 - 1 ->
  let wrapping := Z.land flags 4 =? 0 in
  let too_small := mask + 1 <? header_window cmf in
  validate_zlib_header cmf flg flags mask
  = ((tag_Action_Jump,
      if negb (valid_header cmf flg) || (wrapping && too_small)
      then e_State_BadZlibHeader else e_State_ReadBlockHeader), true).
Proof. exact validate_zlib_header_spec. Qed.

(* non-vacuity: the most common header 78 9C is accepted, 78 9D is not *)
Example C09_accepts_789c : valid_header 120 156 = true. Proof. reflexivity. Qed.
Example C09_rejects_789d : valid_header 120 157 = false. Proof. reflexivity. Qed.
