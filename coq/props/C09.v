(* C09 -- zlib framing is produced correctly and verified on decode (header part).
   Statements are about the definitions regenerated from deflate/zlib.rs and inflate/core.rs. *)
From Coq Require Import ZArith Bool.
From MZ.gen Require Import GenZlib.
From MZ.spec Require Import Zlib.
From MZ.proofs Require Import ZlibHeader.
From Coq Require Import NArith List.
From MZ.lib Require Arr Mach.
From MZ.spec Require Adler.
From MZ.model Require InflateCore.
From MZ.proofs Require StoredSpec InflateStoredZ.
Import ListNotations.
Local Open Scope Z_scope.

(* The header the compressor writes, for every flag word and every window_bits value the
   constructors can store: no debug-build panic, method 8, window field = max(wb,8)-8 <= 7,
   no preset dictionary, 16-bit value divisible by 31. *)
Theorem C09_header_valid :
  forall flags wb, 0 <= wb <= 15 ->
  let '((cmf, flg), ok) := header_from_flags flags wb in
  ok = true /\
  (cmf * 256 + flg) mod 31 = 0 /\ cmf mod 16 = 8 /\
  cmf / 16 = Z.max 0 (wb - 8) /\ cmf / 16 <= 7 /\ Z.land flg 32 = 0 /\
  0 <= cmf < 256 /\ 0 <= flg < 256 /\ valid_header cmf flg = true.
Proof. exact header_from_flags_valid. Qed.

(* The decoder's header check: rejects exactly the headers RFC 1950 makes invalid for this
   library, plus - for a ring buffer - a declared window larger than the buffer. *)
Theorem C09_header_check :
  forall cmf flg flags mask,
  0 <= cmf < 256 -> 0 <= flg < 256 -> 0 <= mask < 2 ^ 64 - 1 ->
  let wrapping := Z.land flags 4 =? 0 in
  let too_small := mask + 1 <? header_window cmf in
  validate_zlib_header cmf flg flags mask
  = ((tag_Action_Jump,
      if negb (valid_header cmf flg) || (wrapping && too_small)
      then e_State_BadZlibHeader else e_State_ReadBlockHeader), true).
Proof. exact validate_zlib_header_spec. Qed.

(* non-vacuity: the most common header 78 9C is accepted, 78 9D is not *)
Example C09_accepts_789c : valid_header 120 156 = true. Proof. reflexivity. Qed.
Example C09_rejects_789d : valid_header 120 157 = false. Proof. reflexivity. Qed.

(* The trailer, for zlib-framed streams of stored blocks (the language level 0 emits): the decoder model
   M_inf reports Done exactly when the four trailer bytes are the big-endian Adler-32 of the payload (or
   the caller switched checking off) and Adler32Mismatch otherwise; either way the whole stream is consumed
   and the payload delivered.  Full statement (every DEFLATE body) is open, decided per explored run. *)
Theorem C09_trailer_checked_on_stored_streams_partial :
  forall flags cmf flg A chunks last o res,
  (InflateCore.has flags InflateCore.F_ZLIB = true -> InflateCore.has flags InflateCore.F_STOPBB = false ->
   InflateCore.has flags InflateCore.F_NONWRAP = true ->
   cmf < 256 -> flg < 256 -> valid_header (Z.of_N cmf) (Z.of_N flg) = true -> A < 2 ^ 32 ->
   StoredSpec.chunks_ok chunks -> StoredSpec.bytes_ok last -> N.of_nat (length last) <= 65535 ->
   N.of_nat (length (concat chunks ++ last)) <= Arr.alen o -> Arr.alen o <= Mach.USIZE_MAX ->
   let data := (concat chunks ++ last)%list in
   let input := (cmf :: flg :: StoredSpec.stored_stream chunks last ++ StoredSpec.be32 A)%list in
   InflateCore.decompress InflateCore.dec_default input o 0 Mach.USIZE_MAX flags = Mach.Ret res ->
   InflateCore.cr_status res
   = (if orb (InflateCore.has flags InflateCore.F_IGNORE) (Adler.adler32 1 data =? A)
      then InflateCore.Done else InflateCore.Adler32Mismatch) /\
   InflateCore.cr_in res = N.of_nat (length input) /\
   InflateCore.cr_out res = N.of_nat (length data) /\
   Arr.aget_list (InflateCore.cr_buf res) 0 (InflateCore.cr_out res) = data)%N.
Proof. exact InflateStoredZ.decompress_zlib_stored_stream. Qed.

(* non-vacuity: header 78 01, blocks "abc" / "de", right and wrong trailer *)
Example C09_trailer_right_and_wrong :
  let body := StoredSpec.stored_stream [[97; 98; 99]%N]%list [100; 101]%N%list in
  let A := Adler.adler32 1 [97; 98; 99; 100; 101]%N%list in
  match InflateCore.decompress InflateCore.dec_default ((120%N :: 1%N :: body ++ StoredSpec.be32 A)%list) (Arr.amake 5 0) 0 Mach.USIZE_MAX 5,
        InflateCore.decompress InflateCore.dec_default ((120%N :: 1%N :: body ++ StoredSpec.be32 (A + 1)%N)%list) (Arr.amake 5 0) 0 Mach.USIZE_MAX 5 with
  | Mach.Ret r1, Mach.Ret r2 => InflateCore.cr_status r1 = InflateCore.Done /\ InflateCore.cr_status r2 = InflateCore.Adler32Mismatch
  | _, _ => False
  end.
Proof. vm_compute. split; reflexivity. Qed.
