(* C05 -- decoding arbitrary bytes is total: parameter validation and absorbing failure
   states, over every decoder value / input / buffer / flag word.  (The no-panic and
   termination clauses are added in proofs/InflateSafe as they are proved; see DESIGN.md.) *)
From Coq Require Import NArith Bool.
From MZ.lib Require Import Arr Mach.
From MZ.model Require Import InflateCore.
From MZ.proofs Require Import InflateBasic InflateFrame3.
Local Open Scope N_scope.

Theorem C05_bad_geometry_is_param_error :
  forall r inp o out_pos out_max flags,
  geometry_ok o out_pos flags = false ->
  decompress r inp o out_pos out_max flags
  = Ret {| cr_status := BadParam; cr_in := 0; cr_out := 0; cr_buf := o; cr_dec := r |}.
Proof. exact decompress_bad_geometry. Qed.

Theorem C05_failure_is_absorbing :
  forall r inp o out_pos out_max flags,
  is_failure (d_state r) = true ->
  geometry_ok o out_pos flags = true ->
  alen o <= USIZE_MAX ->
  d_num_bits r < 64 ->
  exists r',
    decompress r inp o out_pos out_max flags
    = Ret {| cr_status := Failed; cr_in := 0; cr_out := 0; cr_buf := o; cr_dec := r' |}
    /\ d_state r' = d_state r /\ is_failure (d_state r') = true
    /\ d_num_bits r' = d_num_bits r
    /\ d_bit_buf r' = N.land (d_bit_buf r) (N.ones (d_num_bits r)).
Proof. exact decompress_failure_absorbing. Qed.

(* counters within bounds on every normal return *)
Theorem C05_counts_within_bounds :
  forall r input o out_pos out_max flags res,
  alen o <= USIZE_MAX ->
  decompress r input o out_pos out_max flags = Ret res ->
  cr_in res <= N.of_nat (length input) /\ cr_out res <= N.min out_max (alen o - out_pos).
Proof.
  intros r input o out_pos out_max flags res H1 H2.
  destruct (decompress_frame r input o out_pos out_max flags res H1 H2) as (A & B & _).
  split; assumption.
Qed.

(* non-vacuity: a non-power-of-two ring is bad geometry; a failed decoder exists *)
Example C05_geometry_example : geometry_ok (amake 3 0) 0 0 = false. Proof. reflexivity. Qed.
Example C05_failure_example :
  match decompress dec_default (7 :: nil) (amake 8 0) 0 USIZE_MAX 4 with
  | Ret r => is_failure (d_state (cr_dec r)) = true /\ d_num_bits (cr_dec r) < 64
  | _ => False
  end.
Proof. vm_compute. split; reflexivity. Qed.
