(* C05 -- decoding arbitrary bytes is total: parameter validation and absorbing failure
   states, over every decoder value / input / buffer / flag word.  (The no-panic and
   termination clauses are added in proofs/InflateSafe as they are proved; see DESIGN.md.)
   The return clause is proved for inputs that are streams of stored blocks (raw or zlib) followed by
   arbitrary bytes, under every schedule of input slices and output budgets: each call of the model
   returns a value - no debug-profile panic, no exhausted fuel (C05_returns_on_stored_streams_partial). *)
From Coq Require Import NArith ZArith List Bool.
From MZ.lib Require Import Arr Mach.
From MZ.model Require Import InflateCore.
From MZ.spec Require Import Zlib.
From MZ.proofs Require Import InflateBasic InflateFrame3 StoredSpec InflateStoredTotal.
Local Open Scope N_scope.

Theorem C05_bad_geometry_is_param_error :
  forall r inp o out_pos out_max flags,
  geometry_ok o out_pos flags = false ->
  decompress r inp o out_pos out_max flags
  = Ret {| cr_status := BadParam; cr_in := 0; cr_out := 0; cr_buf := o; cr_dec := r |}.
Proof. exact decompress_bad_geometry. Qed.

Theorem C05_failure_is_absorbing :
  forall r inp o out_pos out_max flags,
  is_failure (d_state r) = true ->
  geometry_ok o out_pos flags = true ->
  alen o <= USIZE_MAX ->
  d_num_bits r < 64 ->
  exists r',
    decompress r inp o out_pos out_max flags
    = Ret {| cr_status := Failed; cr_in := 0; cr_out := 0; cr_buf := o; cr_dec := r' |}
    /\ d_state r' = d_state r /\ is_failure (d_state r') = true
    /\ d_num_bits r' = d_num_bits r
    /\ d_bit_buf r' = N.land (d_bit_buf r) (N.ones (d_num_bits r)).
Proof. exact decompress_failure_absorbing. Qed.

(* counters within bounds on every normal return *)
Theorem C05_counts_within_bounds :
  forall r input o out_pos out_max flags res,
  alen o <= USIZE_MAX ->
  decompress r input o out_pos out_max flags = Ret res ->
  cr_in res <= N.of_nat (length input) /\ cr_out res <= N.min out_max (alen o - out_pos).
Proof.
  intros r input o out_pos out_max flags res H1 H2.
  destruct (decompress_frame r input o out_pos out_max flags res H1 H2) as (A & B & _).
  split; assumption.
Qed.

(* non-vacuity: a non-power-of-two ring is bad geometry; a failed decoder exists *)
Example C05_geometry_example : geometry_ok (amake 3 0) 0 0 = false. Proof. reflexivity. Qed.
Example C05_failure_example :
  match decompress dec_default (7 :: nil) (amake 8 0) 0 USIZE_MAX 4 with
  | Ret r => is_failure (d_state (cr_dec r)) = true /\ d_num_bits (cr_dec r) < 64
  | _ => False
  end.
Proof. vm_compute. split; reflexivity. Qed.

Theorem C05_returns_on_stored_streams_partial :
  forall flags zl cmf flg A chunks last extra sched later o,
  has flags F_ZLIB = zl -> has flags F_STOPBB = false -> has flags F_NONWRAP = true -> has flags F_MORE = true ->
  cmf < 256 -> flg < 256 -> valid_header (Z.of_N cmf) (Z.of_N flg) = true -> A < 2 ^ 32 ->
  chunks_ok chunks -> bytes_ok last -> N.of_nat (length last) <= 65535 ->
  concat (map fst sched) ++ later
  = ((if zl then cmf :: flg :: nil else nil) ++ stored_stream chunks last ++ (if zl then be32 A else nil)) ++ extra ->
  alen o <= USIZE_MAX -> N.of_nat (length (concat (map fst sched))) < 2 ^ 57 ->
  exists result, feed2 flags dec_default o 0 nil sched 0 NeedsMoreInput = Ret result.
Proof.
  intros flags zl cmf flg A chunks last extra sched later o HZ HSB HNW HM Hc Hf Hv HA Hck Hb Hl Hcat Hrep Hsh.
  destruct zl.
  - destruct (schedule_zlib_stored_stream flags cmf flg A chunks last extra sched later o HZ HSB HNW HM Hc Hf Hv HA Hck Hb Hl
                ltac:(rewrite Hcat; cbn [app]; rewrite <- !app_assoc; reflexivity) Hrep Hsh) as (s & t & o' & p' & H & _).
    eexists; exact H.
  - destruct (schedule_raw_stored_stream flags chunks last extra sched later o HZ HSB HNW HM Hck Hb Hl
                ltac:(rewrite Hcat; cbn [app]; rewrite app_nil_r; reflexivity) Hrep Hsh) as (s & t & o' & p' & H & _).
    eexists; exact H.
Qed.

(* the tie of the decoder models to the source also covers their constants: every flag / flush / status / state / size
   constant the hand-written models spell out equals the constant regenerated from /repo on this run *)
From MZ.proofs Require ModelConstants.
Theorem C05_model_constants_are_source_constants : ModelConstants.inflate_constants_are_source_constants_statement.
Proof. exact ModelConstants.inflate_constants_are_source_constants. Qed.
