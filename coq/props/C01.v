(* C01 -- one-shot compress/decompress is lossless for every input and level.
   Proved so far: the level clause (values above 10 behave as 10), on the definition regenerated
   from deflate/core.rs.  The round-trip clause is decided per explored run by the crate's decoder
   and by the extracted specification (see DESIGN.md, C01). *)
From Coq Require Import ZArith.
From MZ.gen Require Import GenZlib.
From MZ.proofs Require Import DeflateFlags.
Local Open Scope Z_scope.

Theorem C01_levels_above_10_behave_as_10 :
  forall level wb strat, 10 <= level ->
  create_comp_flags_from_zip_params level wb strat = create_comp_flags_from_zip_params 10 wb strat.
Proof. exact flags_level_clamped. Qed.

Example C01_level_255 :
  create_comp_flags_from_zip_params 255 1 0 = create_comp_flags_from_zip_params 10 1 0.
Proof. reflexivity. Qed.
