(* C01 -- one-shot compress/decompress is lossless for every input and level.
   Proved: (a) the level clause (values above 10 behave as 10), on the definition regenerated from
   deflate/core.rs; (b) the round trip at level 0 for EVERY input: whatever the model of
   compress_to_vec_inner (model/DeflateCore.v, tied to the code by the per-run correspondence) returns
   for a flag word with TDEFL_FORCE_ALL_RAW_BLOCKS is decoded by the RFC 1951 / RFC 1950 specification
   to exactly the input, all of the output being consumed, and its length is n + 5(n/31745 + 1) (+ 6).
   For levels 1..10 the round-trip clause is decided per explored run by the crate's decoder and by the
   extracted specification (see DESIGN.md, C01): C01_level0_lossless_for_every_input is the _partial form
   of the full statement (all levels), the Huffman/LZ engines being outside the model. *)
From Coq Require Import ZArith NArith List Bool.
From MZ.lib Require Import Mach.
From MZ.spec Require Import DeflateSpec.
From MZ.gen Require Import GenZlib.
From MZ.model Require Import DeflateCore.
From MZ.lib Require Import Arr.
From MZ.model Require InflateCore.
From MZ.model Require InflateStream.
From MZ.proofs Require Import DeflateFlags StoredSpec StoredRoundtrip StoredEndToEnd StoredEndToEndZ StoredApiRoundtrip StoredTotal StoredVecTotal StoredApiTotal.
Import ListNotations.
Local Open Scope Z_scope.

Theorem C01_levels_above_10_behave_as_10 :
  forall level wb strat, 10 <= level ->
  create_comp_flags_from_zip_params level wb strat = create_comp_flags_from_zip_params 10 wb strat.
Proof. exact flags_level_clamped. Qed.

Example C01_level_255 :
  create_comp_flags_from_zip_params 255 1 0 = create_comp_flags_from_zip_params 10 1 0.
Proof. reflexivity. Qed.

Theorem C01_level0_lossless_for_every_input_partial :
  forall (data : list N) (flags : N),
  hasf flags FLAG_RAW = true -> bytes_ok data ->
  forall out : list N,
  compress_to_vec_inner data flags = Ret (VBytes out) ->
  exists blocks,
    (if hasf flags FLAG_ZLIB then zlib_spec true out else inflate_spec out)
    = SDone data (N.of_nat (length out)) blocks /\
    N.of_nat (length out)
    = ((if hasf flags FLAG_ZLIB then 6 else 0) + N.of_nat (length data) + 5 * (N.of_nat (length data) / 31745 + 1))%N.
Proof. exact level0_roundtrip. Qed.

(* the flag words compress_to_vec(_, 0) and compress_to_vec_zlib(_, 0) pass down carry the raw-block flag *)
Example C01_level0_flags_are_raw :
  hasf (Z.to_N (fst (create_comp_flags_from_zip_params 0 0 0))) FLAG_RAW = true /\
  hasf (Z.to_N (fst (create_comp_flags_from_zip_params 0 1 0))) FLAG_RAW = true /\
  hasf (Z.to_N (fst (create_comp_flags_from_zip_params 0 1 0))) FLAG_ZLIB = true.
Proof. repeat split; reflexivity. Qed.

(* non-vacuity: the model does return a vector (here: 40000 bytes, two blocks, zlib), and the conclusion holds on it *)
Example C01_level0_returns_a_vector :
  match compress_to_vec_inner (repeat 7%N (N.to_nat 40000)) (Z.to_N (fst (create_comp_flags_from_zip_params 0 1 0))) with
  | Ret (VBytes out) => N.of_nat (length out) = (6 + 40000 + 5 * 2)%N
  | _ => False
  end.
Proof. vm_compute. reflexivity. Qed.

(* ... and with the decoder modelled too: M_inf applied to what the compressor model produced (raw format,
   level 0) gives back the input - decompress (compress data) = data on the two executable models *)
Theorem C01_level0_raw_roundtrip_on_both_models_partial :
  forall (data : list N) (cflags iflags : N) (out : list N) (o : arr) (res : InflateCore.call_result),
  hasf cflags FLAG_RAW = true -> hasf cflags FLAG_ZLIB = false -> bytes_ok data ->
  compress_to_vec_inner data cflags = Ret (VBytes out) ->
  InflateCore.has iflags InflateCore.F_ZLIB = false -> InflateCore.has iflags InflateCore.F_STOPBB = false ->
  InflateCore.has iflags InflateCore.F_NONWRAP = true ->
  (N.of_nat (length data) <= alen o)%N -> (alen o <= USIZE_MAX)%N ->
  InflateCore.decompress InflateCore.dec_default out o 0 USIZE_MAX iflags = Ret res ->
  InflateCore.cr_status res = InflateCore.Done /\ InflateCore.cr_in res = N.of_nat (length out) /\
  InflateCore.cr_out res = N.of_nat (length data) /\
  aget_list (InflateCore.cr_buf res) 0 (InflateCore.cr_out res) = data.
Proof. exact level0_raw_model_roundtrip. Qed.

(* ... the same with zlib framing: the trailer the compressor model wrote is the Adler-32 the decoder model
   computes, so the status is Done, every byte is consumed and the input comes back; and if the four trailer
   bytes are replaced by any other 32-bit value the status is Adler32Mismatch (unless checking is switched
   off by TINFL_FLAG_IGNORE_ADLER32) - the checksum clause of C09 on the same sub-language *)
Theorem C01_level0_zlib_roundtrip_on_both_models_partial :
  forall (data : list N) (cflags iflags : N) (out : list N) (o : arr) (A : N) (res : InflateCore.call_result),
  hasf cflags FLAG_RAW = true -> hasf cflags FLAG_ZLIB = true -> bytes_ok data ->
  compress_to_vec_inner data cflags = Ret (VBytes out) ->
  InflateCore.has iflags InflateCore.F_ZLIB = true -> InflateCore.has iflags InflateCore.F_STOPBB = false ->
  InflateCore.has iflags InflateCore.F_NONWRAP = true ->
  (N.of_nat (length data) <= alen o)%N -> (alen o <= USIZE_MAX)%N -> (A < 2 ^ 32)%N ->
  InflateCore.decompress InflateCore.dec_default (with_trailer out A) o 0 USIZE_MAX iflags = Ret res ->
  with_trailer out (Adler.adler32 1 data) = out /\
  InflateCore.cr_status res
  = (if orb (InflateCore.has iflags InflateCore.F_IGNORE) (Adler.adler32 1 data =? A)%N
     then InflateCore.Done else InflateCore.Adler32Mismatch) /\
  InflateCore.cr_in res = N.of_nat (length out) /\
  InflateCore.cr_out res = N.of_nat (length data) /\
  aget_list (InflateCore.cr_buf res) 0 (InflateCore.cr_out res) = data.
Proof. exact level0_zlib_model_roundtrip. Qed.

(* non-vacuity: 300 bytes through both models, zlib level 0 (flags 528384 = FORCE_ALL_RAW_BLOCKS | WRITE_ZLIB_HEADER), decoder flags
   PARSE_ZLIB_HEADER | NON_WRAPPING; and the same stream with trailer 0 *)
Example C01_zlib_level0_through_both_models :
  match compress_to_vec_inner (map (fun i => N.of_nat i mod 251)%N (seq 0 300)) 528384 with
  | Ret (VBytes out) =>
      match InflateCore.decompress InflateCore.dec_default out (amake 300 0) 0 USIZE_MAX 5,
            InflateCore.decompress InflateCore.dec_default (with_trailer out 0) (amake 300 0) 0 USIZE_MAX 5 with
      | Ret r1, Ret r2 => InflateCore.cr_status r1 = InflateCore.Done /\ InflateCore.cr_out r1 = 300%N /\
                          InflateCore.cr_status r2 = InflateCore.Adler32Mismatch
      | _, _ => False
      end
  | _ => False
  end.
Proof. vm_compute. repeat split; reflexivity. Qed.

(* ... and on the API-level functions themselves: the decoder model's growing-vector loop
   (decompress_to_vec_inner, behind decompress_to_vec / decompress_to_vec_zlib) applied to what the compressor
   model's compress_to_vec_inner returned gives back the input - raw and zlib, every input *)
Theorem C01_level0_api_roundtrip_on_both_models_partial :
  forall (data : list N) (cflags iflags0 : N) (out : list N),
  hasf cflags FLAG_RAW = true -> bytes_ok data ->
  compress_to_vec_inner data cflags = Ret (VBytes out) ->
  InflateCore.has (N.lor iflags0 InflateCore.F_NONWRAP) InflateCore.F_ZLIB = hasf cflags FLAG_ZLIB ->
  InflateCore.has (N.lor iflags0 InflateCore.F_NONWRAP) InflateCore.F_STOPBB = false ->
  (N.of_nat (length out) < 2 ^ 57)%N ->
  InflateStream.decompress_to_vec_inner out iflags0 USIZE_MAX = Ret (InflateStream.VOk data).
Proof. exact level0_api_roundtrip. Qed.

Example C01_api_roundtrip_runs :
  match compress_to_vec_inner (map (fun i => N.of_nat i mod 251)%N (seq 0 300)) 528384 with
  | Ret (VBytes out) =>
      InflateStream.decompress_to_vec_inner out 1 USIZE_MAX
      = Ret (InflateStream.VOk (map (fun i => N.of_nat i mod 251)%N (seq 0 300)))
  | _ => False
  end.
Proof. vm_compute. reflexivity. Qed.

(* ... and the "never panics" clause at level 0: for EVERY input the compressor model's compress_to_vec_inner never
   yields a Panic value (the debug-profile overflow / bounds / assertion sites of the bit writer, flush_block,
   the stored engine and compress_inner are all shown unreachable: flush_block is an equation, the guards of
   the engine follow from its invariant plus "bytes of the open block <= dictionary size"), never reaches the
   panic!("Bug! Unexpectedly failed to compress!") of the grow-and-retry loop, and never leaves the modelled
   fragment: it returns exactly the stored-block vector - unless the model's own fuel (2^40 loop turns) runs out *)
Theorem C01_level0_compress_never_panics_partial :
  forall (data : list N) (flags : N),
  hasf flags FLAG_RAW = true ->
  match compress_to_vec_inner data flags with
  | Ret (VBytes out) => out = StoredModel.FULL data flags 15
  | OutOfFuel => True
  | _ => False
  end.
Proof. exact compress_to_vec_level0_never_panics. Qed.

(* ... and the loop returns: for every input under 2^36 bytes the compressor model's compress_to_vec_inner IS the
   stored-block vector (no Panic value, no panic!("Bug! ..."), no exhausted fuel): the stored engine terminates
   by the measure input-left + lookahead, a Finish call of compress() with room in the buffer delivers at least
   one byte unless it is done, and what has been delivered is never longer than the final stream *)
Theorem C01_level0_compress_returns_partial :
  forall (data : list N) (flags : N),
  hasf flags FLAG_RAW = true -> (N.of_nat (length data) < 2 ^ 36)%N ->
  compress_to_vec_inner data flags = Ret (VBytes (StoredModel.FULL data flags 15)).
Proof. exact compress_to_vec_level0_total. Qed.

(* ... so that the level-0 clause of C01 is a closed statement about the two models: compress_to_vec_inner
   returns a vector and decompress_to_vec_inner applied to it returns the input - every input (bytes, under
   2^36 of them), raw and zlib *)
Theorem C01_level0_total_roundtrip_on_both_models_partial :
  forall (data : list N) (cflags iflags0 : N),
  hasf cflags FLAG_RAW = true -> bytes_ok data -> (N.of_nat (length data) < 2 ^ 36)%N ->
  InflateCore.has (N.lor iflags0 InflateCore.F_NONWRAP) InflateCore.F_ZLIB = hasf cflags FLAG_ZLIB ->
  InflateCore.has (N.lor iflags0 InflateCore.F_NONWRAP) InflateCore.F_STOPBB = false ->
  exists out,
    compress_to_vec_inner data cflags = Ret (VBytes out) /\
    InflateStream.decompress_to_vec_inner out iflags0 USIZE_MAX = Ret (InflateStream.VOk data).
Proof. exact level0_api_total. Qed.

Example C01_total_roundtrip_hypotheses_hold :
  hasf 528384 FLAG_RAW = true /\ hasf 528384 FLAG_ZLIB = true /\
  InflateCore.has (N.lor 1 InflateCore.F_NONWRAP) InflateCore.F_ZLIB = true /\
  InflateCore.has (N.lor 1 InflateCore.F_NONWRAP) InflateCore.F_STOPBB = false.
Proof. vm_compute. repeat split; reflexivity. Qed.
