(* C19 -- decoder snapshots resume identically.
   Clone and serialise/deserialise are the identity on the model state (the model has no notion
   of a snapshot: the correspondence requires the implementation, with a snapshot taken before
   EVERY call in each of the three ways, to produce the model's lines).
   Proved on the model of the block-boundary record: at a boundary with fewer than 8 pending bits
   the record captures state, pending bits, header bytes and running checksum exactly, and the
   rebuilt decoder agrees with the original on all of them (the fields that are live at
   ReadBlockHeader; that the remaining fields are dead is the liveness argument of DESIGN.md C18,
   open, and decided per explored run by rebuilding at every boundary). *)
From Coq Require Import NArith List.
From MZ.lib Require Import Arr Mach.
From MZ.model Require Import InflateCore Boundary.
Local Open Scope N_scope.

From Coq Require Import ZArith List Bool.
From MZ.lib Require Import Arr.
From MZ.spec Require Adler Zlib.
From MZ.proofs Require StoredSpec InflateStoredZ InflateStoredChunks InflateStoredGen InflateStoredBoundary.
From MZ.proofs Require InflateStored InflateStoredStop.
Import ListNotations.

Theorem C19_boundary_record_roundtrip :
  forall r, d_state r = ReadBlockHeader -> d_num_bits r < 8 -> d_bit_buf r < 256 ->
  exists b, block_boundary_state r = Ret (Some b) /\
    let r' := from_block_boundary_state b in
    d_state r' = d_state r /\ d_num_bits r' = d_num_bits r /\ d_bit_buf r' = d_bit_buf r /\
    d_zh0 r' = d_zh0 r /\ d_zh1 r' = d_zh1 r /\ d_check r' = d_check r.
Proof.
  intros r Hs Hn Hb. unfold block_boundary_state. rewrite Hs.
  unfold guard. rewrite (proj2 (N.ltb_lt _ _) Hn). cbn [bind].
  eexists. split; [reflexivity|]. cbn.
  assert (E1 : d_num_bits r mod 256 = d_num_bits r)
    by (apply N.mod_small; apply N.lt_trans with 8; [assumption|reflexivity]).
  assert (E2 : d_bit_buf r mod 256 = d_bit_buf r) by (apply N.mod_small; assumption).
  rewrite E1, E2. repeat split; try reflexivity; try (symmetry; exact Hs).
Qed.

Theorem C19_no_record_elsewhere :
  forall r, d_state r <> ReadBlockHeader -> block_boundary_state r = Ret None.
Proof. intros r H. unfold block_boundary_state. destruct (d_state r); try reflexivity. congruence. Qed.

(* The semantic half for streams of stored blocks: a decoder standing at a block boundary between two calls -
   any decoder satisfying the call-to-call invariant DI of proofs/InflateStoredGen.v, which holds of the fresh
   decoder (DI_init) and is re-established by every call (call_gen) - has a boundary record, and the decoder
   rebuilt from that record alone satisfies the same invariant: whatever schedule continues from it (any
   slices, any output buffers, positions and budgets) returns, extends the bytes delivered so far to a longer
   prefix of the plaintext and ends, if it ends, with the whole plaintext and the uninterrupted decoder's
   final status. *)
Theorem C19_rebuilt_decoder_continues_stored_streams_partial :
  forall flags zl cmf flg A B extra d D (sched : list (list N * arr * N * N)) later,
  has flags F_ZLIB = zl -> has flags F_STOPBB = false -> has flags F_MORE = true ->
  (cmf < 256)%N -> (flg < 256)%N -> Zlib.valid_header (Z.of_N cmf) (Z.of_N flg) = true -> (A < 2 ^ 32)%N ->
  InflateStoredZ.shapeB B ->
  let offered := concat (map (fun it : list N * arr * N * N => fst (fst (fst it))) sched) in
  InflateStoredGen.DI flags zl cmf flg A B extra d (offered ++ later) D -> d_state d = ReadBlockHeader ->
  Forall (InflateStoredGen.item_ok flags zl cmf flg) sched -> (N.of_nat (length offered) < 2 ^ 57)%N ->
  offered ++ later <> [] ->
  exists b s total acc,
    block_boundary_state d = Ret (Some b) /\
    InflateStoredGen.feed3 flags (from_block_boundary_state b) [] sched 0 NeedsMoreInput D = Ret (s, total, acc) /\
    acc = firstn (length acc) (InflateStoredChunks.P B) /\
    (s = HasMoreOutput \/ (s = NeedsMoreInput /\ later <> []) \/
     (s = InflateStoredChunks.final_status flags zl A B /\ acc = InflateStoredChunks.P B)).
Proof. exact InflateStoredBoundary.rebuilt_decoder_continues. Qed.

(* non-vacuity: decode the first of two stored blocks, take the record at the boundary, rebuild, finish *)
Example C19_rebuild_at_a_stored_block_boundary :
  let stream := StoredSpec.stored_stream [[97; 98; 99]%N] [100; 101]%N in
  match decompress dec_default (firstn 8 stream) (amake 8 0) 0 Mach.USIZE_MAX 6 with
  | Ret r1 =>
      match block_boundary_state (cr_dec r1) with
      | Ret (Some b) =>
          match decompress (from_block_boundary_state b) (skipn 8 stream) (cr_buf r1) 3 Mach.USIZE_MAX 6 with
          | Ret r2 => cr_status r1 = NeedsMoreInput /\ cr_status r2 = Done /\
                      aget_list (cr_buf r2) 0 5 = [97; 98; 99; 100; 101]%N
          | _ => False
          end
      | _ => False
      end
  | _ => False
  end.
Proof. vm_compute. repeat split; reflexivity. Qed.

(* "With stop-at-block-boundary requested, a stop is reported exactly once after each non-final block, with fewer than 8
   pending bits", on raw streams of stored blocks.  One call (stop_call): a decoder at a block boundary, given what is
   left of the stream and room for its payload, processes exactly ONE block - after a non-final block it returns
   BlockBoundary having consumed exactly that block and written exactly its bytes, and leaves a decoder at the next
   block header with no pending bits; after the final block it returns Done.  The caller's loop (stop_loop: call
   again after every stop): as many stops as there are non-final blocks, then Done, with the whole payload written *)
Theorem C19_stop_once_per_nonfinal_stored_block_partial :
  forall flags chunks last fuel o s stops o' p',
  has flags F_ZLIB = false -> has flags F_STOPBB = true -> has flags F_NONWRAP = true ->
  StoredSpec.chunks_ok chunks -> StoredSpec.bytes_ok last -> (N.of_nat (length last) <= 65535)%N ->
  (N.of_nat (length (concat chunks ++ last)) <= alen o)%N -> (alen o <= Mach.USIZE_MAX)%N ->
  InflateStoredStop.stop_loop flags fuel dec_default (StoredSpec.stored_stream chunks last) o 0 0 = Ret (s, stops, o', p') ->
  s = Done /\ stops = N.of_nat (length chunks) /\ p' = N.of_nat (length (concat chunks ++ last)) /\
  aget_list o' 0 p' = concat chunks ++ last.
Proof. exact InflateStoredStop.stops_once_per_block. Qed.

Theorem C19_one_call_stops_after_exactly_one_stored_block_partial :
  forall flags f0 ch0 bsR d o p res,
  has flags F_ZLIB = false -> has flags F_STOPBB = true -> has flags F_NONWRAP = true ->
  InflateStored.shapeB ((f0, ch0) :: bsR) -> InflateStoredStop.at_boundary d ->
  (p + N.of_nat (length (InflateStored.pay ((f0, ch0) :: bsR))) <= alen o)%N -> (alen o <= Mach.USIZE_MAX)%N ->
  decompress d (InflateStored.enc ((f0, ch0) :: bsR)) o p Mach.USIZE_MAX flags = Ret res ->
  cr_out res = N.of_nat (length ch0) /\ aget_list (cr_buf res) p (cr_out res) = ch0 /\ alen (cr_buf res) = alen o /\
  (forall i, (i < p)%N -> aget (cr_buf res) i = aget o i) /\
  (if f0
   then cr_status res = Done /\ cr_in res = N.of_nat (length (InflateStored.enc ((f0, ch0) :: bsR)))
   else cr_status res = BlockBoundary /\ cr_in res = N.of_nat (length (StoredSpec.stored_block false ch0)) /\
        d_state (cr_dec res) = ReadBlockHeader /\ d_num_bits (cr_dec res) = 0%N /\ d_bit_buf (cr_dec res) = 0%N).
Proof. exact InflateStoredStop.stop_call. Qed.

Example C19_two_stops_then_done :
  match InflateStoredStop.stop_loop 132 10 dec_default (StoredSpec.stored_stream [[97; 98; 99]%N; []; [7]%N] [100; 101]%N) (amake 8 0) 0 0 with
  | Ret (s, stops, o', p') => s = Done /\ stops = 3%N /\ p' = 6%N /\ aget_list o' 0 6 = [97; 98; 99; 7; 100; 101]%N
  | _ => False
  end.
Proof. vm_compute. repeat split; reflexivity. Qed.
