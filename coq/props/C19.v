(* C19 -- decoder snapshots resume identically.
   Clone and serialise/deserialise are the identity on the model state (the model has no notion
   of a snapshot: the correspondence requires the implementation, with a snapshot taken before
   EVERY call in each of the three ways, to produce the model's lines).
   Proved on the model of the block-boundary record: at a boundary with fewer than 8 pending bits
   the record captures state, pending bits, header bytes and running checksum exactly, and the
   rebuilt decoder agrees with the original on all of them (the fields that are live at
   ReadBlockHeader; that the remaining fields are dead is the liveness argument of DESIGN.md C18,
   open, and decided per explored run by rebuilding at every boundary). *)
From Coq Require Import NArith List.
From MZ.lib Require Import Arr Mach.
From MZ.model Require Import InflateCore Boundary.
Local Open Scope N_scope.

Theorem C19_boundary_record_roundtrip :
  forall r, d_state r = ReadBlockHeader -> d_num_bits r < 8 -> d_bit_buf r < 256 ->
  exists b, block_boundary_state r = Ret (Some b) /\
    let r' := from_block_boundary_state b in
    d_state r' = d_state r /\ d_num_bits r' = d_num_bits r /\ d_bit_buf r' = d_bit_buf r /\
    d_zh0 r' = d_zh0 r /\ d_zh1 r' = d_zh1 r /\ d_check r' = d_check r.
Proof.
  intros r Hs Hn Hb. unfold block_boundary_state. rewrite Hs.
  unfold guard. rewrite (proj2 (N.ltb_lt _ _) Hn). cbn [bind].
  eexists. split; [reflexivity|]. cbn.
  assert (E1 : d_num_bits r mod 256 = d_num_bits r)
    by (apply N.mod_small; apply N.lt_trans with 8; [assumption|reflexivity]).
  assert (E2 : d_bit_buf r mod 256 = d_bit_buf r) by (apply N.mod_small; assumption).
  rewrite E1, E2. repeat split; try reflexivity; try (symmetry; exact Hs).
Qed.

Theorem C19_no_record_elsewhere :
  forall r, d_state r <> ReadBlockHeader -> block_boundary_state r = Ret None.
Proof. intros r H. unfold block_boundary_state. destruct (d_state r); try reflexivity. congruence. Qed.
