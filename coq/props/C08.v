(* C08 -- the decoder writes only inside the granted window; status codes are truthful. *)
From Coq Require Import NArith List.
From MZ.lib Require Import Arr Mach.
From MZ.model Require Import InflateCore.
From MZ.proofs Require Import InflateBasic InflateFrame3 InflateStreamProgress.
From Coq Require Import List ZArith.
From MZ.spec Require Adler Zlib.
From MZ.model Require InflateStream.
From MZ.proofs Require StoredSpec InflateStoredLimit.
Import ListNotations.
Local Open Scope N_scope.

(* Every normal return of decompress_with_limit, for every decoder value, input, output slice,
   start position, budget and flag word:
   consumed <= offered; written <= min(budget, len - out_pos); every byte outside
   [out_pos, out_pos + written) is unchanged; HasMoreOutput only with the granted window
   completely full; NeedsMoreInput only with all offered input consumed. *)
Theorem C08_window_and_truthful_status :
  forall r input o out_pos out_max flags res,
  alen o <= USIZE_MAX ->
  decompress r input o out_pos out_max flags = Ret res ->
  cr_in res <= N.of_nat (length input) /\
  cr_out res <= N.min out_max (alen o - out_pos) /\
  alen (cr_buf res) = alen o /\
  (forall i, i < out_pos \/ out_pos + cr_out res <= i -> aget (cr_buf res) i = aget o i) /\
  (cr_status res = HasMoreOutput -> cr_out res = N.min out_max (alen o - out_pos)) /\
  (cr_status res = NeedsMoreInput -> cr_in res = N.of_nat (length input)).
Proof. exact decompress_frame. Qed.

Theorem C08_bad_geometry_untouched :
  forall r input o out_pos out_max flags,
  geometry_ok o out_pos flags = false ->
  decompress r input o out_pos out_max flags
  = Ret {| cr_status := BadParam; cr_in := 0; cr_out := 0; cr_buf := o; cr_dec := r |}.
Proof. exact decompress_bad_geometry. Qed.

(* ... "so a driver loop always makes progress": a call given some input and some output room that asks to be called
   again (NeedsMoreInput / HasMoreOutput) has consumed at least one byte, resp. written at least one byte *)
Theorem C08_driver_loop_progress :
  forall r input o out_pos out_max flags res,
  alen o <= USIZE_MAX -> decompress r input o out_pos out_max flags = Ret res ->
  input <> nil -> 0 < N.min out_max (alen o - out_pos) ->
  (cr_status res = NeedsMoreInput -> 0 < cr_in res) /\ (cr_status res = HasMoreOutput -> 0 < cr_out res).
Proof. exact decompress_progress. Qed.

(* "The size-limited vector functions never return more than the limit, succeed when the true size equals the limit,
   and otherwise fail with the decoded prefix" - on streams of stored blocks (zlib with the right trailer, or raw;
   arbitrary bytes may follow): decompress_to_vec_inner with a maximum output size returns the whole payload iff its
   length is <= the limit (equality included), and otherwise HasMoreOutput with exactly the first [limit] bytes *)
Theorem C08_vector_limit_on_stored_streams_partial :
  forall flags0 cmf flg chunks last extra limit,
  (has (N.lor flags0 F_NONWRAP) F_ZLIB = true -> has (N.lor flags0 F_NONWRAP) F_STOPBB = false ->
   cmf < 256 -> flg < 256 -> Zlib.valid_header (Z.of_N cmf) (Z.of_N flg) = true ->
   StoredSpec.chunks_ok chunks -> StoredSpec.bytes_ok last -> N.of_nat (length last) <= 65535 ->
   let data := concat chunks ++ last in
   let input := (cmf :: flg :: StoredSpec.stored_stream chunks last ++ StoredSpec.be32 (Adler.adler32 1 data)) ++ extra in
   N.of_nat (length input) < 2 ^ 57 ->
   InflateStream.decompress_to_vec_inner input flags0 limit
   = Ret (if N.of_nat (length data) <=? limit then InflateStream.VOk data
          else InflateStream.VErr HasMoreOutput (firstn (N.to_nat limit) data))) /\
  (has (N.lor flags0 F_NONWRAP) F_ZLIB = false -> has (N.lor flags0 F_NONWRAP) F_STOPBB = false ->
   StoredSpec.chunks_ok chunks -> StoredSpec.bytes_ok last -> N.of_nat (length last) <= 65535 ->
   let data := concat chunks ++ last in
   let input := StoredSpec.stored_stream chunks last ++ extra in
   N.of_nat (length input) < 2 ^ 57 ->
   InflateStream.decompress_to_vec_inner input flags0 limit
   = Ret (if N.of_nat (length data) <=? limit then InflateStream.VOk data
          else InflateStream.VErr HasMoreOutput (firstn (N.to_nat limit) data))).
Proof.
  intros flags0 cmf flg chunks last extra limit. split.
  - exact (InflateStoredLimit.to_vec_limit_zlib_stored_stream flags0 cmf flg chunks last extra limit).
  - exact (InflateStoredLimit.to_vec_limit_raw_stored_stream flags0 chunks last extra limit).
Qed.

Example C08_limit_equal_and_below :
  let s := StoredSpec.stored_stream [[97; 98; 99]] [100; 101] in
  InflateStream.decompress_to_vec_inner s 0 5 = Ret (InflateStream.VOk [97; 98; 99; 100; 101]) /\
  InflateStream.decompress_to_vec_inner s 0 4 = Ret (InflateStream.VErr HasMoreOutput [97; 98; 99; 100]) /\
  InflateStream.decompress_to_vec_inner s 0 0 = Ret (InflateStream.VErr HasMoreOutput []).
Proof. vm_compute. repeat split; reflexivity. Qed.

(* non-vacuity: a call that returns HasMoreOutput with a 3-byte budget inside a larger buffer *)
Example C08_budget_example :
  match decompress dec_default (75 :: 76 :: 4 :: 2 :: 0 :: nil) (amake 16 7) 2 3 4 with
  | Ret res => cr_status res = HasMoreOutput /\ cr_out res = 3 /\ aget (cr_buf res) 5 = 7 /\ aget (cr_buf res) 1 = 7
  | _ => False
  end.
Proof. vm_compute. repeat split; reflexivity. Qed.
