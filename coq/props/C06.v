(* C06 -- end of stream is detected exactly.  Proved so far: the arithmetic core of the
   mechanism (undo_bytes hands back every whole byte still in the bit buffer, leaving fewer
   than 8 bits, whenever at least that many bytes were consumed in this call).  The statement
   that the bit buffer holds exactly the look-ahead bytes (relation R of DESIGN.md 4.2) is
   open; the property is decided per explored run by the specification's exact encoded length.
   Proved for streams of stored blocks (raw and zlib-framed) followed by ARBITRARY further bytes, decoded
   in one call into a flat buffer with room: the reported input count is exactly the encoded length of
   the stream (header and trailer included), never a byte of what follows. *)
From Coq Require Import NArith ZArith List Bool Lia.
From MZ.lib Require Import Arr Mach.
From MZ.spec Require Import Adler Zlib.
From MZ.model Require Import InflateCore.
From MZ.proofs Require Import StoredSpec InflateStoredZ.
Import ListNotations.
Local Open Scope N_scope.

Lemma undo_bytes_spec nbits mx :
  N.shiftr nbits 3 <= mx ->
  fst (undo_bytes nbits mx) = N.shiftr nbits 3 /\ snd (undo_bytes nbits mx) < 8 /\
  snd (undo_bytes nbits mx) = nbits mod 8.
Proof.
  intros H. unfold undo_bytes. cbn [fst snd].
  rewrite N.min_l by exact H.
  rewrite N.shiftr_div_pow2, N.shiftl_mul_pow2. change (2 ^ 3) with 8.
  pose proof (N.div_mod nbits 8 ltac:(lia)) as D. pose proof (N.mod_lt nbits 8 ltac:(lia)) as M.
  remember (nbits / 8) as q. remember (nbits mod 8) as m.
  split; [reflexivity|]. split; lia.
Qed.

Theorem C06_undo_leaves_less_than_a_byte :
  forall nbits mx, N.shiftr nbits 3 <= mx ->
  fst (undo_bytes nbits mx) = N.shiftr nbits 3 /\ snd (undo_bytes nbits mx) < 8 /\
  snd (undo_bytes nbits mx) = nbits mod 8.
Proof. exact undo_bytes_spec. Qed.

Theorem C06_stored_streams_consumed_exactly_partial :
  (forall flags chunks last extra o res,
   has flags F_ZLIB = false -> has flags F_STOPBB = false -> has flags F_NONWRAP = true ->
   chunks_ok chunks -> bytes_ok last -> N.of_nat (length last) <= 65535 ->
   N.of_nat (length (concat chunks ++ last)) <= alen o -> alen o <= USIZE_MAX ->
   let stream := stored_stream chunks last in
   decompress dec_default (stream ++ extra) o 0 USIZE_MAX flags = Ret res ->
   cr_status res = Done /\ cr_in res = N.of_nat (length stream) /\
   cr_out res = N.of_nat (length (concat chunks ++ last)) /\
   aget_list (cr_buf res) 0 (cr_out res) = concat chunks ++ last) /\
  (forall flags cmf flg A chunks last extra o res,
   has flags F_ZLIB = true -> has flags F_STOPBB = false -> has flags F_NONWRAP = true ->
   cmf < 256 -> flg < 256 -> valid_header (Z.of_N cmf) (Z.of_N flg) = true -> A < 2 ^ 32 ->
   chunks_ok chunks -> bytes_ok last -> N.of_nat (length last) <= 65535 ->
   N.of_nat (length (concat chunks ++ last)) <= alen o -> alen o <= USIZE_MAX ->
   let stream := cmf :: flg :: stored_stream chunks last ++ be32 A in
   decompress dec_default (stream ++ extra) o 0 USIZE_MAX flags = Ret res ->
   cr_status res = (if has flags F_IGNORE || (adler32 1 (concat chunks ++ last) =? A) then Done else Adler32Mismatch) /\
   cr_in res = N.of_nat (length stream) /\
   cr_out res = N.of_nat (length (concat chunks ++ last)) /\
   aget_list (cr_buf res) 0 (cr_out res) = concat chunks ++ last).
Proof. split; [exact decompress_raw_stored_stream_extra|exact decompress_zlib_stored_stream_extra]. Qed.

(* non-vacuity: a raw two-block stream followed by three further bytes: 15 of the 18 bytes are consumed *)
Example C06_trailing_bytes_left_alone :
  match decompress dec_default (stored_stream [[1; 2; 3]] [4; 5] ++ [255; 0; 255]) (amake 5 0) 0 USIZE_MAX 4 with
  | Ret res => cr_status res = Done /\ cr_in res = 15 /\ aget_list (cr_buf res) 0 5 = [1; 2; 3; 4; 5]
  | _ => False
  end.
Proof. vm_compute. repeat split; reflexivity. Qed.
