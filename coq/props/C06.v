(* C06 -- end of stream is detected exactly.  Proved so far: the arithmetic core of the
   mechanism (undo_bytes hands back every whole byte still in the bit buffer, leaving fewer
   than 8 bits, whenever at least that many bytes were consumed in this call).  The statement
   that the bit buffer holds exactly the look-ahead bytes (relation R of DESIGN.md 4.2) is
   open; the property is decided per explored run by the specification's exact encoded length. *)
From Coq Require Import NArith Lia.
From MZ.model Require Import InflateCore.
Local Open Scope N_scope.

Lemma undo_bytes_spec nbits mx :
  N.shiftr nbits 3 <= mx ->
  fst (undo_bytes nbits mx) = N.shiftr nbits 3 /\ snd (undo_bytes nbits mx) < 8 /\
  snd (undo_bytes nbits mx) = nbits mod 8.
Proof.
  intros H. unfold undo_bytes. cbn [fst snd].
  rewrite N.min_l by exact H.
  rewrite N.shiftr_div_pow2, N.shiftl_mul_pow2. change (2 ^ 3) with 8.
  pose proof (N.div_mod nbits 8 ltac:(lia)) as D. pose proof (N.mod_lt nbits 8 ltac:(lia)) as M.
  remember (nbits / 8) as q. remember (nbits mod 8) as m.
  split; [reflexivity|]. split; lia.
Qed.

Theorem C06_undo_leaves_less_than_a_byte :
  forall nbits mx, N.shiftr nbits 3 <= mx ->
  fst (undo_bytes nbits mx) = N.shiftr nbits 3 /\ snd (undo_bytes nbits mx) < 8 /\
  snd (undo_bytes nbits mx) = nbits mod 8.
Proof. exact undo_bytes_spec. Qed.
