(* C04 -- the decoder never reports success on an invalid stream.
   Proved on M_inf: a zlib stream whose header violates RFC 1950 (or declares a window larger
   than the caller's ring buffer) is rejected after exactly its two header bytes, whatever
   follows, for every buffer, position, budget and flag word with PARSE_ZLIB_HEADER - and the
   rejection criterion is exactly the RFC's (through the regenerated validate_zlib_header).
   The general soundness statement (Done => the specification accepts, DESIGN.md 4.2) is open
   and decided per explored run by the extracted specification. *)
From Coq Require Import NArith ZArith Bool.
From MZ.lib Require Import Arr Mach.
From MZ.model Require Import InflateCore.
From MZ.spec Require Zlib.
From MZ.proofs Require Import InflateBasic InflateZlib.
Local Open Scope N_scope.

Theorem C04_bad_zlib_header_never_accepted :
  forall r cmf flg rest o out_pos out_max flags,
  has flags F_ZLIB = true ->
  d_state r = Start ->
  geometry_ok o out_pos flags = true ->
  alen o <= USIZE_MAX ->
  header_rejected cmf flg flags (call_mask o flags) = true ->
  exists r',
    decompress r (cmf :: flg :: rest) o out_pos out_max flags
    = Ret {| cr_status := Failed; cr_in := 2; cr_out := 0; cr_buf := o; cr_dec := r' |}
    /\ d_state r' = BadZlibHeader.
Proof. exact bad_zlib_header_rejected. Qed.

Theorem C04_rejected_iff_rfc_invalid :
  forall cmf flg flags mask,
  cmf < 256 -> flg < 256 -> mask < 2 ^ 64 - 1 ->
  header_rejected cmf flg flags mask
  = negb (Zlib.valid_header (Z.of_N cmf) (Z.of_N flg))
    || ((Z.land (Z.of_N flags) 4 =? 0)%Z && (Z.of_N mask + 1 <? Zlib.header_window (Z.of_N cmf))%Z).
Proof. exact header_rejected_spec. Qed.

(* non-vacuity *)
Example C04_header_789d_rejected : header_rejected 120 157 5 USIZE_MAX = true.
Proof. vm_compute. reflexivity. Qed.
