(* C04 -- the decoder never reports success on an invalid stream.
   Proved on M_inf: a zlib stream whose header violates RFC 1950 (or declares a window larger
   than the caller's ring buffer) is rejected after exactly its two header bytes, whatever
   follows, for every buffer, position, budget and flag word with PARSE_ZLIB_HEADER - and the
   rejection criterion is exactly the RFC's (through the regenerated validate_zlib_header).
   The general soundness statement (Done => the specification accepts, DESIGN.md 4.2) is open
   and decided per explored run by the extracted specification.
   The converse clause (a proper prefix of a valid stream is never rejected as corrupt and never accepted)
   is proved for streams of stored blocks, raw and zlib, under every schedule of input slices and output
   budgets with more input announced (C04_prefix_of_stored_stream_partial).
   Two of the format violations the property names are proved never to be accepted, under every schedule of
   input slices and output budgets, when they follow any number of valid non-final stored blocks: the
   reserved block type 3 (C04_reserved_block_type_never_accepted_partial) and a stored block whose NLEN is not
   the complement of LEN (C04_stored_length_check_never_accepted_partial): the loop returns, delivers a
   prefix of the valid blocks' payload, and its status is HasMoreOutput, NeedsMoreInput (input outstanding)
   or Failed with exactly that payload delivered - never Done. *)
From Coq Require Import NArith ZArith Bool List Lia.
From MZ.lib Require Import Arr Mach.
From MZ.model Require Import InflateCore.
From MZ.spec Require Zlib.
From MZ.spec Require Import Adler.
From MZ.spec Require DeflateSpec.
From MZ.proofs Require Import InflateBasic InflateZlib StoredSpec InflateStoredChunks InflateStoredTotal InflateStoredReject.
From MZ.proofs Require InflateStoredStarved.
Import ListNotations.
Local Open Scope N_scope.

Theorem C04_bad_zlib_header_never_accepted :
  forall r cmf flg rest o out_pos out_max flags,
  has flags F_ZLIB = true ->
  d_state r = Start ->
  geometry_ok o out_pos flags = true ->
  alen o <= USIZE_MAX ->
  header_rejected cmf flg flags (call_mask o flags) = true ->
  exists r',
    decompress r (cmf :: flg :: rest) o out_pos out_max flags
    = Ret {| cr_status := Failed; cr_in := 2; cr_out := 0; cr_buf := o; cr_dec := r' |}
    /\ d_state r' = BadZlibHeader.
Proof. exact bad_zlib_header_rejected. Qed.

Theorem C04_rejected_iff_rfc_invalid :
  forall cmf flg flags mask,
  cmf < 256 -> flg < 256 -> mask < 2 ^ 64 - 1 ->
  header_rejected cmf flg flags mask
  = negb (Zlib.valid_header (Z.of_N cmf) (Z.of_N flg))
    || ((Z.land (Z.of_N flags) 4 =? 0)%Z && (Z.of_N mask + 1 <? Zlib.header_window (Z.of_N cmf))%Z).
Proof. exact header_rejected_spec. Qed.

(* non-vacuity *)
Example C04_header_789d_rejected : header_rejected 120 157 5 USIZE_MAX = true.
Proof. vm_compute. reflexivity. Qed.

(* what has been offered is a PROPER prefix of the stream: whatever the schedule, the loop returns and the
   status is NeedsMoreInput or HasMoreOutput - not Failed, not Done - with a prefix of the payload delivered *)
Theorem C04_prefix_of_stored_stream_partial :
  forall flags zl cmf flg A chunks last sched later o,
  has flags F_ZLIB = zl -> has flags F_STOPBB = false -> has flags F_NONWRAP = true -> has flags F_MORE = true ->
  cmf < 256 -> flg < 256 -> Zlib.valid_header (Z.of_N cmf) (Z.of_N flg) = true -> A < 2 ^ 32 ->
  chunks_ok chunks -> bytes_ok last -> N.of_nat (length last) <= 65535 ->
  let data := concat chunks ++ last in
  let stream := (if zl then [cmf; flg] else []) ++ stored_stream chunks last ++ (if zl then be32 A else []) in
  concat (map fst sched) ++ later = stream -> later <> [] ->
  alen o <= USIZE_MAX -> N.of_nat (length (concat (map fst sched))) < 2 ^ 57 ->
  exists s total o' p',
  feed2 flags dec_default o 0 [] sched 0 NeedsMoreInput = Ret (s, total, o', p') /\
  (s = NeedsMoreInput \/ s = HasMoreOutput) /\
  p' <= N.of_nat (length data) /\ aget_list o' 0 p' = firstn (N.to_nat p') data.
Proof.
  intros flags zl cmf flg A chunks last sched later o HZ HSB HNW HM Hc Hf Hv HA Hck Hb Hl data stream Hcat Hlater Hrep Hsh.
  assert (Hlen : (length (concat (map fst sched)) + length later = length stream)%nat) by (rewrite <- Hcat, app_length; reflexivity).
  assert (Hl0 : (0 < length later)%nat) by (destruct later; [contradiction|cbn [length]; lia]).
  destruct zl.
  - destruct (schedule_zlib_stored_stream flags cmf flg A chunks last [] sched later o HZ HSB HNW HM Hc Hf Hv HA Hck Hb Hl
                ltac:(rewrite Hcat; unfold stream; cbn [app]; rewrite <- !app_assoc, !app_nil_r; reflexivity) Hrep Hsh)
      as (s & t & o' & p' & H & H1 & H2 & H3 & H4).
    exists s, t, o', p'. split; [exact H|]. split; [|split; assumption].
    destruct H4 as [H4|[[H4 _]|(_ & _ & H4)]]; [right; exact H4|left; exact H4|].
    exfalso. unfold stream in Hlen. cbn [app length] in Hlen, H4. rewrite !app_length in *. lia.
  - destruct (schedule_raw_stored_stream flags chunks last [] sched later o HZ HSB HNW HM Hck Hb Hl
                ltac:(rewrite Hcat; unfold stream; cbn [app]; rewrite !app_nil_r; reflexivity) Hrep Hsh)
      as (s & t & o' & p' & H & H1 & H2 & H3 & H4).
    exists s, t, o', p'. split; [exact H|]. split; [|split; assumption].
    destruct H4 as [H4|[[H4 _]|(_ & _ & H4)]]; [right; exact H4|left; exact H4|].
    exfalso. unfold stream in Hlen. cbn [app length] in Hlen. rewrite !app_length in *. cbn [length] in Hlen. lia.
Qed.

(* ... and "cannot-make-progress when it is not [announced]": the same truncated stream (the cut anywhere inside it: what
   is withheld is longer than the bytes following the stream) offered in one call WITHOUT the has-more-input flag:
   FailedCannotMakeProgress with everything offered consumed - or HasMoreOutput with the granted window full - never
   Failed, never Done; what was written is a prefix of the payload *)
Theorem C04_truncated_without_more_input_flag_partial :
  forall flags zl cmf flg A chunks last extra input fut o budget,
  has flags F_ZLIB = zl -> has flags F_STOPBB = false -> has flags F_NONWRAP = true -> has flags F_MORE = false ->
  cmf < 256 -> flg < 256 -> Zlib.valid_header (Z.of_N cmf) (Z.of_N flg) = true -> A < 2 ^ 32 ->
  chunks_ok chunks -> bytes_ok last -> N.of_nat (length last) <= 65535 ->
  let data := concat chunks ++ last in
  let stream := (if zl then [cmf; flg] else []) ++ stored_stream chunks last ++ (if zl then be32 A else []) in
  input ++ fut = stream ++ extra -> N.of_nat (length extra) < N.of_nat (length fut) ->
  alen o <= USIZE_MAX -> N.of_nat (length input) < 2 ^ 57 ->
  exists res, decompress dec_default input o 0 budget flags = Ret res /\
    ((cr_status res = FailedCannotMakeProgress /\ cr_in res = N.of_nat (length input)) \/
     (cr_status res = HasMoreOutput /\ cr_out res = N.min (N.min budget USIZE_MAX) (alen o))) /\
    aget_list (cr_buf res) 0 (cr_out res) = firstn (N.to_nat (cr_out res)) data.
Proof. exact InflateStoredStarved.truncated_stored_stream_without_more. Qed.

Example C04_truncated_without_more :
  match decompress dec_default [120; 1; 1; 3; 0; 252; 255; 7; 8] (amake 8 0) 0 8 5 with
  | Ret res => cr_status res = FailedCannotMakeProgress /\ cr_in res = 9 /\ cr_out res = 2
  | _ => False
  end.
Proof. vm_compute. repeat split; reflexivity. Qed.

Theorem C04_reserved_block_type_never_accepted_partial :
  forall flags zl cmf flg chunks hb junk sched later o,
  has flags F_ZLIB = zl -> has flags F_STOPBB = false -> has flags F_NONWRAP = true -> has flags F_MORE = true ->
  cmf < 256 -> flg < 256 -> Zlib.valid_header (Z.of_N cmf) (Z.of_N flg) = true ->
  chunks_ok chunks -> hb < 256 -> N.land (N.shiftr hb 1) 3 = 3 ->
  concat (map fst sched) ++ later = (if zl then [cmf; flg] else []) ++ encN chunks ++ hb :: junk ->
  alen o <= USIZE_MAX -> N.of_nat (length (concat (map fst sched))) < 2 ^ 57 ->
  exists s total o' p',
  feed2 flags dec_default o 0 [] sched 0 NeedsMoreInput = Ret (s, total, o', p') /\
  p' <= N.of_nat (length (concat chunks)) /\ aget_list o' 0 p' = firstn (N.to_nat p') (concat chunks) /\
  (s = HasMoreOutput \/ (s = NeedsMoreInput /\ later <> []) \/ (s = Failed /\ p' = N.of_nat (length (concat chunks)))).
Proof. exact reserved_block_type_never_accepted. Qed.

Theorem C04_stored_length_check_never_accepted_partial :
  forall flags zl cmf flg chunks f l0 l1 n0 n1 junk sched later o,
  has flags F_ZLIB = zl -> has flags F_STOPBB = false -> has flags F_NONWRAP = true -> has flags F_MORE = true ->
  cmf < 256 -> flg < 256 -> Zlib.valid_header (Z.of_N cmf) (Z.of_N flg) = true ->
  chunks_ok chunks -> l0 < 256 -> l1 < 256 -> n0 < 256 -> n1 < 256 ->
  (l0 + 256 * l1) + (n0 + 256 * n1) <> 65535 ->
  concat (map fst sched) ++ later = (if zl then [cmf; flg] else []) ++ encN chunks ++ DeflateSpec.b2n f :: l0 :: l1 :: n0 :: n1 :: junk ->
  alen o <= USIZE_MAX -> N.of_nat (length (concat (map fst sched))) < 2 ^ 57 ->
  exists s total o' p',
  feed2 flags dec_default o 0 [] sched 0 NeedsMoreInput = Ret (s, total, o', p') /\
  p' <= N.of_nat (length (concat chunks)) /\ aget_list o' 0 p' = firstn (N.to_nat p') (concat chunks) /\
  (s = HasMoreOutput \/ (s = NeedsMoreInput /\ later <> []) \/ (s = Failed /\ p' = N.of_nat (length (concat chunks)))).
Proof. exact stored_length_check_never_accepted. Qed.

(* non-vacuity: one valid block "abc", then (1) LEN = 2 with NLEN = 0xFFFC, (2) a header byte 7 (final, type 3);
   fed one byte per call with a budget of 2 bytes, then calls with no new input *)
Example C04_bad_blocks_are_rejected :
  let good := encN [[97; 98; 99]] in
  let bad1 := good ++ [1; 2; 0; 252; 255; 9; 9] in
  let bad2 := good ++ [7; 9; 9] in
  let sched l := map (fun b => ([b], 2)) l ++ repeat ([], 2) 4 in
  match feed2 6 dec_default (amake 8 0) 0 [] (sched bad1) 0 NeedsMoreInput,
        feed2 6 dec_default (amake 8 0) 0 [] (sched bad2) 0 NeedsMoreInput with
  | Ret (s1, _, o1, p1), Ret (s2, _, o2, p2) =>
      s1 = Failed /\ p1 = 3 /\ aget_list o1 0 3 = [97; 98; 99] /\ s2 = Failed /\ p2 = 3
  | _, _ => False
  end.
Proof. vm_compute. repeat split; reflexivity. Qed.
