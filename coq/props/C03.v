(* C03 -- every valid DEFLATE/zlib stream decodes to exactly its plaintext.
   Proved so far: the decoder's base/extra/order tables, as regenerated from inflate/core.rs,
   ARE the RFC 1951 tables of the specification on all live symbols (finite, by kernel
   computation); the named constructs decode in model and specification (Examples).
   Proved for the sub-language of byte-aligned stored blocks (what level 0 emits): the decoder model
   M_inf, in one call on a flat buffer with enough room, decodes EVERY such stream to the bytes the
   blocks carry, consuming all of it and reporting Done - the first instance of the simulation
   M_inf -> specification (invariant over the states Start .. DoneForever of the stored-block path).
   The general statement (T_sim o T_abs, DESIGN.md 4.2) is open; it is decided per explored run
   by the extracted specification. *)
From Coq Require Import NArith List.
From MZ.lib Require Import Arr Mach.
From MZ.gen Require GenTables.
From MZ.spec Require DeflateSpec.
From MZ.model Require Import InflateCore.
From Coq Require Import ZArith Bool.
From MZ.spec Require Adler Zlib.
From MZ.model Require Import InflateStream.
From MZ.proofs Require Import DeflateFlags StoredSpec InflateStored InflateStoredZ InflateStoredChunks InflateStoredTotal InflateStoredApi InflateStoredGen.
From MZ.proofs Require InflateBasic.
Import ListNotations.
Local Open Scope N_scope.

Theorem C03_decoder_tables_are_rfc_tables :
  firstn 29 GenTables.t_LENGTH_BASE = DeflateSpec.length_base /\
  firstn 29 GenTables.t_LENGTH_EXTRA = DeflateSpec.length_extra /\
  GenTables.t_DIST_BASE = DeflateSpec.dist_base /\
  GenTables.t_HUFFMAN_LENGTH_ORDER = DeflateSpec.clen_order /\
  forallb (fun s => (if s <? 4 then 0 else N.shiftr s 1 - 1) =? tabn DeflateSpec.dist_extra s) (nrange 0 30) = true.
Proof. exact inflate_tables_are_rfc. Qed.

Theorem C03_stored_block_streams_decode_partial :
  forall flags chunks last o res,
  has flags F_ZLIB = false -> has flags F_STOPBB = false -> has flags F_NONWRAP = true ->
  chunks_ok chunks -> bytes_ok last -> N.of_nat (length last) <= 65535 ->
  N.of_nat (length (concat chunks ++ last)) <= alen o -> alen o <= USIZE_MAX ->
  decompress dec_default (stored_stream chunks last) o 0 USIZE_MAX flags = Ret res ->
  cr_status res = Done /\
  cr_in res = N.of_nat (length (stored_stream chunks last)) /\
  cr_out res = N.of_nat (length (concat chunks ++ last)) /\
  aget_list (cr_buf res) 0 (cr_out res) = concat chunks ++ last.
Proof. exact decompress_stored_stream. Qed.

(* non-vacuity: the model does return on such a stream (two blocks, 3 + 2 bytes) *)
Example C03_stored_stream_decodes :
  match decompress dec_default (stored_stream [[1; 2; 3]] [4; 5]) (amake 5 0) 0 USIZE_MAX 4 with
  | Ret res => cr_status res = Done /\ aget_list (cr_buf res) 0 5 = [1; 2; 3; 4; 5]
  | _ => False
  end.
Proof. vm_compute. split; reflexivity. Qed.

(* ... the same for zlib framing with the right trailer, and for both formats when the stream arrives in
   arbitrary slices and the output is granted in arbitrary budgets (flat buffer large enough for the
   payload; the caller keeps calling while the decoder asks for more): the loop returns, and when every byte of
   the stream has been offered the result is HasMoreOutput (keep calling) or Done with exactly the payload *)
Theorem C03_stored_block_streams_decode_under_every_schedule_partial :
  forall flags zl cmf flg chunks last sched o,
  has flags F_ZLIB = zl -> has flags F_STOPBB = false -> has flags F_NONWRAP = true -> has flags F_MORE = true ->
  cmf < 256 -> flg < 256 -> Zlib.valid_header (Z.of_N cmf) (Z.of_N flg) = true ->
  chunks_ok chunks -> bytes_ok last -> N.of_nat (length last) <= 65535 ->
  let data := concat chunks ++ last in
  let stream := (if zl then [cmf; flg] else []) ++ stored_stream chunks last ++
                (if zl then be32 (Adler.adler32 1 data) else []) in
  concat (map fst sched) = stream ->
  alen o <= USIZE_MAX -> N.of_nat (length stream) < 2 ^ 57 ->
  exists s total o' p',
  feed2 flags dec_default o 0 [] sched 0 NeedsMoreInput = Ret (s, total, o', p') /\
  p' <= N.of_nat (length data) /\ aget_list o' 0 p' = firstn (N.to_nat p') data /\
  (s = HasMoreOutput \/ (s = Done /\ p' = N.of_nat (length data) /\ total = N.of_nat (length stream))).
Proof.
  intros flags zl cmf flg chunks last sched o HZ HSB HNW HM Hc Hf Hv Hck Hb Hl data stream Hcat Hrep Hsh.
  rewrite <- Hcat in Hsh.
  destruct zl.
  - destruct (schedule_zlib_stored_stream flags cmf flg (Adler.adler32 1 data) chunks last [] sched [] o HZ HSB HNW HM Hc Hf Hv
                (Adler.adler32_lt _ _ Adler.adler_valid_1) Hck Hb Hl
                ltac:(rewrite Hcat; unfold stream; cbn [app]; rewrite <- !app_assoc, !app_nil_r; reflexivity) Hrep Hsh)
      as (s & t & o' & p' & H & H1 & H2 & H3 & H4).
    exists s, t, o', p'. split; [exact H|]. split; [exact H1|]. split; [exact H2|].
    destruct H4 as [H4|[[_ H4]|(H4 & H5 & H6)]]; [left; exact H4|contradiction|right].
    fold data in H4. rewrite N.eqb_refl, orb_true_r in H4. split; [exact H4|]. split; [exact H5|].
    rewrite H6. reflexivity.
  - destruct (schedule_raw_stored_stream flags chunks last [] sched [] o HZ HSB HNW HM Hck Hb Hl
                ltac:(rewrite Hcat; unfold stream; cbn [app]; rewrite !app_nil_r; reflexivity) Hrep Hsh)
      as (s & t & o' & p' & H & H1 & H2 & H3 & H4).
    exists s, t, o', p'. split; [exact H|]. split; [exact H1|]. split; [exact H2|].
    destruct H4 as [H4|[[_ H4]|(H4 & H5 & H6)]]; [left; exact H4|contradiction|right].
    split; [exact H4|]. split; [exact H5|]. rewrite H6. unfold stream. cbn [app]. rewrite app_nil_r. reflexivity.
Qed.

(* ... and through two more of the entry points the property names, for every stream of stored blocks followed
   by arbitrary bytes: the one-shot vector function (decompress_to_vec_inner) returns exactly the payload, and so
   does the slice-iterator helper for ANY non-empty list of input slices, given one spare output byte *)
Theorem C03_stored_streams_through_vector_and_slice_entry_points_partial :
  (forall flags0 cmf flg chunks last extra,
   has (N.lor flags0 F_NONWRAP) F_ZLIB = true -> has (N.lor flags0 F_NONWRAP) F_STOPBB = false ->
   cmf < 256 -> flg < 256 -> Zlib.valid_header (Z.of_N cmf) (Z.of_N flg) = true ->
   chunks_ok chunks -> bytes_ok last -> N.of_nat (length last) <= 65535 ->
   let data := concat chunks ++ last in
   let input := (cmf :: flg :: stored_stream chunks last ++ be32 (Adler.adler32 1 data)) ++ extra in
   N.of_nat (length input) < 2 ^ 57 ->
   decompress_to_vec_inner input flags0 USIZE_MAX = Ret (VOk data)) /\
  (forall flags0 chunks last extra,
   has (N.lor flags0 F_NONWRAP) F_ZLIB = false -> has (N.lor flags0 F_NONWRAP) F_STOPBB = false ->
   chunks_ok chunks -> bytes_ok last -> N.of_nat (length last) <= 65535 ->
   let data := concat chunks ++ last in
   let input := stored_stream chunks last ++ extra in
   N.of_nat (length input) < 2 ^ 57 ->
   decompress_to_vec_inner input flags0 USIZE_MAX = Ret (VOk data)) /\
  (forall (zlib ignore : bool) cmf flg chunks last extra slices out_len,
   cmf < 256 -> flg < 256 -> Zlib.valid_header (Z.of_N cmf) (Z.of_N flg) = true ->
   chunks_ok chunks -> bytes_ok last -> N.of_nat (length last) <= 65535 ->
   let data := concat chunks ++ last in
   let stream := (if zlib then [cmf; flg] else []) ++ stored_stream chunks last ++
                 (if zlib then be32 (Adler.adler32 1 data) else []) in
   slices <> [] -> concat slices = stream ++ extra ->
   N.of_nat (length data) < out_len -> out_len <= USIZE_MAX -> N.of_nat (length (concat slices)) < 2 ^ 57 ->
   exists o', decompress_slice_iter_to_slice out_len slices zlib ignore = Ret (Done, N.of_nat (length data), o') /\
              aget_list o' 0 (N.of_nat (length data)) = data).
Proof.
  split; [exact to_vec_zlib_stored_stream|]. split; [exact to_vec_raw_stored_stream|exact slice_iter_stored_stream].
Qed.

(* non-vacuity: three slices (one empty), zlib, destination of 6 bytes for 5 bytes of payload *)
Example C03_slices_decode :
  let data := [97; 98; 99; 100; 101] in
  let stream := 120 :: 1 :: stored_stream [[97; 98; 99]] [100; 101] ++ be32 (Adler.adler32 1 data) in
  match decompress_slice_iter_to_slice 6 [firstn 9 stream; []; skipn 9 stream ++ [7]] true false with
  | Ret (s, n, o') => s = Done /\ n = 5 /\ aget_list o' 0 5 = data
  | _ => False
  end.
Proof. vm_compute. repeat split; reflexivity. Qed.

(* ... and with the output placed anywhere - in particular in a ring buffer: every call may be given ANY buffer
   (flat with NON_WRAPPING, or without it a power-of-two ring no smaller than the window the zlib header
   declares), ANY position in it and ANY budget; what the calls wrote, concatenated by the caller, is always
   a prefix of the payload and, at the final status, the payload (any trailer value A: Adler32Mismatch iff wrong) *)
Theorem C03_stored_block_streams_any_output_placement_partial :
  forall flags zl cmf flg A chunks last extra (sched : list (list N * arr * N * N)) later,
  has flags F_ZLIB = zl -> has flags F_STOPBB = false -> has flags F_MORE = true ->
  cmf < 256 -> flg < 256 -> Zlib.valid_header (Z.of_N cmf) (Z.of_N flg) = true -> A < 2 ^ 32 ->
  chunks_ok chunks -> bytes_ok last -> N.of_nat (length last) <= 65535 ->
  let data := concat chunks ++ last in
  let stream := (if zl then [cmf; flg] else []) ++ stored_stream chunks last ++ (if zl then be32 A else []) in
  let offered := concat (map (fun it => fst (fst (fst it))) sched) in
  offered ++ later = stream ++ extra ->
  Forall (fun it : list N * arr * N * N => let '(piece, o, p, budget) := it in
            InflateBasic.geometry_ok o p flags = true /\ alen o <= USIZE_MAX /\
            (has flags F_NONWRAP = true \/
             (has flags F_NONWRAP = false /\ 0 < alen o /\ (Zlib.header_window (Z.of_N cmf) <= Z.of_N (alen o))%Z))) sched ->
  N.of_nat (length offered) < 2 ^ 57 ->
  exists s total acc,
  feed3 flags dec_default [] sched 0 NeedsMoreInput [] = Ret (s, total, acc) /\
  acc = firstn (length acc) data /\ total <= N.of_nat (length offered) /\
  (s = HasMoreOutput \/ (s = NeedsMoreInput /\ later <> []) \/
   (s = (if has flags F_IGNORE || negb zl || (Adler.adler32 1 data =? A) then Done else Adler32Mismatch) /\
    acc = data /\ total = N.of_nat (length stream))).
Proof. exact stored_stream_any_placement. Qed.

(* non-vacuity: a raw stream decoded through a 4-byte ring (flags HAS_MORE_INPUT only): first call fills the
   ring, the caller empties it and calls again at offset 0 *)
Example C03_through_a_ring :
  let stream := stored_stream [[97; 98; 99]] [100; 101] in
  match feed3 2 dec_default [] [(stream, amake 4 0, 0, USIZE_MAX); ([], amake 4 0, 0, USIZE_MAX)] 0 NeedsMoreInput [] with
  | Ret (s, total, acc) => s = Done /\ total = 15 /\ acc = [97; 98; 99; 100; 101]
  | _ => False
  end.
Proof. vm_compute. repeat split; reflexivity. Qed.
