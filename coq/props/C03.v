(* C03 -- every valid DEFLATE/zlib stream decodes to exactly its plaintext.
   Proved so far: the decoder's base/extra/order tables, as regenerated from inflate/core.rs,
   ARE the RFC 1951 tables of the specification on all live symbols (finite, by kernel
   computation); the named constructs decode in model and specification (Examples).
   Proved for the sub-language of byte-aligned stored blocks (what level 0 emits): the decoder model
   M_inf, in one call on a flat buffer with enough room, decodes EVERY such stream to the bytes the
   blocks carry, consuming all of it and reporting Done - the first instance of the simulation
   M_inf -> specification (invariant over the states Start .. DoneForever of the stored-block path).
   The general statement (T_sim o T_abs, DESIGN.md 4.2) is open; it is decided per explored run
   by the extracted specification. *)
From Coq Require Import NArith List.
From MZ.lib Require Import Arr Mach.
From MZ.gen Require GenTables.
From MZ.spec Require DeflateSpec.
From MZ.model Require Import InflateCore.
From MZ.proofs Require Import DeflateFlags StoredSpec InflateStored.
Import ListNotations.
Local Open Scope N_scope.

Theorem C03_decoder_tables_are_rfc_tables :
  firstn 29 GenTables.t_LENGTH_BASE = DeflateSpec.length_base /\
  firstn 29 GenTables.t_LENGTH_EXTRA = DeflateSpec.length_extra /\
  GenTables.t_DIST_BASE = DeflateSpec.dist_base /\
  GenTables.t_HUFFMAN_LENGTH_ORDER = DeflateSpec.clen_order /\
  forallb (fun s => (if s <? 4 then 0 else N.shiftr s 1 - 1) =? tabn DeflateSpec.dist_extra s) (nrange 0 30) = true.
Proof. exact inflate_tables_are_rfc. Qed.

Theorem C03_stored_block_streams_decode_partial :
  forall flags chunks last o res,
  has flags F_ZLIB = false -> has flags F_STOPBB = false -> has flags F_NONWRAP = true ->
  chunks_ok chunks -> bytes_ok last -> N.of_nat (length last) <= 65535 ->
  N.of_nat (length (concat chunks ++ last)) <= alen o -> alen o <= USIZE_MAX ->
  decompress dec_default (stored_stream chunks last) o 0 USIZE_MAX flags = Ret res ->
  cr_status res = Done /\
  cr_in res = N.of_nat (length (stored_stream chunks last)) /\
  cr_out res = N.of_nat (length (concat chunks ++ last)) /\
  aget_list (cr_buf res) 0 (cr_out res) = concat chunks ++ last.
Proof. exact decompress_stored_stream. Qed.

(* non-vacuity: the model does return on such a stream (two blocks, 3 + 2 bytes) *)
Example C03_stored_stream_decodes :
  match decompress dec_default (stored_stream [[1; 2; 3]] [4; 5]) (amake 5 0) 0 USIZE_MAX 4 with
  | Ret res => cr_status res = Done /\ aget_list (cr_buf res) 0 5 = [1; 2; 3; 4; 5]
  | _ => False
  end.
Proof. vm_compute. split; reflexivity. Qed.
