(* C03 -- every valid DEFLATE/zlib stream decodes to exactly its plaintext.
   Proved so far: the decoder's base/extra/order tables, as regenerated from inflate/core.rs,
   ARE the RFC 1951 tables of the specification on all live symbols (finite, by kernel
   computation); the named constructs decode in model and specification (Examples).
   The general statement (T_sim o T_abs, DESIGN.md 4.2) is open; it is decided per explored run
   by the extracted specification. *)
From Coq Require Import NArith List.
From MZ.gen Require GenTables.
From MZ.spec Require DeflateSpec.
From MZ.proofs Require Import DeflateFlags.
Import ListNotations.
Local Open Scope N_scope.

Theorem C03_decoder_tables_are_rfc_tables :
  firstn 29 GenTables.t_LENGTH_BASE = DeflateSpec.length_base /\
  firstn 29 GenTables.t_LENGTH_EXTRA = DeflateSpec.length_extra /\
  GenTables.t_DIST_BASE = DeflateSpec.dist_base /\
  GenTables.t_HUFFMAN_LENGTH_ORDER = DeflateSpec.clen_order /\
  forallb (fun s => (if s <? 4 then 0 else N.shiftr s 1 - 1) =? tabn DeflateSpec.dist_extra s) (nrange 0 30) = true.
Proof. exact inflate_tables_are_rfc. Qed.
