(* C10 -- compressor output is valid for independent decoders and honours level/strategy.
   Proved: the encoder's symbol/extra-bit tables, as regenerated from deflate/core.rs, are
   inverse to the RFC 1951 tables of the specification over all 256 match lengths and all
   32768 distances (what compress_lz_codes emits for a (length, distance) pair decodes, under
   the specification's tables, to that pair).  The token-level mode clauses are decided per
   explored run by the extracted specification decoder. *)
From Coq Require Import NArith.
From MZ.proofs Require Import DeflateFlags.
Local Open Scope N_scope.

Theorem C10_length_tables_inverse : forall i, i < 256 -> len_ok i = true.
Proof. exact len_table_inverse. Qed.

Theorem C10_distance_tables_inverse : forall d, d < 32768 -> dist_ok d = true.
Proof. exact dist_table_inverse. Qed.

Example C10_len_258 : enc_len 255 = (285, 0, 0). Proof. reflexivity. Qed.
Example C10_dist_32768 : enc_dist 32767 = (29, 8191, 13). Proof. reflexivity. Qed.
