(* C10 -- compressor output is valid for independent decoders and honours level/strategy.
   Proved: the encoder's symbol/extra-bit tables, as regenerated from deflate/core.rs, are
   inverse to the RFC 1951 tables of the specification over all 256 match lengths and all
   32768 distances (what compress_lz_codes emits for a (length, distance) pair decodes, under
   the specification's tables, to that pair).  The token-level mode clauses are decided per
   explored run by the extracted specification decoder.
   For level 0 (every flag word with FORCE_ALL_RAW_BLOCKS) the acceptance clause is proved for every
   input and every call schedule: what the compressor model has emitted when it reports Done is a stream
   the RFC 1951 / 1950 specification accepts, consumes completely and decodes to the consumed input, made
   of stored blocks only (C10_level0_output_is_a_valid_stream_partial; the blocks are listed). *)
From Coq Require Import NArith List.
From MZ.lib Require Import Mach.
From MZ.spec Require Import DeflateSpec.
From MZ.model Require Import DeflateCore.
From MZ.proofs Require Import DeflateFlags StoredSpec StoredStream StoredSchedules StoredBlocksShape.
Local Open Scope N_scope.

Theorem C10_length_tables_inverse : forall i, i < 256 -> len_ok i = true.
Proof. exact len_table_inverse. Qed.

Theorem C10_distance_tables_inverse : forall d, d < 32768 -> dist_ok d = true.
Proof. exact dist_table_inverse. Qed.

Example C10_len_258 : enc_len 255 = (285, 0, 0). Proof. reflexivity. Qed.
Example C10_dist_32768 : enc_dist 32767 = (29, 8191, 13). Proof. reflexivity. Qed.

Theorem C10_level0_output_is_a_valid_stream_partial :
  forall (data : list N) (flags wb : N) (sched : list (N * N * N)) (out : list N) (n : N),
  hasf flags FLAG_RAW = true -> wb <= 15 -> bytes_ok data ->
  Forall (fun it => legal_flush (snd it)) sched ->
  drive (comp_new flags wb) data sched nil 0 = Ret (Some (out, n)) ->
  n <= N.of_nat (length data) /\
  exists blocks,
    (if hasf flags FLAG_ZLIB then zlib_spec true out else inflate_spec out)
    = SDone (firstn (N.to_nat n) data) (N.of_nat (length out)) blocks.
Proof. exact level0_every_schedule. Qed.

(* ... and the token-level clause "level 0 emits only stored blocks ... stored lengths <= 65535, exactly one final block":
   the block list the specification parses out of the level-0 output consists of STORED blocks only (sblk), each with
   at most 65535 bytes, exactly one of them final and that one the last; their payloads concatenate to the input *)
Theorem C10_level0_emits_only_stored_blocks_partial :
  forall (data : list N) (flags wb : N) (sched : list (N * N * N)) (out : list N) (n : N),
  hasf flags FLAG_RAW = true -> wb <= 15 -> bytes_ok data ->
  Forall (fun it => legal_flush (snd it)) sched ->
  drive (comp_new flags wb) data sched nil 0 = Ret (Some (out, n)) ->
  exists chunks last,
    Forall (fun ch => N.of_nat (length ch) <= 65535) chunks /\ N.of_nat (length last) <= 65535 /\
    concat chunks ++ last = firstn (N.to_nat n) data /\
    (if hasf flags FLAG_ZLIB then zlib_spec true out else inflate_spec out)
    = SDone (firstn (N.to_nat n) data) (N.of_nat (length out)) (map (sblk false) chunks ++ (sblk true last :: nil)).
Proof. exact level0_every_schedule_blocks. Qed.
