(* C07 -- decoding can be suspended and resumed anywhere without changing the result.
   Proved on M_inf: the base case of the simulation argument - the bit reader's suspend/resume.
   If read_bits starves on a prefix of the input, resuming from the saved state with the rest of
   the input equals reading the whole input at once, for every state, amount, continuation and
   pair of flag words.  The lift to the whole automaton (T_sim, DESIGN.md 4.2) is open; the
   property is decided per explored stream by comparing EVERY single cut point, byte-wise
   feeding and budget sweeps against each other (and the model).
   Proved in full for the sub-language of byte-aligned stored blocks (what level 0 emits), raw and
   zlib-framed: HOWEVER the stream (followed by arbitrary further bytes) is cut into input slices -
   empty slices included - one call per slice with HAS_MORE_INPUT on a flat buffer with a spare byte
   ends with the same verdict (Done, or Adler32Mismatch iff the trailer is wrong), exactly the payload
   delivered and exactly the stream's length consumed: the whole-automaton invariant for the states
   Start .. DoneForever of the stored path, carried from call to call with the running check value.
   And with output budgets as well (C07_stored_streams_any_schedule_partial): every call may also grant
   an arbitrary output budget (zero included), unconsumed input being offered again; the caller's loop
   over the model RETURNS (no panic value, no exhausted fuel: a decreasing measure through all states), and
   after the last call of ANY such schedule the delivered bytes are exactly a prefix of the payload, the status is never a
   failure, NeedsMoreInput only while input is still outstanding, and a final status only with the whole
   payload delivered and exactly the stream consumed - no assumption on the size of the output buffer. *)
From Coq Require Import NArith ZArith List Bool.
From MZ.lib Require Import Arr Mach.
From MZ.spec Require Import Adler Zlib.
From MZ.model Require Import InflateCore.
From MZ.proofs Require Import InflateResume StoredSpec InflateStoredChunks InflateStoredTotal.
Import ListNotations.
Local Open Scope N_scope.

Theorem C07_read_bits_resume_partial :
  forall flags1 flags2 i1 fuel1 c amount k i2 c1' f,
  (forall c' b a c'', k c' b = Ret (a, c'') -> a <> AEnd (end_of_input flags1)) ->
  read_bits_f flags1 fuel1 (with_input c i1) amount k = Ret (AEnd (end_of_input flags1), c1') ->
  read_bits_f flags2 (length i1 + f) (with_input c (i1 ++ i2)) amount k
  = read_bits_f flags2 f (with_input c1' i2) amount k.
Proof. exact read_bits_resume. Qed.

(* non-vacuity: a 13-bit read starving after one byte *)
Example C07_starves :
  let c := mk dec_default ReadExtraBitsDistance 0 0 0 0 13 [] 0 (Arr.amake 1 0) 0 in
  match read_bits_f 2 16 (with_input c [255]) 13 (fun c b => Ret (ANone, c)) with
  | Ret (AEnd NeedsMoreInput, c1) => nb c1 = 8
  | _ => False
  end.
Proof. vm_compute. reflexivity. Qed.

Theorem C07_stored_streams_any_input_split_partial :
  (forall flags chunks last extra pieces o s total o' p',
   has flags F_ZLIB = false -> has flags F_STOPBB = false -> has flags F_NONWRAP = true -> has flags F_MORE = true ->
   chunks_ok chunks -> bytes_ok last -> N.of_nat (length last) <= 65535 ->
   let data := concat chunks ++ last in
   let stream := stored_stream chunks last in
   concat pieces = stream ++ extra ->
   N.of_nat (length data) < alen o -> alen o <= USIZE_MAX ->
   feed flags dec_default o 0 pieces 0 = Ret (s, total, o', p') ->
   s = Done /\ total = N.of_nat (length stream) /\ p' = N.of_nat (length data) /\ aget_list o' 0 p' = data) /\
  (forall flags cmf flg A chunks last extra pieces o s total o' p',
   has flags F_ZLIB = true -> has flags F_STOPBB = false -> has flags F_NONWRAP = true -> has flags F_MORE = true ->
   cmf < 256 -> flg < 256 -> valid_header (Z.of_N cmf) (Z.of_N flg) = true -> A < 2 ^ 32 ->
   chunks_ok chunks -> bytes_ok last -> N.of_nat (length last) <= 65535 ->
   let data := concat chunks ++ last in
   let stream := cmf :: flg :: stored_stream chunks last ++ be32 A in
   concat pieces = stream ++ extra ->
   N.of_nat (length data) < alen o -> alen o <= USIZE_MAX ->
   feed flags dec_default o 0 pieces 0 = Ret (s, total, o', p') ->
   s = (if has flags F_IGNORE || (adler32 1 data =? A) then Done else Adler32Mismatch) /\
   total = N.of_nat (length stream) /\ p' = N.of_nat (length data) /\ aget_list o' 0 p' = data).
Proof. split; [exact pieces_raw_stored_stream|exact pieces_zlib_stored_stream]. Qed.

(* non-vacuity: a zlib stream of two stored blocks fed as single bytes with empty slices in between
   (flags PARSE_ZLIB_HEADER | HAS_MORE_INPUT | NON_WRAPPING), three further bytes after it *)
Example C07_byte_by_byte :
  let data := [97; 98; 99; 100; 101] in
  let stream := 120 :: 1 :: stored_stream [[97; 98; 99]] [100; 101] ++ be32 (adler32 1 data) in
  let pieces := concat (map (fun b => [[b]; []]) (stream ++ [7; 7; 7])) in
  match feed 7 dec_default (amake 6 0) 0 pieces 0 with
  | Ret (s, total, o', p') => s = Done /\ total = 21 /\ p' = 5 /\ aget_list o' 0 5 = data
  | _ => False
  end.
Proof. vm_compute. repeat split; reflexivity. Qed.

Theorem C07_stored_streams_any_schedule_partial :
  (forall flags chunks last extra sched later o,
   has flags F_ZLIB = false -> has flags F_STOPBB = false -> has flags F_NONWRAP = true -> has flags F_MORE = true ->
   chunks_ok chunks -> bytes_ok last -> N.of_nat (length last) <= 65535 ->
   let data := concat chunks ++ last in
   let stream := stored_stream chunks last in
   concat (map fst sched) ++ later = stream ++ extra ->
   alen o <= USIZE_MAX -> N.of_nat (length (concat (map fst sched))) < 2 ^ 57 ->
   exists s total o' p',
   feed2 flags dec_default o 0 [] sched 0 NeedsMoreInput = Ret (s, total, o', p') /\
   p' <= N.of_nat (length data) /\ aget_list o' 0 p' = firstn (N.to_nat p') data /\
   total <= N.of_nat (length (concat (map fst sched))) /\
   (s = HasMoreOutput \/ (s = NeedsMoreInput /\ later <> []) \/
    (s = Done /\ p' = N.of_nat (length data) /\ total = N.of_nat (length stream)))) /\
  (forall flags cmf flg A chunks last extra sched later o,
   has flags F_ZLIB = true -> has flags F_STOPBB = false -> has flags F_NONWRAP = true -> has flags F_MORE = true ->
   cmf < 256 -> flg < 256 -> valid_header (Z.of_N cmf) (Z.of_N flg) = true -> A < 2 ^ 32 ->
   chunks_ok chunks -> bytes_ok last -> N.of_nat (length last) <= 65535 ->
   let data := concat chunks ++ last in
   let stream := cmf :: flg :: stored_stream chunks last ++ be32 A in
   concat (map fst sched) ++ later = stream ++ extra ->
   alen o <= USIZE_MAX -> N.of_nat (length (concat (map fst sched))) < 2 ^ 57 ->
   exists s total o' p',
   feed2 flags dec_default o 0 [] sched 0 NeedsMoreInput = Ret (s, total, o', p') /\
   p' <= N.of_nat (length data) /\ aget_list o' 0 p' = firstn (N.to_nat p') data /\
   total <= N.of_nat (length (concat (map fst sched))) /\
   (s = HasMoreOutput \/ (s = NeedsMoreInput /\ later <> []) \/
    (s = (if has flags F_IGNORE || (adler32 1 data =? A) then Done else Adler32Mismatch) /\
     p' = N.of_nat (length data) /\ total = N.of_nat (length stream)))).
Proof. split; [exact schedule_raw_stored_stream|exact schedule_zlib_stored_stream]. Qed.

(* non-vacuity: the zlib stream above, two bytes of input and at most one byte of output per call, then
   calls with no new input until the decoder is done; and the same schedule cut short *)
Example C07_two_in_one_out :
  let data := [97; 98; 99; 100; 101] in
  let stream := 120 :: 1 :: stored_stream [[97; 98; 99]] [100; 101] ++ be32 (adler32 1 data) in
  let sched := map (fun i => (firstn 2 (skipn (2 * i) stream), 1)) (seq 0 11) ++ repeat ([], 1) 6 in
  match feed2 7 dec_default (amake 5 0) 0 [] sched 0 NeedsMoreInput,
        feed2 7 dec_default (amake 5 0) 0 [] (firstn 6 sched) 0 NeedsMoreInput with
  | Ret (s, total, o', p'), Ret (s2, total2, o2, p2) =>
      s = Done /\ total = 21 /\ p' = 5 /\ aget_list o' 0 5 = data /\
      s2 = HasMoreOutput /\ p2 = 3 /\ aget_list o2 0 3 = [97; 98; 99]
  | _, _ => False
  end.
Proof. vm_compute. repeat split; reflexivity. Qed.
