(* C07 -- decoding can be suspended and resumed anywhere without changing the result.
   Proved on M_inf: the base case of the simulation argument - the bit reader's suspend/resume.
   If read_bits starves on a prefix of the input, resuming from the saved state with the rest of
   the input equals reading the whole input at once, for every state, amount, continuation and
   pair of flag words.  The lift to the whole automaton (T_sim, DESIGN.md 4.2) is open; the
   property is decided per explored stream by comparing EVERY single cut point, byte-wise
   feeding and budget sweeps against each other (and the model). *)
From Coq Require Import NArith List.
From MZ.lib Require Import Mach.
From MZ.model Require Import InflateCore.
From MZ.proofs Require Import InflateResume.
Import ListNotations.
Local Open Scope N_scope.

Theorem C07_read_bits_resume_partial :
  forall flags1 flags2 i1 fuel1 c amount k i2 c1' f,
  (forall c' b a c'', k c' b = Ret (a, c'') -> a <> AEnd (end_of_input flags1)) ->
  read_bits_f flags1 fuel1 (with_input c i1) amount k = Ret (AEnd (end_of_input flags1), c1') ->
  read_bits_f flags2 (length i1 + f) (with_input c (i1 ++ i2)) amount k
  = read_bits_f flags2 f (with_input c1' i2) amount k.
Proof. exact read_bits_resume. Qed.

(* non-vacuity: a 13-bit read starving after one byte *)
Example C07_starves :
  let c := mk dec_default ReadExtraBitsDistance 0 0 0 0 13 [] 0 (Arr.amake 1 0) 0 in
  match read_bits_f 2 16 (with_input c [255]) 13 (fun c b => Ret (ANone, c)) with
  | Ret (AEnd NeedsMoreInput, c1) => nb c1 = 8
  | _ => False
  end.
Proof. vm_compute. reflexivity. Qed.
