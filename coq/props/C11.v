(* C11 -- the window size declared in the zlib header bounds every match distance.
   Proved, on definitions regenerated from the source: the header's window field is
   max(w,8)-8 (C09_header_valid); a compressor created with window_bits < 12 can only emit
   distance-1 matches or none (one probe + run-length flag, raw blocks, or zero probes), and
   12..14 bits force level <= 1.  That the engines honour these flags is decided per explored
   run on the token trace (the two defects found there are fixed, see known_findings.json). *)
From Coq Require Import ZArith.
From MZ.gen Require Import GenZlib.
From MZ.proofs Require Import DeflateFlags ZlibHeader.
Local Open Scope Z_scope.

Theorem C11_window_limit_routing :
  forall wb lvl strat, 0 <= wb <= 15 -> 0 <= lvl <= 10 -> 0 <= strat <= 4 ->
  window_route_ok wb lvl strat = true.
Proof. exact window_route. Qed.

Theorem C11_declared_window :
  forall flags wb, 0 <= wb <= 15 ->
  let '((cmf, flg), ok) := header_from_flags flags wb in
  ok = true /\ cmf / 16 = Z.max 0 (wb - 8) /\ cmf / 16 <= 7.
Proof.
  intros flags wb H. pose proof (header_from_flags_valid flags wb H) as P.
  destruct (header_from_flags flags wb) as [[cmf flg] ok]. tauto.
Qed.
