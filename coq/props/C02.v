(* C02 -- streaming compression is lossless under every call schedule and configuration.
   Proved on the model of the control plane + stored engine (every flag word with
   FORCE_ALL_RAW_BLOCKS, i.e. level 0; the control plane is the code all levels share): for every
   compressor state, input chunk, output length and flush mode, a call never reports more input
   consumed than was offered nor more output written than the buffer holds; and losslessness under
   EVERY schedule at level 0: for every input, every sequence of compress() calls (any chunking, any
   output buffer lengths, flush None / Sync / Full / Finish, unconsumed input offered again) that ends
   with Done has received a stream which the RFC 1951 / RFC 1950 specification decodes to exactly the
   input consumed, all of the output being used.  For levels 1..10 losslessness is decided per
   explored schedule by the extracted specification on the concatenated output (the Huffman / LZ
   engines are outside the model): C02_level0_lossless_under_every_schedule_partial is the _partial
   form of the full statement.  The model is byte-exact against the implementation at level 0. *)
From Coq Require Import NArith List.
From MZ.lib Require Import Mach.
From MZ.spec Require Import DeflateSpec.
From MZ.model Require Import DeflateCore.
From MZ.lib Require Import Arr.
From MZ.model Require InflateCore.
From MZ.proofs Require Import DeflateCounts StoredSpec StoredStream StoredSchedules InflateStoredChunks StoredStreamEndToEnd StoredStreamTotal.
Import ListNotations.
Local Open Scope N_scope.

Theorem C02_counts_within_buffers :
  forall c input out_len flush r,
  compress c input out_len flush = Ret (CRet r) ->
  r_in r <= N.of_nat (length input) /\ N.of_nat (length (r_out r)) <= out_len.
Proof. exact compress_counts. Qed.

Theorem C02_level0_lossless_under_every_schedule_partial :
  forall (data : list N) (flags wb : N) (sched : list (N * N * N)) (out : list N) (n : N),
  hasf flags FLAG_RAW = true -> wb <= 15 -> bytes_ok data ->
  Forall (fun it => legal_flush (snd it)) sched ->
  drive (comp_new flags wb) data sched [] 0 = Ret (Some (out, n)) ->
  n <= N.of_nat (length data) /\
  exists blocks,
    (if hasf flags FLAG_ZLIB then zlib_spec true out else inflate_spec out)
    = SDone (firstn (N.to_nat n) data) (N.of_nat (length out)) blocks.
Proof. exact level0_every_schedule. Qed.

(* non-vacuity: a schedule with tiny output buffers, a sync and a full flush and an early Finish does end with Done;
   (chunk offered, output length, flush) *)
Example C02_a_schedule_that_finishes :
  match drive (comp_new 528384 15) (repeat 65 300) [(7, 3, 0); (100, 5, 2); (50, 1000, 3); (1000, 4, 4); (0, 1000, 4)] [] 0 with
  | Ret (Some (out, n)) => n = 300 /\ N.of_nat (length out) = 321
  | _ => False
  end.
Proof. vm_compute. split; reflexivity. Qed.

(* ... and with the decoder modelled too, under every split of the emitted bytes: whatever schedule drove the
   compressor model to Done and however its output (followed by arbitrary further bytes) is cut into input
   slices for the decoder model M_inf, the decoder ends with Done, has consumed exactly the emitted stream
   and delivered exactly the input the compressor consumed (C02 and C07 composed on the two models) *)
Theorem C02_level0_any_schedule_then_any_split_partial :
  forall (data : list N) (cflags wb iflags : N) (sched : list (N * N * N)) (out : list N) (n : N)
         (extra : list N) (pieces : list (list N)) (o : arr) s total o' p',
  hasf cflags FLAG_RAW = true -> wb <= 15 -> bytes_ok data ->
  Forall (fun it => legal_flush (snd it)) sched ->
  drive (comp_new cflags wb) data sched [] 0 = Ret (Some (out, n)) ->
  InflateCore.has iflags InflateCore.F_ZLIB = hasf cflags FLAG_ZLIB ->
  InflateCore.has iflags InflateCore.F_STOPBB = false -> InflateCore.has iflags InflateCore.F_NONWRAP = true ->
  InflateCore.has iflags InflateCore.F_MORE = true ->
  concat pieces = out ++ extra ->
  n < alen o -> alen o <= USIZE_MAX ->
  feed iflags InflateCore.dec_default o 0 pieces 0 = Ret (s, total, o', p') ->
  s = InflateCore.Done /\ total = N.of_nat (length out) /\ p' = n /\ aget_list o' 0 p' = firstn (N.to_nat n) data.
Proof. exact level0_any_schedule_any_split. Qed.

(* non-vacuity: the stream of the schedule above, fed to the decoder model in slices of 7 bytes *)
Fixpoint slices (k : nat) (l : list N) (fuel : nat) : list (list N) :=
  match fuel, l with
  | O, _ | _, [] => []
  | S f, _ => firstn k l :: slices k (skipn k l) f
  end.
Example C02_schedule_then_slices :
  match drive (comp_new 528384 15) (repeat 65 300) [(7, 3, 0); (100, 5, 2); (50, 1000, 3); (1000, 4, 4); (0, 1000, 4)] [] 0 with
  | Ret (Some (out, n)) =>
      match feed 7 InflateCore.dec_default (amake 301 0) 0 (slices 7 out 400) 0 with
      | Ret (s, total, o', p') => s = InflateCore.Done /\ total = 321 /\ p' = 300
      | _ => False
      end
  | _ => False
  end.
Proof. vm_compute. repeat split; reflexivity. Qed.

(* ... and the "never panic" clause at level 0, for every input and every schedule of compress() calls (any chunks,
   any output lengths, flush None / Sync / Full / Finish): the caller's loop over the compressor model never yields
   a Panic value - no debug-profile overflow, bounds or assertion site of the bit writer, flush_block, the stored
   engine or compress_inner is reachable (flush_block is an equation for every legal flush; the engine's guards
   follow from the schedule invariant plus "bytes of the open block <= dictionary size") *)
Theorem C02_level0_every_schedule_never_panics_partial :
  forall (data : list N) (flags wb : N) (sched : list (N * N * N)),
  hasf flags FLAG_RAW = true -> wb <= 15 ->
  Forall (fun it => legal_flush (snd it)) sched ->
  match drive (comp_new flags wb) data sched [] 0 with Panic _ => False | _ => True end.
Proof. exact level0_every_schedule_never_panics. Qed.

(* ... and it RETURNS: for inputs under 2^40 - 259 bytes the caller's loop over the model yields a value for every
   legal schedule - neither a Panic value nor exhausted fuel (the engine loop's turns are bounded by the bytes still
   offered plus the look-ahead) - so that the lossless theorems above apply to an actual result *)
Theorem C02_level0_every_schedule_returns_partial :
  forall (data : list N) (flags wb : N) (sched : list (N * N * N)),
  hasf flags FLAG_RAW = true -> wb <= 15 ->
  Forall (fun it => legal_flush (snd it)) sched ->
  N.of_nat (length data) + 259 < 2 ^ 40 ->
  exists result, drive (comp_new flags wb) data sched [] 0 = Ret result.
Proof. exact level0_every_schedule_returns. Qed.

(* the tie of the compressor models to the source also covers their constants: every flag / flush / status / state / size
   constant the hand-written models spell out equals the constant regenerated from /repo on this run *)
From MZ.proofs Require ModelConstants.
Theorem C02_model_constants_are_source_constants : ModelConstants.deflate_constants_are_source_constants_statement.
Proof. exact ModelConstants.deflate_constants_are_source_constants. Qed.
