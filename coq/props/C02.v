(* C02 -- streaming compression is lossless under every call schedule and configuration.
   Proved on the model of the control plane + stored engine (every flag word with
   FORCE_ALL_RAW_BLOCKS, i.e. level 0; the control plane is the code all levels share): for every
   compressor state, input chunk, output length and flush mode, a call never reports more input
   consumed than was offered nor more output written than the buffer holds.  Losslessness is
   decided per explored schedule by the extracted specification on the concatenated output; the
   model is byte-exact against the implementation at level 0. *)
From Coq Require Import NArith List.
From MZ.lib Require Import Mach.
From MZ.model Require Import DeflateCore.
From MZ.proofs Require Import DeflateCounts.
Local Open Scope N_scope.

Theorem C02_counts_within_buffers :
  forall c input out_len flush r,
  compress c input out_len flush = Ret (CRet r) ->
  r_in r <= N.of_nat (length input) /\ N.of_nat (length (r_out r)) <= out_len.
Proof. exact compress_counts. Qed.
