(* C12 -- flush points make all input so far decodable; full flush cuts history.
   Proved (specification side): the byte pattern a sync/full flush ends with - three zero bits,
   zero padding to the byte boundary, 00 00 FF FF - is read by the RFC 1951 specification, at every
   bit alignment and whatever follows, as one empty non-final stored block ending on a byte
   boundary.  That the compressor emits exactly this at the flush point and that all earlier
   input is decodable there is decided per explored flush point by the specification's prefix
   decoder; at level 0 the emitted bytes are byte-exact against the model. *)
From Coq Require Import NArith List Bool.
From MZ.spec Require Import DeflateSpec.
Import ListNotations.
Local Open Scope N_scope.

Definition sync_marker_bits (k : N) : list bool :=
  repeat false 3 ++ repeat false (N.to_nat ((8 - (k + 3) mod 8) mod 8)) ++ bits_of_bytes [0; 0; 255; 255].

Definition marker_ok (k : N) (rest : list bool) : Prop :=
  parse_block (sync_marker_bits k ++ rest) k
  = POk (mkblock false Stored [] [] [] [], k + 3 + (8 - (k + 3) mod 8) mod 8 + 32) rest
  /\ (k + 3 + (8 - (k + 3) mod 8) mod 8 + 32) mod 8 = 0.

Theorem C12_sync_marker_is_empty_stored_block :
  forall rest, marker_ok 0 rest /\ marker_ok 1 rest /\ marker_ok 2 rest /\ marker_ok 3 rest /\
               marker_ok 4 rest /\ marker_ok 5 rest /\ marker_ok 6 rest /\ marker_ok 7 rest.
Proof. intros rest. unfold marker_ok. repeat split; reflexivity. Qed.
