(* C12 -- flush points make all input so far decodable; full flush cuts history.
   Proved (specification side): the byte pattern a sync/full flush ends with - three zero bits,
   zero padding to the byte boundary, 00 00 FF FF - is read by the RFC 1951 specification, at every
   bit alignment and whatever follows, as one empty non-final stored block ending on a byte
   boundary.  Proved (model side, level 0, every input and every schedule of compress() calls with flush
   None / Sync / Full / Finish): at a flush point - no pending output, no look-ahead, no open block - the
   bytes delivered so far are, after the zlib header, whole non-final stored blocks which the
   specification's prefix decoder expands to exactly the input consumed so far, ending on a byte
   boundary.  For levels 1..10 the same is decided per explored flush point by the specification's
   prefix decoder (and, for a full flush, by decoding the remainder on its own). *)
From Coq Require Import NArith List Bool.
From MZ.lib Require Import Mach.
From MZ.spec Require Import DeflateSpec.
From MZ.model Require Import DeflateCore Oracle.
From MZ.proofs Require Import StoredSpec StoredModel StoredStream StoredPrefix StoredFlushPoint.
Import ListNotations.
Local Open Scope N_scope.

Definition sync_marker_bits (k : N) : list bool :=
  repeat false 3 ++ repeat false (N.to_nat ((8 - (k + 3) mod 8) mod 8)) ++ bits_of_bytes [0; 0; 255; 255].

Definition marker_ok (k : N) (rest : list bool) : Prop :=
  parse_block (sync_marker_bits k ++ rest) k
  = POk (mkblock false Stored [] [] [] [], k + 3 + (8 - (k + 3) mod 8) mod 8 + 32) rest
  /\ (k + 3 + (8 - (k + 3) mod 8) mod 8 + 32) mod 8 = 0.

Theorem C12_sync_marker_is_empty_stored_block :
  forall rest, marker_ok 0 rest /\ marker_ok 1 rest /\ marker_ok 2 rest /\ marker_ok 3 rest /\
               marker_ok 4 rest /\ marker_ok 5 rest /\ marker_ok 6 rest /\ marker_ok 7 rest.
Proof. intros rest. unfold marker_ok. repeat split; reflexivity. Qed.

Theorem C12_level0_flush_point_decodable_partial :
  forall (data : list N) (flags wb : N),
  hasf flags FLAG_RAW = true -> wb <= 15 ->
  forall sched c' rest' acc' n',
  bytes_ok data ->
  Forall (fun it => legal_flush (snd it)) sched ->
  run_calls (comp_new flags wb) data sched [] 0 = Ret (Some (c', rest', acc', n')) ->
  c_finished c' = false -> c_pending c' = [] -> c_total_bytes c' = 0 -> c_la_size c' = 0 ->
  n' <= N.of_nat (length data) /\
  exists body blocks,
    acc' = (if c_block_index c' =? 0 then [] else hdr flags wb) ++ body /\
    prefix_spec body = (Some (firstn (N.to_nat n') data), 8 * N.of_nat (length body), true, false, blocks).
Proof. exact flush_point_decodable. Qed.

(* non-vacuity: after a sync flush that was given room, the model is at a flush point *)
Example C12_a_flush_point :
  match run_calls (comp_new 528384 15) (repeat 66 100) [(40, 1000, 0); (60, 1000, 2)] [] 0 with
  | Ret (Some (c, _, acc, n)) =>
      c_finished c = false /\ c_pending c = [] /\ c_total_bytes c = 0 /\ c_la_size c = 0 /\ n = 100 /\
      N.of_nat (length acc) = 2 + 5 + 100 + 5
  | _ => False
  end.
Proof. vm_compute. repeat split; reflexivity. Qed.

(* ... and the same in API terms, with no hypothesis on the compressor's internals: (1) a call that reports Okay and
   has left output space unused leaves nothing pending ("no earlier output is still pending (the previous call left
   output space unused)"); (2) a sync or full flush requested when nothing is pending, which returns Okay with output
   space to spare, has consumed all offered input, and everything emitted so far - without anything further - is
   header ++ whole stored blocks that the specification's prefix decoder decodes, ending on a byte boundary, to
   exactly all input supplied so far, and they end with the empty stored-block marker *)
Theorem C12_level0_room_means_nothing_pending_partial :
  forall (data : list N) (flags wb : N) sched c rest acc n m out_len f r,
  hasf flags FLAG_RAW = true -> wb <= 15 ->
  Forall (fun it => legal_flush (snd it)) sched -> legal_flush f ->
  N.of_nat (length data) + 259 < 2 ^ 40 ->
  run_calls (comp_new flags wb) data sched [] 0 = Ret (Some (c, rest, acc, n)) ->
  compress c (firstn (N.to_nat m) rest) out_len f = Ret (CRet r) ->
  r_status r = TOkay -> N.of_nat (length (r_out r)) < out_len ->
  c_pending (r_comp r) = [].
Proof. exact level0_room_means_nothing_pending. Qed.

Theorem C12_level0_flush_with_room_is_a_flush_point_partial :
  forall (data : list N) (flags wb : N) sched c rest acc n m out_len f r,
  hasf flags FLAG_RAW = true -> wb <= 15 -> bytes_ok data ->
  Forall (fun it => legal_flush (snd it)) sched ->
  N.of_nat (length data) + 259 < 2 ^ 40 ->
  run_calls (comp_new flags wb) data sched [] 0 = Ret (Some (c, rest, acc, n)) ->
  c_pending c = [] ->
  f = TF_SYNC \/ f = TF_FULL ->
  compress c (firstn (N.to_nat m) rest) out_len f = Ret (CRet r) ->
  r_status r = TOkay -> N.of_nat (length (r_out r)) < out_len ->
  r_in r = N.of_nat (length (firstn (N.to_nat m) rest)) /\
  n + r_in r <= N.of_nat (length data) /\
  (exists body blocks,
    acc ++ r_out r = (if c_block_index (r_comp r) =? 0 then [] else hdr flags wb) ++ body /\
    prefix_spec body = (Some (firstn (N.to_nat (n + r_in r)) data), 8 * N.of_nat (length body), true, false, blocks)) /\
  (* ... and ends, on a byte boundary, with the empty stored-block marker 00 00 00 FF FF *)
  exists pre, acc ++ r_out r = pre ++ sync_marker.
Proof. exact level0_flush_point_api. Qed.

Example C12_the_marker : sync_marker = [0; 0; 0; 255; 255].
Proof. reflexivity. Qed.

Example C12_a_flush_with_room :
  match run_calls (comp_new 528384 15) (repeat 66 100) [(40, 1000, 0)] [] 0 with
  | Ret (Some (c, rest, acc, n)) =>
      c_pending c = [] /\
      match compress c (firstn 60 rest) 1000 TF_SYNC with
      | Ret (CRet r) => r_status r = TOkay /\ N.of_nat (length (r_out r)) < 1000 /\ r_in r = 60
      | _ => False
      end
  | _ => False
  end.
Proof. vm_compute. repeat split; reflexivity. Qed.
