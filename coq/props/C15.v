(* C15 -- the advertised compression bound really bounds one-shot output.  Proved, on the
   formula regenerated from src/lib.rs: mz_deflateBound computes 128 + n + n/8 + 5(n/31744+1)
   (it dominates miniz's max(128+1.1n, 128+n+5(n/31744+1)) and allows 9 bits per input byte: see the fix
   recorded in known_findings.json)
   without overflow for n < 2^56, is monotone, and dominates the exact size of a level-0 zlib
   stream (2 + n + 5(floor(n/31745)+1) + 4, confirmed against the implementation on every run).
   PARTIAL by nature: the size of Huffman-coded blocks for adversarial input is searched, not proved. *)
From Coq Require Import ZArith NArith List Lia.
From MZ.lib Require Import Mach.
From MZ.gen Require Import GenZlib.
From MZ.model Require Import DeflateCore.
From MZ.proofs Require Import DeflateFlags StoredSpec StoredRoundtrip.
Local Open Scope Z_scope.

Theorem C15_bound_formula :
  forall n, 0 <= n < 2 ^ 56 -> mz_deflateBound tt n = (bound_formula n, true).
Proof. exact deflate_bound_formula. Qed.

Theorem C15_bound_monotone : forall n m, 0 <= n <= m -> bound_formula n <= bound_formula m.
Proof. exact bound_monotone. Qed.

Theorem C15_level0_size_within_bound_partial :
  forall n, 0 <= n -> 2 + n + 5 * (n / 31745 + 1) + 4 <= bound_formula n.
Proof. exact level0_size_within_bound. Qed.

Theorem C15_bound_allows_nine_bits_per_byte :
  forall n, 0 <= n -> (9 * n + 7) / 8 + 5 * (n / 31744 + 1) + 127 <= bound_formula n.
Proof. exact bound_nine_bits. Qed.

Theorem C15_bound_dominates_miniz_formula :
  forall n, 0 <= n -> Z.max (128 + n * 110 / 100) (128 + n + (n / 31744 + 1) * 5) <= bound_formula n.
Proof. exact bound_dominates_miniz. Qed.

(* ... and that exact size is not only confirmed per run: it is a theorem about the model of the one-shot
   API at level 0 (StoredRoundtrip.level0_roundtrip), so for every input the level-0 zlib output fits the bound *)
Theorem C15_level0_output_within_bound :
  forall (data : list N) (flags : N),
  hasf flags FLAG_RAW = true -> hasf flags FLAG_ZLIB = true -> bytes_ok data ->
  forall out : list N,
  compress_to_vec_inner data flags = Ret (VBytes out) ->
  Z.of_nat (length out) <= bound_formula (Z.of_nat (length data)).
Proof.
  intros data flags Hr Hz Hb out H.
  destruct (level0_roundtrip data flags Hr Hb out H) as (blocks & _ & Hlen). rewrite Hz in Hlen.
  pose proof (level0_size_within_bound (Z.of_nat (length data)) ltac:(lia)) as Hbd.
  assert (E : Z.of_nat (length out) = 2 + Z.of_nat (length data) + 5 * (Z.of_nat (length data) / 31745 + 1) + 4).
  { rewrite <- (nat_N_Z (length out)), Hlen. rewrite !N2Z.inj_add, N2Z.inj_mul, N2Z.inj_add, N2Z.inj_div, nat_N_Z.
    change (Z.of_N 6) with 6. change (Z.of_N 5) with 5. change (Z.of_N 31745) with 31745. change (Z.of_N 1) with 1. lia. }
  lia.
Qed.
