(* C16 -- checksums equal their definitions and compose incrementally.
   This file contains only the pinned statements; proofs live in spec/ and proofs/. *)
From Coq Require Import NArith List.
From MZ.spec Require Import Adler Crc.
From Coq Require Import ZArith.
From MZ.lib Require Import Mach Arr.
From MZ.spec Require Import DeflateSpec Zlib.
From MZ.model Require Import DeflateCore.
From MZ.model Require InflateCore.
From MZ.proofs Require Import StoredSpec StoredDeflate StoredDeflateReturns InflateStoredCheck.
From MZ.proofs Require InflateBasic InflateStoredGen.
Import ListNotations.
Local Open Scope N_scope.

(* Any split of the data gives the same Adler-32 as one pass, for every starting value that
   is itself a checksum (both 16-bit halves reduced modulo 65521). *)
Theorem C16_adler_compose :
  forall a xs ys, adler_valid a -> adler32 (adler32 a xs) ys = adler32 a (xs ++ ys).
Proof. exact adler32_app. Qed.

(* ... and the result is again such a value, so the law can be iterated over any number of pieces. *)
Theorem C16_adler_closed :
  forall a xs, adler_valid a -> adler_valid (adler32 a xs) /\ adler32 a xs < 2 ^ 32.
Proof. intros a xs H. split; [exact (adler32_valid a xs H) | exact (adler32_lt a xs H)]. Qed.

Theorem C16_crc_compose :
  forall c xs ys, crc32 (crc32 c xs) ys = crc32 c (xs ++ ys).
Proof. exact crc32_app. Qed.

Theorem C16_empty_update :
  forall a, a < 2 ^ 32 -> adler32 a [] = a /\ crc32 a [] = a.
Proof. intros a H. split; [exact (adler32_nil a H) | exact (crc32_nil a)]. Qed.

(* non-vacuity: the initial value 1 is a checksum; published check values *)
Example C16_init_valid : adler_valid 1.
Proof. exact adler_valid_1. Qed.
Example C16_vectors :
  adler32 1 [87; 105; 107; 105; 112; 101; 100; 105; 97] = 300286872 /\
  crc32 0 [49;50;51;52;53;54;55;56;57] = 3421780262.
Proof. split; [exact adler_wikipedia | exact crc_check]. Qed.

(* The running checksum exposed by a compressor, at level 0 (models; tied to the code by the correspondence runs of
   C02/C14): after ANY schedule of deflate() calls (any chunks, output lengths and flushes) that has not ended the
   stream, while the final block has not been written, the zlib compressor's adler32 field is the Adler-32 of
   exactly the input consumed so far *)
Theorem C16_level0_compressor_running_adler_partial :
  forall (data : list N) (flags wb : N) (sched : list (N * N * N)) c rest acc n,
  hasf flags FLAG_RAW = true -> wb <= 15 ->
  Forall (fun it => legal_mz_flush (snd it)) sched ->
  dreach (comp_new flags wb) data sched [] 0 = Some (c, rest, acc, n) ->
  hasf flags FLAG_ZLIB = true -> c_finished c = false -> c_prev c = TOkay ->
  c_adler c = adler32 1 (firstn (N.to_nat n) data) /\ n <= N.of_nat (length data).
Proof. exact level0_running_adler. Qed.

Example C16_compressor_running_adler_runs :
  match dreach (comp_new 528384 15) (map (fun i => N.of_nat i mod 251) (seq 0 300)) [(100, 7, 0); (100, 50, 2)] [] 0 with
  | Some (c, rest, acc, n) =>
      c_finished c = false /\ c_prev c = TOkay /\ n = 200 /\
      c_adler c = adler32 1 (firstn 200 (map (fun i => N.of_nat i mod 251) (seq 0 300)))
  | None => False
  end.
Proof. vm_compute. repeat split; reflexivity. Qed.

(* The running checksum exposed by a zlib decoder, on streams of stored blocks (model M_inf; tied to the code by the
   correspondence runs of C03/C07): after ANY schedule of calls - any slicing of the input, and for every call any
   output buffer (flat or ring), position and budget - whenever the accessor DecompressorOxide::adler32 reports a
   value, it is the Adler-32 of exactly the bytes delivered so far (whatever the stream's own trailer says) *)
Theorem C16_stored_streams_decoder_running_adler_partial :
  forall flags cmf flg A chunks last extra (sched : list (list N * arr * N * N)) later,
  InflateCore.has flags InflateCore.F_ZLIB = true -> InflateCore.has flags InflateCore.F_IGNORE = false ->
  InflateCore.has flags InflateCore.F_STOPBB = false -> InflateCore.has flags InflateCore.F_MORE = true ->
  cmf < 256 -> flg < 256 -> valid_header (Z.of_N cmf) (Z.of_N flg) = true -> A < 2 ^ 32 ->
  chunks_ok chunks -> bytes_ok last -> N.of_nat (length last) <= 65535 ->
  let stream := [cmf; flg] ++ stored_stream chunks last ++ be32 A in
  let offered := concat (map (fun it => fst (fst (fst it))) sched) in
  offered ++ later = stream ++ extra ->
  Forall (fun it : list N * arr * N * N => let '(piece, o, p, budget) := it in
            InflateBasic.geometry_ok o p flags = true /\ alen o <= USIZE_MAX /\
            (InflateCore.has flags InflateCore.F_NONWRAP = true \/
             (InflateCore.has flags InflateCore.F_NONWRAP = false /\ 0 < alen o /\
              (header_window (Z.of_N cmf) <= Z.of_N (alen o))%Z))) sched ->
  N.of_nat (length offered) < 2 ^ 57 ->
  exists d' acc,
  feed3d flags InflateCore.dec_default [] sched [] = Ret (d', acc) /\
  forall v, InflateCore.dec_adler32 d' = Some v -> v = adler32 1 acc.
Proof. exact stored_stream_running_adler. Qed.

Example C16_decoder_running_adler_runs :
  match feed3d 7 InflateCore.dec_default [] [([120; 1; 1; 2; 0; 253], amake 8 0, 0, 8); ([255; 10; 20], amake 8 0, 0, 2)] [] with
  | Ret (d', acc) => acc = [10; 20] /\ InflateCore.dec_adler32 d' = Some (adler32 1 [10; 20])
  | _ => False
  end.
Proof. vm_compute. repeat split; reflexivity. Qed.

Check C16_adler_compose :
  forall a xs ys, adler_valid a -> adler32 (adler32 a xs) ys = adler32 a (xs ++ ys).
Check C16_crc_compose : forall c xs ys, crc32 (crc32 c xs) ys = crc32 c (xs ++ ys).
