(* C16 -- checksums equal their definitions and compose incrementally.
   This file contains only the pinned statements; proofs live in spec/ and proofs/. *)
From Coq Require Import NArith List.
From MZ.spec Require Import Adler Crc.
Import ListNotations.
Local Open Scope N_scope.

(* Any split of the data gives the same Adler-32 as one pass, for every starting value that
   is itself a checksum (both 16-bit halves reduced modulo 65521). *)
Theorem C16_adler_compose :
  forall a xs ys, adler_valid a -> adler32 (adler32 a xs) ys = adler32 a (xs ++ ys).
Proof. exact adler32_app. Qed.

(* ... and the result is again such a value, so the law can be iterated over any number of pieces. *)
Theorem C16_adler_closed :
  forall a xs, adler_valid a -> adler_valid (adler32 a xs) /\ adler32 a xs < 2 ^ 32.
Proof. intros a xs H. split; [exact (adler32_valid a xs H) | exact (adler32_lt a xs H)]. Qed.

Theorem C16_crc_compose :
  forall c xs ys, crc32 (crc32 c xs) ys = crc32 c (xs ++ ys).
Proof. exact crc32_app. Qed.

Theorem C16_empty_update :
  forall a, a < 2 ^ 32 -> adler32 a [] = a /\ crc32 a [] = a.
Proof. intros a H. split; [exact (adler32_nil a H) | exact (crc32_nil a)]. Qed.

(* non-vacuity: the initial value 1 is a checksum; published check values *)
Example C16_init_valid : adler_valid 1.
Proof. exact adler_valid_1. Qed.
Example C16_vectors :
  adler32 1 [87; 105; 107; 105; 112; 101; 100; 105; 97] = 300286872 /\
  crc32 0 [49;50;51;52;53;54;55;56;57] = 3421780262.
Proof. split; [exact adler_wikipedia | exact crc_check]. Qed.

Check C16_adler_compose :
  forall a xs ys, adler_valid a -> adler32 (adler32 a xs) ys = adler32 a (xs ++ ys).
Check C16_crc_compose : forall c xs ys, crc32 (crc32 c xs) ys = crc32 c (xs ++ ys).
