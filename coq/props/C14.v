(* C14 -- streaming deflate obeys its status protocol.  Proved on the model of deflate() /
   compress_inner (the control plane shared by every level): empty output refused without side
   effects; after stream end Finish keeps returning stream end and anything else is a buffer
   error; a non-Finish call after Finish is a parameter error that consumes and emits nothing.
   And at level 0, for every input and every sequence of deflate() calls (any chunking, any output
   lengths, flush None / Sync / Full / Finish, unconsumed input offered again, buffer-error returns
   included): when stream end is reported, everything received so far is a stream the RFC 1951 / 1950
   specification decodes to exactly the input consumed - and which the streaming decoder wrapper inflate()
   (model), driven with Finish on a fresh object as mz_uncompress does or through any sequence of non-Finish
   calls, turns back into that input (C14_level0_deflate_output_inflates_back_partial: mz_deflate-style
   production, mz_inflate-style consumption, both on the models).  Progress / termination under Finish are
   decided per explored run. *)
From Coq Require Import NArith ZArith List.
From MZ.lib Require Import Mach.
From MZ.spec Require Import DeflateSpec.
From MZ.model Require Import DeflateCore.
From MZ.lib Require Import Arr.
From MZ.model Require InflateStream.
From MZ.proofs Require Import Protocol StoredSpec StoredDeflate InflateStoredStream StoredWrappersEndToEnd StoredDeflateTotal StoredDeflateReturns DeflateEndAfterFinish.
Import ListNotations.
Local Open Scope N_scope.

Theorem C14_empty_output_refused :
  forall c input flush, deflate c input 0 flush = Ret (DRet D_MZ_ERR_BUF 0 [] c).
Proof. exact deflate_empty_output. Qed.

Theorem C14_done_is_stable :
  forall c input out_len flush, out_len <> 0 -> c_prev c = TDone ->
  deflate c input out_len flush
  = Ret (if flush =? 4 then DRet D_MZ_STREAM_END 0 [] c else DRet D_MZ_ERR_BUF 0 [] c).
Proof. exact deflate_after_done. Qed.

Theorem C14_nonfinish_after_finish_is_error :
  forall c input out_len flush,
  out_len <> 0 -> c_prev c <> TDone -> c_flush c = TF_FINISH -> flush <= 3 ->
  deflate c input out_len flush
  = Ret (DRet D_MZ_ERR_PARAM 0 [] (set_prev (set_flush c flush) TBadParam)).
Proof. exact deflate_nonfinish_after_finish. Qed.

Theorem C14_level0_stream_end_means_lossless_partial :
  forall (data : list N) (flags wb : N) (sched : list (N * N * N)) (out : list N) (n : N),
  hasf flags FLAG_RAW = true -> wb <= 15 -> bytes_ok data ->
  Forall (fun it => legal_mz_flush (snd it)) sched ->
  ddrive (comp_new flags wb) data sched [] 0 = Ret (Some (out, n)) ->
  n <= N.of_nat (length data) /\
  exists blocks,
    (if hasf flags FLAG_ZLIB then zlib_spec true out else inflate_spec out)
    = SDone (firstn (N.to_nat n) data) (N.of_nat (length out)) blocks.
Proof. exact level0_every_deflate_schedule. Qed.

(* non-vacuity: calls with one-byte and empty output buffers, a sync flush, Finish repeated until stream end *)
Example C14_a_deflate_schedule_that_ends :
  match ddrive (comp_new 528384 15) (repeat 67 50)
               [(20, 1, 0); (30, 0, 2); (30, 7, 2); (30, 1000, 3); (0, 3, 4); (0, 1000, 4)] [] 0 with
  | Ret (Some (out, n)) => n = 50
  | _ => False
  end.
Proof. vm_compute. reflexivity. Qed.

Theorem C14_level0_deflate_output_inflates_back_partial :
  (forall (data : list N) (cflags wb : N) (sched : list (N * N * N)) out n fmt out_len,
   hasf cflags FLAG_RAW = true -> wb <= 15 -> bytes_ok data ->
   Forall (fun it => legal_mz_flush (snd it)) sched ->
   ddrive (comp_new cflags wb) data sched [] 0 = Ret (Some (out, n)) ->
   zl_of fmt = hasf cflags FLAG_ZLIB ->
   n < out_len -> out_len <= USIZE_MAX -> N.of_nat (length out) < 2 ^ 57 ->
   exists r, InflateStream.inflate (InflateStream.is_new fmt) out out_len InflateStream.FL_FINISH = Ret r /\
     InflateStream.sr_code r = InflateStream.MZ_STREAM_END /\ InflateStream.sr_in r = N.of_nat (length out) /\
     InflateStream.sr_out r = firstn (N.to_nat n) data) /\
  (forall (data : list N) (cflags wb : N) (sched : list (N * N * N)) out n fmt
          (calls : list (list N * N * N)) later,
   hasf cflags FLAG_RAW = true -> wb <= 15 -> bytes_ok data ->
   Forall (fun it => legal_mz_flush (snd it)) sched ->
   ddrive (comp_new cflags wb) data sched [] 0 = Ret (Some (out, n)) ->
   zl_of fmt = hasf cflags FLAG_ZLIB ->
   Forall (fun it : list N * N * N => snd it <> InflateStream.FL_FINISH /\ snd it <> InflateStream.FL_FULL) calls ->
   concat (map (fun it : list N * N * N => fst (fst it)) calls) ++ later = out ->
   N.of_nat (length out) < 2 ^ 57 -> n < 2 ^ 40 ->
   exists codes acc s',
     sfeed (InflateStream.is_new fmt) [] calls [] [] = Ret (codes, acc, s') /\
     Forall (fun c => c = InflateStream.MZ_OK \/ c = InflateStream.MZ_STREAM_END \/ c = InflateStream.MZ_ERR_BUF) codes /\
     acc = firstn (length acc) (firstn (N.to_nat n) data) /\
     (In InflateStream.MZ_STREAM_END codes -> acc = firstn (N.to_nat n) data)).
Proof. split; [exact level0_deflate_then_inflate_finish|exact level0_deflate_then_inflate_calls]. Qed.

(* ... and no call sequence at level 0 panics: for every input and every schedule of deflate() calls (any chunks, any
   output lengths, flush None / Sync / Full / Finish) the caller's loop over the model never yields a Panic value *)
Theorem C14_level0_every_deflate_schedule_never_panics_partial :
  forall (data : list N) (flags wb : N) (sched : list (N * N * N)),
  hasf flags FLAG_RAW = true -> wb <= 15 ->
  Forall (fun it => legal_mz_flush (snd it)) sched ->
  match ddrive (comp_new flags wb) data sched [] 0 with Panic _ => False | _ => True end.
Proof. exact level0_every_deflate_schedule_never_panics. Qed.

(* ... and every call sequence at level 0 returns: the loop inside deflate() takes at most two turns (a turn that goes
   on was a turn that only drained pending output, and leaves nothing pending), the engine below it terminates, so
   for inputs under 2^40 - 259 bytes the caller's loop over the model returns a value: with the theorem above, the
   level-0 statements of C14 are total *)
Theorem C14_level0_every_deflate_schedule_returns_partial :
  forall (data : list N) (flags wb : N) (sched : list (N * N * N)),
  hasf flags FLAG_RAW = true -> wb <= 15 ->
  Forall (fun it => legal_mz_flush (snd it)) sched ->
  N.of_nat (length data) + 259 < 2 ^ 40 ->
  exists result, ddrive (comp_new flags wb) data sched [] 0 = Ret result.
Proof. exact level0_every_deflate_schedule_returns. Qed.

Example C14_returns_on_a_schedule :
  ddrive (comp_new 528384 15) (map (fun i => N.of_nat i mod 251) (seq 0 300)) [(100, 7, 0); (100, 50, 2); (300, 1000, 4)] [] 0
  <> Ret None.
Proof. vm_compute. discriminate. Qed.

(* ... and the Finish clause at level 0: after ANY schedule of deflate() calls that has not ended the stream, a call
   with Finish and a non-empty output buffer returns stream end, or Okay with the output buffer COMPLETELY full -
   whatever input it is offered ("keeps working until the stream ends or the output buffer is completely full") *)
Theorem C14_level0_finish_works_until_end_or_full_partial :
  forall (data : list N) (flags wb : N) (sched : list (N * N * N)) c rest acc n m out_len code ncons out c',
  hasf flags FLAG_RAW = true -> wb <= 15 ->
  Forall (fun it => legal_mz_flush (snd it)) sched ->
  N.of_nat (length data) + 259 < 2 ^ 40 ->
  dreach (comp_new flags wb) data sched [] 0 = Some (c, rest, acc, n) ->
  0 < out_len ->
  deflate c (firstn (N.to_nat m) rest) out_len 4 = Ret (DRet code ncons out c') ->
  code = D_MZ_STREAM_END \/ (code = D_MZ_OK /\ N.of_nat (length out) = out_len).
Proof. exact level0_finish_works_until_end_or_full. Qed.

Example C14_finish_fills_then_ends :
  match dreach (comp_new 528384 15) (map (fun i => N.of_nat i mod 251) (seq 0 300)) [(100, 7, 0); (100, 50, 2)] [] 0 with
  | Some (c, rest, acc, n) =>
      match deflate c rest 40 4, deflate c rest 1000 4 with
      | Ret (DRet code1 _ out1 _), Ret (DRet code2 _ _ _) =>
          code1 = D_MZ_OK /\ length out1 = 40%nat /\ code2 = D_MZ_STREAM_END
      | _, _ => False
      end
  | None => False
  end.
Proof. vm_compute. repeat split; reflexivity. Qed.

(* ... and the progress clause at level 0: after ANY schedule of deflate() calls that has not ended the stream, a call
   given a non-empty output buffer and either input or a flush request that reports MZ_OK has consumed at least one
   byte or delivered at least one byte (an empty output buffer is refused: C14_empty_output_refused) *)
Theorem C14_level0_call_makes_progress_partial :
  forall (data : list N) (flags wb : N) (sched : list (N * N * N)) c rest acc n m out_len f code ncons out c',
  hasf flags FLAG_RAW = true -> wb <= 15 ->
  Forall (fun it => legal_mz_flush (snd it)) sched -> legal_mz_flush f ->
  N.of_nat (length data) + 259 < 2 ^ 40 ->
  dreach (comp_new flags wb) data sched [] 0 = Some (c, rest, acc, n) ->
  firstn (N.to_nat m) rest <> [] \/ f <> 0 ->
  deflate c (firstn (N.to_nat m) rest) out_len f = Ret (DRet code ncons out c') -> code = D_MZ_OK ->
  0 < ncons \/ out <> [].
Proof. exact level0_deflate_call_makes_progress. Qed.

Example C14_progress_one_byte_at_a_time :
  match dreach (comp_new 528384 15) (map (fun i => N.of_nat i mod 251) (seq 0 300)) [(100, 7, 0); (100, 1, 2); (0, 1, 2)] [] 0 with
  | Some (c, rest, acc, n) =>
      match deflate c rest 1 0 with
      | Ret (DRet code ncons out _) => code = D_MZ_OK /\ ncons = 0 /\ length out = 1%nat /\ length acc = 2%nat
      | _ => False
      end
  | None => False
  end.
Proof. vm_compute. repeat split; reflexivity. Qed.

(* "stream-end is reported only after Finish": on the control plane of the compressor model (every flag word it
   models), for every object satisfying FI - "finished only under a Finish request", true of every new object and
   preserved by every call - if deflate() reports MZ_STREAM_END then the call was made with Finish *)
Theorem C14_stream_end_only_after_finish :
  forall c input out_len f code ncons out c',
  FI c -> deflate c input out_len f = Ret (DRet code ncons out c') ->
  FI c' /\ (code = D_MZ_STREAM_END -> f = 4).
Proof. exact deflate_end_only_after_finish. Qed.

Example C14_new_objects_satisfy_FI : forall flags wb, FI (comp_new flags wb).
Proof. exact FI_new. Qed.
