(* C14 -- streaming deflate obeys its status protocol.  Proved on the model of deflate() /
   compress_inner (the control plane shared by every level): empty output refused without side
   effects; after stream end Finish keeps returning stream end and anything else is a buffer
   error; a non-Finish call after Finish is a parameter error that consumes and emits nothing.
   Progress / termination under Finish are decided per explored run. *)
From Coq Require Import NArith ZArith List.
From MZ.lib Require Import Mach.
From MZ.model Require Import DeflateCore.
From MZ.proofs Require Import Protocol.
Import ListNotations.
Local Open Scope N_scope.

Theorem C14_empty_output_refused :
  forall c input flush, deflate c input 0 flush = Ret (DRet D_MZ_ERR_BUF 0 [] c).
Proof. exact deflate_empty_output. Qed.

Theorem C14_done_is_stable :
  forall c input out_len flush, out_len <> 0 -> c_prev c = TDone ->
  deflate c input out_len flush
  = Ret (if flush =? 4 then DRet D_MZ_STREAM_END 0 [] c else DRet D_MZ_ERR_BUF 0 [] c).
Proof. exact deflate_after_done. Qed.

Theorem C14_nonfinish_after_finish_is_error :
  forall c input out_len flush,
  out_len <> 0 -> c_prev c <> TDone -> c_flush c = TF_FINISH -> flush <= 3 ->
  deflate c input out_len flush
  = Ret (DRet D_MZ_ERR_PARAM 0 [] (set_prev (set_flush c flush) TBadParam)).
Proof. exact deflate_nonfinish_after_finish. Qed.
