
val implb : bool -> bool -> bool

val negb : bool -> bool

type nat =
| O
| S of nat

val fst : ('a1 * 'a2) -> 'a1

val snd : ('a1 * 'a2) -> 'a2

val length : 'a1 list -> nat

val app : 'a1 list -> 'a1 list -> 'a1 list

type comparison =
| Eq
| Lt
| Gt

val compOpp : comparison -> comparison

val add : nat -> nat -> nat

val sub : nat -> nat -> nat

val leb : nat -> nat -> bool

val ltb : nat -> nat -> bool

type positive =
| XI of positive
| XO of positive
| XH

type n =
| N0
| Npos of positive

type z =
| Z0
| Zpos of positive
| Zneg of positive

module Pos :
 sig
  type mask =
  | IsNul
  | IsPos of positive
  | IsNeg
 end

module Coq_Pos :
 sig
  val succ : positive -> positive

  val add : positive -> positive -> positive

  val add_carry : positive -> positive -> positive

  val pred_double : positive -> positive

  val pred_N : positive -> n

  type mask = Pos.mask =
  | IsNul
  | IsPos of positive
  | IsNeg

  val succ_double_mask : mask -> mask

  val double_mask : mask -> mask

  val double_pred_mask : positive -> mask

  val sub_mask : positive -> positive -> mask

  val sub_mask_carry : positive -> positive -> mask

  val mul : positive -> positive -> positive

  val iter : ('a1 -> 'a1) -> 'a1 -> positive -> 'a1

  val pow : positive -> positive -> positive

  val div2 : positive -> positive

  val div2_up : positive -> positive

  val compare_cont : comparison -> positive -> positive -> comparison

  val compare : positive -> positive -> comparison

  val eqb : positive -> positive -> bool

  val coq_Nsucc_double : n -> n

  val coq_Ndouble : n -> n

  val coq_lor : positive -> positive -> positive

  val coq_land : positive -> positive -> n

  val ldiff : positive -> positive -> n

  val coq_lxor : positive -> positive -> n

  val iter_op : ('a1 -> 'a1 -> 'a1) -> positive -> 'a1 -> 'a1

  val to_nat : positive -> nat

  val of_succ_nat : nat -> positive
 end

module N :
 sig
  val succ_double : n -> n

  val double : n -> n

  val succ_pos : n -> positive

  val add : n -> n -> n

  val sub : n -> n -> n

  val mul : n -> n -> n

  val compare : n -> n -> comparison

  val eqb : n -> n -> bool

  val leb : n -> n -> bool

  val ltb : n -> n -> bool

  val min : n -> n -> n

  val max : n -> n -> n

  val div2 : n -> n

  val even : n -> bool

  val odd : n -> bool

  val pow : n -> n -> n

  val pos_div_eucl : positive -> n -> n * n

  val div_eucl : n -> n -> n * n

  val div : n -> n -> n

  val modulo : n -> n -> n

  val coq_lor : n -> n -> n

  val coq_land : n -> n -> n

  val ldiff : n -> n -> n

  val coq_lxor : n -> n -> n

  val shiftr : n -> n -> n

  val to_nat : n -> nat

  val of_nat : nat -> n
 end

val nth : nat -> 'a1 list -> 'a1 -> 'a1

val rev : 'a1 list -> 'a1 list

val map : ('a1 -> 'a2) -> 'a1 list -> 'a2 list

val flat_map : ('a1 -> 'a2 list) -> 'a1 list -> 'a2 list

val fold_left : ('a1 -> 'a2 -> 'a1) -> 'a2 list -> 'a1 -> 'a1

val forallb : ('a1 -> bool) -> 'a1 list -> bool

val filter : ('a1 -> bool) -> 'a1 list -> 'a1 list

val find : ('a1 -> bool) -> 'a1 list -> 'a1 option

val combine : 'a1 list -> 'a2 list -> ('a1 * 'a2) list

val firstn : nat -> 'a1 list -> 'a1 list

val skipn : nat -> 'a1 list -> 'a1 list

val seq : nat -> nat -> nat list

val repeat : 'a1 -> nat -> 'a1 list

module Z :
 sig
  val double : z -> z

  val succ_double : z -> z

  val pred_double : z -> z

  val pos_sub : positive -> positive -> z

  val add : z -> z -> z

  val opp : z -> z

  val sub : z -> z -> z

  val mul : z -> z -> z

  val pow_pos : z -> positive -> z

  val pow : z -> z -> z

  val compare : z -> z -> comparison

  val leb : z -> z -> bool

  val ltb : z -> z -> bool

  val geb : z -> z -> bool

  val gtb : z -> z -> bool

  val eqb : z -> z -> bool

  val max : z -> z -> z

  val min : z -> z -> z

  val to_nat : z -> nat

  val of_N : n -> z

  val pos_div_eucl : positive -> z -> z * z

  val div_eucl : z -> z -> z * z

  val modulo : z -> z -> z

  val quotrem : z -> z -> z * z

  val quot : z -> z -> z

  val rem : z -> z -> z

  val div2 : z -> z

  val shiftl : z -> z -> z

  val shiftr : z -> z -> z

  val coq_lor : z -> z -> z

  val coq_land : z -> z -> z

  val coq_lxor : z -> z -> z
 end

val aDLER_MOD : n

val adler_step : (n * n) -> n -> n * n

val adler_unpack : n -> n * n

val adler_pack : (n * n) -> n

val adler32 : n -> n list -> n

val cRC_POLY : n

val m32 : n

val crc_bit : n -> n

val crc_byte : n -> n -> n

val crc_raw : n -> n list -> n

val crc32 : n -> n list -> n

val b2n : bool -> n

val byte_bits_aux : nat -> n -> bool list

val byte_bits : n -> bool list

val bits_of_bytes : n list -> bool list

val take_bits : nat -> bool list -> (n * bool list) option

val take_bytes : nat -> bool list -> (n list * bool list) option

val mAXBITS : nat

val count_len : n list -> n -> n

val bl_count : n list -> n list

val syms_of_len : n list -> n -> n -> n list

val canon_syms : n list -> n list

val kraft : n list -> n

val max_len : n list -> n

val over_subscribed : n list -> bool

val complete : n list -> bool

val lens_ok : bool -> n list -> bool

type dsym =
| DSym of n * bool list
| DTrunc
| DInvalid

val decode_aux : n list -> n list -> n -> n -> n -> bool list -> dsym

type hcode = { hc_counts : n list; hc_syms : n list }

val mk_hcode : n list -> hcode

val decode_sym : hcode -> bool list -> dsym

val length_base : n list

val length_extra : n list

val dist_base : n list

val dist_extra : n list

val clen_order : n list

val fixed_litlen_lens : n list

val fixed_dist_lens : n list

type token =
| Lit of n
| Match of n * n

type bkind =
| Stored
| Fixed
| Dynamic

type block = { b_final : bool; b_kind : bkind; b_tokens : token list;
               b_litlens : n list; b_distlens : n list; b_clens : n list }

type ekind =
| EBlockType
| EStoredLen
| ETableSizes
| EClenCode
| ERepeatFirst
| ERepeatOverrun
| ELitlenCode
| EDistCode
| EBadSymbol
| EDistance
| EZlibHeader
| EAdler

type 'a pres =
| POk of 'a * bool list
| PTrunc
| PErr of ekind

val parse_tokens :
  bool list -> hcode -> hcode -> bool list -> token list -> token list pres

val parse_lens : bool list -> hcode -> n -> bool list -> n list -> n list pres

val take_clens : nat -> bool list -> n list -> (n list * bool list) option

val clens_at : n list -> n list

val mkblock :
  bool -> bkind -> token list -> n list -> n list -> n list -> block

val parse_block : bool list -> n -> (block * n) pres

val parse_blocks :
  bool list -> bool list -> n -> block list -> (block list * n) pres

val parse_stream : bool list -> (block list * n) pres

val cycle_take : nat -> n list -> n list -> n list

val match_bytes : n list -> n -> n -> n list

val expand_tokens : token list -> n list -> n -> n list option

val all_tokens : block list -> token list

val expand : n list -> block list -> n list option

type sres =
| SDone of n list * n * block list
| STrunc
| SErr of ekind

val inflate_spec_bits : n list -> bool list -> sres

val inflate_spec : n list -> sres

val zlib_header_ok : n -> n -> bool

val be32_val : n list -> n

val zlib_spec : bool -> n list -> sres

val uwrap : z -> z -> z

val swrap : z -> z -> z

val inrange : z -> z -> z -> bool

val tnth : z list -> z -> z

val tz_NUM_PROBES : z list

val tag_Action_Jump : z

val add_fcheck : z -> z -> z * bool

val zlib_level_from_flags : z -> z * bool

val header_from_level : z -> z -> (z * z) * bool

val header_from_flags : z -> z -> (z * z) * bool

val validate_zlib_header : z -> z -> z -> z -> (z * z) * bool

val num_extra_bits_for_distance_code : z -> z * bool

val create_comp_flags_from_zip_params : z -> z -> z -> z * bool

val limit_level_by_window_bits : z -> z -> z -> (z * z) * bool

val window_bits_from_flags : z -> z * bool

val probes_from_flags : z -> (z * z) * bool

val update_hash : z -> z -> z * bool

val mz_deflateBound : unit -> z -> z * bool

val thread_splits : (n -> n list -> n) -> n -> n list -> n -> n list -> n

type tsum = { ts_blocks : n; ts_stored : n; ts_fixed : n; ts_dynamic : 
              n; ts_finals : n; ts_last_final : bool; ts_matches : n;
              ts_lits : n; ts_maxdist : n; ts_minlen : n; ts_maxlen : 
              n; ts_maxstored : n; ts_maxhlit : n; ts_maxhdist : n;
              ts_maxcodelen : n }

val tok_fold : ((((n * n) * n) * n) * n) -> token -> (((n * n) * n) * n) * n

val is_kind : bkind -> block -> bool

val count_if : ('a1 -> bool) -> 'a1 list -> n

val summarize : block list -> tsum

val parse_prefix :
  bool list -> bool list -> n -> block list -> ((block
  list * n) * bool) * bool

val prefix_spec : n list -> (((n list option * n) * bool) * bool) * block list

val block_is_sync : block -> bool
