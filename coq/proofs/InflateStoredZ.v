(* The decoder model M_inf on streams of byte-aligned stored blocks, raw or zlib-framed: one call
   on a flat buffer with enough room decodes every such stream to the bytes the blocks carry; with
   zlib framing the result is Done exactly when the trailer is the Adler-32 of those bytes and
   Adler32Mismatch otherwise (C03, C09 for the sub-language level 0 emits).  Generalises
   InflateStored.v (kept for the raw-format statement). *)
From Coq Require Import NArith ZArith List Bool Lia Arith.
From MZ.lib Require Import Arr Bits Mach.
From MZ.spec Require Import Adler DeflateSpec Zlib.
From MZ.gen Require GenZlib.
From MZ.model Require Import InflateCore.
From MZ.proofs Require Import IterPow StoredSpec.
From MZ.proofs Require ZlibHeader.
Import ListNotations.
Local Open Scope N_scope.
Arguments N.add : simpl never.
Arguments N.sub : simpl never.
Arguments N.mul : simpl never.
Arguments N.ltb : simpl never.
Arguments N.leb : simpl never.
Arguments N.eqb : simpl never.
Arguments N.land : simpl never.
Arguments N.shiftr : simpl never.
Arguments N.shiftl : simpl never.
Arguments N.lor : simpl never.

Section ReadBits.
Variable flags : N.

Lemma read_bits_have c amount k :
  amount <= nb c -> amount < 64 ->
  read_bits flags c amount k
  = k (set_bits c (N.shiftr (bb c) amount) (nb c - amount)) (N.land (bb c) (N.ones amount)).
Proof.
  intros H1 H2. unfold read_bits. cbn [read_bits_f].
  replace (nb c <? amount) with false by (symmetry; apply N.ltb_ge; exact H1).
  unfold guard. replace (amount <? 64) with true by (symmetry; apply N.ltb_lt; exact H2). reflexivity.
Qed.

Lemma read_bits_one_byte c b rest amount k :
  nb c = 0 -> bb c = 0 -> inp c = b :: rest -> b < 256 -> 0 < amount -> amount <= 8 ->
  read_bits flags c amount k
  = k (set_bits (set_in c rest (ileft c - 1)) (N.shiftr b amount) (8 - amount)) (N.land b (N.ones amount)).
Proof.
  intros Hn Hb Hi Hlt H0 H8. unfold read_bits. cbn [read_bits_f].
  rewrite Hn. replace (0 <? amount) with true by (symmetry; apply N.ltb_lt; exact H0).
  unfold read_byte. rewrite Hi. unfold push_bits, guard.
  cbn [set_in mk nb bb]. rewrite Hn, Hb.
  change (0 <? 64) with true. cbn [bind].
  rewrite N.shiftl_0_r, N.lor_0_l, N.add_0_l.
  rewrite (N.mod_small b U64) by (unfold U64; lia).
  cbn [read_bits_f set_bits mk nb bb].
  replace (8 <? amount) with false by (symmetry; apply N.ltb_ge; exact H8).
  replace (amount <? 64) with true by (symmetry; apply N.ltb_lt; lia). cbn [bind].
  reflexivity.
Qed.
End ReadBits.

Lemma length_aget_list a i n : N.of_nat (length (aget_list a i n)) = n.
Proof. unfold aget_list. rewrite length_aget_list_nat. lia. Qed.

(* reading back what has been written *)
Lemma aget_list_aset_list o p0 pos bytes :
  p0 <= pos ->
  aget_list (aset_list o pos bytes) p0 (pos + N.of_nat (length bytes) - p0)
  = aget_list o p0 (pos - p0) ++ bytes.
Proof.
  intros H. apply (nth_ext _ _ 0 0).
  - unfold aget_list. rewrite app_length, !length_aget_list_nat. lia.
  - unfold aget_list. rewrite length_aget_list_nat. intros k Hk.
    rewrite nth_aget_list_nat by exact Hk.
    destruct (Nat.lt_ge_cases k (N.to_nat (pos - p0))) as [H1|H2].
    + rewrite app_nth1 by (rewrite length_aget_list_nat; exact H1).
      rewrite nth_aget_list_nat by exact H1. apply aget_aset_list_out. lia.
    + rewrite app_nth2 by (rewrite length_aget_list_nat; exact H2).
      rewrite length_aget_list_nat.
      replace (p0 + N.of_nat k) with (pos + N.of_nat (k - N.to_nat (pos - p0))) by lia.
      apply aget_aset_list_in. lia.
Qed.

Section StoredZ.
Variable flags : N.
Variable zl : bool.
Hypothesis HZ : has flags F_ZLIB = zl.
Hypothesis HSB : has flags F_STOPBB = false.
Hypothesis HNW : has flags F_NONWRAP = true.
Variables (cmf flg A : N).
Hypothesis Hcmf : cmf < 256.
Hypothesis Hflg : flg < 256.
Hypothesis Hvalid : valid_header (Z.of_N cmf) (Z.of_N flg) = true.
Hypothesis HA : A < 2 ^ 32.

Definition blk := (bool * list N)%type.
Definition blk_ok (b : blk) : Prop := bytes_ok (snd b) /\ N.of_nat (length (snd b)) <= 65535.

(* all blocks but the last are non-final *)
Inductive shapeB : list blk -> Prop :=
  | sh_last ch : blk_ok (true, ch) -> shapeB [(true, ch)]
  | sh_cons ch bs : blk_ok (false, ch) -> shapeB bs -> shapeB ((false, ch) :: bs).

Definition shapeT (f : bool) (bs : list blk) : Prop :=
  (f = true /\ bs = []) \/ (f = false /\ shapeB bs).

Definition enc (bs : list blk) : list N := concat (map (fun b => stored_block (fst b) (snd b)) bs).
Definition pay (bs : list blk) : list N := concat (map snd bs).

Variable B : list blk.
Hypothesis HB : shapeB B.

Variable extra : list N.      (* bytes after the end of the stream; the decoder must leave them alone *)
Definition tailz : list N := if zl then be32 A else [].
Definition tail : list N := tailz ++ extra.
Definition hz : list N := if zl then [cmf; flg] else [].
Definition encT (bs : list blk) : list N := enc bs ++ tail.

(* the trailer as the decoder accumulates it *)
Definition accz (z b : N) : N := N.lor (z * 256 mod U32) b.

Definition in_buf : list N := hz ++ encT B.
Definition in_len : N := N.of_nat (length in_buf).
Definition P : list N := pay B.

Variables (omax mask p0 : N).
Hypothesis Hroom : p0 + N.of_nat (length P) <= omax.

Definition outpre (c : cfg) : list N := aget_list (out c) p0 (pos c - p0).
Definition hdr4 (ch : list N) : list N :=
  le16 (N.of_nat (length ch)) ++ le16 (65535 - N.of_nat (length ch)).

Definition Sh (c : cfg) : Prop :=
  match st c with
  | Start => inp c = in_buf /\ pos c = p0
  | ReadZlibCmf => zl = true /\ inp c = in_buf /\ pos c = p0 /\ nb c = 0 /\ bb c = 0
  | ReadZlibFlg => zl = true /\ inp c = flg :: encT B /\ pos c = p0 /\ d_zh0 (rr c) = cmf /\ nb c = 0 /\ bb c = 0
  | ReadBlockHeader =>
      nb c = 0 /\ bb c = 0 /\
      exists bs, shapeB bs /\ inp c = encT bs /\ outpre c ++ pay bs = P
  | BlockTypeNoCompression =>
      nb c = 5 /\ bb c = 0 /\ exists f ch bs, shapeT f bs /\ blk_ok (f, ch) /\ d_finish (rr c) = b2n f /\
      inp c = hdr4 ch ++ ch ++ encT bs /\ outpre c ++ ch ++ pay bs = P
  | RawHeader =>
      nb c = 0 /\ bb c = 0 /\ exists f ch bs, shapeT f bs /\ blk_ok (f, ch) /\ d_finish (rr c) = b2n f /\
      ctr c <= 4 /\ inp c = skipn (N.to_nat (ctr c)) (hdr4 ch) ++ ch ++ encT bs /\
      (forall j, (j < N.to_nat (ctr c))%nat -> aget (d_raw (rr c)) (N.of_nat j) = nth j (hdr4 ch) 0) /\
      outpre c ++ ch ++ pay bs = P
  | RawMemcpy1 | RawMemcpy2 =>
      nb c = 0 /\ bb c = 0 /\ exists f rest bs, shapeT f bs /\ d_finish (rr c) = b2n f /\
      ctr c = N.of_nat (length rest) /\ inp c = rest ++ encT bs /\ outpre c ++ rest ++ pay bs = P /\
      (st c = RawMemcpy2 -> rest <> [])
  | BlockDone =>
      nb c = 0 /\ bb c = 0 /\ exists f bs, shapeT f bs /\ d_finish (rr c) = b2n f /\
      inp c = encT bs /\ outpre c ++ pay bs = P
  | ReadAdler32 =>
      zl = true /\ nb c = 0 /\ bb c = 0 /\ ctr c <= 4 /\ inp c = skipn (N.to_nat (ctr c)) (be32 A) ++ extra /\
      d_zadler (rr c) = fold_left accz (firstn (N.to_nat (ctr c)) (be32 A)) 1 /\ outpre c = P
  | DoneForever => nb c = 0 /\ inp c = extra /\ outpre c = P /\ (zl = true -> d_zadler (rr c) = A)
  | _ => False
  end.

Definition Inv (c : cfg) : Prop :=
  ileft c = N.of_nat (length (inp c)) /\ (exists pre, in_buf = pre ++ inp c) /\
  p0 <= pos c /\ pos c <= omax /\ omax <= alen (out c) /\
  (st c <> Start -> d_check (rr c) = 1) /\
  (st c <> Start -> st c <> ReadAdler32 -> st c <> DoneForever -> d_zadler (rr c) = 1) /\ Sh c.

Definition Post (r : res (status * cfg)) : Prop :=
  match r with
  | Ret (s, c) => s = Done /\ nb c = 0 /\ inp c = extra /\ ileft c = N.of_nat (length extra) /\ outpre c = P /\ p0 <= pos c /\ pos c <= omax /\
                  d_check (rr c) = 1 /\ (zl = true -> d_zadler (rr c) = A)
  | _ => True
  end.

Lemma length_outpre c : p0 <= pos c -> N.of_nat (length (outpre c)) = pos c - p0.
Proof. intros H. unfold outpre. apply length_aget_list. Qed.

Lemma shapeB_nonempty bs : shapeB bs -> bs <> [].
Proof. intros H; inversion H; discriminate. Qed.

Lemma shapeB_split bs : shapeB bs -> exists f ch bs', bs = (f, ch) :: bs' /\ shapeT f bs' /\ blk_ok (f, ch).
Proof.
  intros H. inversion H; subst.
  - exists true, ch, []. split; [reflexivity|]. split; [left; split; reflexivity|assumption].
  - exists false, ch, bs0. split; [reflexivity|]. split; [right; split; [reflexivity|assumption]|assumption].
Qed.

Notation stepf := (step flags in_buf in_len omax mask).

Definition StepOk (r : res (action * cfg)) : Prop :=
  match r with
  | Ret (ANone, c') => Inv c'
  | Ret (AJump s, c') => Inv (set_st c' s)
  | Ret (AEnd s, c') => Post (Ret (s, c'))
  | _ => True
  end.

Lemma b2n_le1 f : b2n f <= 1. Proof. destruct f; cbn; lia. Qed.

Lemma hz_nozlib : zl = false -> hz = [] /\ tail = extra.
Proof. intros E. unfold hz, tail, tailz. rewrite E. split; reflexivity. Qed.

Lemma encT_cons f ch bs : encT ((f, ch) :: bs) = stored_block f ch ++ encT bs.
Proof. unfold encT, enc. cbn [map concat fst snd]. rewrite <- app_assoc. reflexivity. Qed.

Lemma outpre_empty c : pos c = p0 -> outpre c = [].
Proof. intros E. unfold outpre. rewrite E, N.sub_diag. reflexivity. Qed.

Ltac keepck Hck E := intros _; apply Hck; rewrite E; discriminate.

Lemma st_start c : Inv c -> st c = Start -> StepOk (stepf c).
Proof.
  intros (Hi & Hpre & Hp0 & Hpm & Hom & Hck & Hza & HS) E. unfold Sh in HS. rewrite E in HS.
  destruct HS as (Hin & Hpos).
  unfold step. rewrite E, HZ.
  destruct zl eqn:Ezl.
  - unfold jump, StepOk, Inv, Sh. cbn [set_st mk st inp ileft out pos nb bb rr d_check d_zadler r_hdr upd_dec].
    repeat split; try assumption; try reflexivity.
  - destruct (hz_nozlib Ezl) as [Hz0 Ht0].
    unfold jump, StepOk, Inv, Sh. cbn [set_st mk st inp ileft out pos nb bb rr d_check d_zadler r_hdr upd_dec].
    repeat split; try assumption; try reflexivity.
    exists B. split; [exact HB|]. split.
    + rewrite Hin. unfold in_buf. unfold hz. rewrite Ezl. reflexivity.
    + unfold outpre. cbn [mk out pos]. rewrite Hpos, N.sub_diag. reflexivity.
Qed.

Lemma st_zcmf c : Inv c -> st c = ReadZlibCmf -> StepOk (stepf c).
Proof.
  intros (Hi & (pre & Hpre) & Hp0 & Hpm & Hom & Hck & Hza & HS) E. unfold Sh in HS. rewrite E in HS.
  destruct HS as (Ezl & Hin & Hpos & Hn & Hb).
  assert (Hin' : inp c = cmf :: flg :: encT B) by (rewrite Hin; unfold in_buf, hz; rewrite Ezl; reflexivity).
  unfold step. rewrite E. unfold read_byte. rewrite Hin'.
  unfold jump, StepOk, Inv, Sh.
  cbn [set_st set_rr set_in mk st inp ileft out pos nb bb rr d_check d_zadler d_zh0 r_hdr upd_dec].
  rewrite Hi, Hin'. cbn [length].
  split; [lia|]. split; [exists (pre ++ [cmf]); rewrite Hpre, Hin', <- app_assoc; reflexivity|].
  repeat split; try assumption; try (intros _; apply Hck; rewrite E; discriminate); try (intros _ _ _; apply Hza; rewrite E; discriminate).
Qed.

Lemma of_N_land a b : Z.of_N (N.land a b) = Z.land (Z.of_N a) (Z.of_N b).
Proof. destruct a, b; reflexivity. Qed.

Lemma validate_nonwrap mask0 :
  fst (fst (GenZlib.validate_zlib_header (Z.of_N cmf) (Z.of_N flg) (Z.of_N flags) mask0)) = GenZlib.tag_Action_Jump /\
  snd (fst (GenZlib.validate_zlib_header (Z.of_N cmf) (Z.of_N flg) (Z.of_N flags) mask0)) = 3%Z.
Proof.
  assert (Hc : (0 <= Z.of_N cmf < 256)%Z) by lia.
  assert (Hf : (0 <= Z.of_N flg < 256)%Z) by lia.
  pose proof (ZlibHeader.forall_range _ _ _ ZlibHeader.validate_core_all (Z.of_N cmf) ltac:(cbn; lia)) as H1.
  cbn beta in H1.
  pose proof (ZlibHeader.forall_range _ _ _ H1 (Z.of_N flg) ltac:(cbn; lia)) as H2. clear H1.
  unfold ZlibHeader.core_ok in H2. rewrite !forallb_forall in H2.
  specialize (H2 false ltac:(cbn; tauto)). rewrite forallb_forall in H2.
  specialize (H2 false ltac:(cbn; tauto)).
  unfold GenZlib.validate_zlib_header.
  fold (ZlibHeader.window_term (Z.of_N cmf)). rewrite (ZlibHeader.window_term_eq _ Hc).
  assert (Hw : (Z.land (Z.of_N flags) 4 =? 0)%Z = false).
  { unfold has, F_NONWRAP in HNW. apply negb_true_iff in HNW. apply N.eqb_neq in HNW.
    apply Z.eqb_neq. change 4%Z with (Z.of_N 4). rewrite <- of_N_land. lia. }
  rewrite Hw. cbv zeta. cbn [fst snd].
  unfold ZlibHeader.validate_core in H2. cbv zeta in H2.
  destruct (GenZlib.inrange 0 4294967295 (Z.of_N cmf * 256)); [|discriminate H2].
  destruct (GenZlib.inrange 0 4294967295 (GenZlib.uwrap 32 (Z.of_N cmf * 256) + Z.of_N flg)); [|discriminate H2].
  cbn [andb] in H2. apply Z.eqb_eq in H2.
  unfold ZlibHeader.validate_abs in H2. rewrite Hvalid in H2. cbn [negb orb andb] in H2.
  split; [reflexivity|]. exact H2.
Qed.

Lemma st_zflg c : Inv c -> st c = ReadZlibFlg -> StepOk (stepf c).
Proof.
  intros (Hi & (pre & Hpre) & Hp0 & Hpm & Hom & Hck & Hza & HS) E. unfold Sh in HS. rewrite E in HS.
  destruct HS as (Ezl & Hin & Hpos & Hzh & Hn & Hb).
  unfold step. rewrite E. unfold read_byte. rewrite Hin. cbv zeta.
  cbn [set_in mk rr]. rewrite Hzh.
  destruct (validate_nonwrap (Z.of_N mask)) as [V1 V2].
  destruct (GenZlib.validate_zlib_header (Z.of_N cmf) (Z.of_N flg) (Z.of_N flags) (Z.of_N mask)) as [[tg target] okf].
  cbn [fst snd] in V1, V2. subst target.
  change (3 =? GenZlib.e_State_BadZlibHeader)%Z with false. cbv iota.
  unfold jump, StepOk, Inv, Sh.
  cbn [set_st set_rr set_in mk st inp ileft out pos nb bb rr d_check d_zadler r_hdr upd_dec].
  rewrite Hi, Hin. cbn [length].
  split; [lia|]. split; [exists (pre ++ [flg]); rewrite Hpre, Hin, <- app_assoc; reflexivity|].
  split; [exact Hp0|]. split; [exact Hpm|]. split; [exact Hom|].
  split; [intros _; apply Hck; rewrite E; discriminate|]. split; [intros _ _ _; apply Hza; rewrite E; discriminate|].
  split; [exact Hn|]. split; [exact Hb|].
  exists B. split; [exact HB|]. split; [reflexivity|].
  unfold outpre. cbn [set_st set_rr set_in mk out pos]. rewrite Hpos, N.sub_diag. reflexivity.
Qed.

Lemma st_rbh c : Inv c -> st c = ReadBlockHeader -> StepOk (stepf c).
Proof.
  intros (Hi & (pre & Hpre) & Hp0 & Hpm & Hom & Hck & Hza & HS) E. unfold Sh in HS. rewrite E in HS.
  destruct HS as (Hn & Hb & bs & Hsh & Hin & Hout).
  destruct (shapeB_split bs Hsh) as (f & ch & bs' & -> & HT & Hok).
  rewrite encT_cons in Hin. unfold stored_block in Hin. cbn [app] in Hin.
  unfold step. rewrite E.
  rewrite (read_bits_one_byte flags c (b2n f) _ 3 _ Hn Hb Hin) by (pose proof (b2n_le1 f); lia).
  assert (Hbits : N.land (b2n f) (N.ones 3) = b2n f) by (destruct f; reflexivity).
  assert (Hshr : N.shiftr (b2n f) 3 = 0) by (destruct f; reflexivity).
  rewrite Hbits, Hshr. cbv zeta.
  assert (Hfin : N.land (b2n f) 1 = b2n f) by (destruct f; reflexivity).
  assert (Hbt : N.land (N.shiftr (b2n f) 1) 3 = 0) by (destruct f; reflexivity).
  cbn [d_block_type r_blk upd_dec set_rr set_bits set_in mk rr]. rewrite Hbt. change (0 =? 0) with true. cbv iota.
  unfold jump, StepOk, Inv, Sh.
  cbn [set_st set_rr set_bits set_in mk st inp ileft out pos nb bb rr d_finish d_check d_zadler r_blk upd_dec].
  rewrite Hi, Hin. cbn [length].
  split; [lia|]. split; [exists (pre ++ [b2n f]); rewrite Hpre, Hin, <- !app_assoc; cbn [app]; reflexivity|].
  split; [exact Hp0|]. split; [exact Hpm|]. split; [exact Hom|]. split; [intros _; apply Hck; rewrite E; discriminate|]. split; [intros _ _ _; apply Hza; rewrite E; discriminate|].
  split; [reflexivity|]. split; [reflexivity|].
  exists f, ch, bs'. rewrite Hfin. destruct Hok as [Hok1 Hok2].
  split; [exact HT|]. split; [split; assumption|]. split; [reflexivity|]. split.
  - unfold hdr4. rewrite <- !app_assoc. reflexivity.
  - unfold pay in *. cbn [map concat snd] in Hout. exact Hout.
Qed.

Lemma st_btnc c : Inv c -> st c = BlockTypeNoCompression -> StepOk (stepf c).
Proof.
  intros (Hi & Hpre & Hp0 & Hpm & Hom & Hck & Hza & HS) E. unfold Sh in HS. rewrite E in HS.
  destruct HS as (Hn & Hb & f & ch & bs & HT & Hok & Hfin & Hin & Hout).
  unfold step. rewrite E. unfold pad_to_bytes. rewrite Hn. change (N.land 5 7) with 5.
  rewrite read_bits_have by (try rewrite Hn; lia). rewrite Hn, Hb.
  change (N.shiftr 0 5) with 0. change (5 - 5) with 0.
  unfold jump, StepOk, Inv, Sh.
  cbn [set_st set_ctr set_bits mk st inp ileft out pos nb bb rr ctr d_check d_zadler].
  repeat split; try assumption; try (intros _; apply Hck; rewrite E; discriminate); try (intros _ _ _; apply Hza; rewrite E; discriminate).
  exists f, ch, bs. change (N.to_nat 0) with 0%nat. cbn [skipn].
  destruct Hok as [Hok1 Hok2].
  repeat split; try assumption; try lia.
Qed.

Lemma skipn_nth_cons {T} (d : T) : forall (l : list T) k, (k < length l)%nat -> skipn k l = nth k l d :: skipn (S k) l.
Proof.
  induction l as [|x l IH]; intros k H; cbn [length] in H; [lia|].
  destruct k as [|k]; [reflexivity|]. cbn [skipn nth]. apply IH. lia.
Qed.

Lemma le16_value v : v < 65536 -> nth 0 (le16 v) 0 + 256 * nth 1 (le16 v) 0 = v.
Proof.
  intros H. unfold le16. cbn [nth]. rewrite (N.mod_small (v / 256)) by (apply N.div_lt_upper_bound; lia).
  pose proof (N.div_mod v 256 ltac:(lia)). lia.
Qed.

Lemma hdr4_length ch : length (hdr4 ch) = 4%nat.
Proof. reflexivity. Qed.

Lemma hdr4_bytes ch j : (j < 4)%nat -> nth j (hdr4 ch) 0 < 256.
Proof.
  intros H. unfold hdr4, le16. cbn [app].
  destruct j as [|[|[|[|j]]]]; cbn [nth]; try lia; apply N.mod_lt; lia.
Qed.

Lemma st_rawheader c : Inv c -> st c = RawHeader -> StepOk (stepf c).
Proof.
  intros (Hi & (pre & Hpre) & Hp0 & Hpm & Hom & Hck & Hza & HS) E. unfold Sh in HS. rewrite E in HS.
  destruct HS as (Hn & Hb & f & ch & bs & HT & [Hok1 Hok2] & Hfin & Hc4 & Hin & Hraw & Hout).
  cbn [snd] in Hok1, Hok2.
  unfold step. rewrite E.
  destruct (ctr c <? 4) eqn:Ek.
  - apply N.ltb_lt in Ek. rewrite Hn. change (negb (0 =? 0)) with false. cbv iota.
    rewrite (skipn_nth_cons 0 (hdr4 ch) (N.to_nat (ctr c))) in Hin by (rewrite hdr4_length; lia).
    cbn [app] in Hin. unfold read_byte. rewrite Hin.
    unfold StepOk, Inv, Sh.
    cbn [set_ctr set_rr set_in mk st inp ileft out pos nb bb rr ctr d_raw r_raw upd_dec d_finish d_check d_zadler].
    rewrite E, Hi, Hin. cbn [length].
    split; [lia|]. split.
    { exists (pre ++ [nth (N.to_nat (ctr c)) (hdr4 ch) 0]). rewrite Hpre, Hin, <- app_assoc. reflexivity. }
    split; [exact Hp0|]. split; [exact Hpm|]. split; [exact Hom|]. split; [intros _; apply Hck; rewrite E; discriminate|]. split; [intros _ _ _; apply Hza; rewrite E; discriminate|].
    split; [exact Hn|]. split; [exact Hb|].
    exists f, ch, bs. split; [exact HT|]. split; [split; assumption|]. split; [exact Hfin|]. split; [lia|].
    split; [replace (N.to_nat (ctr c + 1)) with (S (N.to_nat (ctr c))) by lia; reflexivity|].
    split; [|exact Hout].
    intros j Hj. destruct (Nat.eq_dec j (N.to_nat (ctr c))) as [->|Hne].
    + rewrite N2Nat.id. apply aget_aset_same.
    + rewrite aget_aset_other by lia. apply Hraw. lia.
  - apply N.ltb_ge in Ek. assert (Hk4 : ctr c = 4) by lia. cbv zeta.
    rewrite Hk4 in *. change (N.to_nat 4) with 4%nat in *.
    assert (H0 := Hraw 0%nat ltac:(lia)). assert (H1 := Hraw 1%nat ltac:(lia)).
    assert (H2 := Hraw 2%nat ltac:(lia)). assert (H3 := Hraw 3%nat ltac:(lia)).
    change (N.of_nat 0) with 0 in H0. change (N.of_nat 1) with 1 in H1.
    change (N.of_nat 2) with 2 in H2. change (N.of_nat 3) with 3 in H3.
    rewrite H0, H1, H2, H3.
    set (len := N.of_nat (length ch)) in *.
    assert (Hlen : nth 0 (hdr4 ch) 0 + 256 * nth 1 (hdr4 ch) 0 = len).
    { unfold hdr4. fold len. change (nth 0 (le16 len ++ le16 (65535 - len)) 0) with (nth 0 (le16 len) 0).
      change (nth 1 (le16 len ++ le16 (65535 - len)) 0) with (nth 1 (le16 len) 0). apply le16_value. lia. }
    assert (Hchk : nth 2 (hdr4 ch) 0 + 256 * nth 3 (hdr4 ch) 0 = 65535 - len).
    { unfold hdr4. fold len. change (nth 2 (le16 len ++ le16 (65535 - len)) 0) with (nth 0 (le16 (65535 - len)) 0).
      change (nth 3 (le16 len ++ le16 (65535 - len)) 0) with (nth 1 (le16 (65535 - len)) 0). apply le16_value. lia. }
    rewrite Hlen, Hchk.
    replace (len + (65535 - len) =? 65535) with true by (symmetry; apply N.eqb_eq; lia). cbn [negb].
    assert (Hin' : inp c = ch ++ encT bs) by (rewrite Hin; reflexivity).
    destruct (len =? 0) eqn:E0.
    + apply N.eqb_eq in E0. assert (ch = []) by (destruct ch; [reflexivity|unfold len in E0; cbn [length] in E0; lia]). subst ch.
      unfold jump, StepOk, Inv, Sh.
      cbn [set_st set_ctr mk st inp ileft out pos nb bb rr ctr].
      repeat split; try assumption; eauto; try (intros _; apply Hck; rewrite E; discriminate); try (intros _ _ _; apply Hza; rewrite E; discriminate).
      exists f, bs. repeat split; assumption.
    + cbn [set_ctr mk nb]. rewrite Hn. change (negb (0 =? 0)) with false. cbv iota.
      unfold jump, StepOk, Inv, Sh.
      cbn [set_st set_ctr mk st inp ileft out pos nb bb rr ctr].
      repeat split; try assumption; eauto; try (intros _; apply Hck; rewrite E; discriminate); try (intros _ _ _; apply Hza; rewrite E; discriminate).
      exists f, ch, bs. repeat split; try assumption; try reflexivity. discriminate.
Qed.

Lemma room_for c rest tail :
  p0 <= pos c -> outpre c ++ rest ++ tail = P -> pos c + N.of_nat (length rest) <= omax.
Proof.
  intros Hp H. assert (E : length (outpre c ++ rest ++ tail) = length P) by (rewrite H; reflexivity).
  rewrite !app_length in E. pose proof (length_outpre c Hp). lia.
Qed.

Lemma st_memcpy1 c : Inv c -> st c = RawMemcpy1 -> StepOk (stepf c).
Proof.
  intros (Hi & Hpre & Hp0 & Hpm & Hom & Hck & Hza & HS) E. unfold Sh in HS. rewrite E in HS.
  destruct HS as (Hn & Hb & f & rest & bs & HT & Hfin & Hctr & Hin & Hout & _).
  unfold step. rewrite E. unfold bytes_left, csub.
  replace (pos c <=? omax) with true by (symmetry; apply N.leb_le; exact Hpm). cbn [bind].
  destruct (ctr c =? 0) eqn:E0.
  - apply N.eqb_eq in E0. assert (rest = []) by (destruct rest; [reflexivity|cbn [length] in Hctr; lia]). subst rest.
    unfold jump, StepOk, Inv, Sh. cbn [set_st mk st inp ileft out pos nb bb rr].
    repeat split; try assumption; try (intros _; apply Hck; rewrite E; discriminate); try (intros _ _ _; apply Hza; rewrite E; discriminate).
    exists f, bs. repeat split; assumption.
  - apply N.eqb_neq in E0. pose proof (room_for c rest (pay bs) Hp0 Hout) as Hr.
    replace (omax - pos c =? 0) with false by (symmetry; apply N.eqb_neq; lia).
    unfold jump, StepOk, Inv, Sh. cbn [set_st mk st inp ileft out pos nb bb rr ctr].
    repeat split; try assumption; try (intros _; apply Hck; rewrite E; discriminate); try (intros _ _ _; apply Hza; rewrite E; discriminate).
    exists f, rest, bs. repeat split; try assumption; try (intros _; apply Hck; rewrite E; discriminate); try (intros _ _ _; apply Hza; rewrite E; discriminate).
    intros _ X. subst rest. cbn [length] in Hctr. lia.
Qed.

Lemma st_memcpy2 c : Inv c -> st c = RawMemcpy2 -> StepOk (stepf c).
Proof.
  intros (Hi & (pre & Hpre) & Hp0 & Hpm & Hom & Hck & Hza & HS) E. unfold Sh in HS. rewrite E in HS.
  destruct HS as (Hn & Hb & f & rest & bs & HT & Hfin & Hctr & Hin & Hout & Hne).
  specialize (Hne eq_refl).
  assert (Hrl : 0 < N.of_nat (length rest)) by (destruct rest; [contradiction|cbn [length]; lia]).
  pose proof (room_for c rest (pay bs) Hp0 Hout) as Hr.
  unfold step. rewrite E.
  assert (Hil : N.of_nat (length rest) <= ileft c) by (rewrite Hi, Hin, app_length; lia).
  replace (0 <? ileft c) with true by (symmetry; apply N.ltb_lt; lia).
  unfold bytes_left, csub.
  replace (pos c <=? omax) with true by (symmetry; apply N.leb_le; exact Hpm). cbn [bind].
  replace (N.min (N.min (omax - pos c) (ileft c)) (ctr c)) with (N.of_nat (length rest)) by lia.
  unfold guard. replace (pos c + N.of_nat (length rest) <=? alen (out c)) with true by (symmetry; apply N.leb_le; lia).
  cbn [bind]. rewrite Nat2N.id.
  assert (Hfirst : firstn (length rest) (inp c) = rest) by (rewrite Hin, firstn_app, Nat.sub_diag, firstn_all; cbn [firstn]; apply app_nil_r).
  assert (Hskip : skipn (length rest) (inp c) = encT bs) by (rewrite Hin, skipn_app, skipn_all, Nat.sub_diag; reflexivity).
  cbv zeta. cbn [set_st set_ctr set_in set_out mk inp ileft ctr out pos].
  rewrite Hfirst, Hskip.
  unfold jump, StepOk, Inv, Sh.
  cbn [set_st set_ctr set_in set_out mk st inp ileft out pos nb bb rr ctr].
  split; [rewrite Hi, Hin, app_length; lia|]. split; [exists (pre ++ rest); rewrite Hpre, Hin, app_assoc; reflexivity|].
  split; [lia|]. split; [lia|]. split; [rewrite alen_aset_list; exact Hom|].
  split; [intros _; apply Hck; rewrite E; discriminate|]. split; [intros _ _ _; apply Hza; rewrite E; discriminate|].
  split; [exact Hn|]. split; [exact Hb|].
  exists f, [], bs. split; [exact HT|]. split; [exact Hfin|]. split; [cbn [length]; lia|]. split; [reflexivity|].
  split; [|discriminate].
  unfold outpre. cbn [set_st set_ctr set_in set_out mk out pos].
  rewrite aget_list_aset_list by exact Hp0. cbn [app]. rewrite <- app_assoc. exact Hout.
Qed.

Lemma enc_nil : enc [] = []. Proof. reflexivity. Qed.
Lemma pay_nil : pay [] = []. Proof. reflexivity. Qed.

Lemma st_blockdone c : Inv c -> st c = BlockDone -> StepOk (stepf c).
Proof.
  intros (Hi & (pre & Hpre) & Hp0 & Hpm & Hom & Hck & Hza & HS) E. unfold Sh in HS. rewrite E in HS.
  destruct HS as (Hn & Hb & f & bs & HT & Hfin & Hin & Hout).
  unfold step. rewrite E, Hfin.
  destruct HT as [[-> ->]|[-> Hsh]].
  - (* the final block *)
    change (negb (b2n true =? 0)) with true. cbv iota.
    unfold pad_to_bytes. rewrite Hn. change (N.land 0 7) with 0.
    rewrite read_bits_have by (try rewrite Hn; lia). rewrite Hn, Hb. cbn [bind].
    change (N.shiftr 0 0) with 0. change (0 - 0) with 0.
    cbn [set_bits mk ileft nb bb inp].
    assert (Hlen : in_len = N.of_nat (length pre) + ileft c).
    { unfold in_len. rewrite Hpre, app_length, Hi. lia. }
    replace (in_len - ileft c) with (N.of_nat (length pre)) by lia.
    unfold undo_bytes. change (N.shiftr 0 3) with 0. rewrite N.min_0_l. change (N.shiftl 0 3) with 0. change (0 - 0) with 0.
    cbv zeta. rewrite N.sub_0_r, Nat2N.id.
    assert (Hsk : skipn (length pre) in_buf = inp c) by (rewrite Hpre, skipn_app, skipn_all, Nat.sub_diag; reflexivity).
    rewrite Hsk.
    cbn [set_bits set_in mk nb bb]. unfold guard. change (0 <? 64) with true. cbn [bind].
    change (N.land 0 (N.ones 0)) with 0. change (0 =? 0) with true. cbn [bind].
    assert (Hin' : inp c = tail) by (rewrite Hin; unfold encT; rewrite enc_nil; reflexivity).
    rewrite pay_nil, app_nil_r in Hout.
    replace (in_len - N.of_nat (length pre)) with (ileft c) by lia.
    rewrite HZ. unfold tail, tailz in Hin'.
    destruct zl eqn:Ezl.
    + unfold jump, StepOk, Inv, Sh. cbn [set_st set_ctr set_bits set_in mk st inp ileft out pos nb bb rr ctr d_check d_zadler].
      split; [exact Hi|]. split; [exists pre; exact Hpre|].
      split; [exact Hp0|]. split; [exact Hpm|]. split; [exact Hom|].
      split; [intros _; apply Hck; rewrite E; discriminate|]. split; [intros _ X; contradiction|].
      split; [exact Ezl|]. split; [reflexivity|]. split; [reflexivity|]. split; [lia|].
      split; [exact Hin'|]. split; [|exact Hout].
      change (N.to_nat 0) with 0%nat. cbn [firstn fold_left]. apply Hza; rewrite E; discriminate.
    + unfold jump, StepOk, Inv, Sh. cbn [set_st set_ctr set_bits set_in mk st inp ileft out pos nb bb rr ctr d_check d_zadler].
      split; [exact Hi|]. split; [exists pre; exact Hpre|].
      split; [exact Hp0|]. split; [exact Hpm|]. split; [exact Hom|].
      split; [intros _; apply Hck; rewrite E; discriminate|]. split; [intros _ _ X; contradiction|].
      split; [reflexivity|]. split; [exact Hin'|]. split; [exact Hout|]. intros X; rewrite Ezl in X; discriminate X.
  - change (negb (b2n false =? 0)) with false. cbv iota. rewrite HSB.
    unfold jump, StepOk, Inv, Sh. cbn [set_st mk st inp ileft out pos nb bb rr].
    repeat split; try assumption; eauto; try (intros _; apply Hck; rewrite E; discriminate); try (intros _ _ _; apply Hza; rewrite E; discriminate).
Qed.


Lemma accz_add z b : b < 256 -> accz z b = (z mod 16777216) * 256 + b.
Proof.
  intros Hb. unfold accz, U32. change 4294967296 with (16777216 * 256).
  rewrite N.mul_mod_distr_r by lia.
  rewrite N.lor_comm. change 256 with (2 ^ 8) at 1. rewrite <- N.shiftl_mul_pow2.
  rewrite lor_disjoint_add by (change (2 ^ 8) with 256; exact Hb). change (2 ^ 8) with 256. lia.
Qed.

Lemma be32_bytes : Forall (fun b => b < 256) (be32 A).
Proof. unfold be32. repeat constructor; apply N.mod_lt; lia. Qed.

Lemma fold_accz_be32 : fold_left accz (be32 A) 1 = A.
Proof.
  pose proof (be32_val_be32 A HA) as HV. pose proof be32_bytes as HF. unfold be32 in *. unfold be32_val in HV.
  set (a0 := A / 16777216 mod 256) in *. set (a1 := A / 65536 mod 256) in *.
  set (a2 := A / 256 mod 256) in *. set (a3 := A mod 256) in *.
  clear HF.
  assert (H0 : a0 < 256) by (apply N.mod_lt; lia). assert (H1 : a1 < 256) by (apply N.mod_lt; lia).
  assert (H2 : a2 < 256) by (apply N.mod_lt; lia). assert (H3 : a3 < 256) by (apply N.mod_lt; lia).
  cbn [fold_left]. rewrite !accz_add by assumption.
  change (1 mod 16777216) with 1.
  rewrite (N.mod_small (1 * 256 + a0)) by lia.
  rewrite (N.mod_small ((1 * 256 + a0) * 256 + a1)) by lia.
  replace (((1 * 256 + a0) * 256 + a1) * 256 + a2) with ((a0 * 65536 + a1 * 256 + a2) + 1 * 16777216) by lia.
  rewrite N.mod_add by lia. rewrite N.mod_small by lia. lia.
Qed.

Lemma firstn_S_nth {T} (d : T) : forall (l : list T) k, (k < length l)%nat -> firstn (S k) l = firstn k l ++ [nth k l d].
Proof.
  induction l as [|x l IH]; intros k H; cbn [length] in H; [lia|].
  destruct k as [|k]; [reflexivity|]. cbn [firstn nth app]. f_equal. apply IH. lia.
Qed.

Lemma st_adler c : Inv c -> st c = ReadAdler32 -> StepOk (stepf c).
Proof.
  intros (Hi & (pre & Hpre) & Hp0 & Hpm & Hom & Hck & Hza & HS) E. unfold Sh in HS. rewrite E in HS.
  destruct HS as (Ezl & Hn & Hb & Hctr & Hin & Hzad & Hout).
  unfold step. rewrite E.
  destruct (ctr c <? 4) eqn:E4.
  - apply N.ltb_lt in E4. rewrite Hn. change (negb (0 =? 0)) with false. cbv iota.
    assert (Hl4 : length (be32 A) = 4%nat) by reflexivity.
    assert (Hk : (N.to_nat (ctr c) < length (be32 A))%nat) by (rewrite Hl4; lia).
    rewrite (skipn_nth_cons 0 (be32 A) (N.to_nat (ctr c)) Hk) in Hin. cbn [app] in Hin.
    unfold read_byte. rewrite Hin. cbv zeta.
    unfold StepOk, Inv, Sh.
    cbn [set_st set_ctr set_rr set_in mk st inp ileft out pos nb bb rr ctr d_check d_zadler r_hdr upd_dec].
    rewrite E. rewrite Hi, Hin. cbn [length].
    split; [lia|]. split; [exists (pre ++ [nth (N.to_nat (ctr c)) (be32 A) 0]); rewrite Hpre, Hin, <- app_assoc; reflexivity|].
    split; [exact Hp0|]. split; [exact Hpm|]. split; [exact Hom|].
    split; [intros _; apply Hck; rewrite E; discriminate|]. split; [intros _ X; contradiction|].
    split; [exact Ezl|]. split; [exact Hn|]. split; [exact Hb|]. split; [lia|].
    replace (N.to_nat (ctr c + 1)) with (S (N.to_nat (ctr c))) by lia.
    split; [reflexivity|]. split; [|exact Hout].
    rewrite (firstn_S_nth 0 (be32 A) _ Hk), fold_left_app. cbn [fold_left]. rewrite Hzad. reflexivity.
  - apply N.ltb_ge in E4. assert (Hc4 : ctr c = 4) by lia. rewrite Hc4 in Hin, Hzad.
    change (N.to_nat 4) with 4%nat in Hin, Hzad.
    change (skipn 4 (be32 A)) with (@nil N) in Hin. change (firstn 4 (be32 A)) with (be32 A) in Hzad.
    rewrite fold_accz_be32 in Hzad.
    unfold jump, StepOk, Inv, Sh. cbn [set_st mk st inp ileft out pos nb bb rr ctr d_check d_zadler].
    split; [exact Hi|]. split; [exists pre; exact Hpre|].
    split; [exact Hp0|]. split; [exact Hpm|]. split; [exact Hom|].
    split; [intros _; apply Hck; rewrite E; discriminate|]. split; [intros _ _ X; contradiction|].
    split; [exact Hn|]. split; [exact Hin|]. split; [exact Hout|]. intros _. exact Hzad.
Qed.

Lemma st_doneforever c : Inv c -> st c = DoneForever -> StepOk (stepf c).
Proof.
  intros (Hi & Hpre & Hp0 & Hpm & Hom & Hck & Hza & HS) E. unfold Sh in HS. rewrite E in HS.
  destruct HS as (Hn & Hin & Hout & Hzad).
  unfold step. rewrite E. unfold StepOk, Post.
  split; [reflexivity|]. split; [exact Hn|]. split; [exact Hin|]. split; [rewrite Hi, Hin; reflexivity|].
  split; [exact Hout|]. split; [exact Hp0|]. split; [exact Hpm|].
  split; [apply Hck; rewrite E; discriminate|exact Hzad].
Qed.

Lemma step_ok c : Inv c -> StepOk (stepf c).
Proof.
  intros HI. destruct (st c) eqn:E;
    try (exfalso; destruct HI as (_ & _ & _ & _ & _ & _ & _ & HS); unfold Sh in HS; rewrite E in HS; exact HS).
  - apply st_start; assumption.
  - apply st_zcmf; assumption.
  - apply st_zflg; assumption.
  - apply st_rbh; assumption.
  - apply st_btnc; assumption.
  - apply st_rawheader; assumption.
  - apply st_memcpy1; assumption.
  - apply st_memcpy2; assumption.
  - apply st_blockdone; assumption.
  - apply st_adler; assumption.
  - apply st_doneforever; assumption.
Qed.

Theorem run_storedZ c : Inv c -> Post (run flags in_buf in_len omax mask c).
Proof.
  intros HI. unfold run.
  pose proof (iter_pow_inv (turn flags in_buf in_len omax mask) Inv Post) as H.
  assert (H1 : forall s s', Inv s -> turn flags in_buf in_len omax mask s = inl s' -> Inv s').
  { intros s s' Hs Ht. unfold turn in Ht. pose proof (step_ok s Hs) as X. unfold StepOk in X.
    destruct (stepf s) as [[[| |] c']| |]; inversion Ht; subst; exact X. }
  assert (H2 : forall s r, Inv s -> turn flags in_buf in_len omax mask s = inr r -> Post r).
  { intros s r Hs Ht. unfold turn in Ht. pose proof (step_ok s Hs) as X. unfold StepOk in X.
    destruct (stepf s) as [[[| |] c']| |]; inversion Ht; subst; try exact X; exact I. }
  specialize (H H1 H2 62%nat c HI).
  destruct (iter_pow 62 (turn flags in_buf in_len omax mask) c) as [c'|r]; [exact I|exact H].
Qed.

End StoredZ.

(* ------------------------------------------------------------------ the call *)
Lemma shapeB_of chunks last :
  chunks_ok chunks -> bytes_ok last -> N.of_nat (length last) <= 65535 ->
  shapeB (map (pair false) chunks ++ [(true, last)]).
Proof.
  intros Hc Hl1 Hl2. induction chunks as [|c cs IH]; cbn [map app].
  - constructor. split; assumption.
  - inversion Hc as [|c' cs' [H1 H2] Hcs]; subst. constructor; [split; assumption|apply IH; exact Hcs].
Qed.

Lemma enc_of chunks last : enc (map (pair false) chunks ++ [(true, last)]) = stored_stream chunks last.
Proof.
  unfold enc. induction chunks as [|c cs IH]; cbn [map app concat fst snd stored_stream].
  - apply app_nil_r.
  - rewrite IH. reflexivity.
Qed.

Lemma pay_of chunks last : pay (map (pair false) chunks ++ [(true, last)]) = concat chunks ++ last.
Proof.
  unfold pay. induction chunks as [|c cs IH]; cbn [map app concat snd].
  - apply app_nil_r.
  - rewrite IH, app_assoc. reflexivity.
Qed.

(* A zlib-framed stream of stored blocks followed by arbitrary further bytes, one call, flat output with
   room: exactly the stream is consumed (the further bytes are left alone), the payload is delivered, and
   the status is Done exactly when the trailer is the Adler-32 of the payload (or checking is switched
   off), Adler32Mismatch otherwise. *)
Theorem decompress_zlib_stored_stream_extra flags cmf flg A chunks last extra o res :
  has flags F_ZLIB = true -> has flags F_STOPBB = false -> has flags F_NONWRAP = true ->
  cmf < 256 -> flg < 256 -> valid_header (Z.of_N cmf) (Z.of_N flg) = true -> A < 2 ^ 32 ->
  chunks_ok chunks -> bytes_ok last -> N.of_nat (length last) <= 65535 ->
  N.of_nat (length (concat chunks ++ last)) <= alen o -> alen o <= USIZE_MAX ->
  let data := concat chunks ++ last in
  let stream := cmf :: flg :: stored_stream chunks last ++ be32 A in
  decompress dec_default (stream ++ extra) o 0 USIZE_MAX flags = Ret res ->
  cr_status res = (if has flags F_IGNORE || (adler32 1 data =? A) then Done else Adler32Mismatch) /\
  cr_in res = N.of_nat (length stream) /\
  cr_out res = N.of_nat (length data) /\
  aget_list (cr_buf res) 0 (cr_out res) = data.
Proof.
  intros HZ HSB HNW Hcmf Hflg Hvalid HA Hc Hl1 Hl2 Hroom Hrep data stream.
  set (B := map (pair false) chunks ++ [(true, last)]).
  pose proof (shapeB_of chunks last Hc Hl1 Hl2) as HB. fold B in HB.
  assert (Hinput : stream ++ extra = in_buf true cmf flg A B extra).
  { unfold stream, in_buf, hz, encT, tail, tailz, B. rewrite enc_of. cbn [app]. rewrite <- !app_assoc. reflexivity. }
  assert (Hslen : N.of_nat (length (in_buf true cmf flg A B extra)) = N.of_nat (length stream) + N.of_nat (length extra)).
  { rewrite <- Hinput, app_length. lia. }
  assert (Hdata : data = P B) by (unfold data, P, B; rewrite pay_of; reflexivity).
  rewrite Hinput, Hdata. rewrite <- (pay_of chunks last) in Hroom. fold B in Hroom. fold (P B) in Hroom.
  set (IB := in_buf true cmf flg A B extra) in *.
  clearbody B stream data. clear Hinput Hdata.
  unfold decompress. rewrite HNW.
  change (N.land ((USIZE_MAX + 1) mod U64) USIZE_MAX =? 0) with true.
  replace (alen o <? 0) with false by (symmetry; apply N.ltb_ge; lia). cbn [negb orb].
  set (omax := N.min (N.min (0 + USIZE_MAX) USIZE_MAX) (alen o)).
  assert (Hom : omax = alen o) by (unfold omax; unfold USIZE_MAX in *; lia).
  set (c0 := mk dec_default (d_state dec_default) (d_bit_buf dec_default) (d_num_bits dec_default) (d_dist dec_default)
                (d_counter dec_default) (d_num_extra dec_default) IB (N.of_nat (length IB)) o 0).
  assert (HI : Inv true cmf flg A B extra omax 0 c0).
  { unfold Inv, c0. cbn [mk ileft inp pos out st]. split; [reflexivity|]. split; [exists []; reflexivity|].
    split; [lia|]. split; [lia|]. split; [lia|].
    change (d_state dec_default) with Start.
    split; [intros X; contradiction|]. split; [intros X; contradiction|].
    unfold Sh. cbn [mk st inp pos]. split; reflexivity. }
  pose proof (run_storedZ flags true HZ HSB HNW cmf flg A Hcmf Hflg Hvalid HA B HB extra omax USIZE_MAX 0 ltac:(lia) c0 HI) as HP.
  unfold in_len in HP. fold IB in HP.
  destruct (run flags IB (N.of_nat (length IB)) omax USIZE_MAX c0) as [[s c]| |]; cbn [bind]; try discriminate.
  unfold Post in HP. destruct HP as (Hs & Hnb & Hinp & Hil & Hout & _ & Hpm & Hchk & Hzad).
  specialize (Hzad eq_refl).
  rewrite Hs. clear Hs s.
  rewrite Hil, Hnb, Hslen.
  replace (N.of_nat (length stream) + N.of_nat (length extra) - N.of_nat (length extra)) with (N.of_nat (length stream)) by lia.
  unfold undo_bytes. change (N.shiftr 0 3) with 0. rewrite N.min_0_l. change (N.shiftl 0 3) with 0. change (0 - 0) with 0.
  unfold csub. replace (pos c <=? omax) with true by (symmetry; apply N.leb_le; exact Hpm). cbn [bind].
  unfold guard. change (0 <? 64) with true. cbn [bind].
  replace (0 <=? pos c) with true by (symmetry; apply N.leb_le; lia). cbn [bind].
  rewrite HZ. cbn [andb orb].
  assert (Hlen : N.of_nat (length (P B)) = pos c).
  { rewrite <- Hout. unfold outpre. rewrite length_aget_list. lia. }
  unfold outpre in Hout. rewrite N.sub_0_r in *. rewrite Hout, Hchk, Hzad.
  replace (0 <=? N.of_nat (length stream)) with true by (symmetry; apply N.leb_le; lia).
  destruct (has flags F_IGNORE); cbn [andb orb]; change (0 <=? status_code Done)%Z with true; cbv iota; cbn [bind].
  - intros H; inversion H; subst res; clear H; cbn [cr_status cr_in cr_out cr_buf].
    repeat split; try lia. rewrite ?N.sub_0_r; exact Hout.
  - destruct (adler32 1 (P B) =? A); cbn [negb]; cbv iota;
    intros H; inversion H; subst res; clear H; cbn [cr_status cr_in cr_out cr_buf];
    (repeat split; try lia; rewrite ?N.sub_0_r; exact Hout).
Qed.

Theorem decompress_zlib_stored_stream flags cmf flg A chunks last o res :
  has flags F_ZLIB = true -> has flags F_STOPBB = false -> has flags F_NONWRAP = true ->
  cmf < 256 -> flg < 256 -> valid_header (Z.of_N cmf) (Z.of_N flg) = true -> A < 2 ^ 32 ->
  chunks_ok chunks -> bytes_ok last -> N.of_nat (length last) <= 65535 ->
  N.of_nat (length (concat chunks ++ last)) <= alen o -> alen o <= USIZE_MAX ->
  let data := concat chunks ++ last in
  let input := cmf :: flg :: stored_stream chunks last ++ be32 A in
  decompress dec_default input o 0 USIZE_MAX flags = Ret res ->
  cr_status res = (if has flags F_IGNORE || (adler32 1 data =? A) then Done else Adler32Mismatch) /\
  cr_in res = N.of_nat (length input) /\
  cr_out res = N.of_nat (length data) /\
  aget_list (cr_buf res) 0 (cr_out res) = data.
Proof.
  intros HZ HSB HNW Hcmf Hflg Hvalid HA Hc Hl1 Hl2 Hroom Hrep data input Hd.
  rewrite <- (app_nil_r input) in Hd.
  exact (decompress_zlib_stored_stream_extra flags cmf flg A chunks last [] o res HZ HSB HNW Hcmf Hflg Hvalid HA Hc Hl1 Hl2 Hroom Hrep Hd).
Qed.

(* the raw format, same statement without header and trailer *)
Theorem decompress_raw_stored_stream_extra flags chunks last extra o res :
  has flags F_ZLIB = false -> has flags F_STOPBB = false -> has flags F_NONWRAP = true ->
  chunks_ok chunks -> bytes_ok last -> N.of_nat (length last) <= 65535 ->
  N.of_nat (length (concat chunks ++ last)) <= alen o -> alen o <= USIZE_MAX ->
  let data := concat chunks ++ last in
  let stream := stored_stream chunks last in
  decompress dec_default (stream ++ extra) o 0 USIZE_MAX flags = Ret res ->
  cr_status res = Done /\
  cr_in res = N.of_nat (length stream) /\
  cr_out res = N.of_nat (length data) /\
  aget_list (cr_buf res) 0 (cr_out res) = data.
Proof.
  intros HZ HSB HNW Hc Hl1 Hl2 Hroom Hrep data stream.
  set (B := map (pair false) chunks ++ [(true, last)]).
  pose proof (shapeB_of chunks last Hc Hl1 Hl2) as HB. fold B in HB.
  assert (Hinput : stream ++ extra = in_buf false 120 1 0 B extra).
  { unfold stream, in_buf, hz, encT, tail, tailz, B. rewrite enc_of. reflexivity. }
  assert (Hslen : N.of_nat (length (in_buf false 120 1 0 B extra)) = N.of_nat (length stream) + N.of_nat (length extra)).
  { rewrite <- Hinput, app_length. lia. }
  assert (Hdata : data = P B) by (unfold data, P, B; rewrite pay_of; reflexivity).
  rewrite Hinput, Hdata. rewrite <- (pay_of chunks last) in Hroom. fold B in Hroom. fold (P B) in Hroom.
  set (IB := in_buf false 120 1 0 B extra) in *.
  clearbody B stream data. clear Hinput Hdata.
  unfold decompress. rewrite HNW.
  change (N.land ((USIZE_MAX + 1) mod U64) USIZE_MAX =? 0) with true.
  replace (alen o <? 0) with false by (symmetry; apply N.ltb_ge; lia). cbn [negb orb].
  set (omax := N.min (N.min (0 + USIZE_MAX) USIZE_MAX) (alen o)).
  assert (Hom : omax = alen o) by (unfold omax; unfold USIZE_MAX in *; lia).
  set (c0 := mk dec_default (d_state dec_default) (d_bit_buf dec_default) (d_num_bits dec_default) (d_dist dec_default)
                (d_counter dec_default) (d_num_extra dec_default) IB (N.of_nat (length IB)) o 0).
  assert (HI : Inv false 120 1 0 B extra omax 0 c0).
  { unfold Inv, c0. cbn [mk ileft inp pos out st]. split; [reflexivity|]. split; [exists []; reflexivity|].
    split; [lia|]. split; [lia|]. split; [lia|].
    change (d_state dec_default) with Start.
    split; [intros X; contradiction|]. split; [intros X; contradiction|].
    unfold Sh. cbn [mk st inp pos]. split; reflexivity. }
  pose proof (run_storedZ flags false HZ HSB HNW 120 1 0 ltac:(lia) ltac:(lia) ltac:(reflexivity) ltac:(cbn; lia) B HB extra omax USIZE_MAX 0 ltac:(lia) c0 HI) as HP.
  unfold in_len in HP. fold IB in HP.
  destruct (run flags IB (N.of_nat (length IB)) omax USIZE_MAX c0) as [[s c]| |]; cbn [bind]; try discriminate.
  unfold Post in HP. destruct HP as (Hs & Hnb & Hinp & Hil & Hout & _ & Hpm & Hchk & _).
  rewrite Hs. clear Hs s.
  rewrite Hil, Hnb, Hslen.
  replace (N.of_nat (length stream) + N.of_nat (length extra) - N.of_nat (length extra)) with (N.of_nat (length stream)) by lia.
  unfold undo_bytes. change (N.shiftr 0 3) with 0. rewrite N.min_0_l. change (N.shiftl 0 3) with 0. change (0 - 0) with 0.
  unfold csub. replace (pos c <=? omax) with true by (symmetry; apply N.leb_le; exact Hpm). cbn [bind].
  unfold guard. change (0 <? 64) with true. cbn [bind].
  replace (0 <=? pos c) with true by (symmetry; apply N.leb_le; lia). cbn [bind].
  rewrite HZ. cbn [andb orb].
  assert (Hlen : N.of_nat (length (P B)) = pos c).
  { rewrite <- Hout. unfold outpre. rewrite length_aget_list. lia. }
  unfold outpre in Hout. rewrite N.sub_0_r in *.
  replace (0 <=? N.of_nat (length stream)) with true by (symmetry; apply N.leb_le; lia).
  destruct (if has flags F_IGNORE then false else has flags F_COMPUTE);
    cbn [andb]; change (0 <=? status_code Done)%Z with true; cbv iota; cbn [bind];
    intros H; inversion H; subst res; clear H; cbn [cr_status cr_in cr_out cr_buf];
    (repeat split; try lia; rewrite ?N.sub_0_r; exact Hout).
Qed.
