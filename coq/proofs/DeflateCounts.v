(* Counts of the compressor's control plane (model/DeflateCore.v): a call never reports more
   input consumed than was offered nor more output written than the buffer holds (C02, C14). *)
From Coq Require Import NArith ZArith List Bool Lia.
From MZ.lib Require Import Arr Bits Mach.
From MZ.model Require Import DeflateCore.
From MZ.proofs Require Import IterPow.
Import ListNotations.
Local Open Scope N_scope.

(* ---- ntake *)
Lemma ntake_f_spec {A} (l : list A) : forall k acc cnt t r n,
  ntake_f l k acc cnt = (t, r, n) ->
  n = cnt + N.of_nat (length t) - N.of_nat (length acc) /\ N.of_nat (length acc) <= N.of_nat (length t) /\
  n - cnt <= k /\ rev acc ++ l = t ++ r.
Proof.
  induction l as [|x l IH]; intros k acc cnt t r n; cbn [ntake_f].
  - intros H; inversion H; subst. rewrite rev_append_rev, app_nil_r, rev_length, app_nil_r.
    repeat split; lia.
  - destruct (k =? 0) eqn:E.
    + intros H; inversion H; subst. rewrite rev_append_rev, app_nil_r, rev_length.
      repeat split; try lia.
    + intros H. apply IH in H. cbn [length rev] in H. apply N.eqb_neq in E.
      destruct H as (H1 & H2 & H3 & H4). rewrite <- app_assoc in H4. cbn [app] in H4.
      repeat split; try lia. exact H4.
Qed.

Lemma ntake_spec {A} (l : list A) k t r n :
  ntake l k = (t, r, n) -> n = N.of_nat (length t) /\ n <= k /\ l = t ++ r.
Proof.
  unfold ntake. intros H. apply ntake_f_spec in H. cbn [length rev app] in H.
  destruct H as (H1 & H2 & H3 & H4). repeat split; try lia. exact H4.
Qed.

(* ---- the output callback invariant: a buffer of [len] bytes with [ofs] = bytes written <= len *)
Section Sink.
Variable L : N.

Definition cb_ok (cb : cbout) : Prop :=
  match cb with
  | CBuf len w ofs => len = L /\ ofs = N.of_nat (length w) /\ ofs <= len
  | CFunc _ _ _ => False
  end.

Lemma flush_output_ok c cb bytes n c' cb' :
  flush_output c cb bytes = (n, c', cb') -> cb_ok cb -> cb_ok cb'.
Proof.
  unfold flush_output. destruct (N.of_nat (length bytes) =? 0).
  - intros H; inversion H; subst; tauto.
  - destruct cb as [len w ofs|acc w calls].
    + destruct (ntake bytes (len - ofs)) as [[now later] k] eqn:Et.
      intros H; inversion H; subst; clear H. cbn [cb_ok]. intros (H0 & H1 & H2).
      apply ntake_spec in Et. destruct Et as (E1 & E2 & E3).
      rewrite rev_append_rev, app_length, rev_length. lia.
    + cbn [cb_ok]. intros _ F; contradiction.
Qed.

Lemma flush_output_buffer_ok c cb st c' cb' :
  flush_output_buffer c cb = (st, c', cb') -> cb_ok cb -> cb_ok cb'.
Proof.
  unfold flush_output_buffer. destruct cb as [len w ofs|acc w calls].
  - destruct (ntake (c_pending c) (len - ofs)) as [[now later] n] eqn:Et.
    intros H; inversion H; subst; clear H. cbn [cb_ok]. intros (H0 & H1 & H2).
    apply ntake_spec in Et. destruct Et as (E1 & E2 & E3).
    rewrite rev_append_rev, app_length, rev_length. lia.
  - intros H; inversion H; subst; tauto.
Qed.

Lemma flush_block_ok c cb flush n c' cb' :
  flush_block c cb flush = Ret (FbOk n c' cb') -> cb_ok cb -> cb_ok cb'.
Proof.
  unfold flush_block. intros H Hok.
  repeat match type of H with
         | bind ?X _ = _ => destruct X eqn:?; cbn [bind] in H; try discriminate H
         end.
  match type of H with context [match ?r with Some _ => _ | None => _ end] => destruct r end; [|discriminate H].
  repeat match type of H with
         | bind ?X _ = _ => destruct X eqn:?; cbn [bind] in H; try discriminate H
         end.
  match type of H with context [flush_output ?a ?b ?d] => destruct (flush_output a b d) as [[nn c2] cb2] eqn:Ef end.
  inversion H; subst. eapply flush_output_ok; eassumption.
Qed.

(* ---- compress_stored: src_pos <= |input| and the callback invariant *)
Definition sinv (total : N) (s : sstate) : Prop :=
  cb_ok (s_cb s) /\ s_src s + s_inleft s = total /\ s_inleft s = N.of_nat (length (s_in s)).

Lemma stored_turn_inl total s s' : sinv total s -> stored_turn s = inl s' -> sinv total s'.
Proof.
  unfold stored_turn, sinv. intros (Hcb & Hsum & Hlen).
  destruct ((0 <? s_inleft s) || _); [|discriminate].
  destruct (csub C_MAX_MATCH (s_ls s) 320) as [room| |]; try discriminate.
  set (n := N.min (s_inleft s) room).
  assert (Hn : n <= N.of_nat (length (s_in s))) by (unfold n; lia).
  destruct ((c_flush (s_c s) =? TF_NONE) && _); [discriminate|].
  destruct (csub (s_ls s + n) 1 321) as [ls1| |]; try discriminate.
  destruct (31744 <? s_bw s + 1).
  - destruct (flush_block _ (s_cb s) TF_NONE) as [fb| |] eqn:Ef; try discriminate.
    destruct fb as [nn c2 cb2|c2 cb2|]; try discriminate.
    destruct (negb (nn =? 0)%Z); [discriminate|].
    intros H; inversion H; subst; clear H. cbn [s_cb s_src s_inleft s_in].
    split; [eapply flush_block_ok; eassumption|].
    split; [lia|]. rewrite skipn_length. lia.
  - intros H; inversion H; subst; clear H. cbn [s_cb s_src s_inleft s_in].
    split; [exact Hcb|]. split; [lia|]. rewrite skipn_length. lia.
Qed.

Lemma stored_turn_inr total s r :
  sinv total s -> stored_turn s = inr r ->
  match r with
  | Ret (SRet ok c cb src) => cb_ok cb /\ src <= total
  | _ => True
  end.
Proof.
  unfold stored_turn, sinv. intros (Hcb & Hsum & Hlen).
  destruct ((0 <? s_inleft s) || _).
  - destruct (csub C_MAX_MATCH (s_ls s) 320) as [room| |].
    + set (n := N.min (s_inleft s) room).
      destruct ((c_flush (s_c s) =? TF_NONE) && _).
      * intros H; inversion H; subst. split; [exact Hcb|unfold n; lia].
      * destruct (csub (s_ls s + n) 1 321) as [ls1| |].
        -- destruct (31744 <? s_bw s + 1).
           ++ destruct (flush_block _ (s_cb s) TF_NONE) as [fb| |] eqn:Ef.
              ** destruct fb as [nn c2 cb2|c2 cb2|].
                 --- destruct (negb (nn =? 0)%Z); [|discriminate].
                     intros H; inversion H; subst. split; [eapply flush_block_ok; eassumption|unfold n; lia].
                 --- intros H; inversion H; subst. split; [|unfold n; lia].
                     (* FbErr is never produced by the modelled (raw) path *)
                     unfold flush_block in Ef.
                     repeat match type of Ef with
                            | bind ?X _ = _ => destruct X eqn:?; cbn [bind] in Ef; try discriminate Ef
                            end.
                     match type of Ef with context [match ?r with Some _ => _ | None => _ end] => destruct r end; [|discriminate Ef].
                     repeat match type of Ef with
                            | bind ?X _ = _ => destruct X eqn:?; cbn [bind] in Ef; try discriminate Ef
                            end.
                     match type of Ef with context [flush_output ?a ?b ?d] => destruct (flush_output a b d) as [[nn c3] cb3] end.
                     discriminate Ef.
                 --- intros H; inversion H; subst. exact I.
              ** intros H; inversion H; subst. exact I.
              ** intros H; inversion H; subst. exact I.
           ++ discriminate.
        -- intros H; inversion H; subst. exact I.
        -- intros H; inversion H; subst. exact I.
    + intros H; inversion H; subst. exact I.
    + intros H; inversion H; subst. exact I.
  - intros H; inversion H; subst. split; [exact Hcb|lia].
Qed.

Lemma compress_stored_counts c cb input r :
  cb_ok cb -> compress_stored c cb input = Ret r ->
  match r with SRet ok c' cb' src => cb_ok cb' /\ src <= N.of_nat (length input) | SUnmodelled => True end.
Proof.
  intros Hcb. unfold compress_stored.
  set (s0 := {| s_c := c; s_cb := cb; s_in := input; s_inleft := N.of_nat (length input); s_src := 0;
               s_bw := c_total_bytes c; s_ls := c_la_size c; s_lp := c_la_pos c |}).
  pose proof (iter_pow_inv stored_turn (sinv (N.of_nat (length input)))
               (fun r => match r with Ret (SRet ok c cb src) => cb_ok cb /\ src <= N.of_nat (length input) | _ => True end)
               (stored_turn_inl _) (stored_turn_inr _) 40%nat s0) as H.
  assert (H0 : sinv (N.of_nat (length input)) s0) by (unfold sinv, s0; cbn; repeat split; try assumption; lia).
  specialize (H H0).
  destruct (iter_pow 40 stored_turn s0) as [s'|rr]; [discriminate|].
  intros E; subst rr. exact H.
Qed.

Lemma cb_written_len cb : cb_ok cb -> N.of_nat (length (cb_written cb)) <= L.
Proof.
  destruct cb as [len w ofs|]; cbn; [|contradiction]. intros (H0 & H1 & H2).
  rewrite rev_append_rev, app_nil_r, rev_length. lia.
Qed.
End Sink.

(* compress(): consumed <= offered, written <= out_len *)
Theorem compress_counts c input out_len flush r :
  compress c input out_len flush = Ret (CRet r) ->
  r_in r <= N.of_nat (length input) /\ N.of_nat (length (r_out r)) <= out_len.
Proof.
  unfold compress, compress_inner.
  set (cb0 := CBuf out_len [] 0).
  assert (Hcb0 : cb_ok out_len cb0) by (cbn; repeat split; lia).
  destruct (negb _ || negb _).
  - intros H; inversion H; subst; cbn; lia.
  - destruct (negb _ || c_finished _).
    + destruct (flush_output_buffer (set_flush c flush) cb0) as [[st c1] cb1] eqn:Ef.
      intros H; inversion H; subst; clear H. cbn [r_in r_out].
      pose proof (flush_output_buffer_ok _ _ _ _ _ _ Ef Hcb0) as Hk.
      split; [lia|apply cb_written_len; exact Hk].
    + destruct (negb (hasf _ FLAG_RAW)); [discriminate|].
      destruct (compress_stored (set_flush c flush) cb0 input) as [sr| |] eqn:Es; cbn [bind]; try discriminate.
      pose proof (compress_stored_counts _ _ _ _ _ Hcb0 Es) as Hs.
      destruct sr as [ok c1 cb1 src|]; [|discriminate].
      destruct Hs as [Hk Hsrc].
      destruct ok.
      * match goal with |- context [bind ?X _] => destruct X as [rr| |] eqn:Er end; cbn [bind]; try discriminate.
        assert (Hrr : match rr with
                      | Some (inl (c2, cb2)) => cb_ok out_len cb2
                      | Some (inr (c2, cb2)) => cb_ok out_len cb2
                      | None => True end).
        { match type of Er with (if ?b then _ else _) = _ => destruct b end.
          - match type of Er with bind ?X _ = _ => destruct X as [fb| |] eqn:Efb end; cbn [bind] in Er; try discriminate.
            destruct fb as [nn c2 cb2|c2 cb2|].
            + pose proof (flush_block_ok _ _ _ _ _ _ _ Efb Hk) as Hk2.
              destruct (nn <? 0)%Z; inversion Er; subst; exact Hk2.
            + exfalso. unfold flush_block in Efb.
              repeat match type of Efb with
                     | bind ?X _ = _ => destruct X eqn:?; cbn [bind] in Efb; try discriminate Efb
                     end.
              match type of Efb with context [match ?r with Some _ => _ | None => _ end] => destruct r end; [|discriminate Efb].
              repeat match type of Efb with
                     | bind ?X _ = _ => destruct X eqn:?; cbn [bind] in Efb; try discriminate Efb
                     end.
              match type of Efb with context [flush_output ?a ?b ?d] => destruct (flush_output a b d) as [[nn c3] cb3] end.
              discriminate Efb.
            + inversion Er; subst. exact I.
          - inversion Er; subst. exact Hk. }
        destruct rr as [[[c2 cb2]|[c2 cb2]]|]; try discriminate.
        -- intros H; inversion H; subst; clear H. cbn [r_in r_out]. split; [exact Hsrc|apply cb_written_len; exact Hrr].
        -- destruct (flush_output_buffer c2 cb2) as [[st c3] cb3] eqn:Ef.
           intros H; inversion H; subst; clear H. cbn [r_in r_out]. split; [exact Hsrc|].
           apply cb_written_len. eapply flush_output_buffer_ok; eassumption.
      * intros H; inversion H; subst; clear H. cbn [r_in r_out]. split; [exact Hsrc|apply cb_written_len; exact Hk].
Qed.
