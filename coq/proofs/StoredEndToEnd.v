(* C01 at level 0 with both sides modelled: the decoder model M_inf, given what the compressor
   model's one-shot API produced for a raw (headerless) level-0 flag word, returns exactly the
   original input - decompress (compress data) = data on the two executable models that the
   per-run correspondence ties to the code. *)
From Coq Require Import NArith ZArith List Bool Lia Arith.
From MZ.lib Require Import Arr Bits Mach.
From MZ.spec Require Import Adler DeflateSpec.
From MZ.model Require Import DeflateCore InflateCore.
From MZ.proofs Require Import StoredSpec StoredModel StoredRoundtrip InflateStored.
Import ListNotations.
Local Open Scope N_scope.

Theorem level0_raw_model_roundtrip (data : list N) (cflags iflags : N) (out : list N) (o : arr) (res : call_result) :
  hasf cflags FLAG_RAW = true -> hasf cflags FLAG_ZLIB = false -> bytes_ok data ->
  compress_to_vec_inner data cflags = Ret (VBytes out) ->
  has iflags F_ZLIB = false -> has iflags F_STOPBB = false -> has iflags F_NONWRAP = true ->
  N.of_nat (length data) <= alen o -> alen o <= USIZE_MAX ->
  decompress dec_default out o 0 USIZE_MAX iflags = Ret res ->
  cr_status res = Done /\ cr_in res = N.of_nat (length out) /\
  cr_out res = N.of_nat (length data) /\ aget_list (cr_buf res) 0 (cr_out res) = data.
Proof.
  intros Hraw Hnz Hbytes Hc HZ HSB HNW Hroom Hrep Hd.
  apply compress_to_vec_level0 in Hc; [|exact Hraw]. subst out.
  rewrite full_shape, Hnz, (hdr_nonzlib cflags 15 Hnz), app_nil_r in *. cbn [app] in *.
  set (k := N.of_nat (length data) / BS) in *.
  set (chunks := map (chunk data) (seq 0 (N.to_nat k))) in *.
  set (last := skipn (N.to_nat (BS * k)) data) in *.
  pose proof (data_shape data) as Hds. fold k in Hds. fold chunks in Hds. fold last in Hds.
  pose proof (last_ok data Hbytes) as [L1 L2]. fold k in L1, L2. fold last in L1, L2.
  pose proof (chunks_ok_chunks data (N.to_nat k) Hbytes) as Hck. fold chunks in Hck.
  rewrite <- Hds in Hroom.
  pose proof (decompress_stored_stream iflags chunks last o res HZ HSB HNW Hck L1 L2 Hroom Hrep Hd) as H.
  rewrite Hds in H. exact H.
Qed.
