(* C02 + C07 composed at level 0 on the two executable models: whatever schedule of calls, buffer sizes
   and legal flush modes drives the streaming compressor model to the end, and however the bytes it
   emitted (followed by arbitrary further bytes) are cut into slices for the decoder model, the decoder
   ends with Done having consumed exactly the emitted stream and delivered exactly the input consumed by
   the compressor. *)
From Coq Require Import NArith ZArith List Bool Lia Arith.
From MZ.lib Require Import Arr Bits Mach.
From MZ.spec Require Import Adler DeflateSpec Zlib.
From MZ.model Require Import DeflateCore InflateCore.
From MZ.proofs Require Import StoredSpec StoredModel StoredRoundtrip StoredStream StoredSchedules
                              InflateStoredZ InflateStoredChunks StoredEndToEndZ.
Import ListNotations.
Local Open Scope N_scope.

Theorem level0_any_schedule_any_split (data : list N) (cflags wb iflags : N) sched out n extra pieces o s total o' p' :
  hasf cflags FLAG_RAW = true -> wb <= 15 -> bytes_ok data ->
  Forall (fun it => legal_flush (snd it)) sched ->
  drive (comp_new cflags wb) data sched [] 0 = Ret (Some (out, n)) ->
  has iflags F_ZLIB = hasf cflags FLAG_ZLIB -> has iflags F_STOPBB = false -> has iflags F_NONWRAP = true ->
  has iflags F_MORE = true ->
  concat pieces = out ++ extra ->
  n < alen o -> alen o <= USIZE_MAX ->
  feed iflags dec_default o 0 pieces 0 = Ret (s, total, o', p') ->
  s = Done /\ total = N.of_nat (length out) /\ p' = n /\ aget_list o' 0 p' = firstn (N.to_nat n) data.
Proof.
  intros Hraw Hwb Hbytes Hleg Hd HZ HSB HNW HMORE Hcat Hroom Hrep Hf.
  apply (drive_finished data cflags wb Hraw Hwb sched _ _ _ _ _ _ Hleg (GI2_init data cflags wb)) in Hd;
    [|intros _; reflexivity].
  destruct Hd as (Hn & chunks & last & Hsm & Hl & Hdat & Hout).
  assert (Hbp : bytes_ok (concat chunks ++ last)) by (rewrite Hdat; apply bytes_ok_firstn, Hbytes).
  apply bytes_ok_app in Hbp. destruct Hbp as [Hb1 Hb2].
  pose proof (chunks_ok_of chunks Hsm Hb1) as Hc.
  assert (Hl2 : N.of_nat (length last) <= 65535) by (unfold BS in Hl; lia).
  assert (Hlen : N.of_nat (length (concat chunks ++ last)) = n).
  { rewrite Hdat, firstn_length. unfold StoredModel.total in Hn. lia. }
  unfold FIN in Hout.
  replace (concat (map (stored_block false) chunks) ++ stored_block true last ++
           (if hasf cflags FLAG_ZLIB then be32 (adler32 1 (firstn (N.to_nat n) data)) else []))
    with (stored_stream chunks last ++ (if hasf cflags FLAG_ZLIB then be32 (adler32 1 (firstn (N.to_nat n) data)) else []))
    in Hout by (rewrite stored_stream_concat, <- app_assoc; reflexivity).
  destruct (hasf cflags FLAG_ZLIB) eqn:Z.
  - destruct (hdr_valid cflags wb Hwb Z) as (cmf & flg & Eh & Hcmf & Hflg & Hval). rewrite Eh in Hout. cbn [app] in Hout.
    subst out.
    pose proof (pieces_zlib_stored_stream iflags cmf flg (adler32 1 (firstn (N.to_nat n) data)) chunks last extra pieces o s total o' p'
                  HZ HSB HNW HMORE Hcmf Hflg Hval (adler32_lt _ _ adler_valid_1) Hc Hb2 Hl2 Hcat ltac:(lia) Hrep Hf) as H.
    cbv zeta in H. rewrite Hdat in H. rewrite N.eqb_refl, orb_true_r in H. rewrite <- Hdat, Hlen, Hdat in H. exact H.
  - rewrite (hdr_nonzlib cflags wb Z), app_nil_r in Hout. cbn [app] in Hout. subst out.
    pose proof (pieces_raw_stored_stream iflags chunks last extra pieces o s total o' p'
                  HZ HSB HNW HMORE Hc Hb2 Hl2 Hcat ltac:(lia) Hrep Hf) as H.
    cbv zeta in H. rewrite Hlen, Hdat in H. exact H.
Qed.
