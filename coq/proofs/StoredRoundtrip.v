(* Level 0 is lossless for every input: what the compressor model's one-shot API emits
   (StoredModel.compress_to_vec_level0) is decoded by the RFC 1951 / RFC 1950 specification
   (StoredSpec) back to the input, and its size is exactly n + 5 (floor(n / 31745) + 1) (+ 6 for zlib). *)
From Coq Require Import NArith ZArith List Bool Lia Arith.
From MZ.lib Require Import Arr Bits Mach.
From MZ.spec Require Import Adler DeflateSpec.
From MZ.gen Require GenTables GenZlib.
From MZ.model Require Import DeflateCore.
From MZ.proofs Require Import StoredSpec StoredModel.
From MZ.proofs Require ZlibHeader.
Import ListNotations.
Local Open Scope N_scope.

Lemma stored_stream_concat cs last :
  stored_stream cs last = concat (map (stored_block false) cs) ++ stored_block true last.
Proof.
  induction cs as [|c cs IH]; cbn [stored_stream map concat app]; [reflexivity|].
  rewrite IH, app_assoc. reflexivity.
Qed.

Lemma encs_concat data k :
  encs data k = concat (map (stored_block false) (map (chunk data) (seq 0 k))).
Proof.
  induction k as [|k IH]; [reflexivity|].
  cbn [encs]. rewrite seq_S, !map_app, concat_app, <- IH. cbn [plus map concat]. rewrite app_nil_r. reflexivity.
Qed.

Lemma chunks_concat data k :
  concat (map (chunk data) (seq 0 k)) ++ skipn (k * N.to_nat BS) data = data.
Proof.
  induction k as [|k IH]; [reflexivity|].
  rewrite seq_S, map_app, concat_app. cbn [plus map concat]. rewrite app_nil_r, <- app_assoc.
  replace (chunk data k ++ skipn (S k * N.to_nat BS) data) with (skipn (k * N.to_nat BS) data); [exact IH|].
  unfold chunk. replace (S k * N.to_nat BS)%nat with (k * N.to_nat BS + N.to_nat BS)%nat by lia.
  rewrite <- skipn_skipn_add. symmetry. apply firstn_skipn.
Qed.

Lemma In_firstn_in {A} (x : A) : forall n l, In x (firstn n l) -> In x l.
Proof.
  induction n as [|n IH]; intros l H; [destruct H|]. destruct l as [|y l]; [destruct H|].
  cbn [firstn] in H. destruct H as [->|H]; [left; reflexivity|right; apply IH; exact H].
Qed.

Lemma bytes_ok_firstn l n : bytes_ok l -> bytes_ok (firstn n l).
Proof.
  unfold bytes_ok. intros H. apply Forall_forall. intros x Hx. rewrite Forall_forall in H. apply H.
  eapply In_firstn_in; exact Hx.
Qed.

Lemma In_skipn {A} (x : A) : forall n l, In x (skipn n l) -> In x l.
Proof.
  induction n as [|n IH]; intros l H; [exact H|]. destruct l as [|y l]; [exact H|]. right. apply IH. exact H.
Qed.

Lemma bytes_ok_skipn l n : bytes_ok l -> bytes_ok (skipn n l).
Proof.
  unfold bytes_ok. intros H. apply Forall_forall. intros x Hx. rewrite Forall_forall in H. apply H.
  eapply In_skipn; exact Hx.
Qed.

Lemma chunks_ok_chunks data k : bytes_ok data -> chunks_ok (map (chunk data) (seq 0 k)).
Proof.
  intros H. unfold chunks_ok. apply Forall_forall. intros c Hc. apply in_map_iff in Hc.
  destruct Hc as (i & <- & _). unfold chunk. split.
  - apply bytes_ok_firstn, bytes_ok_skipn, H.
  - rewrite firstn_length. unfold BS. lia.
Qed.

Lemma length_encs data k :
  (k * N.to_nat BS <= length data)%nat ->
  N.of_nat (length (encs data k)) = N.of_nat k * (5 + BS).
Proof.
  induction k as [|k IH]; intros H; [reflexivity|].
  cbn [encs]. rewrite app_length, Nat2N.inj_add, IH, stored_block_length by lia.
  unfold chunk. rewrite firstn_length, skipn_length. unfold BS in *. lia.
Qed.

(* the header bytes the model writes are a valid RFC 1950 header *)
Lemma land32_bit5 : forallb (fun f => implb (Z.land f 32 =? 0)%Z ((f / 32) mod 2 =? 0)%Z) (ZlibHeader.zrange 0 256) = true.
Proof. vm_compute. reflexivity. Qed.

Lemma hdr_ok_wb flags wb :
  wb <= 15 -> hasf flags FLAG_ZLIB = true ->
  exists cmf flg, hdr flags wb = [cmf; flg] /\ zlib_header_ok cmf flg = true.
Proof.
  intros Hwb Z. unfold hdr. rewrite Z.
  pose proof (ZlibHeader.header_from_flags_valid (Z.of_N flags) (Z.of_N wb) ltac:(lia)) as Hv.
  destruct (GenZlib.header_from_flags (Z.of_N flags) (Z.of_N wb)) as [[h0 h1] okf].
  destruct Hv as (_ & H31 & H16 & _ & H7 & Hd & Hc & Hf & _).
  exists (Z.to_N h0), (Z.to_N h1). split; [reflexivity|].
  unfold zlib_header_ok.
  assert (Hb5 : ((h1 / 32) mod 2 = 0)%Z).
  { pose proof land32_bit5 as Hall. rewrite forallb_forall in Hall.
    specialize (Hall h1 (ZlibHeader.zrange_in 256 0 h1 ltac:(lia))).
    rewrite (proj2 (Z.eqb_eq _ _) Hd) in Hall. cbn [implb] in Hall. apply Z.eqb_eq. exact Hall. }
  repeat (apply andb_true_intro; split).
  - apply N.eqb_eq. apply N2Z.inj. rewrite N2Z.inj_mod, N2Z.inj_add, N2Z.inj_mul, !Z2N.id by lia. exact H31.
  - apply N.eqb_eq. apply N2Z.inj. rewrite N2Z.inj_mod, Z2N.id by lia. exact H16.
  - apply N.leb_le. apply N2Z.inj_le. rewrite N2Z.inj_div, Z2N.id by lia. exact H7.
  - apply N.eqb_eq. apply N2Z.inj. rewrite N2Z.inj_mod, N2Z.inj_div, Z2N.id by lia. exact Hb5.
Qed.

Lemma hdr_ok flags :
  hasf flags FLAG_ZLIB = true ->
  exists cmf flg, hdr flags 15 = [cmf; flg] /\ zlib_header_ok cmf flg = true.
Proof. apply hdr_ok_wb. lia. Qed.

Section Final.
Variables (data : list N) (flags : N).
Hypothesis Hraw : hasf flags FLAG_RAW = true.
Hypothesis Hbytes : bytes_ok data.

Let n := N.of_nat (length data).
Let k := n / BS.
Let last := skipn (N.to_nat (BS * k)) data.
Let chunks := map (chunk data) (seq 0 (N.to_nat k)).

Lemma k_bound : BS * k <= n /\ n - BS * k < BS.
Proof.
  unfold k. pose proof (N.div_mod n BS ltac:(unfold BS; lia)) as D.
  pose proof (N.mod_lt n BS ltac:(unfold BS; lia)). lia.
Qed.

Lemma full_shape :
  FULL data flags 15 =
  hdr flags 15 ++ stored_stream chunks last ++ (if hasf flags FLAG_ZLIB then be32 (adler32 1 data) else []).
Proof.
  unfold FULL. fold n. fold k. fold last.
  rewrite stored_stream_concat, encs_concat. fold chunks. rewrite <- !app_assoc. reflexivity.
Qed.

Lemma data_shape : concat chunks ++ last = data.
Proof.
  unfold chunks, last. replace (N.to_nat (BS * k)) with (N.to_nat k * N.to_nat BS)%nat by lia.
  apply chunks_concat.
Qed.

Lemma last_ok : bytes_ok last /\ N.of_nat (length last) <= 65535.
Proof.
  split; [apply bytes_ok_skipn, Hbytes|].
  unfold last. rewrite skipn_length. pose proof k_bound. fold n. unfold BS in *. lia.
Qed.

Lemma length_stream :
  N.of_nat (length (stored_stream chunks last)) = n + 5 * (n / 31745 + 1).
Proof.
  rewrite stored_stream_concat. unfold chunks. rewrite <- encs_concat.
  pose proof k_bound as [K1 K2].
  rewrite app_length, Nat2N.inj_add, length_encs, stored_block_length by (fold n; lia).
  unfold last. rewrite skipn_length. fold n. change 31745 with BS. fold k. rewrite N2Nat.id. unfold BS in *. lia.
Qed.

(* C01 / C02 / C15 at level 0, for every input *)
Theorem level0_roundtrip out :
  compress_to_vec_inner data flags = Ret (VBytes out) ->
  exists blocks,
    (if hasf flags FLAG_ZLIB then zlib_spec true out else inflate_spec out)
    = SDone data (N.of_nat (length out)) blocks /\
    N.of_nat (length out) = (if hasf flags FLAG_ZLIB then 6 else 0) + n + 5 * (n / 31745 + 1).
Proof.
  intros H. apply compress_to_vec_level0 in H; [|exact Hraw]. subst out.
  rewrite full_shape.
  pose proof last_ok as [L1 L2].
  pose proof (chunks_ok_chunks data (N.to_nat k) Hbytes) as Hc. fold chunks in Hc.
  exists (map (sblk false) chunks ++ [sblk true last]).
  destruct (hasf flags FLAG_ZLIB) eqn:Z.
  - destruct (hdr_ok flags Z) as (cmf & flg & Eh & Hok). rewrite Eh. cbn [app].
    pose proof (zlib_stored_stream cmf flg chunks last Hok Hc L1 L2) as Hz. cbv zeta in Hz.
    rewrite data_shape in Hz. rewrite Hz.
    assert (Hb : forall a, length (be32 a) = 4%nat) by reflexivity.
    cbn [length]. rewrite app_length, Hb.
    replace (N.of_nat (S (S (length (stored_stream chunks last) + 4))))
      with (N.of_nat (length (stored_stream chunks last)) + 6) by lia.
    rewrite length_stream. split; [reflexivity|lia].
  - rewrite (hdr_nonzlib flags 15 Z), app_nil_r. cbn [app].
    pose proof (inflate_stored_stream chunks last [] Hc L1 L2) as Hi. rewrite app_nil_r, data_shape in Hi.
    rewrite Hi, length_stream. split; [reflexivity|lia].
Qed.
End Final.
