(* The decoder model M_inf on streams of byte-aligned stored blocks (raw or zlib-framed) supplied in
   ARBITRARY pieces: however the bytes of the stream (followed by arbitrary further bytes) are cut into
   successive input slices - empty slices included - calling the decoder once per slice with
   TINFL_FLAG_HAS_MORE_INPUT on a flat buffer with one spare byte yields NeedsMoreInput for every slice
   that ends before the stream does and then Done (Adler32Mismatch iff the trailer is not the Adler-32 of
   the payload), with exactly the payload delivered and exactly the stream consumed - the same verdict,
   bytes and count as the single call of InflateStoredZ.v (C07, C13, C06 for this sub-language).
   The invariant is the one of InflateStoredZ.v stated over "what is still to come" (the rest of this
   slice followed by the future slices), plus the running check value carried from call to call. *)
From Coq Require Import NArith ZArith List Bool Lia Arith.
From MZ.lib Require Import Arr Bits Mach.
From MZ.spec Require Import Adler DeflateSpec Zlib.
From MZ.gen Require GenZlib.
From MZ.model Require Import InflateCore.
From MZ.proofs Require Import IterPow StoredSpec InflateStoredZ.
From MZ.proofs Require ZlibHeader.
Import ListNotations.
Local Open Scope N_scope.
Arguments N.add : simpl never.
Arguments N.sub : simpl never.
Arguments N.mul : simpl never.
Arguments N.ltb : simpl never.
Arguments N.leb : simpl never.
Arguments N.eqb : simpl never.
Arguments N.land : simpl never.
Arguments N.shiftr : simpl never.
Arguments N.shiftl : simpl never.
Arguments N.lor : simpl never.
Arguments N.min : simpl never.

(* ------------------------------------------------------------------ small facts *)
Lemma read_bits_empty flags c amount k :
  nb c < amount -> inp c = [] -> read_bits flags c amount k = Ret (AEnd (end_of_input flags), c).
Proof.
  intros H E. unfold read_bits. cbn [read_bits_f].
  replace (nb c <? amount) with true by (symmetry; apply N.ltb_lt; exact H).
  unfold read_byte. rewrite E. reflexivity.
Qed.

Lemma firstn_app_le {T} (l m : list T) n : (n <= length l)%nat -> firstn n (l ++ m) = firstn n l.
Proof. intros H. rewrite firstn_app. replace (n - length l)%nat with 0%nat by lia. cbn [firstn]. apply app_nil_r. Qed.

Lemma skipn_app_le {T} (l m : list T) n : (n <= length l)%nat -> skipn n (l ++ m) = skipn n l ++ m.
Proof. intros H. rewrite skipn_app. replace (n - length l)%nat with 0%nat by lia. reflexivity. Qed.

Lemma prefix_firstn {T} (a x p : list T) : a ++ x = p -> a = firstn (length a) p.
Proof. intros <-. rewrite firstn_app, Nat.sub_diag, firstn_all. cbn [firstn]. symmetry. apply app_nil_r. Qed.

Lemma aget_list_split a i n m : aget_list a i (n + m) = aget_list a i n ++ aget_list a (i + n) m.
Proof.
  apply (nth_ext _ _ 0 0).
  - unfold aget_list. rewrite app_length, !length_aget_list_nat. lia.
  - unfold aget_list. rewrite length_aget_list_nat. intros k Hk.
    rewrite nth_aget_list_nat by exact Hk.
    destruct (Nat.lt_ge_cases k (N.to_nat n)) as [H1|H2].
    + rewrite app_nth1 by (rewrite length_aget_list_nat; exact H1).
      rewrite nth_aget_list_nat by exact H1. reflexivity.
    + rewrite app_nth2 by (rewrite length_aget_list_nat; exact H2).
      rewrite length_aget_list_nat. rewrite nth_aget_list_nat by lia. f_equal. lia.
Qed.

Lemma skipn_cons_nth {T} (d : T) : forall (l : list T) k, (k < length l)%nat -> skipn k l = nth k l d :: skipn (S k) l.
Proof.
  induction l as [|x l IH]; intros k H; cbn [length] in H; [lia|].
  destruct k as [|k]; [reflexivity|]. cbn [skipn nth]. apply IH. lia.
Qed.

Lemma firstn_snoc_nth {T} (d : T) : forall (l : list T) k, (k < length l)%nat -> firstn (S k) l = firstn k l ++ [nth k l d].
Proof.
  induction l as [|x l IH]; intros k H; cbn [length] in H; [lia|].
  destruct k as [|k]; [reflexivity|]. cbn [firstn nth app]. f_equal. apply IH. lia.
Qed.

Lemma le16_val v : v < 65536 -> nth 0 (le16 v) 0 + 256 * nth 1 (le16 v) 0 = v.
Proof.
  intros H. unfold le16. cbn [nth]. rewrite (N.mod_small (v / 256)) by (apply N.div_lt_upper_bound; lia).
  pose proof (N.div_mod v 256 ltac:(lia)). lia.
Qed.

Lemma hdr4_len ch : length (hdr4 ch) = 4%nat.
Proof. reflexivity. Qed.

Lemma accz_sum z b : b < 256 -> accz z b = (z mod 16777216) * 256 + b.
Proof.
  intros Hb. unfold accz, U32. change 4294967296 with (16777216 * 256).
  rewrite N.mul_mod_distr_r by lia.
  rewrite N.lor_comm. change 256 with (2 ^ 8) at 1. rewrite <- N.shiftl_mul_pow2.
  rewrite lor_disjoint_add by (change (2 ^ 8) with 256; exact Hb). change (2 ^ 8) with 256. lia.
Qed.

Lemma accz_be32 A : A < 2 ^ 32 -> fold_left accz (be32 A) 1 = A.
Proof.
  intros HA. pose proof (be32_val_be32 A HA) as HV. unfold be32 in *. unfold be32_val in HV.
  set (a0 := A / 16777216 mod 256) in *. set (a1 := A / 65536 mod 256) in *.
  set (a2 := A / 256 mod 256) in *. set (a3 := A mod 256) in *.
  assert (H0 : a0 < 256) by (apply N.mod_lt; lia). assert (H1 : a1 < 256) by (apply N.mod_lt; lia).
  assert (H2 : a2 < 256) by (apply N.mod_lt; lia). assert (H3 : a3 < 256) by (apply N.mod_lt; lia).
  cbn [fold_left]. rewrite !accz_sum by assumption.
  change (1 mod 16777216) with 1.
  rewrite (N.mod_small (1 * 256 + a0)) by lia.
  rewrite (N.mod_small ((1 * 256 + a0) * 256 + a1)) by lia.
  replace (((1 * 256 + a0) * 256 + a1) * 256 + a2) with ((a0 * 65536 + a1 * 256 + a2) + 1 * 16777216) by lia.
  rewrite N.mod_add by lia. rewrite N.mod_small by lia. lia.
Qed.

Lemma validate_ok flags cmf flg mask0 :
  has flags F_NONWRAP = true -> cmf < 256 -> flg < 256 -> valid_header (Z.of_N cmf) (Z.of_N flg) = true ->
  fst (fst (GenZlib.validate_zlib_header (Z.of_N cmf) (Z.of_N flg) (Z.of_N flags) mask0)) = GenZlib.tag_Action_Jump /\
  snd (fst (GenZlib.validate_zlib_header (Z.of_N cmf) (Z.of_N flg) (Z.of_N flags) mask0)) = 3%Z.
Proof.
  intros HNW Hcmf Hflg Hvalid.
  exact (validate_nonwrap flags HNW cmf flg 0 Hcmf Hflg Hvalid ltac:(cbn; lia) [] 0 0 ltac:(cbn; lia) mask0).
Qed.

(* ------------------------------------------------------------------ one call *)
Section Chunk.
Variable flags : N.
Variable zl : bool.
Hypothesis HZ : has flags F_ZLIB = zl.
Hypothesis HSB : has flags F_STOPBB = false.
Hypothesis HNW : has flags F_NONWRAP = true.
Hypothesis HMORE : has flags F_MORE = true.
Variables (cmf flg A : N).
Hypothesis Hcmf : cmf < 256.
Hypothesis Hflg : flg < 256.
Hypothesis Hvalid : valid_header (Z.of_N cmf) (Z.of_N flg) = true.
Hypothesis HA : A < 2 ^ 32.
Variable B : list blk.
Hypothesis HB : shapeB B.
Variable extra : list N.

Notation encT := (InflateStoredZ.encT zl A extra).
Notation hz := (InflateStoredZ.hz zl cmf flg).
Definition P : list N := pay B.

Variable p0 : N.             (* where the stream's output starts in the buffer *)
Variable K : N.              (* the running check value during this call *)

(* the shape of each state, over what is still to come [rem] and what has been delivered [op] *)
Definition ShR (s : istate) (n b ct : N) (r : dec) (rem op : list N) (p : N) : Prop :=
  match s with
  | Start => rem = hz ++ encT B /\ p = p0 /\ K = 1
  | ReadZlibCmf => zl = true /\ rem = hz ++ encT B /\ p = p0 /\ n = 0 /\ b = 0
  | ReadZlibFlg => zl = true /\ rem = flg :: encT B /\ p = p0 /\ d_zh0 r = cmf /\ n = 0 /\ b = 0
  | ReadBlockHeader =>
      n = 0 /\ b = 0 /\ exists bs, shapeB bs /\ rem = encT bs /\ op ++ pay bs = P
  | BlockTypeNoCompression =>
      n = 5 /\ b = 0 /\ exists f ch bs, shapeT f bs /\ blk_ok (f, ch) /\ d_finish r = b2n f /\
      rem = hdr4 ch ++ ch ++ encT bs /\ op ++ ch ++ pay bs = P
  | RawHeader =>
      n = 0 /\ b = 0 /\ exists f ch bs, shapeT f bs /\ blk_ok (f, ch) /\ d_finish r = b2n f /\
      ct <= 4 /\ rem = skipn (N.to_nat ct) (hdr4 ch) ++ ch ++ encT bs /\
      (forall j, (j < N.to_nat ct)%nat -> aget (d_raw r) (N.of_nat j) = nth j (hdr4 ch) 0) /\
      op ++ ch ++ pay bs = P
  | RawMemcpy1 | RawMemcpy2 =>
      n = 0 /\ b = 0 /\ exists f rest bs, shapeT f bs /\ d_finish r = b2n f /\
      ct = N.of_nat (length rest) /\ rem = rest ++ encT bs /\ op ++ rest ++ pay bs = P /\
      (s = RawMemcpy2 -> rest <> [])
  | BlockDone =>
      n = 0 /\ b = 0 /\ exists f bs, shapeT f bs /\ d_finish r = b2n f /\
      rem = encT bs /\ op ++ pay bs = P
  | ReadAdler32 =>
      zl = true /\ n = 0 /\ b = 0 /\ ct <= 4 /\ rem = skipn (N.to_nat ct) (be32 A) ++ extra /\
      d_zadler r = fold_left accz (firstn (N.to_nat ct) (be32 A)) 1 /\ op = P
  | DoneForever => n = 0 /\ rem = extra /\ op = P /\ (zl = true -> d_zadler r = A)
  | _ => False
  end.

(* everything the call-to-call invariant says about the decoder's own fields *)
Definition Core (s : istate) (n b ct : N) (r : dec) (rem : list N) (o : arr) (p : N) : Prop :=
  p0 <= p /\ p <= p0 + N.of_nat (length P) /\
  (s <> Start -> d_check r = K) /\
  (s <> Start -> s <> ReadAdler32 -> s <> DoneForever -> d_zadler r = 1) /\
  ShR s n b ct r rem (aget_list o p0 (p - p0)) p.

Variables (in_buf fut : list N).
Variables (omax mask pstart : N).     (* pstart: the output position this call started at *)
Hypothesis Hroom : p0 + N.of_nat (length P) < omax.
Definition in_len : N := N.of_nat (length in_buf).

Definition outpre (c : cfg) : list N := aget_list (out c) p0 (pos c - p0).

Definition Inv (c : cfg) : Prop :=
  ileft c = N.of_nat (length (inp c)) /\ (exists pre, in_buf = pre ++ inp c) /\
  (alen (out c) = omax /\ pstart <= pos c) /\
  Core (st c) (nb c) (bb c) (ctr c) (rr c) (inp c ++ fut) (out c) (pos c).

(* a call ends finished, or suspended with its slice used up and more of the stream still to come *)
Definition Post (r : res (status * cfg)) : Prop :=
  match r with
  | Ret (s, c) => Inv c /\ ((s = Done /\ st c = DoneForever) \/
                            (s = NeedsMoreInput /\ inp c = [] /\ fut <> [] /\ bb c = 0 /\ st c <> Start /\ st c <> DoneForever))
  | _ => True
  end.

Notation stepf := (step flags in_buf in_len omax mask).

Definition StepOk (r : res (action * cfg)) : Prop :=
  match r with
  | Ret (ANone, c') => Inv c'
  | Ret (AJump s, c') => Inv (set_st c' s)
  | Ret (AEnd s, c') => Post (Ret (s, c'))
  | _ => True
  end.

Lemma length_outpre c : p0 <= pos c -> N.of_nat (length (outpre c)) = pos c - p0.
Proof. intros H. unfold outpre. apply length_aget_list. Qed.

Lemma eoi : end_of_input flags = NeedsMoreInput.
Proof. unfold end_of_input. rewrite HMORE. reflexivity. Qed.

Lemma suspended c : Inv c -> inp c = [] -> fut <> [] -> bb c = 0 -> st c <> Start -> st c <> DoneForever ->
  StepOk (Ret (AEnd (end_of_input flags), c)).
Proof.
  intros HI E Hf Hb H1 H2. unfold StepOk, Post. rewrite eoi. split; [exact HI|]. right. repeat split; assumption.
Qed.

Ltac keep E Hck Hza :=
  first [ intros _; apply Hck; rewrite E; discriminate
        | intros _ _ _; apply Hza; rewrite E; discriminate ].

Lemma zl_cases : (zl = true /\ has flags F_ZLIB = true) \/ (zl = false /\ has flags F_ZLIB = false).
Proof. rewrite HZ. destruct zl; auto. Qed.

Lemma st_start c : Inv c -> st c = Start -> StepOk (stepf c).
Proof.
  intros HI E. pose proof HI as (Hi & Hpre & Hom & Hp0 & Hpm & Hck & Hza & HS). unfold ShR in HS. rewrite E in HS.
  destruct HS as (Hin & Hpos & HK).
  unfold step. rewrite E.
  destruct zl_cases as [[Ezl EZ]|[Ezl EZ]]; rewrite EZ.
  - unfold jump, StepOk, Inv, Core, ShR. cbn [set_st mk st inp ileft out pos nb bb rr ctr d_check d_zadler r_hdr upd_dec].
    split; [exact Hi|]. split; [exact Hpre|]. split; [exact Hom|]. split; [exact Hp0|]. split; [exact Hpm|].
    split; [intros _; symmetry; exact HK|]. split; [intros; reflexivity|].
    split; [exact Ezl|]. split; [exact Hin|]. split; [exact Hpos|]. split; reflexivity.
  - unfold jump, StepOk, Inv, Core, ShR. cbn [set_st mk st inp ileft out pos nb bb rr ctr d_check d_zadler r_hdr upd_dec].
    split; [exact Hi|]. split; [exact Hpre|]. split; [exact Hom|]. split; [exact Hp0|]. split; [exact Hpm|].
    split; [intros _; symmetry; exact HK|]. split; [intros; reflexivity|].
    split; [reflexivity|]. split; [reflexivity|].
    exists B. assert (Hh : hz = []) by (unfold InflateStoredZ.hz; rewrite Ezl; reflexivity). rewrite Hh in Hin. cbn [app] in Hin.
    split; [exact HB|]. split; [exact Hin|]. rewrite Hpos, N.sub_diag. reflexivity.
Qed.

Lemma st_zcmf c : Inv c -> st c = ReadZlibCmf -> StepOk (stepf c).
Proof.
  intros HI E. pose proof HI as (Hi & (pre & Hpre) & Hom & Hp0 & Hpm & Hck & Hza & HS). unfold ShR in HS. rewrite E in HS.
  destruct HS as (Ezl & Hin & Hpos & Hn & Hb).
  assert (Hh : hz = [cmf; flg]) by (unfold InflateStoredZ.hz; rewrite Ezl; reflexivity). rewrite Hh in Hin. cbn [app] in Hin.
  unfold step. rewrite E. unfold read_byte.
  destruct (inp c) as [|b rest] eqn:Ei.
  - apply suspended; try assumption; try (rewrite E; discriminate). cbn [app] in Hin. rewrite Hin. discriminate.
  - cbn [app] in Hin. injection Hin as Hb0 Hrest. subst b.
    unfold jump, StepOk, Inv, Core, ShR.
    cbn [set_st set_rr set_in mk st inp ileft out pos nb bb rr ctr d_check d_zadler d_zh0 r_hdr upd_dec].
    rewrite Hi. cbn [length].
    split; [lia|]. split; [exists (pre ++ [cmf]); rewrite Hpre, <- app_assoc; reflexivity|].
    split; [exact Hom|]. split; [exact Hp0|]. split; [exact Hpm|].
    split; [keep E Hck Hza|]. split; [keep E Hck Hza|].
    split; [exact Ezl|]. split; [exact Hrest|]. split; [exact Hpos|]. split; [reflexivity|]. split; assumption.
Qed.

Lemma st_zflg c : Inv c -> st c = ReadZlibFlg -> StepOk (stepf c).
Proof.
  intros HI E. pose proof HI as (Hi & (pre & Hpre) & Hom & Hp0 & Hpm & Hck & Hza & HS). unfold ShR in HS. rewrite E in HS.
  destruct HS as (Ezl & Hin & Hpos & Hzh & Hn & Hb).
  unfold step. rewrite E. unfold read_byte.
  destruct (inp c) as [|b rest] eqn:Ei.
  - apply suspended; try assumption; try (rewrite E; discriminate). cbn [app] in Hin. rewrite Hin. discriminate.
  - cbn [app] in Hin. injection Hin as Hb0 Hrest. subst b. cbv zeta.
    cbn [set_in mk rr]. rewrite Hzh.
    destruct (validate_ok flags cmf flg (Z.of_N mask) HNW Hcmf Hflg Hvalid) as [V1 V2].
    destruct (GenZlib.validate_zlib_header (Z.of_N cmf) (Z.of_N flg) (Z.of_N flags) (Z.of_N mask)) as [[tg target] okf].
    cbn [fst snd] in V1, V2. subst target.
    change (3 =? GenZlib.e_State_BadZlibHeader)%Z with false. cbv iota.
    unfold jump, StepOk, Inv, Core, ShR.
    cbn [set_st set_rr set_in mk st inp ileft out pos nb bb rr ctr d_check d_zadler r_hdr upd_dec].
    rewrite Hi. cbn [length].
    split; [lia|]. split; [exists (pre ++ [flg]); rewrite Hpre, <- app_assoc; reflexivity|].
    split; [exact Hom|]. split; [exact Hp0|]. split; [exact Hpm|].
    split; [keep E Hck Hza|]. split; [keep E Hck Hza|].
    split; [exact Hn|]. split; [exact Hb|].
    exists B. split; [exact HB|]. split; [exact Hrest|]. rewrite Hpos, N.sub_diag. reflexivity.
Qed.

Lemma st_rbh c : Inv c -> st c = ReadBlockHeader -> StepOk (stepf c).
Proof.
  intros HI E. pose proof HI as (Hi & (pre & Hpre) & Hom & Hp0 & Hpm & Hck & Hza & HS). unfold ShR in HS. rewrite E in HS.
  destruct HS as (Hn & Hb & bs & Hsh & Hin & Hout).
  destruct (shapeB_split bs Hsh) as (f & ch & bs' & -> & HT & Hok).
  rewrite encT_cons in Hin. unfold stored_block in Hin. cbn [app] in Hin.
  unfold step. rewrite E.
  destruct (inp c) as [|b rest] eqn:Ei.
  - rewrite read_bits_empty by (try rewrite Hn; try exact Ei; lia).
    apply suspended; try assumption; try (rewrite E; discriminate). cbn [app] in Hin. rewrite Hin. discriminate.
  - cbn [app] in Hin. injection Hin as Hb0 Hrest. subst b.
    rewrite (read_bits_one_byte flags c (b2n f) _ 3 _ Hn Hb Ei) by (destruct f; cbn; lia).
    assert (Hbits : N.land (b2n f) (N.ones 3) = b2n f) by (destruct f; reflexivity).
    assert (Hshr : N.shiftr (b2n f) 3 = 0) by (destruct f; reflexivity).
    rewrite Hbits, Hshr. cbv zeta.
    assert (Hfin : N.land (b2n f) 1 = b2n f) by (destruct f; reflexivity).
    assert (Hbt : N.land (N.shiftr (b2n f) 1) 3 = 0) by (destruct f; reflexivity).
    cbn [d_block_type r_blk upd_dec set_rr set_bits set_in mk rr]. rewrite Hbt. change (0 =? 0) with true. cbv iota.
    unfold jump, StepOk, Inv, Core, ShR.
    cbn [set_st set_rr set_bits set_in mk st inp ileft out pos nb bb rr ctr d_finish d_check d_zadler r_blk upd_dec].
    rewrite Hi. cbn [length].
    split; [lia|]. split; [exists (pre ++ [b2n f]); rewrite Hpre, <- !app_assoc; reflexivity|].
    split; [exact Hom|]. split; [exact Hp0|]. split; [exact Hpm|].
    split; [keep E Hck Hza|]. split; [keep E Hck Hza|].
    split; [reflexivity|]. split; [reflexivity|].
    exists f, ch, bs'. rewrite Hfin. destruct Hok as [Hok1 Hok2].
    split; [exact HT|]. split; [split; assumption|]. split; [reflexivity|]. split.
    + rewrite Hrest. unfold hdr4. rewrite <- !app_assoc. reflexivity.
    + unfold pay in *. cbn [map concat snd] in Hout. exact Hout.
Qed.

Lemma st_btnc c : Inv c -> st c = BlockTypeNoCompression -> StepOk (stepf c).
Proof.
  intros HI E. pose proof HI as (Hi & Hpre & Hom & Hp0 & Hpm & Hck & Hza & HS). unfold ShR in HS. rewrite E in HS.
  destruct HS as (Hn & Hb & f & ch & bs & HT & Hok & Hfin & Hin & Hout).
  unfold step. rewrite E. unfold pad_to_bytes. rewrite Hn. change (N.land 5 7) with 5.
  rewrite read_bits_have by (try rewrite Hn; lia). rewrite Hn, Hb.
  change (N.shiftr 0 5) with 0. change (5 - 5) with 0.
  unfold jump, StepOk, Inv, Core, ShR.
  cbn [set_st set_ctr set_bits mk st inp ileft out pos nb bb rr ctr d_check d_zadler].
  split; [exact Hi|]. split; [exact Hpre|]. split; [exact Hom|]. split; [exact Hp0|]. split; [exact Hpm|].
  split; [keep E Hck Hza|]. split; [keep E Hck Hza|].
  split; [reflexivity|]. split; [reflexivity|].
  exists f, ch, bs. change (N.to_nat 0) with 0%nat. cbn [skipn].
  split; [exact HT|]. split; [exact Hok|]. split; [exact Hfin|]. split; [lia|]. split; [exact Hin|].
  split; [intros j Hj; lia|exact Hout].
Qed.

Lemma st_rawheader c : Inv c -> st c = RawHeader -> StepOk (stepf c).
Proof.
  intros HI E. pose proof HI as (Hi & (pre & Hpre) & Hom & Hp0 & Hpm & Hck & Hza & HS). unfold ShR in HS. rewrite E in HS.
  destruct HS as (Hn & Hb & f & ch & bs & HT & [Hok1 Hok2] & Hfin & Hc4 & Hin & Hraw & Hout).
  cbn [snd] in Hok1, Hok2.
  unfold step. rewrite E.
  destruct (ctr c <? 4) eqn:Ek.
  - apply N.ltb_lt in Ek. rewrite Hn. change (negb (0 =? 0)) with false. cbv iota.
    rewrite (skipn_cons_nth 0 (hdr4 ch) (N.to_nat (ctr c))) in Hin by (rewrite hdr4_len; lia).
    cbn [app] in Hin. unfold read_byte.
    destruct (inp c) as [|b rest] eqn:Ei.
    + apply suspended; try assumption; try (rewrite E; discriminate). cbn [app] in Hin. rewrite Hin. discriminate.
    + cbn [app] in Hin. injection Hin as Hb0 Hrest. subst b.
      unfold StepOk, Inv, Core, ShR.
      cbn [set_ctr set_rr set_in mk st inp ileft out pos nb bb rr ctr d_raw r_raw upd_dec d_finish d_check d_zadler].
      rewrite E, Hi. cbn [length].
      split; [lia|]. split.
      { exists (pre ++ [nth (N.to_nat (ctr c)) (hdr4 ch) 0]). rewrite Hpre, <- app_assoc. reflexivity. }
      split; [exact Hom|]. split; [exact Hp0|]. split; [exact Hpm|].
      split; [keep E Hck Hza|]. split; [keep E Hck Hza|].
      split; [exact Hn|]. split; [exact Hb|].
      exists f, ch, bs. split; [exact HT|]. split; [split; assumption|]. split; [exact Hfin|]. split; [lia|].
      split; [replace (N.to_nat (ctr c + 1)) with (S (N.to_nat (ctr c))) by lia; exact Hrest|].
      split; [|exact Hout].
      intros j Hj. destruct (Nat.eq_dec j (N.to_nat (ctr c))) as [->|Hne].
      * rewrite N2Nat.id. apply aget_aset_same.
      * rewrite aget_aset_other by lia. apply Hraw. lia.
  - apply N.ltb_ge in Ek. assert (Hk4 : ctr c = 4) by lia. cbv zeta.
    rewrite Hk4 in *. change (N.to_nat 4) with 4%nat in *.
    assert (H0 := Hraw 0%nat ltac:(lia)). assert (H1 := Hraw 1%nat ltac:(lia)).
    assert (H2 := Hraw 2%nat ltac:(lia)). assert (H3 := Hraw 3%nat ltac:(lia)).
    change (N.of_nat 0) with 0 in H0. change (N.of_nat 1) with 1 in H1.
    change (N.of_nat 2) with 2 in H2. change (N.of_nat 3) with 3 in H3.
    rewrite H0, H1, H2, H3.
    set (len := N.of_nat (length ch)) in *.
    assert (Hlen : nth 0 (hdr4 ch) 0 + 256 * nth 1 (hdr4 ch) 0 = len).
    { unfold hdr4. fold len. change (nth 0 (le16 len ++ le16 (65535 - len)) 0) with (nth 0 (le16 len) 0).
      change (nth 1 (le16 len ++ le16 (65535 - len)) 0) with (nth 1 (le16 len) 0). apply le16_val. lia. }
    assert (Hchk : nth 2 (hdr4 ch) 0 + 256 * nth 3 (hdr4 ch) 0 = 65535 - len).
    { unfold hdr4. fold len. change (nth 2 (le16 len ++ le16 (65535 - len)) 0) with (nth 0 (le16 (65535 - len)) 0).
      change (nth 3 (le16 len ++ le16 (65535 - len)) 0) with (nth 1 (le16 (65535 - len)) 0). apply le16_val. lia. }
    rewrite Hlen, Hchk.
    replace (len + (65535 - len) =? 65535) with true by (symmetry; apply N.eqb_eq; lia). cbn [negb].
    assert (Hin' : inp c ++ fut = ch ++ encT bs) by (rewrite Hin; reflexivity).
    destruct (len =? 0) eqn:E0.
    + apply N.eqb_eq in E0. assert (ch = []) by (destruct ch; [reflexivity|unfold len in E0; cbn [length] in E0; lia]). subst ch.
      unfold jump, StepOk, Inv, Core, ShR.
      cbn [set_st set_ctr mk st inp ileft out pos nb bb rr ctr d_check d_zadler].
      split; [exact Hi|]. split; [exists pre; exact Hpre|]. split; [exact Hom|]. split; [exact Hp0|]. split; [exact Hpm|].
      split; [keep E Hck Hza|]. split; [keep E Hck Hza|].
      split; [exact Hn|]. split; [exact Hb|].
      exists f, bs. repeat split; assumption.
    + cbn [set_ctr mk nb]. rewrite Hn. change (negb (0 =? 0)) with false. cbv iota.
      unfold jump, StepOk, Inv, Core, ShR.
      cbn [set_st set_ctr mk st inp ileft out pos nb bb rr ctr d_check d_zadler].
      split; [exact Hi|]. split; [exists pre; exact Hpre|]. split; [exact Hom|]. split; [exact Hp0|]. split; [exact Hpm|].
      split; [keep E Hck Hza|]. split; [keep E Hck Hza|].
      split; [exact Hn|]. split; [exact Hb|].
      exists f, ch, bs. split; [exact HT|]. split; [exact Hfin|]. split; [reflexivity|]. split; [exact Hin'|]. split; [exact Hout|].
      discriminate.
Qed.

Lemma room_for c rest tl :
  p0 <= pos c -> outpre c ++ rest ++ tl = P -> pos c + N.of_nat (length rest) <= p0 + N.of_nat (length P).
Proof.
  intros Hp H. assert (El : length (outpre c ++ rest ++ tl) = length P) by (rewrite H; reflexivity).
  rewrite !app_length in El. pose proof (length_outpre c Hp). lia.
Qed.

Lemma st_memcpy1 c : Inv c -> st c = RawMemcpy1 -> StepOk (stepf c).
Proof.
  intros HI E. pose proof HI as (Hi & Hpre & Hom & Hp0 & Hpm & Hck & Hza & HS). unfold ShR in HS. rewrite E in HS.
  destruct HS as (Hn & Hb & f & rest & bs & HT & Hfin & Hctr & Hin & Hout & _).
  unfold step. rewrite E. unfold bytes_left, csub.
  replace (pos c <=? omax) with true by (symmetry; apply N.leb_le; lia). cbn [bind].
  destruct (ctr c =? 0) eqn:E0.
  - apply N.eqb_eq in E0. assert (rest = []) by (destruct rest; [reflexivity|cbn [length] in Hctr; lia]). subst rest.
    unfold jump, StepOk, Inv, Core, ShR. cbn [set_st mk st inp ileft out pos nb bb rr ctr d_check d_zadler].
    split; [exact Hi|]. split; [exact Hpre|]. split; [exact Hom|]. split; [exact Hp0|]. split; [exact Hpm|].
    split; [keep E Hck Hza|]. split; [keep E Hck Hza|].
    split; [exact Hn|]. split; [exact Hb|].
    exists f, bs. repeat split; assumption.
  - apply N.eqb_neq in E0. pose proof (room_for c rest (pay bs) Hp0 Hout) as Hr.
    replace (omax - pos c =? 0) with false by (symmetry; apply N.eqb_neq; lia).
    unfold jump, StepOk, Inv, Core, ShR. cbn [set_st mk st inp ileft out pos nb bb rr ctr d_check d_zadler].
    split; [exact Hi|]. split; [exact Hpre|]. split; [exact Hom|]. split; [exact Hp0|]. split; [exact Hpm|].
    split; [keep E Hck Hza|]. split; [keep E Hck Hza|].
    split; [exact Hn|]. split; [exact Hb|].
    exists f, rest, bs. split; [exact HT|]. split; [exact Hfin|]. split; [exact Hctr|]. split; [exact Hin|]. split; [exact Hout|].
    intros _ X. subst rest. cbn [length] in Hctr. lia.
Qed.

Lemma st_memcpy2 c : Inv c -> st c = RawMemcpy2 -> StepOk (stepf c).
Proof.
  intros HI E. pose proof HI as (Hi & (pre & Hpre) & Hom & Hp0 & Hpm & Hck & Hza & HS). unfold ShR in HS. rewrite E in HS.
  destruct HS as (Hn & Hb & f & rest & bs & HT & Hfin & Hctr & Hin & Hout & Hne).
  specialize (Hne eq_refl).
  assert (Hrl : 0 < N.of_nat (length rest)) by (destruct rest; [contradiction|cbn [length]; lia]).
  pose proof (room_for c rest (pay bs) Hp0 Hout) as Hr.
  unfold step. rewrite E.
  destruct (0 <? ileft c) eqn:El.
  - apply N.ltb_lt in El.
    unfold bytes_left, csub.
    replace (pos c <=? omax) with true by (symmetry; apply N.leb_le; lia). cbn [bind].
    set (n := N.min (N.min (omax - pos c) (ileft c)) (ctr c)).
    assert (Hn1 : n <= ileft c) by (unfold n; lia).
    assert (Hn2 : n <= N.of_nat (length rest)) by (unfold n; lia).
    assert (Hn0 : 0 < n) by (unfold n; lia).
    unfold guard. replace (pos c + n <=? alen (out c)) with true by (symmetry; apply N.leb_le; lia).
    cbn [bind].
    assert (Hfirst : firstn (N.to_nat n) (inp c) = firstn (N.to_nat n) rest).
    { rewrite <- (firstn_app_le (inp c) fut) by lia. rewrite Hin. apply firstn_app_le. lia. }
    assert (Hskip : skipn (N.to_nat n) (inp c) ++ fut = skipn (N.to_nat n) rest ++ encT bs).
    { rewrite <- (skipn_app_le (inp c) fut) by lia. rewrite Hin. apply skipn_app_le. lia. }
    cbv zeta. cbn [set_st set_ctr set_in set_out mk inp ileft ctr out pos].
    rewrite Hfirst.
    unfold jump, StepOk, Inv, Core, ShR.
    cbn [set_st set_ctr set_in set_out mk st inp ileft out pos nb bb rr ctr d_check d_zadler].
    assert (Hfl : length (firstn (N.to_nat n) rest) = N.to_nat n) by (rewrite firstn_length; lia).
    split; [rewrite skipn_length; lia|].
    split; [exists (pre ++ firstn (N.to_nat n) (inp c)); rewrite <- app_assoc, firstn_skipn; exact Hpre|].
    split; [split; [rewrite alen_aset_list; exact (proj1 Hom)|pose proof (proj2 Hom); lia]|]. split; [lia|]. split; [lia|].
    split; [keep E Hck Hza|]. split; [keep E Hck Hza|].
    split; [exact Hn|]. split; [exact Hb|].
    exists f, (skipn (N.to_nat n) rest), bs. split; [exact HT|]. split; [exact Hfin|].
    split; [rewrite skipn_length; lia|]. split; [exact Hskip|]. split; [|discriminate].
    replace (pos c + n) with (pos c + N.of_nat (length (firstn (N.to_nat n) rest))) by lia.
    rewrite aget_list_aset_list by exact Hp0.
    rewrite <- app_assoc, (app_assoc (firstn _ rest)), firstn_skipn. exact Hout.
  - apply N.ltb_ge in El.
    assert (Ei : inp c = []) by (destruct (inp c); [reflexivity|cbn [length] in Hi; lia]).
    apply suspended; try assumption; try (rewrite E; discriminate).
    rewrite Ei in Hin. cbn [app] in Hin. rewrite Hin. destruct rest; [contradiction|discriminate].
Qed.

Lemma st_blockdone c : Inv c -> st c = BlockDone -> StepOk (stepf c).
Proof.
  intros HI E. pose proof HI as (Hi & (pre & Hpre) & Hom & Hp0 & Hpm & Hck & Hza & HS). unfold ShR in HS. rewrite E in HS.
  destruct HS as (Hn & Hb & f & bs & HT & Hfin & Hin & Hout).
  unfold step. rewrite E, Hfin.
  destruct HT as [[-> ->]|[-> Hsh]].
  - (* the final block *)
    change (negb (b2n true =? 0)) with true. cbv iota.
    unfold pad_to_bytes. rewrite Hn. change (N.land 0 7) with 0.
    rewrite read_bits_have by (try rewrite Hn; lia). rewrite Hn, Hb. cbn [bind].
    change (N.shiftr 0 0) with 0. change (0 - 0) with 0.
    cbn [set_bits mk ileft nb bb inp].
    assert (Hlen : in_len = N.of_nat (length pre) + ileft c).
    { unfold in_len. rewrite Hpre, app_length, Hi. lia. }
    replace (in_len - ileft c) with (N.of_nat (length pre)) by lia.
    unfold undo_bytes. change (N.shiftr 0 3) with 0. rewrite N.min_0_l. change (N.shiftl 0 3) with 0. change (0 - 0) with 0.
    cbv zeta. rewrite N.sub_0_r, Nat2N.id.
    assert (Hsk : skipn (length pre) in_buf = inp c) by (rewrite Hpre, skipn_app, skipn_all, Nat.sub_diag; reflexivity).
    rewrite Hsk.
    cbn [set_bits set_in mk nb bb]. unfold guard. change (0 <? 64) with true. cbn [bind].
    change (N.land 0 (N.ones 0)) with 0. change (0 =? 0) with true. cbn [bind].
    assert (Hin' : inp c ++ fut = tail zl A extra) by (rewrite Hin; reflexivity).
    rewrite pay_nil, app_nil_r in Hout.
    replace (in_len - N.of_nat (length pre)) with (ileft c) by lia.
    unfold tail, tailz in Hin'.
    destruct zl_cases as [[Ezl EZ]|[Ezl EZ]]; rewrite EZ; rewrite Ezl in Hin'.
    + unfold jump, StepOk, Inv, Core, ShR. cbn [set_st set_ctr set_bits set_in mk st inp ileft out pos nb bb rr ctr d_check d_zadler].
      split; [exact Hi|]. split; [exists pre; exact Hpre|]. split; [exact Hom|].
      split; [exact Hp0|]. split; [exact Hpm|].
      split; [keep E Hck Hza|]. split; [intros _ X; contradiction|].
      split; [exact Ezl|]. split; [reflexivity|]. split; [reflexivity|]. split; [lia|].
      split; [exact Hin'|]. split; [|exact Hout].
      change (N.to_nat 0) with 0%nat. cbn [firstn fold_left]. apply Hza; rewrite E; discriminate.
    + unfold jump, StepOk, Inv, Core, ShR. cbn [set_st set_ctr set_bits set_in mk st inp ileft out pos nb bb rr ctr d_check d_zadler].
      split; [exact Hi|]. split; [exists pre; exact Hpre|]. split; [exact Hom|].
      split; [exact Hp0|]. split; [exact Hpm|].
      split; [keep E Hck Hza|]. split; [intros _ _ X; contradiction|].
      split; [reflexivity|]. split; [exact Hin'|]. split; [exact Hout|]. intros X; rewrite Ezl in X; discriminate X.
  - change (negb (b2n false =? 0)) with false. cbv iota. rewrite HSB.
    unfold jump, StepOk, Inv, Core, ShR. cbn [set_st mk st inp ileft out pos nb bb rr ctr d_check d_zadler].
    split; [exact Hi|]. split; [exists pre; exact Hpre|]. split; [exact Hom|]. split; [exact Hp0|]. split; [exact Hpm|].
    split; [keep E Hck Hza|]. split; [keep E Hck Hza|].
    split; [exact Hn|]. split; [exact Hb|].
    exists bs. repeat split; assumption.
Qed.

Lemma st_adler c : Inv c -> st c = ReadAdler32 -> StepOk (stepf c).
Proof.
  intros HI E. pose proof HI as (Hi & (pre & Hpre) & Hom & Hp0 & Hpm & Hck & Hza & HS). unfold ShR in HS. rewrite E in HS.
  destruct HS as (Ezl & Hn & Hb & Hctr & Hin & Hzad & Hout).
  unfold step. rewrite E.
  destruct (ctr c <? 4) eqn:E4.
  - apply N.ltb_lt in E4. rewrite Hn. change (negb (0 =? 0)) with false. cbv iota.
    assert (Hl4 : length (be32 A) = 4%nat) by reflexivity.
    assert (Hk : (N.to_nat (ctr c) < length (be32 A))%nat) by (rewrite Hl4; lia).
    rewrite (skipn_cons_nth 0 (be32 A) (N.to_nat (ctr c)) Hk) in Hin. cbn [app] in Hin.
    unfold read_byte.
    destruct (inp c) as [|b rest] eqn:Ei.
    + apply suspended; try assumption; try (rewrite E; discriminate). cbn [app] in Hin. rewrite Hin. discriminate.
    + cbn [app] in Hin. injection Hin as Hb0 Hrest. subst b. cbv zeta.
      unfold StepOk, Inv, Core, ShR.
      cbn [set_st set_ctr set_rr set_in mk st inp ileft out pos nb bb rr ctr d_check d_zadler r_hdr upd_dec].
      rewrite E. rewrite Hi. cbn [length].
      split; [lia|]. split; [exists (pre ++ [nth (N.to_nat (ctr c)) (be32 A) 0]); rewrite Hpre, <- app_assoc; reflexivity|].
      split; [exact Hom|]. split; [exact Hp0|]. split; [exact Hpm|].
      split; [keep E Hck Hza|]. split; [intros _ X; contradiction|].
      split; [exact Ezl|]. split; [exact Hn|]. split; [exact Hb|]. split; [lia|].
      replace (N.to_nat (ctr c + 1)) with (S (N.to_nat (ctr c))) by lia.
      split; [exact Hrest|]. split; [|exact Hout].
      rewrite (firstn_snoc_nth 0 (be32 A) _ Hk), fold_left_app. cbn [fold_left]. rewrite Hzad. reflexivity.
  - apply N.ltb_ge in E4. assert (Hc4 : ctr c = 4) by lia. rewrite Hc4 in Hin, Hzad.
    change (N.to_nat 4) with 4%nat in Hin, Hzad.
    change (skipn 4 (be32 A)) with (@nil N) in Hin. change (firstn 4 (be32 A)) with (be32 A) in Hzad.
    rewrite (accz_be32 A HA) in Hzad.
    unfold jump, StepOk, Inv, Core, ShR. cbn [set_st mk st inp ileft out pos nb bb rr ctr d_check d_zadler].
    split; [exact Hi|]. split; [exists pre; exact Hpre|]. split; [exact Hom|].
    split; [exact Hp0|]. split; [exact Hpm|].
    split; [keep E Hck Hza|]. split; [intros _ _ X; contradiction|].
    split; [exact Hn|]. split; [exact Hin|]. split; [exact Hout|]. intros _. exact Hzad.
Qed.

Lemma st_doneforever c : Inv c -> st c = DoneForever -> StepOk (stepf c).
Proof.
  intros HI E. unfold step. rewrite E. unfold StepOk, Post. split; [exact HI|]. left. split; [reflexivity|exact E].
Qed.

Lemma step_ok c : Inv c -> StepOk (stepf c).
Proof.
  intros HI. destruct (st c) eqn:E;
    try (exfalso; destruct HI as (_ & _ & _ & _ & _ & _ & _ & HS); unfold ShR in HS; rewrite E in HS; exact HS).
  - apply st_start; assumption.
  - apply st_zcmf; assumption.
  - apply st_zflg; assumption.
  - apply st_rbh; assumption.
  - apply st_btnc; assumption.
  - apply st_rawheader; assumption.
  - apply st_memcpy1; assumption.
  - apply st_memcpy2; assumption.
  - apply st_blockdone; assumption.
  - apply st_adler; assumption.
  - apply st_doneforever; assumption.
Qed.

Theorem run_chunk c : Inv c -> Post (run flags in_buf in_len omax mask c).
Proof.
  intros HI. unfold run.
  pose proof (iter_pow_inv (turn flags in_buf in_len omax mask) Inv Post) as H.
  assert (H1 : forall s s', Inv s -> turn flags in_buf in_len omax mask s = inl s' -> Inv s').
  { intros s s' Hs Ht. unfold turn in Ht. pose proof (step_ok s Hs) as X. unfold StepOk in X.
    destruct (stepf s) as [[[| |] c']| |]; inversion Ht; subst; exact X. }
  assert (H2 : forall s r, Inv s -> turn flags in_buf in_len omax mask s = inr r -> Post r).
  { intros s r Hs Ht. unfold turn in Ht. pose proof (step_ok s Hs) as X. unfold StepOk in X.
    destruct (stepf s) as [[[| |] c']| |]; inversion Ht; subst; try exact X; exact I. }
  specialize (H H1 H2 62%nat c HI).
  destruct (iter_pow 62 (turn flags in_buf in_len omax mask) c) as [c'|r]; [exact I|exact H].
Qed.

End Chunk.

(* ------------------------------------------------------------------ from call to call *)
Definition cfg_of (d : dec) (inb : list N) (o : arr) (p : N) : cfg :=
  mk d (d_state d) (d_bit_buf d) (d_num_bits d) (d_dist d) (d_counter d) (d_num_extra d)
     inb (N.of_nat (length inb)) o p.

(* the caller's loop: one call per slice while the decoder asks for more; the result is the last status,
   the total input consumed, the buffer and the output position *)
Fixpoint feed (flags : N) (d : dec) (o : arr) (p : N) (pieces : list (list N)) (used : N)
  : res (status * N * arr * N) :=
  match pieces with
  | [] => Ret (NeedsMoreInput, used, o, p)
  | piece :: more =>
      match decompress d piece o p USIZE_MAX flags with
      | Ret r =>
          match cr_status r with
          | NeedsMoreInput => feed flags (cr_dec r) (cr_buf r) (p + cr_out r) more (used + cr_in r)
          | s => Ret (s, used + cr_in r, cr_buf r, p + cr_out r)
          end
      | Panic n => Panic n
      | OutOfFuel => OutOfFuel
      end
  end.

Section Calls.
Variable flags : N.
Variable zl : bool.
Hypothesis HZ : has flags F_ZLIB = zl.
Hypothesis HSB : has flags F_STOPBB = false.
Hypothesis HNW : has flags F_NONWRAP = true.
Hypothesis HMORE : has flags F_MORE = true.
Variables (cmf flg A : N).
Hypothesis Hcmf : cmf < 256.
Hypothesis Hflg : flg < 256.
Hypothesis Hvalid : valid_header (Z.of_N cmf) (Z.of_N flg) = true.
Hypothesis HA : A < 2 ^ 32.
Variable B : list blk.
Hypothesis HB : shapeB B.
Variable extra : list N.
Variable p0 : N.

Notation PB := (P B).
Notation ShR' := (ShR zl cmf flg A B extra p0).
Notation Core' := (Core zl cmf flg A B extra p0).

Definition need_adler : bool := if has flags F_IGNORE then false else has flags F_ZLIB || has flags F_COMPUTE.

(* the check value the decoder carries once [p - p0] bytes of the payload are out *)
Definition chk_of (p : N) : N := if need_adler then adler32 1 (firstn (N.to_nat (p - p0)) PB) else 1.

Definition Kof (d : dec) : N := match d_state d with Start => 1 | _ => d_check d end.

Definition DI (d : dec) (rem : list N) (o : arr) (p : N) : Prop :=
  Core' (Kof d) (d_state d) (d_num_bits d) (d_bit_buf d) (d_counter d) d rem o p /\
  Kof d = chk_of p /\ rem <> [].

(* ShR looks at the decoder through four fields only, and at K only in Start *)
Lemma ShR_ext K K' s n b ct r r' rem op p :
  s <> Start -> d_zh0 r' = d_zh0 r -> d_finish r' = d_finish r -> d_raw r' = d_raw r -> d_zadler r' = d_zadler r ->
  ShR' K s n b ct r rem op p -> ShR' K' s n b ct r' rem op p.
Proof.
  intros Hs E1 E2 E3 E4 H. unfold ShR in *. destruct s; try exact H; try contradiction;
    rewrite ?E1, ?E2, ?E3, ?E4; exact H.
Qed.

Lemma ShR_nb K s n b ct r rem op p : ShR' K s n b ct r rem op p -> s <> Start -> n <= 5.
Proof.
  intros H Hs. unfold ShR in H. destruct s; try contradiction;
    repeat match goal with H : _ /\ _ |- _ => destruct H end; subst; lia.
Qed.

Lemma ShR_prefix K s n b ct r rem op p :
  ShR' K s n b ct r rem op p -> N.of_nat (length op) = p - p0 -> op = firstn (length op) PB.
Proof.
  intros H Hl. unfold ShR in H. destruct s; try contradiction.
  - destruct H as (_ & -> & _). rewrite N.sub_diag in Hl. destruct op; [reflexivity|cbn [length] in Hl; lia].
  - destruct H as (_ & _ & -> & _). rewrite N.sub_diag in Hl. destruct op; [reflexivity|cbn [length] in Hl; lia].
  - destruct H as (_ & _ & -> & _). rewrite N.sub_diag in Hl. destruct op; [reflexivity|cbn [length] in Hl; lia].
  - destruct H as (_ & _ & bs & _ & _ & H). exact (prefix_firstn _ _ _ H).
  - destruct H as (_ & _ & f & ch & bs & _ & _ & _ & _ & H). exact (prefix_firstn _ _ _ H).
  - destruct H as (_ & _ & f & ch & bs & _ & _ & _ & _ & _ & _ & H). exact (prefix_firstn _ _ _ H).
  - destruct H as (_ & _ & f & rest & bs & _ & _ & _ & _ & H & _). exact (prefix_firstn _ _ _ H).
  - destruct H as (_ & _ & f & rest & bs & _ & _ & _ & _ & H & _). exact (prefix_firstn _ _ _ H).
  - destruct H as (_ & _ & f & bs & _ & _ & _ & H). exact (prefix_firstn _ _ _ H).
  - destruct H as (_ & _ & _ & _ & _ & _ & ->). rewrite firstn_all. reflexivity.
  - destruct H as (_ & _ & -> & _). rewrite firstn_all. reflexivity.
Qed.

Lemma chk_progress o p q K :
  p0 <= p -> p <= q -> K = chk_of p ->
  aget_list o p0 (q - p0) = firstn (N.to_nat (q - p0)) PB ->
  (if need_adler then adler32 K (aget_list o p (q - p)) else K) = chk_of q.
Proof.
  intros H1 H2 HK Hpre. subst K. unfold chk_of. destruct need_adler; [|reflexivity].
  rewrite adler32_app by apply adler_valid_1. f_equal.
  rewrite <- Hpre.
  replace (q - p0) with ((p - p0) + (q - p)) in Hpre |- * by lia.
  rewrite aget_list_split in Hpre |- *. replace (p0 + (p - p0)) with p in Hpre |- * by lia.
  f_equal.
  assert (Hl : length (aget_list o p0 (p - p0)) = N.to_nat (p - p0)).
  { unfold aget_list. apply length_aget_list_nat. }
  assert (E : firstn (N.to_nat (p - p0)) (aget_list o p0 (p - p0) ++ aget_list o p (q - p)) = aget_list o p0 (p - p0)).
  { rewrite <- Hl at 1. rewrite firstn_app, Nat.sub_diag, firstn_all. cbn [firstn]. apply app_nil_r. }
  rewrite Hpre in E. rewrite firstn_firstn in E. rewrite Nat.min_l in E by lia. exact E.
Qed.

Definition final_status : status :=
  if has flags F_IGNORE || negb zl || (adler32 1 PB =? A) then Done else Adler32Mismatch.

(* one call on one slice *)
Lemma call_chunk d chunk fut o p res :
  DI d (chunk ++ fut) o p -> p0 + N.of_nat (length PB) < alen o -> alen o <= USIZE_MAX ->
  decompress d chunk o p USIZE_MAX flags = Ret res ->
  alen (cr_buf res) = alen o /\
  ((cr_status res = NeedsMoreInput /\ cr_in res = N.of_nat (length chunk) /\
    DI (cr_dec res) fut (cr_buf res) (p + cr_out res)) \/
   (cr_status res = final_status /\
    cr_in res + N.of_nat (length extra) = N.of_nat (length chunk) + N.of_nat (length fut) /\
    p + cr_out res = p0 + N.of_nat (length PB) /\
    aget_list (cr_buf res) p0 (N.of_nat (length PB)) = PB)).
Proof.
  intros (HC & HK & Hne) Hroom Hrep.
  pose proof HC as (Hp0 & Hpm & _).
  unfold decompress. rewrite HNW.
  change (N.land ((USIZE_MAX + 1) mod U64) USIZE_MAX =? 0) with true.
  replace (alen o <? p) with false by (symmetry; apply N.ltb_ge; lia). cbn [negb orb].
  set (omax := N.min (N.min (p + USIZE_MAX) USIZE_MAX) (alen o)).
  assert (Hom : omax = alen o) by (unfold omax; unfold USIZE_MAX in *; lia).
  fold (cfg_of d chunk o p).
  assert (HI : Inv zl cmf flg A B extra p0 (Kof d) chunk fut omax p (cfg_of d chunk o p)).
  { unfold Inv, cfg_of. cbn [mk ileft inp pos out st nb bb ctr rr]. split; [reflexivity|]. split; [exists []; reflexivity|].
    split; [split; lia|]. exact HC. }
  pose proof (run_chunk flags zl HZ HSB HNW HMORE cmf flg A Hcmf Hflg Hvalid HA B HB extra p0 (Kof d) chunk fut
                omax USIZE_MAX p ltac:(lia) _ HI) as HP.
  unfold in_len in HP.
  destruct (run flags chunk (N.of_nat (length chunk)) omax USIZE_MAX (cfg_of d chunk o p)) as [[s c]| |]; cbn [bind]; try discriminate.
  unfold Post in HP. destruct HP as (HIc & Hcase).
  pose proof HIc as (Hi & (pre & Hpre) & (Homc & Hps) & Hp0c & Hpmc & Hck & Hza & HS).
  assert (Hlen : N.of_nat (length chunk) = N.of_nat (length pre) + ileft c) by (rewrite Hpre, app_length, Hi; lia).
  assert (Hpfx : aget_list (out c) p0 (pos c - p0) = firstn (N.to_nat (pos c - p0)) PB).
  { pose proof (ShR_prefix _ _ _ _ _ _ _ _ _ HS) as X. rewrite length_aget_list in X. specialize (X eq_refl).
    rewrite X at 1. f_equal. apply Nat2N.inj. rewrite length_aget_list. lia. }
  assert (Hprog := chk_progress (out c) p (pos c) (Kof d) Hp0 Hps HK Hpfx).
  destruct Hcase as [[-> Est]|(-> & Ei & Hfut & Hbb & Hs1 & Hs2)].
  - (* finished *)
    unfold ShR in HS. rewrite Est in HS. destruct HS as (Hn & Hrem & Hout & Hzad).
    rewrite Hn.
    unfold undo_bytes. change (N.shiftr 0 3) with 0. rewrite N.min_0_l. change (N.shiftl 0 3) with 0. change (0 - 0) with 0.
    unfold csub. replace (pos c <=? omax) with true by (symmetry; apply N.leb_le; lia). cbn [bind].
    unfold guard. change (0 <? 64) with true. cbn [bind].
    replace (p <=? pos c) with true by (symmetry; apply N.leb_le; lia). cbn [bind].
    rewrite N.sub_0_r.
    replace (0 <=? N.of_nat (length chunk) - ileft c) with true by (symmetry; apply N.leb_le; lia). cbn [bind].
    fold need_adler. change (0 <=? status_code Done)%Z with true. rewrite andb_true_r.
    rewrite (Hck ltac:(rewrite Est; discriminate)).
    assert (Hpos : pos c = p0 + N.of_nat (length PB)).
    { assert (X : N.of_nat (length (aget_list (out c) p0 (pos c - p0))) = N.of_nat (length PB)) by (rewrite Hout; reflexivity).
      rewrite length_aget_list in X. lia. }
    assert (Hfin : chk_of (pos c) = if need_adler then adler32 1 PB else 1).
    { unfold chk_of. rewrite Hpos. replace (p0 + N.of_nat (length PB) - p0) with (N.of_nat (length PB)) by lia.
      rewrite Nat2N.id, firstn_all. reflexivity. }
    assert (Hcnt : N.of_nat (length chunk) - ileft c + N.of_nat (length extra) = N.of_nat (length chunk) + N.of_nat (length fut)).
    { assert (X : length (inp c ++ fut) = length extra) by (rewrite Hrem; reflexivity). rewrite app_length in X. lia. }
    assert (Hst : (if need_adler
                   then (if has flags F_ZLIB && negb (adler32 (Kof d) (aget_list (out c) p (pos c - p)) =? d_zadler (rr c)) then Adler32Mismatch else Done)
                   else Done) = final_status).
    { unfold final_status. unfold need_adler in Hprog, Hfin |- *. rewrite HZ in Hprog, Hfin |- *.
      destruct (has flags F_IGNORE) eqn:EI; cbn [orb andb negb]; [reflexivity|].
      destruct zl eqn:Ezl; cbn [orb andb negb] in Hprog, Hfin |- *.
      - rewrite Hprog, Hfin, (Hzad eq_refl). destruct (adler32 1 PB =? A); reflexivity.
      - destruct (has flags F_COMPUTE); reflexivity. }
    destruct need_adler eqn:ENA.
    + rewrite Hst. intros H; inversion H; subst res; clear H; cbn [cr_status cr_in cr_out cr_buf cr_dec].
      split; [rewrite Homc; exact Hom|]. right. split; [reflexivity|]. split; [exact Hcnt|]. split; [lia|].
      replace (N.of_nat (length PB)) with (pos c - p0) by lia. exact Hout.
    + rewrite Hst. intros H; inversion H; subst res; clear H; cbn [cr_status cr_in cr_out cr_buf cr_dec].
      split; [rewrite Homc; exact Hom|]. right. split; [reflexivity|]. split; [exact Hcnt|]. split; [lia|].
      replace (N.of_nat (length PB)) with (pos c - p0) by lia. exact Hout.
  - (* suspended *)
    cbv iota.
    unfold csub. replace (pos c <=? omax) with true by (symmetry; apply N.leb_le; lia). cbn [bind].
    replace (omax - pos c =? 0) with false by (symmetry; apply N.eqb_neq; lia).
    assert (Hstat : match st c with ReadAdler32 => NeedsMoreInput | _ => if false then HasMoreOutput else NeedsMoreInput end = NeedsMoreInput)
      by (destruct (st c); reflexivity).
    rewrite Hstat. clear Hstat.
    pose proof (ShR_nb _ _ _ _ _ _ _ _ _ HS Hs1) as Hnb.
    unfold guard. replace (nb c <? 64) with true by (symmetry; apply N.ltb_lt; lia). cbn [bind].
    replace (p <=? pos c) with true by (symmetry; apply N.leb_le; lia). cbn [bind].
    fold need_adler. change (0 <=? status_code NeedsMoreInput)%Z with true. rewrite andb_true_r.
    rewrite N.sub_0_r.
    replace (0 <=? N.of_nat (length chunk) - ileft c) with true by (symmetry; apply N.leb_le; lia).
    rewrite (Hck Hs1), Hbb. change (N.land 0 (N.ones (nb c))) with 0.
    assert (Hil : ileft c = 0) by (rewrite Hi, Ei; reflexivity).
    assert (Hdone : forall chk0, chk0 = chk_of (pos c) ->
              DI (write_back (rr c) (st c) c (nb c) 0 chk0) fut (out c) (p + (pos c - p))).
    { intros chk0 Hc0. replace (p + (pos c - p)) with (pos c) by lia.
      assert (HKo : Kof (write_back (rr c) (st c) c (nb c) 0 chk0) = chk0).
      { unfold Kof, write_back. cbn [d_state d_check]. destruct (st c); try reflexivity. contradiction. }
      unfold DI. rewrite HKo. split; [|split; [exact Hc0|exact Hfut]].
      unfold Core. cbn [write_back d_state d_num_bits d_bit_buf d_counter d_check d_zadler].
      split; [exact Hp0c|]. split; [exact Hpmc|]. split; [intros _; reflexivity|]. split; [exact Hza|].
      rewrite Ei, Hbb in HS. cbn [app] in HS.
      refine (ShR_ext _ _ _ _ _ _ _ _ _ _ _ Hs1 _ _ _ _ HS); reflexivity. }
    rewrite Hil, N.sub_0_r.
    destruct need_adler eqn:ENA; intros H; inversion H; subst res; clear H; cbn [cr_status cr_in cr_out cr_buf cr_dec];
      (split; [rewrite Homc; exact Hom|]); left; (split; [reflexivity|]); (split; [reflexivity|]);
      apply Hdone; exact Hprog.
Qed.

Lemma final_not_more : final_status <> NeedsMoreInput.
Proof. unfold final_status. destruct (has flags F_IGNORE || negb zl || (adler32 1 PB =? A)); discriminate. Qed.

Theorem feed_pieces : forall pieces d o p used s total o' p',
  DI d (concat pieces) o p -> p0 + N.of_nat (length PB) < alen o -> alen o <= USIZE_MAX ->
  feed flags d o p pieces used = Ret (s, total, o', p') ->
  s = final_status /\
  total + N.of_nat (length extra) = used + N.of_nat (length (concat pieces)) /\
  p' = p0 + N.of_nat (length PB) /\ aget_list o' p0 (N.of_nat (length PB)) = PB.
Proof.
  induction pieces as [|piece more IH]; intros d o p used s total o' p' HD Hroom Hrep Hf.
  - destruct HD as (_ & _ & Hne). cbn [concat] in Hne. contradiction.
  - cbn [concat] in HD. cbn [feed] in Hf.
    destruct (decompress d piece o p USIZE_MAX flags) as [r| |] eqn:Ed; try discriminate.
    destruct (call_chunk d piece (concat more) o p r HD Hroom Hrep Ed) as (Hal & [(Hs & Hin & HD')|(Hs & Hin & Hp & Hout)]).
    + rewrite Hs in Hf. rewrite <- Hal in Hroom, Hrep.
      destruct (IH _ _ _ _ _ _ _ _ HD' Hroom Hrep Hf) as (H1 & H2 & H3 & H4).
      split; [exact H1|]. split; [|split; assumption].
      cbn [concat]. rewrite app_length. lia.
    + assert (Hs' : cr_status r <> NeedsMoreInput) by (rewrite Hs; apply final_not_more).
      assert (Hf' : Ret (cr_status r, used + cr_in r, cr_buf r, p + cr_out r) = Ret (s, total, o', p')).
      { destruct (cr_status r); try exact Hf. contradiction. }
      inversion Hf'; subst. split; [exact Hs|]. split; [|split; assumption].
      cbn [concat]. rewrite app_length. lia.
Qed.

End Calls.

(* ------------------------------------------------------------------ the statements *)
Lemma DI_init flags zl cmf flg A B extra o :
  shapeB B ->
  DI flags zl cmf flg A B extra 0 dec_default (InflateStoredZ.hz zl cmf flg ++ InflateStoredZ.encT zl A extra B) o 0.
Proof.
  intros HB. unfold DI, Core, Kof. cbn [dec_default d_state d_num_bits d_bit_buf d_counter].
  split; [|split].
  - split; [lia|]. split; [lia|]. split; [intros X; contradiction|]. split; [intros X; contradiction|].
    unfold ShR. repeat split; reflexivity.
  - unfold chk_of. destruct (need_adler flags); [|reflexivity]. cbn [firstn N.to_nat N.sub]. symmetry. apply adler32_nil. cbn. lia.
  - destruct (shapeB_split B HB) as (f & ch & bs' & -> & _). rewrite encT_cons. unfold stored_block.
    destruct (InflateStoredZ.hz zl cmf flg); discriminate.
Qed.

(* zlib framing, the stream cut into arbitrary pieces *)
Theorem pieces_zlib_stored_stream flags cmf flg A chunks last extra pieces o s total o' p' :
  has flags F_ZLIB = true -> has flags F_STOPBB = false -> has flags F_NONWRAP = true -> has flags F_MORE = true ->
  cmf < 256 -> flg < 256 -> valid_header (Z.of_N cmf) (Z.of_N flg) = true -> A < 2 ^ 32 ->
  chunks_ok chunks -> bytes_ok last -> N.of_nat (length last) <= 65535 ->
  let data := concat chunks ++ last in
  let stream := cmf :: flg :: stored_stream chunks last ++ be32 A in
  concat pieces = stream ++ extra ->
  N.of_nat (length data) < alen o -> alen o <= USIZE_MAX ->
  feed flags dec_default o 0 pieces 0 = Ret (s, total, o', p') ->
  s = (if has flags F_IGNORE || (adler32 1 data =? A) then Done else Adler32Mismatch) /\
  total = N.of_nat (length stream) /\ p' = N.of_nat (length data) /\ aget_list o' 0 p' = data.
Proof.
  intros HZ HSB HNW HMORE Hcmf Hflg Hvalid HA Hc Hl1 Hl2 data stream Hcat Hroom Hrep Hf.
  set (B := map (pair false) chunks ++ [(true, last)]).
  pose proof (shapeB_of chunks last Hc Hl1 Hl2) as HB. fold B in HB.
  assert (Hinput : stream ++ extra = InflateStoredZ.hz true cmf flg ++ InflateStoredZ.encT true A extra B).
  { unfold stream, InflateStoredZ.hz, InflateStoredZ.encT, tail, tailz, B. rewrite enc_of. cbn [app]. rewrite <- !app_assoc. reflexivity. }
  assert (Hdata : data = P B) by (unfold data, P, B; rewrite pay_of; reflexivity).
  pose proof (DI_init flags true cmf flg A B extra o HB) as HD. rewrite <- Hinput, <- Hcat in HD.
  rewrite Hdata in Hroom.
  destruct (feed_pieces flags true HZ HSB HNW HMORE cmf flg A Hcmf Hflg Hvalid HA B HB extra 0 pieces dec_default o 0 0 s total o' p'
              HD ltac:(lia) Hrep Hf) as (H1 & H2 & H3 & H4).
  rewrite Hcat, app_length in H2.
  split; [|split; [lia|split]].
  - rewrite H1. unfold final_status. cbn [negb orb]. rewrite orb_false_r, Hdata. reflexivity.
  - rewrite Hdata. lia.
  - rewrite H3, Hdata. exact H4.
Qed.

(* the raw format *)
Theorem pieces_raw_stored_stream flags chunks last extra pieces o s total o' p' :
  has flags F_ZLIB = false -> has flags F_STOPBB = false -> has flags F_NONWRAP = true -> has flags F_MORE = true ->
  chunks_ok chunks -> bytes_ok last -> N.of_nat (length last) <= 65535 ->
  let data := concat chunks ++ last in
  let stream := stored_stream chunks last in
  concat pieces = stream ++ extra ->
  N.of_nat (length data) < alen o -> alen o <= USIZE_MAX ->
  feed flags dec_default o 0 pieces 0 = Ret (s, total, o', p') ->
  s = Done /\ total = N.of_nat (length stream) /\ p' = N.of_nat (length data) /\ aget_list o' 0 p' = data.
Proof.
  intros HZ HSB HNW HMORE Hc Hl1 Hl2 data stream Hcat Hroom Hrep Hf.
  set (B := map (pair false) chunks ++ [(true, last)]).
  pose proof (shapeB_of chunks last Hc Hl1 Hl2) as HB. fold B in HB.
  assert (Hinput : stream ++ extra = InflateStoredZ.hz false 120 1 ++ InflateStoredZ.encT false 0 extra B).
  { unfold stream, InflateStoredZ.hz, InflateStoredZ.encT, tail, tailz, B. rewrite enc_of. reflexivity. }
  assert (Hdata : data = P B) by (unfold data, P, B; rewrite pay_of; reflexivity).
  pose proof (DI_init flags false 120 1 0 B extra o HB) as HD. rewrite <- Hinput, <- Hcat in HD.
  rewrite Hdata in Hroom.
  destruct (feed_pieces flags false HZ HSB HNW HMORE 120 1 0 ltac:(lia) ltac:(lia) ltac:(reflexivity) ltac:(cbn; lia) B HB extra 0
              pieces dec_default o 0 0 s total o' p' HD ltac:(lia) Hrep Hf) as (H1 & H2 & H3 & H4).
  rewrite Hcat, app_length in H2.
  split; [|split; [lia|split]].
  - rewrite H1. unfold final_status. cbn [negb orb]. rewrite orb_true_r. reflexivity.
  - rewrite Hdata. lia.
  - rewrite H3, Hdata. exact H4.
Qed.
