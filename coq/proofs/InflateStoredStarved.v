(* A truncated stream of stored blocks offered WITHOUT the has-more-input flag (C04: "a proper prefix of a valid
   stream is never rejected as corrupt: ... cannot-make-progress when more input is not announced").  This is
   InflateStoredTotal.v with the hypothesis "more input is announced, or none is needed" dropped: a call that runs
   out of input inside the stream ends with end_of_input flags - NeedsMoreInput with the flag,
   FailedCannotMakeProgress without - never with Failed or Done. *)
From Coq Require Import NArith ZArith List Bool Lia Arith.
From MZ.lib Require Import Arr Bits Mach.
From MZ.spec Require Import Adler DeflateSpec Zlib.
From MZ.gen Require GenZlib.
From MZ.model Require Import InflateCore.
From MZ.proofs Require Import IterPow StoredSpec InflateStoredZ InflateStoredChunks InflateStoredTotal.
From MZ.proofs Require ZlibHeader.
Import ListNotations.
Local Open Scope N_scope.
Arguments N.add : simpl never.
Arguments N.sub : simpl never.
Arguments N.mul : simpl never.
Arguments N.ltb : simpl never.
Arguments N.leb : simpl never.
Arguments N.eqb : simpl never.
Arguments N.land : simpl never.
Arguments N.shiftr : simpl never.
Arguments N.shiftl : simpl never.
Arguments N.lor : simpl never.
Arguments N.min : simpl never.

(* ------------------------------------------------------------------ one call *)
Section Budget.
Variable flags : N.
Variable zl : bool.
Hypothesis HZ : has flags F_ZLIB = zl.
Hypothesis HSB : has flags F_STOPBB = false.
Hypothesis HNW : has flags F_NONWRAP = true.
Variables (cmf flg A : N).
Hypothesis Hcmf : cmf < 256.
Hypothesis Hflg : flg < 256.
Hypothesis Hvalid : valid_header (Z.of_N cmf) (Z.of_N flg) = true.
Hypothesis HA : A < 2 ^ 32.
Variable B : list blk.
Hypothesis HB : shapeB B.
Variable extra : list N.

Notation encT := (InflateStoredZ.encT zl A extra).
Notation hz := (InflateStoredZ.hz zl cmf flg).
Notation P := (InflateStoredChunks.P B).

Variable p0 : N.             (* where the stream's output starts in the buffer *)
Variable K : N.              (* the running check value during this call *)

Notation ShR := (InflateStoredChunks.ShR zl cmf flg A B extra p0 K).
Notation Core := (InflateStoredChunks.Core zl cmf flg A B extra p0 K).

Variables (in_buf fut : list N).
Variables (omax mask pstart AL : N).  (* pstart: the output position this call started at; AL: the buffer's length *)
Hypothesis HAL : omax <= AL.
Definition in_len : N := N.of_nat (length in_buf).

Definition outpre (c : cfg) : list N := aget_list (out c) p0 (pos c - p0).

Definition Inv (c : cfg) : Prop :=
  ileft c = N.of_nat (length (inp c)) /\ (exists pre, in_buf = pre ++ inp c) /\
  (alen (out c) = AL /\ pstart <= pos c /\ pos c <= omax) /\
  Core (st c) (nb c) (bb c) (ctr c) (rr c) (inp c ++ fut) (out c) (pos c).

(* a call ends finished, or suspended with its slice used up and more of the stream still to come *)
Definition Post (r : res (status * cfg)) : Prop :=
  match r with
  | Ret (s, c) => Inv c /\ ((s = Done /\ st c = DoneForever) \/
                            (s = end_of_input flags /\ inp c = [] /\ fut <> [] /\ bb c = 0 /\ st c <> Start /\ st c <> DoneForever) \/
                            (s = HasMoreOutput /\ st c = RawMemcpy1 /\ pos c = omax /\ ctr c <> 0))
  | _ => False
  end.

Notation stepf := (step flags in_buf in_len omax mask).

(* a measure that every turn of the loop decreases: 16 per input byte still in the slice, plus a rank
   that orders the states along the transitions that consume nothing *)
Definition rank (c : cfg) : nat :=
  match st c with
  | Start => 12%nat | ReadZlibCmf => 11%nat | ReadZlibFlg => 11%nat | ReadBlockHeader => 4%nat
  | BlockTypeNoCompression => 10%nat | RawHeader => 9%nat | RawMemcpy1 => 7%nat
  | RawMemcpy2 => if omax - pos c =? 0 then 8%nat else 6%nat
  | BlockDone => 5%nat | ReadAdler32 => 3%nat | DoneForever => 1%nat | _ => 0%nat
  end.
Definition mu (c : cfg) : nat := (16 * length (inp c) + rank c)%nat.

(* a step from [c]: never a panic, never out of fuel *)
Definition StepOk (c : cfg) (r : res (action * cfg)) : Prop :=
  match r with
  | Ret (ANone, c') => Inv c' /\ (mu c' < mu c)%nat
  | Ret (AJump s, c') => Inv (set_st c' s) /\ (mu (set_st c' s) < mu c)%nat
  | Ret (AEnd s, c') => Post (Ret (s, c'))
  | _ => False
  end.

Ltac mu_tac :=
  unfold mu, rank; cbn [set_st set_rr set_bits set_in set_ctr set_out mk st inp pos];
  repeat match goal with H : st _ = _ |- _ => rewrite H end;
  repeat match goal with H : inp _ = _ |- _ => rewrite H end;
  repeat match goal with H : (_ =? _) = _ |- _ => rewrite H end;
  cbn [length]; try lia.

Lemma length_outpre c : p0 <= pos c -> N.of_nat (length (outpre c)) = pos c - p0.
Proof. intros H. unfold outpre. apply length_aget_list. Qed.

Lemma suspended c : Inv c -> inp c = [] -> fut <> [] -> bb c = 0 -> st c <> Start -> st c <> DoneForever ->
  StepOk c (Ret (AEnd (end_of_input flags), c)).
Proof.
  intros HI E Hf Hb H1 H2. unfold StepOk, Post. split; [exact HI|]. right. left. repeat split; assumption.
Qed.

Ltac keep E Hck Hza :=
  first [ intros _; apply Hck; rewrite E; discriminate
        | intros _ _ _; apply Hza; rewrite E; discriminate ].

Lemma zl_cases : (zl = true /\ has flags F_ZLIB = true) \/ (zl = false /\ has flags F_ZLIB = false).
Proof. rewrite HZ. destruct zl; auto. Qed.

Lemma st_start c : Inv c -> st c = Start -> StepOk c (stepf c).
Proof.
  intros HI E. pose proof HI as (Hi & Hpre & Hom & Hp0 & Hpm & Hck & Hza & HS). unfold InflateStoredChunks.ShR in HS. rewrite E in HS.
  destruct HS as (Hin & Hpos & HK).
  unfold step. rewrite E.
  destruct zl_cases as [[Ezl EZ]|[Ezl EZ]]; rewrite EZ.
  - unfold jump, StepOk. split; [|mu_tac]. unfold Inv, InflateStoredChunks.Core, InflateStoredChunks.ShR. cbn [set_st mk st inp ileft out pos nb bb rr ctr d_check d_zadler r_hdr upd_dec].
    split; [exact Hi|]. split; [exact Hpre|]. split; [exact Hom|]. split; [exact Hp0|]. split; [exact Hpm|].
    split; [intros _; symmetry; exact HK|]. split; [intros; reflexivity|].
    split; [exact Ezl|]. split; [exact Hin|]. split; [exact Hpos|]. split; reflexivity.
  - unfold jump, StepOk. split; [|mu_tac]. unfold Inv, InflateStoredChunks.Core, InflateStoredChunks.ShR. cbn [set_st mk st inp ileft out pos nb bb rr ctr d_check d_zadler r_hdr upd_dec].
    split; [exact Hi|]. split; [exact Hpre|]. split; [exact Hom|]. split; [exact Hp0|]. split; [exact Hpm|].
    split; [intros _; symmetry; exact HK|]. split; [intros; reflexivity|].
    split; [reflexivity|]. split; [reflexivity|].
    exists B. assert (Hh : hz = []) by (unfold InflateStoredZ.hz; rewrite Ezl; reflexivity). rewrite Hh in Hin. cbn [app] in Hin.
    split; [exact HB|]. split; [exact Hin|]. rewrite Hpos, N.sub_diag. reflexivity.
Qed.

Lemma st_zcmf c : Inv c -> st c = ReadZlibCmf -> StepOk c (stepf c).
Proof.
  intros HI E. pose proof HI as (Hi & (pre & Hpre) & Hom & Hp0 & Hpm & Hck & Hza & HS). unfold InflateStoredChunks.ShR in HS. rewrite E in HS.
  destruct HS as (Ezl & Hin & Hpos & Hn & Hb).
  assert (Hh : hz = [cmf; flg]) by (unfold InflateStoredZ.hz; rewrite Ezl; reflexivity). rewrite Hh in Hin. cbn [app] in Hin.
  unfold step. rewrite E. unfold read_byte.
  destruct (inp c) as [|b rest] eqn:Ei.
  - apply suspended; try assumption; try (rewrite E; discriminate). cbn [app] in Hin. rewrite Hin. discriminate.
  - cbn [app] in Hin. injection Hin as Hb0 Hrest. subst b.
    unfold jump, StepOk. split; [|mu_tac]. unfold Inv, InflateStoredChunks.Core, InflateStoredChunks.ShR.
    cbn [set_st set_rr set_in mk st inp ileft out pos nb bb rr ctr d_check d_zadler d_zh0 r_hdr upd_dec].
    rewrite Hi. cbn [length].
    split; [lia|]. split; [exists (pre ++ [cmf]); rewrite Hpre, <- app_assoc; reflexivity|].
    split; [exact Hom|]. split; [exact Hp0|]. split; [exact Hpm|].
    split; [keep E Hck Hza|]. split; [keep E Hck Hza|].
    split; [exact Ezl|]. split; [exact Hrest|]. split; [exact Hpos|]. split; [reflexivity|]. split; assumption.
Qed.

Lemma st_zflg c : Inv c -> st c = ReadZlibFlg -> StepOk c (stepf c).
Proof.
  intros HI E. pose proof HI as (Hi & (pre & Hpre) & Hom & Hp0 & Hpm & Hck & Hza & HS). unfold InflateStoredChunks.ShR in HS. rewrite E in HS.
  destruct HS as (Ezl & Hin & Hpos & Hzh & Hn & Hb).
  unfold step. rewrite E. unfold read_byte.
  destruct (inp c) as [|b rest] eqn:Ei.
  - apply suspended; try assumption; try (rewrite E; discriminate). cbn [app] in Hin. rewrite Hin. discriminate.
  - cbn [app] in Hin. injection Hin as Hb0 Hrest. subst b. cbv zeta.
    cbn [set_in mk rr]. rewrite Hzh.
    destruct (validate_ok flags cmf flg (Z.of_N mask) HNW Hcmf Hflg Hvalid) as [V1 V2].
    destruct (GenZlib.validate_zlib_header (Z.of_N cmf) (Z.of_N flg) (Z.of_N flags) (Z.of_N mask)) as [[tg target] okf].
    cbn [fst snd] in V1, V2. subst target.
    change (3 =? GenZlib.e_State_BadZlibHeader)%Z with false. cbv iota.
    unfold jump, StepOk. split; [|mu_tac]. unfold Inv, InflateStoredChunks.Core, InflateStoredChunks.ShR.
    cbn [set_st set_rr set_in mk st inp ileft out pos nb bb rr ctr d_check d_zadler r_hdr upd_dec].
    rewrite Hi. cbn [length].
    split; [lia|]. split; [exists (pre ++ [flg]); rewrite Hpre, <- app_assoc; reflexivity|].
    split; [exact Hom|]. split; [exact Hp0|]. split; [exact Hpm|].
    split; [keep E Hck Hza|]. split; [keep E Hck Hza|].
    split; [exact Hn|]. split; [exact Hb|].
    exists B. split; [exact HB|]. split; [exact Hrest|]. rewrite Hpos, N.sub_diag. reflexivity.
Qed.

Lemma st_rbh c : Inv c -> st c = ReadBlockHeader -> StepOk c (stepf c).
Proof.
  intros HI E. pose proof HI as (Hi & (pre & Hpre) & Hom & Hp0 & Hpm & Hck & Hza & HS). unfold InflateStoredChunks.ShR in HS. rewrite E in HS.
  destruct HS as (Hn & Hb & bs & Hsh & Hin & Hout).
  destruct (shapeB_split bs Hsh) as (f & ch & bs' & -> & HT & Hok).
  rewrite encT_cons in Hin. unfold stored_block in Hin. cbn [app] in Hin.
  unfold step. rewrite E.
  destruct (inp c) as [|b rest] eqn:Ei.
  - rewrite read_bits_empty by (try rewrite Hn; try exact Ei; lia).
    apply suspended; try assumption; try (rewrite E; discriminate). cbn [app] in Hin. rewrite Hin. discriminate.
  - cbn [app] in Hin. injection Hin as Hb0 Hrest. subst b.
    rewrite (read_bits_one_byte flags c (b2n f) _ 3 _ Hn Hb Ei) by (destruct f; cbn; lia).
    assert (Hbits : N.land (b2n f) (N.ones 3) = b2n f) by (destruct f; reflexivity).
    assert (Hshr : N.shiftr (b2n f) 3 = 0) by (destruct f; reflexivity).
    rewrite Hbits, Hshr. cbv zeta.
    assert (Hfin : N.land (b2n f) 1 = b2n f) by (destruct f; reflexivity).
    assert (Hbt : N.land (N.shiftr (b2n f) 1) 3 = 0) by (destruct f; reflexivity).
    cbn [d_block_type r_blk upd_dec set_rr set_bits set_in mk rr]. rewrite Hbt. change (0 =? 0) with true. cbv iota.
    unfold jump, StepOk. split; [|mu_tac]. unfold Inv, InflateStoredChunks.Core, InflateStoredChunks.ShR.
    cbn [set_st set_rr set_bits set_in mk st inp ileft out pos nb bb rr ctr d_finish d_check d_zadler r_blk upd_dec].
    rewrite Hi. cbn [length].
    split; [lia|]. split; [exists (pre ++ [b2n f]); rewrite Hpre, <- !app_assoc; reflexivity|].
    split; [exact Hom|]. split; [exact Hp0|]. split; [exact Hpm|].
    split; [keep E Hck Hza|]. split; [keep E Hck Hza|].
    split; [reflexivity|]. split; [reflexivity|].
    exists f, ch, bs'. rewrite Hfin. destruct Hok as [Hok1 Hok2].
    split; [exact HT|]. split; [split; assumption|]. split; [reflexivity|]. split.
    + rewrite Hrest. unfold hdr4. rewrite <- !app_assoc. reflexivity.
    + unfold pay in *. cbn [map concat snd] in Hout. exact Hout.
Qed.

Lemma st_btnc c : Inv c -> st c = BlockTypeNoCompression -> StepOk c (stepf c).
Proof.
  intros HI E. pose proof HI as (Hi & Hpre & Hom & Hp0 & Hpm & Hck & Hza & HS). unfold InflateStoredChunks.ShR in HS. rewrite E in HS.
  destruct HS as (Hn & Hb & f & ch & bs & HT & Hok & Hfin & Hin & Hout).
  unfold step. rewrite E. unfold pad_to_bytes. rewrite Hn. change (N.land 5 7) with 5.
  rewrite read_bits_have by (try rewrite Hn; lia). rewrite Hn, Hb.
  change (N.shiftr 0 5) with 0. change (5 - 5) with 0.
  unfold jump, StepOk. split; [|mu_tac]. unfold Inv, InflateStoredChunks.Core, InflateStoredChunks.ShR.
  cbn [set_st set_ctr set_bits mk st inp ileft out pos nb bb rr ctr d_check d_zadler].
  split; [exact Hi|]. split; [exact Hpre|]. split; [exact Hom|]. split; [exact Hp0|]. split; [exact Hpm|].
  split; [keep E Hck Hza|]. split; [keep E Hck Hza|].
  split; [reflexivity|]. split; [reflexivity|].
  exists f, ch, bs. change (N.to_nat 0) with 0%nat. cbn [skipn].
  split; [exact HT|]. split; [exact Hok|]. split; [exact Hfin|]. split; [lia|]. split; [exact Hin|].
  split; [intros j Hj; lia|exact Hout].
Qed.

Lemma st_rawheader c : Inv c -> st c = RawHeader -> StepOk c (stepf c).
Proof.
  intros HI E. pose proof HI as (Hi & (pre & Hpre) & Hom & Hp0 & Hpm & Hck & Hza & HS). unfold InflateStoredChunks.ShR in HS. rewrite E in HS.
  destruct HS as (Hn & Hb & f & ch & bs & HT & [Hok1 Hok2] & Hfin & Hc4 & Hin & Hraw & Hout).
  cbn [snd] in Hok1, Hok2.
  unfold step. rewrite E.
  destruct (ctr c <? 4) eqn:Ek.
  - apply N.ltb_lt in Ek. rewrite Hn. change (negb (0 =? 0)) with false. cbv iota.
    rewrite (skipn_cons_nth 0 (hdr4 ch) (N.to_nat (ctr c))) in Hin by (rewrite hdr4_len; lia).
    cbn [app] in Hin. unfold read_byte.
    destruct (inp c) as [|b rest] eqn:Ei.
    + apply suspended; try assumption; try (rewrite E; discriminate). cbn [app] in Hin. rewrite Hin. discriminate.
    + cbn [app] in Hin. injection Hin as Hb0 Hrest. subst b.
      unfold StepOk. split; [|mu_tac]. unfold Inv, InflateStoredChunks.Core, InflateStoredChunks.ShR.
      cbn [set_ctr set_rr set_in mk st inp ileft out pos nb bb rr ctr d_raw r_raw upd_dec d_finish d_check d_zadler].
      rewrite E, Hi. cbn [length].
      split; [lia|]. split.
      { exists (pre ++ [nth (N.to_nat (ctr c)) (hdr4 ch) 0]). rewrite Hpre, <- app_assoc. reflexivity. }
      split; [exact Hom|]. split; [exact Hp0|]. split; [exact Hpm|].
      split; [keep E Hck Hza|]. split; [keep E Hck Hza|].
      split; [exact Hn|]. split; [exact Hb|].
      exists f, ch, bs. split; [exact HT|]. split; [split; assumption|]. split; [exact Hfin|]. split; [lia|].
      split; [replace (N.to_nat (ctr c + 1)) with (S (N.to_nat (ctr c))) by lia; exact Hrest|].
      split; [|exact Hout].
      intros j Hj. destruct (Nat.eq_dec j (N.to_nat (ctr c))) as [->|Hne].
      * rewrite N2Nat.id. apply aget_aset_same.
      * rewrite aget_aset_other by lia. apply Hraw. lia.
  - apply N.ltb_ge in Ek. assert (Hk4 : ctr c = 4) by lia. cbv zeta.
    rewrite Hk4 in *. change (N.to_nat 4) with 4%nat in *.
    assert (H0 := Hraw 0%nat ltac:(lia)). assert (H1 := Hraw 1%nat ltac:(lia)).
    assert (H2 := Hraw 2%nat ltac:(lia)). assert (H3 := Hraw 3%nat ltac:(lia)).
    change (N.of_nat 0) with 0 in H0. change (N.of_nat 1) with 1 in H1.
    change (N.of_nat 2) with 2 in H2. change (N.of_nat 3) with 3 in H3.
    rewrite H0, H1, H2, H3.
    set (len := N.of_nat (length ch)) in *.
    assert (Hlen : nth 0 (hdr4 ch) 0 + 256 * nth 1 (hdr4 ch) 0 = len).
    { unfold hdr4. fold len. change (nth 0 (le16 len ++ le16 (65535 - len)) 0) with (nth 0 (le16 len) 0).
      change (nth 1 (le16 len ++ le16 (65535 - len)) 0) with (nth 1 (le16 len) 0). apply le16_val. lia. }
    assert (Hchk : nth 2 (hdr4 ch) 0 + 256 * nth 3 (hdr4 ch) 0 = 65535 - len).
    { unfold hdr4. fold len. change (nth 2 (le16 len ++ le16 (65535 - len)) 0) with (nth 0 (le16 (65535 - len)) 0).
      change (nth 3 (le16 len ++ le16 (65535 - len)) 0) with (nth 1 (le16 (65535 - len)) 0). apply le16_val. lia. }
    rewrite Hlen, Hchk.
    replace (len + (65535 - len) =? 65535) with true by (symmetry; apply N.eqb_eq; lia). cbn [negb].
    assert (Hin' : inp c ++ fut = ch ++ encT bs) by (rewrite Hin; reflexivity).
    destruct (len =? 0) eqn:E0.
    + apply N.eqb_eq in E0. assert (ch = []) by (destruct ch; [reflexivity|unfold len in E0; cbn [length] in E0; lia]). subst ch.
      unfold jump, StepOk. split; [|mu_tac]. unfold Inv, InflateStoredChunks.Core, InflateStoredChunks.ShR.
      cbn [set_st set_ctr mk st inp ileft out pos nb bb rr ctr d_check d_zadler].
      split; [exact Hi|]. split; [exists pre; exact Hpre|]. split; [exact Hom|]. split; [exact Hp0|]. split; [exact Hpm|].
      split; [keep E Hck Hza|]. split; [keep E Hck Hza|].
      split; [exact Hn|]. split; [exact Hb|].
      exists f, bs. repeat split; assumption.
    + cbn [set_ctr mk nb]. rewrite Hn. change (negb (0 =? 0)) with false. cbv iota.
      unfold jump, StepOk. split; [|mu_tac]. unfold Inv, InflateStoredChunks.Core, InflateStoredChunks.ShR.
      cbn [set_st set_ctr mk st inp ileft out pos nb bb rr ctr d_check d_zadler].
      split; [exact Hi|]. split; [exists pre; exact Hpre|]. split; [exact Hom|]. split; [exact Hp0|]. split; [exact Hpm|].
      split; [keep E Hck Hza|]. split; [keep E Hck Hza|].
      split; [exact Hn|]. split; [exact Hb|].
      exists f, ch, bs. split; [exact HT|]. split; [exact Hfin|]. split; [reflexivity|]. split; [exact Hin'|]. split; [exact Hout|].
      discriminate.
Qed.

Lemma room_for c rest tl :
  p0 <= pos c -> outpre c ++ rest ++ tl = P -> pos c + N.of_nat (length rest) <= p0 + N.of_nat (length P).
Proof.
  intros Hp H. assert (El : length (outpre c ++ rest ++ tl) = length P) by (rewrite H; reflexivity).
  rewrite !app_length in El. pose proof (length_outpre c Hp). lia.
Qed.

Lemma st_memcpy1 c : Inv c -> st c = RawMemcpy1 -> StepOk c (stepf c).
Proof.
  intros HI E. pose proof HI as (Hi & Hpre & Hom & Hp0 & Hpm & Hck & Hza & HS). unfold InflateStoredChunks.ShR in HS. rewrite E in HS.
  destruct HS as (Hn & Hb & f & rest & bs & HT & Hfin & Hctr & Hin & Hout & _).
  unfold step. rewrite E. unfold bytes_left, csub.
  replace (pos c <=? omax) with true by (symmetry; apply N.leb_le; lia). cbn [bind].
  destruct (ctr c =? 0) eqn:E0.
  - apply N.eqb_eq in E0. assert (rest = []) by (destruct rest; [reflexivity|cbn [length] in Hctr; lia]). subst rest.
    unfold jump, StepOk. split; [|mu_tac]. unfold Inv, InflateStoredChunks.Core, InflateStoredChunks.ShR. cbn [set_st mk st inp ileft out pos nb bb rr ctr d_check d_zadler].
    split; [exact Hi|]. split; [exact Hpre|]. split; [exact Hom|]. split; [exact Hp0|]. split; [exact Hpm|].
    split; [keep E Hck Hza|]. split; [keep E Hck Hza|].
    split; [exact Hn|]. split; [exact Hb|].
    exists f, bs. repeat split; assumption.
  - apply N.eqb_neq in E0.
    destruct (omax - pos c =? 0) eqn:El.
    + (* the budget is used up *)
      apply N.eqb_eq in El. unfold StepOk, Post. split; [exact HI|]. right. right.
      split; [reflexivity|]. split; [exact E|]. split; [lia|exact E0].
    + unfold jump, StepOk. split; [|mu_tac]. unfold Inv, InflateStoredChunks.Core, InflateStoredChunks.ShR. cbn [set_st mk st inp ileft out pos nb bb rr ctr d_check d_zadler].
      split; [exact Hi|]. split; [exact Hpre|]. split; [exact Hom|]. split; [exact Hp0|]. split; [exact Hpm|].
      split; [keep E Hck Hza|]. split; [keep E Hck Hza|].
      split; [exact Hn|]. split; [exact Hb|].
      exists f, rest, bs. split; [exact HT|]. split; [exact Hfin|]. split; [exact Hctr|]. split; [exact Hin|]. split; [exact Hout|].
      intros _ X. subst rest. cbn [length] in Hctr. lia.
Qed.

Lemma st_memcpy2 c : Inv c -> st c = RawMemcpy2 -> StepOk c (stepf c).
Proof.
  intros HI E. pose proof HI as (Hi & (pre & Hpre) & Hom & Hp0 & Hpm & Hck & Hza & HS). unfold InflateStoredChunks.ShR in HS. rewrite E in HS.
  destruct HS as (Hn & Hb & f & rest & bs & HT & Hfin & Hctr & Hin & Hout & Hne).
  specialize (Hne eq_refl).
  assert (Hrl : 0 < N.of_nat (length rest)) by (destruct rest; [contradiction|cbn [length]; lia]).
  pose proof (room_for c rest (pay bs) Hp0 Hout) as Hr.
  unfold step. rewrite E.
  destruct (0 <? ileft c) eqn:El.
  - apply N.ltb_lt in El.
    unfold bytes_left, csub.
    replace (pos c <=? omax) with true by (symmetry; apply N.leb_le; lia). cbn [bind].
    set (n := N.min (N.min (omax - pos c) (ileft c)) (ctr c)).
    assert (Hn1 : n <= ileft c) by (unfold n; lia).
    assert (Hn2 : n <= N.of_nat (length rest)) by (unfold n; lia).
    assert (Hn3 : pos c + n <= omax) by (unfold n; lia).
    unfold guard. replace (pos c + n <=? alen (out c)) with true by (symmetry; apply N.leb_le; lia).
    cbn [bind].
    assert (Hfirst : firstn (N.to_nat n) (inp c) = firstn (N.to_nat n) rest).
    { rewrite <- (firstn_app_le (inp c) fut) by lia. rewrite Hin. apply firstn_app_le. lia. }
    assert (Hskip : skipn (N.to_nat n) (inp c) ++ fut = skipn (N.to_nat n) rest ++ encT bs).
    { rewrite <- (skipn_app_le (inp c) fut) by lia. rewrite Hin. apply skipn_app_le. lia. }
    cbv zeta. cbn [set_st set_ctr set_in set_out mk inp ileft ctr out pos].
    rewrite Hfirst.
    unfold jump, StepOk. split; [|mu_tac; rewrite skipn_length;
      destruct (omax - pos c =? 0) eqn:Ez; [lia|apply N.eqb_neq in Ez; assert (0 < n) by (unfold n; lia); lia]].
    unfold Inv, InflateStoredChunks.Core, InflateStoredChunks.ShR.
    cbn [set_st set_ctr set_in set_out mk st inp ileft out pos nb bb rr ctr d_check d_zadler].
    assert (Hfl : length (firstn (N.to_nat n) rest) = N.to_nat n) by (rewrite firstn_length; lia).
    split; [rewrite skipn_length; lia|].
    split; [exists (pre ++ firstn (N.to_nat n) (inp c)); rewrite <- app_assoc, firstn_skipn; exact Hpre|].
    split; [split; [rewrite alen_aset_list; exact (proj1 Hom)|split; lia]|]. split; [lia|]. split; [lia|].
    split; [keep E Hck Hza|]. split; [keep E Hck Hza|].
    split; [exact Hn|]. split; [exact Hb|].
    exists f, (skipn (N.to_nat n) rest), bs. split; [exact HT|]. split; [exact Hfin|].
    split; [rewrite skipn_length; lia|]. split; [exact Hskip|]. split; [|discriminate].
    replace (pos c + n) with (pos c + N.of_nat (length (firstn (N.to_nat n) rest))) by lia.
    rewrite aget_list_aset_list by exact Hp0.
    rewrite <- app_assoc, (app_assoc (firstn _ rest)), firstn_skipn. exact Hout.
  - apply N.ltb_ge in El.
    assert (Ei : inp c = []) by (destruct (inp c); [reflexivity|cbn [length] in Hi; lia]).
    apply suspended; try assumption; try (rewrite E; discriminate).
    rewrite Ei in Hin. cbn [app] in Hin. rewrite Hin. destruct rest; [contradiction|discriminate].
Qed.

Lemma st_blockdone c : Inv c -> st c = BlockDone -> StepOk c (stepf c).
Proof.
  intros HI E. pose proof HI as (Hi & (pre & Hpre) & Hom & Hp0 & Hpm & Hck & Hza & HS). unfold InflateStoredChunks.ShR in HS. rewrite E in HS.
  destruct HS as (Hn & Hb & f & bs & HT & Hfin & Hin & Hout).
  unfold step. rewrite E, Hfin.
  destruct HT as [[-> ->]|[-> Hsh]].
  - (* the final block *)
    change (negb (b2n true =? 0)) with true. cbv iota.
    unfold pad_to_bytes. rewrite Hn. change (N.land 0 7) with 0.
    rewrite read_bits_have by (try rewrite Hn; lia). rewrite Hn, Hb. cbn [bind].
    change (N.shiftr 0 0) with 0. change (0 - 0) with 0.
    cbn [set_bits mk ileft nb bb inp].
    assert (Hlen : in_len = N.of_nat (length pre) + ileft c).
    { unfold in_len. rewrite Hpre, app_length, Hi. lia. }
    replace (in_len - ileft c) with (N.of_nat (length pre)) by lia.
    unfold undo_bytes. change (N.shiftr 0 3) with 0. rewrite N.min_0_l. change (N.shiftl 0 3) with 0. change (0 - 0) with 0.
    cbv zeta. rewrite N.sub_0_r, Nat2N.id.
    assert (Hsk : skipn (length pre) in_buf = inp c) by (rewrite Hpre, skipn_app, skipn_all, Nat.sub_diag; reflexivity).
    rewrite Hsk.
    cbn [set_bits set_in mk nb bb]. unfold guard. change (0 <? 64) with true. cbn [bind].
    change (N.land 0 (N.ones 0)) with 0. change (0 =? 0) with true. cbn [bind].
    assert (Hin' : inp c ++ fut = tail zl A extra) by (rewrite Hin; reflexivity).
    rewrite pay_nil, app_nil_r in Hout.
    replace (in_len - N.of_nat (length pre)) with (ileft c) by lia.
    unfold tail, tailz in Hin'.
    destruct zl_cases as [[Ezl EZ]|[Ezl EZ]]; rewrite EZ; rewrite Ezl in Hin'.
    + unfold jump, StepOk. split; [|mu_tac]. unfold Inv, InflateStoredChunks.Core, InflateStoredChunks.ShR. cbn [set_st set_ctr set_bits set_in mk st inp ileft out pos nb bb rr ctr d_check d_zadler].
      split; [exact Hi|]. split; [exists pre; exact Hpre|]. split; [exact Hom|].
      split; [exact Hp0|]. split; [exact Hpm|].
      split; [keep E Hck Hza|]. split; [intros _ X; contradiction|].
      split; [exact Ezl|]. split; [reflexivity|]. split; [reflexivity|]. split; [lia|].
      split; [exact Hin'|]. split; [|exact Hout].
      change (N.to_nat 0) with 0%nat. cbn [firstn fold_left]. apply Hza; rewrite E; discriminate.
    + unfold jump, StepOk. split; [|mu_tac]. unfold Inv, InflateStoredChunks.Core, InflateStoredChunks.ShR. cbn [set_st set_ctr set_bits set_in mk st inp ileft out pos nb bb rr ctr d_check d_zadler].
      split; [exact Hi|]. split; [exists pre; exact Hpre|]. split; [exact Hom|].
      split; [exact Hp0|]. split; [exact Hpm|].
      split; [keep E Hck Hza|]. split; [intros _ _ X; contradiction|].
      split; [reflexivity|]. split; [exact Hin'|]. split; [exact Hout|]. intros X; rewrite Ezl in X; discriminate X.
  - change (negb (b2n false =? 0)) with false. cbv iota. rewrite HSB.
    unfold jump, StepOk. split; [|mu_tac]. unfold Inv, InflateStoredChunks.Core, InflateStoredChunks.ShR. cbn [set_st mk st inp ileft out pos nb bb rr ctr d_check d_zadler].
    split; [exact Hi|]. split; [exists pre; exact Hpre|]. split; [exact Hom|]. split; [exact Hp0|]. split; [exact Hpm|].
    split; [keep E Hck Hza|]. split; [keep E Hck Hza|].
    split; [exact Hn|]. split; [exact Hb|].
    exists bs. repeat split; assumption.
Qed.

Lemma st_adler c : Inv c -> st c = ReadAdler32 -> StepOk c (stepf c).
Proof.
  intros HI E. pose proof HI as (Hi & (pre & Hpre) & Hom & Hp0 & Hpm & Hck & Hza & HS). unfold InflateStoredChunks.ShR in HS. rewrite E in HS.
  destruct HS as (Ezl & Hn & Hb & Hctr & Hin & Hzad & Hout).
  unfold step. rewrite E.
  destruct (ctr c <? 4) eqn:E4.
  - apply N.ltb_lt in E4. rewrite Hn. change (negb (0 =? 0)) with false. cbv iota.
    assert (Hl4 : length (be32 A) = 4%nat) by reflexivity.
    assert (Hk : (N.to_nat (ctr c) < length (be32 A))%nat) by (rewrite Hl4; lia).
    rewrite (skipn_cons_nth 0 (be32 A) (N.to_nat (ctr c)) Hk) in Hin. cbn [app] in Hin.
    unfold read_byte.
    destruct (inp c) as [|b rest] eqn:Ei.
    + apply suspended; try assumption; try (rewrite E; discriminate). cbn [app] in Hin. rewrite Hin. discriminate.
    + cbn [app] in Hin. injection Hin as Hb0 Hrest. subst b. cbv zeta.
      unfold StepOk. split; [|mu_tac]. unfold Inv, InflateStoredChunks.Core, InflateStoredChunks.ShR.
      cbn [set_st set_ctr set_rr set_in mk st inp ileft out pos nb bb rr ctr d_check d_zadler r_hdr upd_dec].
      rewrite E. rewrite Hi. cbn [length].
      split; [lia|]. split; [exists (pre ++ [nth (N.to_nat (ctr c)) (be32 A) 0]); rewrite Hpre, <- app_assoc; reflexivity|].
      split; [exact Hom|]. split; [exact Hp0|]. split; [exact Hpm|].
      split; [keep E Hck Hza|]. split; [intros _ X; contradiction|].
      split; [exact Ezl|]. split; [exact Hn|]. split; [exact Hb|]. split; [lia|].
      replace (N.to_nat (ctr c + 1)) with (S (N.to_nat (ctr c))) by lia.
      split; [exact Hrest|]. split; [|exact Hout].
      rewrite (firstn_snoc_nth 0 (be32 A) _ Hk), fold_left_app. cbn [fold_left]. rewrite Hzad. reflexivity.
  - apply N.ltb_ge in E4. assert (Hc4 : ctr c = 4) by lia. rewrite Hc4 in Hin, Hzad.
    change (N.to_nat 4) with 4%nat in Hin, Hzad.
    change (skipn 4 (be32 A)) with (@nil N) in Hin. change (firstn 4 (be32 A)) with (be32 A) in Hzad.
    rewrite (accz_be32 A HA) in Hzad.
    unfold jump, StepOk. split; [|mu_tac]. unfold Inv, InflateStoredChunks.Core, InflateStoredChunks.ShR. cbn [set_st mk st inp ileft out pos nb bb rr ctr d_check d_zadler].
    split; [exact Hi|]. split; [exists pre; exact Hpre|]. split; [exact Hom|].
    split; [exact Hp0|]. split; [exact Hpm|].
    split; [keep E Hck Hza|]. split; [intros _ _ X; contradiction|].
    split; [exact Hn|]. split; [exact Hin|]. split; [exact Hout|]. intros _. exact Hzad.
Qed.

Lemma st_doneforever c : Inv c -> st c = DoneForever -> StepOk c (stepf c).
Proof.
  intros HI E. unfold step. rewrite E. unfold StepOk, Post. split; [exact HI|]. left. split; [reflexivity|exact E].
Qed.

Lemma step_ok c : Inv c -> StepOk c (stepf c).
Proof.
  intros HI. destruct (st c) eqn:E;
    try (exfalso; destruct HI as (_ & _ & _ & _ & _ & _ & _ & HS); unfold InflateStoredChunks.ShR in HS; rewrite E in HS; exact HS).
  - apply st_start; assumption.
  - apply st_zcmf; assumption.
  - apply st_zflg; assumption.
  - apply st_rbh; assumption.
  - apply st_btnc; assumption.
  - apply st_rawheader; assumption.
  - apply st_memcpy1; assumption.
  - apply st_memcpy2; assumption.
  - apply st_blockdone; assumption.
  - apply st_adler; assumption.
  - apply st_doneforever; assumption.
Qed.

(* the loop of one call: it returns, and what it returns satisfies Post *)
Theorem run_total c : Inv c -> (mu c < 2 ^ 62)%nat ->
  exists s c', run flags in_buf in_len omax mask c = Ret (s, c') /\ Post (Ret (s, c')).
Proof.
  intros HI Hfuel. unfold run.
  set (f := turn flags in_buf in_len omax mask).
  assert (H1 : forall s s', Inv s -> f s = inl s' -> Inv s' /\ (mu s' < mu s)%nat).
  { intros s s' Hs Ht. unfold f, turn in Ht. pose proof (step_ok s Hs) as X. unfold StepOk in X.
    destruct (stepf s) as [[[| |] c']| |]; inversion Ht; subst; exact X. }
  assert (H2 : forall s r, Inv s -> f s = inr r -> Post r).
  { intros s r Hs Ht. unfold f, turn in Ht. pose proof (step_ok s Hs) as X. unfold StepOk in X.
    destruct (stepf s) as [[[| |] c']| |]; inversion Ht; subst; try exact X; contradiction. }
  destruct (steps_measure f Inv mu H1 (S (mu c)) c HI ltac:(lia)) as [r Hr].
  assert (HP : Post r).
  { pose proof (steps_inv f Inv Post (fun s s' Hs Ht => proj1 (H1 s s' Hs Ht)) H2 (S (mu c)) c HI) as X.
    rewrite Hr in X. exact X. }
  rewrite (iter_pow_inr f (S (mu c)) 62 c r Hr ltac:(lia)).
  destruct r as [[s c']| |]; [exists s, c'; split; [reflexivity|exact HP]|contradiction|contradiction].
Qed.

End Budget.

(* ------------------------------------------------------------------ the whole call *)
Section Calls.
Variable flags : N.
Variable zl : bool.
Hypothesis HZ : has flags F_ZLIB = zl.
Hypothesis HSB : has flags F_STOPBB = false.
Hypothesis HNW : has flags F_NONWRAP = true.
Variables (cmf flg A : N).
Hypothesis Hcmf : cmf < 256.
Hypothesis Hflg : flg < 256.
Hypothesis Hvalid : valid_header (Z.of_N cmf) (Z.of_N flg) = true.
Hypothesis HA : A < 2 ^ 32.
Variable B : list blk.
Hypothesis HB : shapeB B.
Variable extra : list N.
Variable p0 : N.

Notation PB := (InflateStoredChunks.P B).
Notation ShR' := (InflateStoredChunks.ShR zl cmf flg A B extra p0).
Notation Core' := (InflateStoredChunks.Core zl cmf flg A B extra p0).
Notation need := (need_adler flags).
Notation chk := (chk_of flags B p0).
Notation fin := (final_status flags zl A B).

Definition DI (d : dec) (rem : list N) (o : arr) (p : N) : Prop :=
  Core' (Kof d) (d_state d) (d_num_bits d) (d_bit_buf d) (d_counter d) d rem o p /\
  Kof d = chk p /\ p <= alen o.

(* ShR looks at the decoder through four fields only, and at K only in Start *)
Lemma ShR_ext K K' s n b ct r r' rem op p :
  s <> Start -> d_zh0 r' = d_zh0 r -> d_finish r' = d_finish r -> d_raw r' = d_raw r -> d_zadler r' = d_zadler r ->
  ShR' K s n b ct r rem op p -> ShR' K' s n b ct r' rem op p.
Proof.
  intros Hs E1 E2 E3 E4 H. unfold InflateStoredChunks.ShR in *. destruct s; try exact H; try contradiction;
    rewrite ?E1, ?E2, ?E3, ?E4; exact H.
Qed.

Lemma ShR_nb K s n b ct r rem op p : ShR' K s n b ct r rem op p -> s <> Start -> n <= 5.
Proof.
  intros H Hs. unfold InflateStoredChunks.ShR in H. destruct s; try contradiction;
    repeat match goal with H : _ /\ _ |- _ => destruct H end; subst; lia.
Qed.

Lemma ShR_prefix K s n b ct r rem op p :
  ShR' K s n b ct r rem op p -> N.of_nat (length op) = p - p0 -> op = firstn (length op) PB.
Proof.
  intros H Hl. unfold InflateStoredChunks.ShR in H. destruct s; try contradiction.
  - destruct H as (_ & -> & _). rewrite N.sub_diag in Hl. destruct op; [reflexivity|cbn [length] in Hl; lia].
  - destruct H as (_ & _ & -> & _). rewrite N.sub_diag in Hl. destruct op; [reflexivity|cbn [length] in Hl; lia].
  - destruct H as (_ & _ & -> & _). rewrite N.sub_diag in Hl. destruct op; [reflexivity|cbn [length] in Hl; lia].
  - destruct H as (_ & _ & bs & _ & _ & H). exact (prefix_firstn _ _ _ H).
  - destruct H as (_ & _ & f & ch & bs & _ & _ & _ & _ & H). exact (prefix_firstn _ _ _ H).
  - destruct H as (_ & _ & f & ch & bs & _ & _ & _ & _ & _ & _ & H). exact (prefix_firstn _ _ _ H).
  - destruct H as (_ & _ & f & rest & bs & _ & _ & _ & _ & H & _). exact (prefix_firstn _ _ _ H).
  - destruct H as (_ & _ & f & rest & bs & _ & _ & _ & _ & H & _). exact (prefix_firstn _ _ _ H).
  - destruct H as (_ & _ & f & bs & _ & _ & _ & H). exact (prefix_firstn _ _ _ H).
  - destruct H as (_ & _ & _ & _ & _ & _ & ->). rewrite firstn_all. reflexivity.
  - destruct H as (_ & _ & -> & _). rewrite firstn_all. reflexivity.
Qed.

Lemma chk_progress o p q K :
  p0 <= p -> p <= q -> K = chk p ->
  aget_list o p0 (q - p0) = firstn (N.to_nat (q - p0)) PB ->
  (if need then adler32 K (aget_list o p (q - p)) else K) = chk q.
Proof.
  intros H1 H2 HK Hpre. subst K. unfold chk_of. destruct (need_adler flags); [|reflexivity].
  rewrite adler32_app by apply adler_valid_1. f_equal.
  rewrite <- Hpre.
  replace (q - p0) with ((p - p0) + (q - p)) in Hpre |- * by lia.
  rewrite aget_list_split in Hpre |- *. replace (p0 + (p - p0)) with p in Hpre |- * by lia.
  f_equal.
  assert (Hl : length (aget_list o p0 (p - p0)) = N.to_nat (p - p0)).
  { unfold aget_list. apply length_aget_list_nat. }
  assert (E : firstn (N.to_nat (p - p0)) (aget_list o p0 (p - p0) ++ aget_list o p (q - p)) = aget_list o p0 (p - p0)).
  { rewrite <- Hl at 1. rewrite firstn_app, Nat.sub_diag, firstn_all. cbn [firstn]. apply app_nil_r. }
  rewrite Hpre in E. rewrite firstn_firstn in E. rewrite Nat.min_l in E by lia. exact E.
Qed.

Lemma DI_prefix d rem o p : DI d rem o p ->
  p0 <= p /\ p <= p0 + N.of_nat (length PB) /\ aget_list o p0 (p - p0) = firstn (N.to_nat (p - p0)) PB.
Proof.
  intros ((Hp0 & Hpm & _ & _ & HS) & _ & _). split; [exact Hp0|]. split; [exact Hpm|].
  pose proof (ShR_prefix _ _ _ _ _ _ _ _ _ HS) as X. rewrite length_aget_list in X. specialize (X eq_refl).
  rewrite X at 1. f_equal. apply Nat2N.inj. rewrite length_aget_list. lia.
Qed.

Lemma final_not_more' : fin <> NeedsMoreInput /\ fin <> HasMoreOutput.
Proof. unfold final_status. destruct (has flags F_IGNORE || negb zl || (adler32 1 PB =? A)); split; discriminate. Qed.

Lemma ret_ex {T} (X : res T) (Q : T -> Prop) :
  match X with Ret r => Q r | _ => False end -> exists r, X = Ret r /\ Q r.
Proof. destruct X as [r| |]; [intros H; exists r; split; [reflexivity|exact H]|contradiction|contradiction]. Qed.

Definition CallPost (input fut : list N) (o : arr) (p budget : N) (res : call_result) : Prop :=
  alen (cr_buf res) = alen o /\ cr_in res <= N.of_nat (length input) /\
  (((cr_status res = NeedsMoreInput \/ cr_status res = HasMoreOutput) /\
    DI (cr_dec res) (skipn (N.to_nat (cr_in res)) input ++ fut) (cr_buf res) (p + cr_out res) /\
    (cr_status res = NeedsMoreInput -> fut <> [] /\ cr_in res = N.of_nat (length input) /\ has flags F_MORE = true) /\
    (cr_status res = HasMoreOutput -> p + cr_out res = N.min (N.min (p + budget) USIZE_MAX) (alen o) /\
                                      (fut = [] -> d_state (cr_dec res) = RawMemcpy1 /\ d_counter (cr_dec res) <> 0))) \/
   (cr_status res = fin /\
    cr_in res + N.of_nat (length extra) = N.of_nat (length input) + N.of_nat (length fut) /\
    p + cr_out res = p0 + N.of_nat (length PB) /\
    aget_list (cr_buf res) p0 (N.of_nat (length PB)) = PB) \/
   (cr_status res = FailedCannotMakeProgress /\ has flags F_MORE = false /\ fut <> [] /\
    cr_in res = N.of_nat (length input) /\
    aget_list (cr_buf res) p0 (p + cr_out res - p0) = firstn (N.to_nat (p + cr_out res - p0)) PB)).

Lemma fuel_enough (l : list N) k : (k <= 12)%nat -> N.of_nat (length l) < 2 ^ 57 -> (16 * length l + k < 2 ^ 62)%nat.
Proof.
  intros Hk H. apply Nat.compare_lt_iff. rewrite Nat2N.inj_compare. apply N.compare_lt_iff.
  rewrite Nat2N.inj_pow. change (N.of_nat 2) with 2. change (N.of_nat 62) with 62.
  change (2 ^ 62) with (32 * 2 ^ 57). lia.
Qed.

(* one call: any input, any budget - it returns, and what it returns is described by CallPost *)
Lemma call_total d input fut o p budget :
  DI d (input ++ fut) o p -> alen o <= USIZE_MAX -> N.of_nat (length input) < 2 ^ 57 ->
  exists res, decompress d input o p budget flags = Ret res /\ CallPost input fut o p budget res.
Proof.
  intros (HC & HK & Hpa) Hrep Hshort. apply ret_ex.
  pose proof HC as (Hp0 & Hpm & _).
  unfold decompress. rewrite HNW.
  change (N.land ((USIZE_MAX + 1) mod U64) USIZE_MAX =? 0) with true.
  replace (alen o <? p) with false by (symmetry; apply N.ltb_ge; lia). cbn [negb orb].
  set (omax := N.min (N.min (p + budget) USIZE_MAX) (alen o)).
  assert (Hom1 : omax <= alen o) by (unfold omax; lia).
  assert (Hom2 : p <= omax) by (unfold omax; lia).
  fold (cfg_of d input o p).
  assert (HI : Inv zl cmf flg A B extra p0 (Kof d) input fut omax p (alen o) (cfg_of d input o p)).
  { unfold Inv, cfg_of. cbn [mk ileft inp pos out st nb bb ctr rr]. split; [reflexivity|]. split; [exists []; reflexivity|].
    split; [split; [reflexivity|split; lia]|]. exact HC. }
  assert (Hmu : (mu omax (cfg_of d input o p) < 2 ^ 62)%nat).
  { unfold mu, cfg_of. cbn [mk inp]. apply fuel_enough; [|exact Hshort].
    unfold rank. cbn [mk st pos]. destruct (d_state d); try lia. destruct (omax - p =? 0); lia. }
  destruct (run_total flags zl HZ HSB HNW cmf flg A Hcmf Hflg Hvalid HA B HB extra p0 (Kof d) input fut
                omax USIZE_MAX p (alen o) Hom1 _ HI Hmu) as (s & c & Hrun & HP).
  unfold in_len in Hrun. rewrite Hrun. cbn [bind]. clear Hrun.
  unfold Post in HP. destruct HP as (HIc & Hcase).
  pose proof HIc as (Hi & (pre & Hpre) & (Homc & Hps & Hpo) & Hp0c & Hpmc & Hck & Hza & HS).
  assert (Hlen : N.of_nat (length input) = N.of_nat (length pre) + ileft c) by (rewrite Hpre, app_length, Hi; lia).
  assert (Hskp : skipn (N.to_nat (N.of_nat (length input) - ileft c)) input = inp c).
  { replace (N.to_nat (N.of_nat (length input) - ileft c)) with (length pre) by lia.
    rewrite Hpre at 1. rewrite skipn_app, skipn_all, Nat.sub_diag. reflexivity. }
  assert (Hpfx : aget_list (out c) p0 (pos c - p0) = firstn (N.to_nat (pos c - p0)) PB).
  { pose proof (ShR_prefix _ _ _ _ _ _ _ _ _ HS) as X. rewrite length_aget_list in X. specialize (X eq_refl).
    rewrite X at 1. f_equal. apply Nat2N.inj. rewrite length_aget_list. lia. }
  assert (Hprog := chk_progress (out c) p (pos c) (Kof d) Hp0 Hps HK Hpfx).
  (* what the decoder object looks like after a call that is not the last *)
  assert (Hdone : st c <> Start -> bb c = 0 -> forall chk0, chk0 = chk (pos c) ->
            DI (write_back (rr c) (st c) c (nb c) 0 chk0) (inp c ++ fut) (out c) (p + (pos c - p))).
  { intros Hs1 Hbb chk0 Hc0. replace (p + (pos c - p)) with (pos c) by lia.
    assert (HKo : Kof (write_back (rr c) (st c) c (nb c) 0 chk0) = chk0).
    { unfold Kof, write_back. cbn [d_state d_check]. destruct (st c); try reflexivity. contradiction. }
    unfold DI. rewrite HKo. split; [|split; [exact Hc0|lia]].
    unfold InflateStoredChunks.Core. cbn [write_back d_state d_num_bits d_bit_buf d_counter d_check d_zadler].
    split; [exact Hp0c|]. split; [exact Hpmc|]. split; [intros _; reflexivity|]. split; [exact Hza|].
    rewrite Hbb in HS.
    refine (ShR_ext _ _ _ _ _ _ _ _ _ _ _ Hs1 _ _ _ _ HS); reflexivity. }
  destruct Hcase as [[-> Est]|[(-> & Ei & Hfut & Hbb & Hs1 & Hs2)|(-> & Est & Hfull & Hctr0)]].
  - (* finished *)
    unfold InflateStoredChunks.ShR in HS. rewrite Est in HS. destruct HS as (Hn & Hrem & Hout & Hzad).
    rewrite Hn.
    unfold undo_bytes. change (N.shiftr 0 3) with 0. rewrite N.min_0_l. change (N.shiftl 0 3) with 0. change (0 - 0) with 0.
    unfold csub. replace (pos c <=? omax) with true by (symmetry; apply N.leb_le; lia). cbn [bind].
    unfold guard. change (0 <? 64) with true. cbn [bind].
    replace (p <=? pos c) with true by (symmetry; apply N.leb_le; lia). cbn [bind].
    rewrite N.sub_0_r.
    replace (0 <=? N.of_nat (length input) - ileft c) with true by (symmetry; apply N.leb_le; lia). cbn [bind].
    fold need. change (0 <=? status_code Done)%Z with true. rewrite andb_true_r.
    rewrite (Hck ltac:(rewrite Est; discriminate)).
    assert (Hpos : pos c = p0 + N.of_nat (length PB)).
    { assert (X : N.of_nat (length (aget_list (out c) p0 (pos c - p0))) = N.of_nat (length PB)) by (rewrite Hout; reflexivity).
      rewrite length_aget_list in X. lia. }
    assert (Hfin : chk (pos c) = if need then adler32 1 PB else 1).
    { unfold chk_of. rewrite Hpos. replace (p0 + N.of_nat (length PB) - p0) with (N.of_nat (length PB)) by lia.
      rewrite Nat2N.id, firstn_all. reflexivity. }
    assert (Hcnt : N.of_nat (length input) - ileft c + N.of_nat (length extra) = N.of_nat (length input) + N.of_nat (length fut)).
    { assert (X : length (inp c ++ fut) = length extra) by (rewrite Hrem; reflexivity). rewrite app_length in X. lia. }
    assert (Hst : (if need
                   then (if has flags F_ZLIB && negb (adler32 (Kof d) (aget_list (out c) p (pos c - p)) =? d_zadler (rr c)) then Adler32Mismatch else Done)
                   else Done) = fin).
    { unfold final_status. unfold need_adler in Hprog, Hfin |- *. rewrite HZ in Hprog, Hfin |- *.
      destruct (has flags F_IGNORE) eqn:EI; cbn [orb andb negb]; [reflexivity|].
      destruct zl eqn:Ezl; cbn [orb andb negb] in Hprog, Hfin |- *.
      - rewrite Hprog, Hfin, (Hzad eq_refl). destruct (adler32 1 PB =? A); reflexivity.
      - destruct (has flags F_COMPUTE); reflexivity. }
    destruct need eqn:ENA.
    + rewrite Hst. cbv beta iota; unfold CallPost; cbn [cr_status cr_in cr_out cr_buf cr_dec].
      split; [exact Homc|]. split; [lia|]. right; left. split; [reflexivity|]. split; [exact Hcnt|]. split; [lia|].
      replace (N.of_nat (length PB)) with (pos c - p0) by lia. exact Hout.
    + rewrite Hst. cbv beta iota; unfold CallPost; cbn [cr_status cr_in cr_out cr_buf cr_dec].
      split; [exact Homc|]. split; [lia|]. right; left. split; [reflexivity|]. split; [exact Hcnt|]. split; [lia|].
      replace (N.of_nat (length PB)) with (pos c - p0) by lia. exact Hout.
  - (* suspended for input *)
    unfold end_of_input. destruct (has flags F_MORE) eqn:EM.
    2:{ (* ... which the caller said would not come: cannot make progress *)
        cbv iota.
        unfold csub. replace (pos c <=? omax) with true by (symmetry; apply N.leb_le; lia). cbn [bind].
        pose proof (ShR_nb _ _ _ _ _ _ _ _ _ HS Hs1) as Hnb.
        unfold guard. replace (nb c <? 64) with true by (symmetry; apply N.ltb_lt; lia). cbn [bind].
        replace (p <=? pos c) with true by (symmetry; apply N.leb_le; lia). cbn [bind].
        change (0 <=? status_code FailedCannotMakeProgress)%Z with false. rewrite andb_false_r.
        rewrite N.sub_0_r.
        replace (0 <=? N.of_nat (length input) - ileft c) with true by (symmetry; apply N.leb_le; lia). cbn [bind].
        assert (Hil : ileft c = 0) by (rewrite Hi, Ei; reflexivity).
        cbv beta iota; unfold CallPost; cbn [cr_status cr_in cr_out cr_buf cr_dec].
        split; [exact Homc|]. split; [lia|]. right; right.
        split; [reflexivity|]. split; [exact EM|]. split; [exact Hfut|]. split; [lia|].
        replace (p + (pos c - p)) with (pos c) by lia. exact Hpfx. }
    cbv iota.
    unfold csub. replace (pos c <=? omax) with true by (symmetry; apply N.leb_le; lia). cbn [bind].
    set (S := match st c with ReadAdler32 => NeedsMoreInput | _ => if omax - pos c =? 0 then HasMoreOutput else NeedsMoreInput end).
    assert (HS' : S = NeedsMoreInput \/ (S = HasMoreOutput /\ pos c = omax)).
    { unfold S. destruct (omax - pos c =? 0) eqn:Ez; [apply N.eqb_eq in Ez; destruct (st c); auto; right; split; try reflexivity; lia|destruct (st c); auto]. }
    pose proof (ShR_nb _ _ _ _ _ _ _ _ _ HS Hs1) as Hnb.
    unfold guard. replace (nb c <? 64) with true by (symmetry; apply N.ltb_lt; lia). cbn [bind].
    replace (p <=? pos c) with true by (symmetry; apply N.leb_le; lia). cbn [bind].
    fold need.
    rewrite N.sub_0_r.
    replace (0 <=? N.of_nat (length input) - ileft c) with true by (symmetry; apply N.leb_le; lia).
    rewrite (Hck Hs1), Hbb. change (N.land 0 (N.ones (nb c))) with 0.
    assert (Hil : ileft c = 0) by (rewrite Hi, Ei; reflexivity).
    specialize (Hdone Hs1 Hbb).
    destruct HS' as [HS'|[HS' Hfull]]; rewrite HS'; cbn [status_code]; cbv iota;
      [change (0 <=? 1)%Z with true|change (0 <=? 2)%Z with true]; rewrite andb_true_r; cbn [bind];
      destruct need eqn:ENA; cbv beta iota; unfold CallPost; cbn [cr_status cr_in cr_out cr_buf cr_dec];
      (split; [exact Homc|]); (split; [lia|]); left; rewrite Hskp;
      (split; [auto|]); (split; [apply Hdone; exact Hprog|]);
      (split; [intros X; first [discriminate X|split; [exact Hfut|split; [lia|exact EM]]]|intros X; first [discriminate X|(fold omax; split; [lia|intros Y; contradiction])]]).
  - (* the budget is used up in the middle of a block *)
    unfold InflateStoredChunks.ShR in HS. rewrite Est in HS.
    pose proof HS as (Hn & Hb & _).
    rewrite Hn.
    unfold undo_bytes. change (N.shiftr 0 3) with 0. rewrite N.min_0_l. change (N.shiftl 0 3) with 0. change (0 - 0) with 0.
    unfold csub. replace (pos c <=? omax) with true by (symmetry; apply N.leb_le; lia). cbn [bind].
    unfold guard. change (0 <? 64) with true. cbn [bind].
    replace (p <=? pos c) with true by (symmetry; apply N.leb_le; lia). cbn [bind].
    rewrite N.sub_0_r.
    replace (0 <=? N.of_nat (length input) - ileft c) with true by (symmetry; apply N.leb_le; lia). cbn [bind].
    fold need. change (0 <=? status_code HasMoreOutput)%Z with true. rewrite andb_true_r.
    rewrite (Hck ltac:(rewrite Est; discriminate)), Hb. change (N.land 0 (N.ones 0)) with 0.
    assert (Hs1 : st c <> Start) by (rewrite Est; discriminate).
    specialize (Hdone Hs1 Hb). rewrite Hn in Hdone.
    destruct need eqn:ENA; cbv beta iota; unfold CallPost; cbn [cr_status cr_in cr_out cr_buf cr_dec];
      (split; [exact Homc|]); (split; [lia|]); left; rewrite Hskp;
      (split; [auto|]); (split; [apply Hdone; exact Hprog|]);
      (split; [intros X; discriminate X|intros _; fold omax; split; [lia|intros _; cbn [write_back d_state d_counter]; split; [exact Est|exact Hctr0]]]).
Qed.

End Calls.

(* ------------------------------------------------------------------ the statement *)
Lemma DI_init' flags zl cmf flg A B extra o :
  shapeB B ->
  DI flags zl cmf flg A B extra 0 dec_default (InflateStoredZ.hz zl cmf flg ++ InflateStoredZ.encT zl A extra B) o 0.
Proof.
  intros HB. unfold DI, InflateStoredChunks.Core, Kof. cbn [dec_default d_state d_num_bits d_bit_buf d_counter].
  split; [|split; [|lia]].
  - split; [lia|]. split; [lia|]. split; [intros X; contradiction|]. split; [intros X; contradiction|].
    unfold InflateStoredChunks.ShR. repeat split; reflexivity.
  - unfold chk_of. rewrite N.sub_diag. cbn [N.to_nat firstn]. destruct (need_adler flags); [|reflexivity].
    symmetry. apply adler32_nil. cbn. lia.
Qed.

(* a stream of stored blocks (raw, or zlib with any trailer) cut anywhere - [input] is what is offered, [fut], not
   empty, is what is withheld - decoded in one call WITHOUT the has-more-input flag, flat buffer, any budget:
   the call returns FailedCannotMakeProgress having consumed all that was offered, or HasMoreOutput with the
   granted window full; never Failed, never a final status; what it wrote is a prefix of the payload *)
Theorem truncated_stored_stream_without_more flags zl cmf flg A chunks last extra input fut o budget :
  has flags F_ZLIB = zl -> has flags F_STOPBB = false -> has flags F_NONWRAP = true -> has flags F_MORE = false ->
  cmf < 256 -> flg < 256 -> valid_header (Z.of_N cmf) (Z.of_N flg) = true -> A < 2 ^ 32 ->
  chunks_ok chunks -> bytes_ok last -> N.of_nat (length last) <= 65535 ->
  let data := concat chunks ++ last in
  let stream := (if zl then [cmf; flg] else []) ++ stored_stream chunks last ++ (if zl then be32 A else []) in
  input ++ fut = stream ++ extra -> N.of_nat (length extra) < N.of_nat (length fut) ->
  alen o <= USIZE_MAX -> N.of_nat (length input) < 2 ^ 57 ->
  exists res, decompress dec_default input o 0 budget flags = Ret res /\
    ((cr_status res = FailedCannotMakeProgress /\ cr_in res = N.of_nat (length input)) \/
     (cr_status res = HasMoreOutput /\ cr_out res = N.min (N.min budget USIZE_MAX) (alen o))) /\
    aget_list (cr_buf res) 0 (cr_out res) = firstn (N.to_nat (cr_out res)) data.
Proof.
  intros HZ HSB HNW HM Hcmf Hflg Hvalid HA Hc Hl1 Hl2 data stream Hcat Hcut Hrep Hshort.
  set (B := map (pair false) chunks ++ [(true, last)]).
  pose proof (shapeB_of chunks last Hc Hl1 Hl2) as HB. fold B in HB.
  assert (Hinput : stream ++ extra = InflateStoredZ.hz zl cmf flg ++ InflateStoredZ.encT zl A extra B).
  { unfold stream, InflateStoredZ.hz, InflateStoredZ.encT, tail, tailz, B. rewrite enc_of.
    destruct zl; cbn [app]; rewrite <- ?app_assoc; reflexivity. }
  assert (Hdata : data = InflateStoredChunks.P B) by (unfold data, InflateStoredChunks.P, B; rewrite pay_of; reflexivity).
  pose proof (DI_init' flags zl cmf flg A B extra o HB) as HD. rewrite <- Hinput, <- Hcat in HD.
  destruct (call_total flags zl HZ HSB HNW cmf flg A Hcmf Hflg Hvalid HA B HB extra 0 dec_default input fut o 0 budget HD Hrep Hshort)
    as (res & Ed & HCP).
  exists res. split; [exact Ed|].
  unfold CallPost in HCP. destruct HCP as (Hal & Hle & [(Hs & HDI & Hnmi & Hhmo)|[(Hs & Hcnt & _)|(Hs & _ & Hf & Hin & Hpfx)]]).
  - destruct Hs as [Hs|Hs].
    + (* NeedsMoreInput is not a possible outcome without the flag *)
      exfalso. destruct (Hnmi Hs) as (_ & _ & X). rewrite HM in X. discriminate X.
    + split; [right; split; [exact Hs|]|].
      * specialize (Hhmo Hs). rewrite !N.add_0_l in Hhmo. exact (proj1 Hhmo).
      * rewrite N.add_0_l in HDI.
        destruct (DI_prefix flags zl cmf flg A Hcmf Hflg HA B extra 0 _ _ _ _ HDI) as (_ & _ & X).
        rewrite Hdata. rewrite N.sub_0_r in X. exact X.
  - (* a final status would need the whole stream *)
    exfalso. assert (X : length (input ++ fut) = length (stream ++ extra)) by (rewrite Hcat; reflexivity).
    rewrite !app_length in X. lia.
  - split; [left; split; [exact Hs|exact Hin]|]. rewrite N.add_0_l, N.sub_0_r in Hpfx. rewrite Hdata. exact Hpfx.
Qed.
