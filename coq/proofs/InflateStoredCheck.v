(* The running checksum of the decoder model on streams of stored blocks: after ANY schedule of calls - any input
   slicing, any output buffer, position and budget per call (InflateStoredGen.v) - the value the accessor
   DecompressorOxide::adler32 reports, when it reports one, is the Adler-32 of exactly the bytes delivered so far. *)
From Coq Require Import NArith ZArith List Bool Lia Arith.
From MZ.lib Require Import Arr Bits Mach.
From MZ.spec Require Import Adler DeflateSpec Zlib.
From MZ.model Require Import InflateCore.
From MZ.proofs Require Import IterPow StoredSpec InflateStoredZ InflateStoredChunks InflateStoredTotal InflateStoredGen.
From MZ.proofs Require ZlibHeader InflateBasic.
Import ListNotations.
Local Open Scope N_scope.
Arguments N.add : simpl never.
Arguments N.sub : simpl never.
Arguments N.mul : simpl never.
Arguments N.ltb : simpl never.
Arguments N.leb : simpl never.
Arguments N.eqb : simpl never.
Arguments N.min : simpl never.

(* the caller's loop of InflateStoredGen.feed3, returning the decoder object and the bytes delivered *)
Fixpoint feed3d (flags : N) (d : dec) (pending : list N) (sched : list (list N * arr * N * N)) (acc : list N)
  : res (dec * list N) :=
  match sched with
  | [] => Ret (d, acc)
  | (piece, o, p, budget) :: more =>
      let input := pending ++ piece in
      match decompress d input o p budget flags with
      | Ret r =>
          let acc' := acc ++ aget_list (cr_buf r) p (cr_out r) in
          match cr_status r with
          | NeedsMoreInput | HasMoreOutput =>
              feed3d flags (cr_dec r) (skipn (N.to_nat (cr_in r)) input) more acc'
          | _ => Ret (cr_dec r, acc')
          end
      | Panic n => Panic n
      | OutOfFuel => OutOfFuel
      end
  end.

Section Calls.
Variable flags : N.
Variable zl : bool.
Hypothesis HZ : has flags F_ZLIB = zl.
Hypothesis HSB : has flags F_STOPBB = false.
Variables (cmf flg A : N).
Hypothesis Hcmf : cmf < 256.
Hypothesis Hflg : flg < 256.
Hypothesis Hvalid : valid_header (Z.of_N cmf) (Z.of_N flg) = true.
Hypothesis HA : A < 2 ^ 32.
Variable B : list blk.
Hypothesis HB : shapeB B.
Variable extra : list N.

Notation DI' := (DI flags zl cmf flg A B extra).
Notation item_ok' := (item_ok flags zl cmf flg).

Theorem feed3d_check : has flags F_MORE = true -> forall sched d pending later D,
  DI' d (pending ++ concat (map (fun it => fst (fst (fst it))) sched) ++ later) D ->
  Forall item_ok' sched ->
  N.of_nat (length (pending ++ concat (map (fun it => fst (fst (fst it))) sched))) < 2 ^ 57 ->
  exists d' acc, feed3d flags d pending sched D = Ret (d', acc) /\ Kof d' = chkD flags acc.
Proof.
  intros HMORE. induction sched as [|[[[piece o] p] budget] more IH]; intros d pending later D HD Hok Hshort.
  - cbn [feed3d]. exists d, D. split; [reflexivity|]. exact (proj2 HD).
  - cbn [feed3d]. cbn [map concat fst] in HD, Hshort.
    inversion Hok as [|x xs Hit Hok' Ex]; subst x xs. unfold item_ok in Hit. destruct Hit as (Hgeo & Hrep & Hacc).
    assert (Hrem : pending ++ (piece ++ concat (map (fun it => fst (fst (fst it))) more)) ++ later
                   = (pending ++ piece) ++ (concat (map (fun it => fst (fst (fst it))) more) ++ later))
      by (rewrite <- !app_assoc; reflexivity).
    rewrite Hrem in HD.
    assert (Hsh1 : N.of_nat (length (pending ++ piece)) < 2 ^ 57) by (rewrite !app_length in *; lia).
    destruct (call_gen flags zl HZ HSB cmf flg A Hcmf Hflg Hvalid HA B HB extra d (pending ++ piece)
                (concat (map (fun it => fst (fst (fst it))) more) ++ later) D o p budget
                (or_introl HMORE) HD Hgeo Hrep Hacc Hsh1) as (r & Ed & HCP).
    rewrite Ed. unfold CallPost in HCP. cbv zeta in HCP.
    destruct HCP as (Hal & Hle & _ & [(Hs & HD' & _ & _)|(Hs & _ & _ & HD' & _)]).
    + assert (Hsh2 : N.of_nat (length (skipn (N.to_nat (cr_in r)) (pending ++ piece) ++ concat (map (fun it => fst (fst (fst it))) more))) < 2 ^ 57).
      { rewrite !app_length, skipn_length in *. rewrite app_length. lia. }
      destruct (IH (cr_dec r) (skipn (N.to_nat (cr_in r)) (pending ++ piece)) later _ HD' Hok' Hsh2) as (d' & acc & Hf & Hk).
      exists d', acc. split; [destruct Hs as [Hs|Hs]; rewrite Hs; exact Hf|exact Hk].
    + destruct (final_not_more' flags zl A B) as [Hn1 Hn2].
      exists (cr_dec r), (D ++ aget_list (cr_buf r) p (cr_out r)).
      split; [rewrite <- Hs in Hn1, Hn2; destruct (cr_status r); try reflexivity; contradiction|exact (proj2 HD')].
Qed.

End Calls.

(* ------------------------------------------------------------------ the statement *)
Theorem stored_stream_running_adler flags cmf flg A chunks last extra sched later :
  has flags F_ZLIB = true -> has flags F_IGNORE = false -> has flags F_STOPBB = false -> has flags F_MORE = true ->
  cmf < 256 -> flg < 256 -> valid_header (Z.of_N cmf) (Z.of_N flg) = true -> A < 2 ^ 32 ->
  chunks_ok chunks -> bytes_ok last -> N.of_nat (length last) <= 65535 ->
  let stream := [cmf; flg] ++ stored_stream chunks last ++ be32 A in
  let offered := concat (map (fun it => fst (fst (fst it))) sched) in
  offered ++ later = stream ++ extra ->
  Forall (fun it : list N * arr * N * N => let '(piece, o, p, budget) := it in
            InflateBasic.geometry_ok o p flags = true /\ alen o <= USIZE_MAX /\
            (has flags F_NONWRAP = true \/
             (has flags F_NONWRAP = false /\ 0 < alen o /\ (header_window (Z.of_N cmf) <= Z.of_N (alen o))%Z))) sched ->
  N.of_nat (length offered) < 2 ^ 57 ->
  exists d' acc,
  feed3d flags dec_default [] sched [] = Ret (d', acc) /\
  forall v, dec_adler32 d' = Some v -> v = adler32 1 acc.
Proof.
  intros HZ HIG HSB HMORE Hcmf Hflg Hvalid HA Hc Hl1 Hl2 stream offered Hcat Hitems Hshort.
  set (B := map (pair false) chunks ++ [(true, last)]).
  pose proof (shapeB_of chunks last Hc Hl1 Hl2) as HB. fold B in HB.
  assert (Hinput : stream ++ extra = InflateStoredZ.hz true cmf flg ++ InflateStoredZ.encT true A extra B).
  { unfold stream, InflateStoredZ.hz, InflateStoredZ.encT, tail, tailz, B. rewrite enc_of.
    cbn [app]; rewrite <- ?app_assoc; reflexivity. }
  pose proof (DI_init flags true cmf flg A B extra HB) as HD. rewrite <- Hinput, <- Hcat in HD.
  assert (Hok : Forall (item_ok flags true cmf flg) sched).
  { eapply Forall_impl; [|exact Hitems]. intros [[[piece o] p] budget] (Hg & Hr & Hw). unfold item_ok.
    split; [exact Hg|]. split; [exact Hr|].
    destruct Hw as [Hw|(Hw & Hp & Hwin)];
      [apply header_accepted_nonwrap|apply header_accepted_ring]; assumption. }
  destruct (feed3d_check flags true HZ HSB cmf flg A Hcmf Hflg Hvalid HA B HB extra HMORE sched dec_default [] later []
              HD Hok Hshort) as (d' & acc & Hf & Hk).
  exists d', acc. split; [exact Hf|].
  intros v Hv. unfold dec_adler32 in Hv. unfold Kof in Hk. unfold chkD, need_adler in Hk. rewrite HIG, HZ in Hk. cbn [orb] in Hk.
  destruct (d_state d'); try discriminate Hv;
    (destruct (is_failure _ || (d_zh0 d' =? 0)); [discriminate Hv|inversion Hv; subst v; exact Hk]).
Qed.
