(* C08, third sentence, on streams of stored blocks: the size-limited vector function of the decoder model
   (decompress_to_vec_inner with a maximum output size) returns the whole payload when it fits the limit - also when
   its size EQUALS the limit - and otherwise fails with HasMoreOutput and exactly the first [limit] bytes of the
   payload; never more than the limit. *)
From Coq Require Import NArith ZArith List Bool Lia Arith.
From MZ.lib Require Import Arr Bits Mach.
From MZ.spec Require Import Adler DeflateSpec Zlib.
From MZ.model Require Import InflateCore InflateStream.
From MZ.proofs Require Import IterPow StoredSpec InflateStoredZ InflateStoredChunks.
From MZ.proofs Require InflateStoredStarved InflateStoredApi InflateFrame3.
Import ListNotations.
Local Open Scope N_scope.

Section Limit.
Variable flags : N.
Variable zl : bool.
Hypothesis HZ : has flags F_ZLIB = zl.
Hypothesis HSB : has flags F_STOPBB = false.
Hypothesis HNW : has flags F_NONWRAP = true.
Variables (cmf flg A : N).
Hypothesis Hcmf : cmf < 256.
Hypothesis Hflg : flg < 256.
Hypothesis Hvalid : valid_header (Z.of_N cmf) (Z.of_N flg) = true.
Hypothesis HA : A < 2 ^ 32.
Variable B : list blk.
Hypothesis HB : shapeB B.
Variable extra : list N.

Notation input := (InflateStoredZ.hz zl cmf flg ++ InflateStoredZ.encT zl A extra B).
Notation PB := (InflateStoredChunks.P B).

(* one call with the whole stream offered and a buffer of any length *)
Lemma whole_stream_any_buffer o :
  alen o <= USIZE_MAX -> N.of_nat (length input) < 2 ^ 57 ->
  exists res, decompress dec_default input o 0 USIZE_MAX flags = Ret res /\
    alen (cr_buf res) = alen o /\ cr_in res <= N.of_nat (length input) /\
    if N.of_nat (length PB) <=? alen o
    then cr_status res = final_status flags zl A B /\ cr_out res = N.of_nat (length PB) /\
         aget_list (cr_buf res) 0 (N.of_nat (length PB)) = PB
    else cr_status res = HasMoreOutput /\ cr_out res = alen o /\
         aget_list (cr_buf res) 0 (alen o) = firstn (N.to_nat (alen o)) PB.
Proof.
  intros Hrep Hshort.
  pose proof (InflateStoredStarved.DI_init' flags zl cmf flg A B extra o HB) as HD.
  rewrite <- (app_nil_r input) in HD.
  destruct (InflateStoredStarved.call_total flags zl HZ HSB HNW cmf flg A Hcmf Hflg Hvalid HA B HB extra 0 dec_default input [] o 0 USIZE_MAX
              HD Hrep Hshort) as (res & Hd & HCP).
  exists res. split; [exact Hd|].
  pose proof (InflateFrame3.decompress_frame _ _ _ _ _ _ _ Hrep Hd) as (_ & Fo & _).
  destruct HCP as (Hal & Hle & [(Hs & HD' & Hnmi & Hhmo)|[(Hs & Hin & Hp & Hout)|(_ & _ & Hf & _)]]).
  - (* not finished: only HasMoreOutput is possible, and only when the payload does not fit *)
    destruct Hs as [Hs|Hs]; [exfalso; exact (proj1 (Hnmi Hs) eq_refl)|].
    destruct (Hhmo Hs) as [Hfull Hst]. destruct (Hst eq_refl) as [Hrm Hctr].
    rewrite !N.add_0_l in Hfull.
    assert (Hout : cr_out res = alen o) by (unfold USIZE_MAX in *; lia).
    split; [exact Hal|]. split; [exact Hle|].
    rewrite N.add_0_l in HD'.
    destruct (InflateStoredStarved.DI_prefix flags zl cmf flg A Hcmf Hflg HA B extra 0 _ _ _ _ HD') as (_ & H2 & H3).
    rewrite N.sub_0_r in H3.
    (* bytes of the current block are still to be copied: the payload is longer than what has been written *)
    assert (Hlt : cr_out res < N.of_nat (length PB)).
    { destruct HD' as ((_ & _ & _ & _ & HS) & _). unfold InflateStoredChunks.ShR in HS. rewrite Hrm in HS.
      destruct HS as (_ & _ & f & rest & bs & _ & _ & Hct & _ & Hop & _).
      assert (X : length (aget_list (cr_buf res) 0 (cr_out res - 0) ++ rest ++ pay bs) = length PB) by (rewrite Hop; reflexivity).
      rewrite !app_length in X. pose proof (InflateStoredZ.length_aget_list (cr_buf res) 0 (cr_out res - 0)) as Y.
      destruct rest; [cbn [length] in Hct; contradiction|cbn [length] in X]. lia. }
    replace (N.of_nat (length PB) <=? alen o) with false by (symmetry; apply N.leb_gt; lia).
    split; [exact Hs|]. split; [exact Hout|]. rewrite <- Hout. exact H3.
  - (* finished: the payload fits *)
    split; [exact Hal|]. split; [exact Hle|]. rewrite !N.add_0_l in Hp.
    replace (N.of_nat (length PB) <=? alen o) with true by (symmetry; apply N.leb_le; unfold USIZE_MAX in *; lia).
    split; [exact Hs|]. split; [exact Hp|exact Hout].
  - contradiction.
Qed.

Theorem to_vec_limit_stored_stream flags0 limit :
  flags = N.lor flags0 F_NONWRAP ->
  final_status flags zl A B = Done ->
  N.of_nat (length input) < 2 ^ 57 ->
  decompress_to_vec_inner input flags0 limit
  = Ret (if N.of_nat (length PB) <=? limit then VOk PB
         else VErr HasMoreOutput (firstn (N.to_nat limit) PB)).
Proof.
  intros Hfl Hfin Hshort. unfold decompress_to_vec_inner. rewrite <- Hfl.
  set (n := N.min (N.min (N.of_nat (length input) * 2) USIZE_MAX) limit).
  assert (Hn : n = N.min (N.of_nat (length input) * 2) limit) by (unfold n, USIZE_MAX; change (2 ^ 57) with 144115188075855872 in Hshort; lia).
  assert (Hlen : N.of_nat (length PB) < N.of_nat (length input)).
  { unfold InflateStoredChunks.P, InflateStoredZ.encT. rewrite !app_length, InflateStoredApi.length_enc.
    assert (length B <> 0)%nat by (destruct B; [inversion HB|cbn [length]; lia]). lia. }
  set (s0 := {| v_dec := dec_default; v_in := input; v_ret := amake n 0; v_pos := 0 |}).
  assert (Hturn : vec_turn flags limit s0
                  = inr (Ret (if N.of_nat (length PB) <=? limit then VOk PB
                              else VErr HasMoreOutput (firstn (N.to_nat limit) PB)))).
  { unfold vec_turn, s0. cbn [v_dec v_in v_ret v_pos].
    destruct (whole_stream_any_buffer (amake n 0)) as (res & Hd & Hal & Hle & Hcase).
    - cbn [alen amake]. unfold USIZE_MAX. change (2 ^ 57) with 144115188075855872 in Hshort. lia.
    - exact Hshort.
    - rewrite Hd. cbn [alen amake] in Hcase, Hal.
      destruct (N.of_nat (length PB) <=? limit) eqn:Efit.
      + apply N.leb_le in Efit.
        replace (N.of_nat (length PB) <=? n) with true in Hcase by (symmetry; apply N.leb_le; lia).
        destruct Hcase as (Hs & Hout & Hbuf). rewrite Hs, Hfin. rewrite N.add_0_l, Hout, Hbuf. reflexivity.
      + apply N.leb_gt in Efit.
        assert (Hnl : n = limit) by lia.
        replace (N.of_nat (length PB) <=? n) with false in Hcase by (symmetry; apply N.leb_gt; lia).
        destruct Hcase as (Hs & Hout & Hbuf). rewrite Hs.
        replace (N.of_nat (length input) <? cr_in res) with false by (symmetry; apply N.ltb_ge; exact Hle).
        replace (limit <=? alen (cr_buf res)) with true by (symmetry; apply N.leb_le; lia).
        unfold ato_list. rewrite Hal, Hbuf, Hnl. reflexivity. }
  rewrite (iter_pow_inr (vec_turn flags limit) 1 8 s0 _ ltac:(cbn [steps]; rewrite Hturn; reflexivity) ltac:(cbn; lia)).
  reflexivity.
Qed.

End Limit.

(* ------------------------------------------------------------------ the statements *)
(* decompress_to_vec_zlib_with_limit-style call *)
Theorem to_vec_limit_zlib_stored_stream flags0 cmf flg chunks last extra limit :
  has (N.lor flags0 F_NONWRAP) F_ZLIB = true -> has (N.lor flags0 F_NONWRAP) F_STOPBB = false ->
  cmf < 256 -> flg < 256 -> valid_header (Z.of_N cmf) (Z.of_N flg) = true ->
  chunks_ok chunks -> bytes_ok last -> N.of_nat (length last) <= 65535 ->
  let data := concat chunks ++ last in
  let input := (cmf :: flg :: stored_stream chunks last ++ be32 (adler32 1 data)) ++ extra in
  N.of_nat (length input) < 2 ^ 57 ->
  decompress_to_vec_inner input flags0 limit
  = Ret (if N.of_nat (length data) <=? limit then VOk data else VErr HasMoreOutput (firstn (N.to_nat limit) data)).
Proof.
  intros HZ HSB Hcmf Hflg Hvalid Hc Hl1 Hl2 data input Hshort.
  set (B := map (pair false) chunks ++ [(true, last)]).
  pose proof (shapeB_of chunks last Hc Hl1 Hl2) as HB. fold B in HB.
  assert (Hinput : input = InflateStoredZ.hz true cmf flg ++ InflateStoredZ.encT true (adler32 1 data) extra B).
  { unfold input, InflateStoredZ.hz, InflateStoredZ.encT, tail, tailz, B. rewrite enc_of. cbn [app]. rewrite <- !app_assoc. reflexivity. }
  assert (Hdata : data = InflateStoredChunks.P B) by (unfold data, InflateStoredChunks.P, B; rewrite pay_of; reflexivity).
  rewrite Hinput in *.
  assert (HA : adler32 1 data < 2 ^ 32) by apply (adler32_lt _ _ adler_valid_1).
  assert (Hfin : final_status (N.lor flags0 F_NONWRAP) true (adler32 1 data) B = Done).
  { unfold final_status. rewrite <- Hdata, N.eqb_refl, !orb_true_r. reflexivity. }
  set (A := adler32 1 data) in *. clearbody A. rewrite Hdata.
  exact (to_vec_limit_stored_stream (N.lor flags0 F_NONWRAP) true HZ HSB (InflateStoredApi.has_lor_nonwrap flags0) cmf flg A Hcmf Hflg Hvalid
           HA B HB extra flags0 limit eq_refl Hfin Hshort).
Qed.

(* decompress_to_vec_with_limit-style call: raw format *)
Theorem to_vec_limit_raw_stored_stream flags0 chunks last extra limit :
  has (N.lor flags0 F_NONWRAP) F_ZLIB = false -> has (N.lor flags0 F_NONWRAP) F_STOPBB = false ->
  chunks_ok chunks -> bytes_ok last -> N.of_nat (length last) <= 65535 ->
  let data := concat chunks ++ last in
  let input := stored_stream chunks last ++ extra in
  N.of_nat (length input) < 2 ^ 57 ->
  decompress_to_vec_inner input flags0 limit
  = Ret (if N.of_nat (length data) <=? limit then VOk data else VErr HasMoreOutput (firstn (N.to_nat limit) data)).
Proof.
  intros HZ HSB Hc Hl1 Hl2 data input Hshort.
  set (B := map (pair false) chunks ++ [(true, last)]).
  pose proof (shapeB_of chunks last Hc Hl1 Hl2) as HB. fold B in HB.
  assert (Hinput : input = InflateStoredZ.hz false 120 1 ++ InflateStoredZ.encT false 0 extra B).
  { unfold input, InflateStoredZ.hz, InflateStoredZ.encT, tail, tailz, B. rewrite enc_of. reflexivity. }
  assert (Hdata : data = InflateStoredChunks.P B) by (unfold data, InflateStoredChunks.P, B; rewrite pay_of; reflexivity).
  rewrite Hinput in *. rewrite Hdata.
  apply (to_vec_limit_stored_stream (N.lor flags0 F_NONWRAP) false HZ HSB (InflateStoredApi.has_lor_nonwrap flags0) 120 1 0 ltac:(lia) ltac:(lia) ltac:(reflexivity)
           ltac:(cbn; lia) B HB extra flags0 limit eq_refl).
  - unfold final_status. cbn [negb orb]. rewrite orb_true_r. reflexivity.
  - exact Hshort.
Qed.
