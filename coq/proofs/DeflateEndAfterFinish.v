(* C14: "stream-end is reported only after Finish" - a structural theorem about the control plane of the compressor
   model, for every flag word it models and every state satisfying FI ("finished only under a Finish request", true
   of every constructor and preserved by every call): if deflate() reports MZ_STREAM_END then the call was made
   with Finish. *)
From Coq Require Import NArith ZArith List Bool Lia.
From MZ.lib Require Import Arr Bits Mach.
From MZ.spec Require Import Adler.
From MZ.model Require Import DeflateCore.
From MZ.proofs Require Import IterPow.
Import ListNotations.
Local Open Scope N_scope.

(* the two fields the argument follows *)
Definition FF (c : comp) : bool * N := (c_finished c, c_flush c).

Lemma flush_output_FF c cb bytes n c' cb' : flush_output c cb bytes = (n, c', cb') -> FF c' = FF c.
Proof.
  unfold flush_output. destruct (N.of_nat (length bytes) =? 0); [intros H; inversion H; subst; reflexivity|].
  destruct cb as [len w ofs|acc w calls].
  - destruct (ntake bytes (len - ofs)) as [[now later] k]. destruct later; intros H; inversion H; subst; reflexivity.
  - destruct (match acc with Some 0 => false | _ => true end); intros H; inversion H; subst; reflexivity.
Qed.

Lemma flush_block_FF c cb flush r :
  flush_block c cb flush = Ret r ->
  match r with FbOk _ c' _ | FbErr c' _ => FF c' = FF c | FbUnmodelled => True end.
Proof.
  unfold flush_block. intros H.
  repeat match type of H with
         | bind ?X _ = _ => destruct X eqn:?; cbn [bind] in H; try discriminate H
         end.
  match type of H with context [match ?o with Some _ => _ | None => _ end] => destruct o end;
    [|inversion H; subst; exact I].
  repeat match type of H with
         | bind ?X _ = _ => destruct X eqn:?; cbn [bind] in H; try discriminate H
         end.
  match type of H with context [flush_output ?a ?b ?d] => destruct (flush_output a b d) as [[nn c2] cb2] eqn:Ef end.
  inversion H; subst r; clear H. apply flush_output_FF in Ef. rewrite Ef. reflexivity.
Qed.

Lemma stored_turn_FF s :
  match stored_turn s with
  | inl s' => FF (s_c s') = FF (s_c s)
  | inr (Ret (SRet _ c' _ _)) => FF c' = FF (s_c s)
  | inr _ => True
  end.
Proof.
  unfold stored_turn.
  destruct (_ || _); [|reflexivity].
  destruct (csub C_MAX_MATCH (s_ls s) 320) as [room| |]; try exact I.
  destruct ((c_flush (s_c s) =? TF_NONE) && _); [reflexivity|].
  destruct (csub _ 1 321) as [ls1| |]; try exact I.
  destruct (31744 <? s_bw s + 1); [|reflexivity].
  match goal with |- context [flush_block ?cc ?cbb ?ff] => destruct (flush_block cc cbb ff) as [fb| |] eqn:Ef end; try exact I.
  apply flush_block_FF in Ef.
  destruct fb as [nn c2 cb2|c2 cb2|]; try exact I.
  - destruct (negb (nn =? 0)%Z); cbn [s_c]; exact Ef.
  - exact Ef.
Qed.

Lemma compress_stored_FF c cb input ok c' cb' src :
  compress_stored c cb input = Ret (SRet ok c' cb' src) -> FF c' = FF c.
Proof.
  unfold compress_stored.
  set (s0 := {| s_c := c; s_cb := cb; s_in := input; s_inleft := N.of_nat (length input); s_src := 0;
               s_bw := c_total_bytes c; s_ls := c_la_size c; s_lp := c_la_pos c |}).
  pose proof (iter_pow_inv stored_turn (fun s => FF (s_c s) = FF c)
                (fun r => match r with Ret (SRet _ c1 _ _) => FF c1 = FF c | _ => True end)) as H.
  assert (H1 : forall s s', FF (s_c s) = FF c -> stored_turn s = inl s' -> FF (s_c s') = FF c).
  { intros s s' Hs Ht. pose proof (stored_turn_FF s) as X. rewrite Ht in X. congruence. }
  assert (H2 : forall s r, FF (s_c s) = FF c -> stored_turn s = inr r ->
               match r with Ret (SRet _ c1 _ _) => FF c1 = FF c | _ => True end).
  { intros s r Hs Ht. pose proof (stored_turn_FF s) as X. rewrite Ht in X.
    destruct r as [[ok1 c1 cb1 src1|]| |]; try exact I. congruence. }
  specialize (H H1 H2 40%nat s0 eq_refl).
  destruct (iter_pow 40 stored_turn s0) as [s'|rr]; [discriminate|].
  intros E. subst rr. exact H.
Qed.

Lemma fob_FF c cb st c' cb' : flush_output_buffer c cb = (st, c', cb') -> FF c' = FF c.
Proof.
  unfold flush_output_buffer. destruct cb as [len w ofs|acc w calls].
  - destruct (ntake (c_pending c) (len - ofs)) as [[now later] k]. intros H; inversion H; subst. reflexivity.
  - intros H; inversion H; subst. reflexivity.
Qed.

(* the previous status never becomes Done inside the engine *)
Definition ND (c : comp) : Prop := c_prev c <> TDone.

Lemma flush_output_ND c cb bytes n c' cb' : flush_output c cb bytes = (n, c', cb') -> ND c -> ND c'.
Proof.
  unfold flush_output, ND. destruct (N.of_nat (length bytes) =? 0); [intros H; inversion H; subst; auto|].
  destruct cb as [len w ofs|acc w calls].
  - destruct (ntake bytes (len - ofs)) as [[now later] k]. destruct later; intros H; inversion H; subst; auto.
  - destruct (match acc with Some 0 => false | _ => true end); intros H; inversion H; subst; auto.
    intros _. cbn. discriminate.
Qed.

Lemma flush_block_ND c cb flush r :
  flush_block c cb flush = Ret r -> ND c ->
  match r with FbOk _ c' _ | FbErr c' _ => ND c' | FbUnmodelled => True end.
Proof.
  unfold flush_block. intros H HN.
  repeat match type of H with
         | bind ?X _ = _ => destruct X eqn:?; cbn [bind] in H; try discriminate H
         end.
  match type of H with context [match ?o with Some _ => _ | None => _ end] => destruct o end;
    [|inversion H; subst; exact I].
  repeat match type of H with
         | bind ?X _ = _ => destruct X eqn:?; cbn [bind] in H; try discriminate H
         end.
  match type of H with context [flush_output ?a ?b ?d] => destruct (flush_output a b d) as [[nn c2] cb2] eqn:Ef end.
  inversion H; subst r; clear H. apply flush_output_ND in Ef; [exact Ef|]. unfold ND in *. cbn [mkc c_prev]. exact HN.
Qed.

Lemma stored_turn_ND s :
  ND (s_c s) ->
  match stored_turn s with
  | inl s' => ND (s_c s')
  | inr (Ret (SRet _ c' _ _)) => ND c'
  | inr _ => True
  end.
Proof.
  intros HN. unfold stored_turn.
  destruct (_ || _); [|exact HN].
  destruct (csub C_MAX_MATCH (s_ls s) 320) as [room| |]; try exact I.
  destruct ((c_flush (s_c s) =? TF_NONE) && _); [exact HN|].
  destruct (csub _ 1 321) as [ls1| |]; try exact I.
  destruct (31744 <? s_bw s + 1); [|exact HN].
  match goal with |- context [flush_block ?cc ?cbb ?ff] => destruct (flush_block cc cbb ff) as [fb| |] eqn:Ef end; try exact I.
  apply flush_block_ND in Ef; [|exact HN].
  destruct fb as [nn c2 cb2|c2 cb2|]; try exact I.
  - destruct (negb (nn =? 0)%Z); cbn [s_c]; exact Ef.
  - exact Ef.
Qed.

Lemma compress_stored_ND c cb input ok c' cb' src :
  ND c -> compress_stored c cb input = Ret (SRet ok c' cb' src) -> ND c'.
Proof.
  intros HN. unfold compress_stored.
  set (s0 := {| s_c := c; s_cb := cb; s_in := input; s_inleft := N.of_nat (length input); s_src := 0;
               s_bw := c_total_bytes c; s_ls := c_la_size c; s_lp := c_la_pos c |}).
  pose proof (iter_pow_inv stored_turn (fun s => ND (s_c s))
                (fun r => match r with Ret (SRet _ c1 _ _) => ND c1 | _ => True end)) as H.
  assert (H1 : forall s s', ND (s_c s) -> stored_turn s = inl s' -> ND (s_c s')).
  { intros s s' Hs Ht. pose proof (stored_turn_ND s Hs) as X. rewrite Ht in X. exact X. }
  assert (H2 : forall s r, ND (s_c s) -> stored_turn s = inr r ->
               match r with Ret (SRet _ c1 _ _) => ND c1 | _ => True end).
  { intros s r Hs Ht. pose proof (stored_turn_ND s Hs) as X. rewrite Ht in X.
    destruct r as [[ok1 c1 cb1 src1|]| |]; try exact I. exact X. }
  specialize (H H1 H2 40%nat s0 HN).
  destruct (iter_pow 40 stored_turn s0) as [s'|rr]; [discriminate|].
  intros E. subst rr. exact H.
Qed.

(* finished only under a Finish request - as long as the object is usable *)
Definition FI (c : comp) : Prop := c_prev c = TOkay -> c_finished c = true -> c_flush c = TF_FINISH.

Lemma fob_status c cb st c' cb' :
  flush_output_buffer c cb = (st, c', cb') -> st = TDone -> c_finished c = true.
Proof.
  intros H Hd. destruct (c_finished c) eqn:Ec; [reflexivity|exfalso].
  revert H. unfold flush_output_buffer. destruct cb as [len w ofs|acc w calls].
  - destruct (ntake (c_pending c) (len - ofs)) as [[now later] k].
    cbn [set_pending mkc c_finished c_pending]. rewrite Ec. cbn [andb]. intros H. congruence.
  - rewrite Ec. cbn [andb]. intros H. congruence.
Qed.

(* one call of compress_inner: Done is reported only under Finish, and FI is preserved *)
Lemma compress_inner_done c cb input f r :
  FI c -> compress_inner c cb input f = Ret (CRet r) ->
  FI (r_comp r) /\ (r_status r = TDone -> f = TF_FINISH).
Proof.
  intros HFI. unfold compress_inner.
  destruct (c_prev c) eqn:Ep; cbn [negb orb].
  1,2,4: intros H; inversion H; subst r; clear H; cbn [r_comp r_status]; split; [|discriminate];
         unfold FI; cbn [set_prev set_flush mkc c_prev]; discriminate.
  (* usable: previous status Okay *)
  specialize (HFI Ep).
  destruct (negb (negb (c_flush c =? TF_FINISH) || (f =? TF_FINISH))) eqn:Ebad.
  { intros H; inversion H; subst r; clear H. cbn [r_comp r_status]. split; [|discriminate].
    unfold FI. cbn [set_prev set_flush mkc c_prev]. discriminate. }
  apply negb_false_iff in Ebad.
  assert (Honce : c_finished c = true -> f = TF_FINISH).
  { intros Hfin. rewrite (HFI Hfin) in Ebad. change (TF_FINISH =? TF_FINISH) with true in Ebad. cbn [negb orb] in Ebad.
    apply N.eqb_eq in Ebad. exact Ebad. }
  set (c0 := set_flush c f).
  assert (HFF0 : FF c0 = (c_finished c, f)) by reflexivity.
  assert (HN0 : ND c0) by (unfold ND, c0; cbn [set_flush mkc c_prev]; rewrite Ep; discriminate).
  destruct (negb (match c_pending c0 with [] => true | _ => false end) || c_finished c0) eqn:Edrain.
  { destruct (flush_output_buffer c0 cb) as [[st c'] cb'] eqn:Ef.
    intros H; inversion H; subst r; clear H. cbn [r_comp r_status].
    pose proof (fob_FF _ _ _ _ _ Ef) as HFF. rewrite HFF0 in HFF. pose proof (f_equal fst HFF) as E1; pose proof (f_equal snd HFF) as E2; unfold FF in E1, E2; cbn [fst snd] in E1, E2.
    split.
    - unfold FI. cbn [set_prev mkc c_prev c_finished c_flush]. intros _ Hfin. rewrite E2. apply Honce. rewrite <- E1. exact Hfin.
    - intros Hd. apply Honce. exact (fob_status _ _ _ _ _ Ef Hd). }
  apply orb_false_iff in Edrain. destruct Edrain as [_ Enf]. change (c_finished c0) with (c_finished c) in Enf.
  destruct (negb (hasf (c_flags c0) FLAG_RAW)); [discriminate|].
  destruct (compress_stored c0 cb input) as [sr| |] eqn:Ecs; cbn [bind]; try discriminate.
  destruct sr as [ok c1 cb1 src|]; [|discriminate].
  pose proof (compress_stored_FF _ _ _ _ _ _ _ Ecs) as HFF1. rewrite HFF0, Enf in HFF1.
  pose proof (compress_stored_ND _ _ _ _ _ _ _ HN0 Ecs) as HN1.
  destruct ok.
  2:{ intros H; inversion H; subst r; clear H. cbn [r_comp r_status]. pose proof (f_equal fst HFF1) as E1; pose proof (f_equal snd HFF1) as E2; unfold FF in E1, E2; cbn [fst snd] in E1, E2.
      split; [unfold FI; intros _ Hfin; congruence|intros Hd; exfalso; exact (HN1 Hd)]. }
  set (c2 := if hasf (c_flags c1) FLAG_ZLIB || hasf (c_flags c1) FLAG_ADLER
             then set_adler c1 (adler32 (c_adler c1) (firstn (N.to_nat src) input)) else c1).
  assert (HFF2 : FF c2 = (false, f)) by (unfold c2; destruct (hasf (c_flags c1) FLAG_ZLIB || hasf (c_flags c1) FLAG_ADLER); exact HFF1).
  assert (HN2 : ND c2) by (unfold c2; destruct (hasf (c_flags c1) FLAG_ZLIB || hasf (c_flags c1) FLAG_ADLER); exact HN1).
  clearbody c2.
  match goal with |- bind (if ?b then _ else _) _ = _ -> _ => destruct b end.
  - destruct (flush_block c2 cb1 (c_flush c2)) as [fb| |] eqn:Efb; cbn [bind]; try discriminate.
    pose proof (flush_block_FF _ _ _ _ Efb) as HFF3. pose proof (flush_block_ND _ _ _ _ Efb HN2) as HN3.
    destruct fb as [n c3 cb3|c3 cb3|]; cbn [bind]; [| |discriminate].
    + destruct (n <? 0)%Z; cbn [bind].
      * intros H; inversion H; subst r; clear H. cbn [r_comp r_status]. rewrite HFF2 in HFF3. pose proof (f_equal fst HFF3) as E1; pose proof (f_equal snd HFF3) as E2; unfold FF in E1, E2; cbn [fst snd] in E1, E2.
        split; [unfold FI; intros _ Hfin; congruence|intros Hd; exfalso; exact (HN3 Hd)].
      * set (c4 := if c_flush (set_finished c3 (c_flush c3 =? TF_FINISH)) =? TF_FULL
                   then set_dsize (set_finished c3 (c_flush c3 =? TF_FINISH)) 0
                   else set_finished c3 (c_flush c3 =? TF_FINISH)).
        rewrite HFF2 in HFF3. pose proof (f_equal fst HFF3) as E1; pose proof (f_equal snd HFF3) as E2; unfold FF in E1, E2; cbn [fst snd] in E1, E2.
        assert (HFF4 : FF c4 = (f =? TF_FINISH, f)).
        { unfold c4, FF. destruct (_ =? TF_FULL); cbn [set_dsize set_finished mkc c_finished c_flush]; rewrite E2; reflexivity. }
        clearbody c4.
        destruct (flush_output_buffer c4 cb3) as [[st c5] cb5] eqn:Ef5.
        intros H; inversion H; subst r; clear H. cbn [r_comp r_status].
        pose proof (fob_FF _ _ _ _ _ Ef5) as HFF5. rewrite HFF4 in HFF5. pose proof (f_equal fst HFF5) as E5; pose proof (f_equal snd HFF5) as E6; unfold FF in E5, E6; cbn [fst snd] in E5, E6.
        split.
        -- unfold FI. cbn [set_prev mkc c_prev c_finished c_flush]. intros _ Hfin. rewrite E6. rewrite E5 in Hfin. apply N.eqb_eq in Hfin. exact Hfin.
        -- intros Hd. pose proof (fob_status _ _ _ _ _ Ef5 Hd) as X. pose proof (f_equal fst HFF4) as E7; pose proof (f_equal snd HFF4) as E8; unfold FF in E7, E8; cbn [fst snd] in E7, E8.
           rewrite E7 in X. apply N.eqb_eq in X. exact X.
    + intros H; inversion H; subst r; clear H. cbn [r_comp r_status].
      split; [unfold FI; cbn [set_prev mkc c_prev]; discriminate|cbn [set_prev mkc c_prev]; discriminate].
  - cbn [bind]. destruct (flush_output_buffer c2 cb1) as [[st c3] cb3] eqn:Ef3.
    intros H; inversion H; subst r; clear H. cbn [r_comp r_status].
    pose proof (fob_FF _ _ _ _ _ Ef3) as HFF3. rewrite HFF2 in HFF3. pose proof (f_equal fst HFF3) as E1; pose proof (f_equal snd HFF3) as E2; unfold FF in E1, E2; cbn [fst snd] in E1, E2.
    split.
    + unfold FI. cbn [set_prev mkc c_prev c_finished c_flush]. intros _ Hfin. congruence.
    + intros Hd. pose proof (fob_status _ _ _ _ _ Ef3 Hd) as X. pose proof (f_equal fst HFF2) as E7; pose proof (f_equal snd HFF2) as E8; unfold FF in E7, E8; cbn [fst snd] in E7, E8. congruence.
Qed.

Lemma tdflush_finish f : tdflush_of_mz f = TF_FINISH -> f = 4.
Proof. unfold tdflush_of_mz. destruct (f <=? 4); [intros H; exact H|discriminate]. Qed.

Definition DEnd (f : N) (r : res dres) : Prop :=
  match r with
  | Ret (DRet code _ _ c') => FI c' /\ (code = D_MZ_STREAM_END -> f = 4)
  | _ => True
  end.

Lemma deflate_turn_end f s :
  FI (ds_c s) ->
  match deflate_turn f s with inl s' => FI (ds_c s') | inr r => DEnd f r end.
Proof.
  intros HFI. unfold deflate_turn, compress.
  destruct (compress_inner (ds_c s) (CBuf (ds_room s) [] 0) (ds_in s) (tdflush_of_mz f)) as [cr| |] eqn:Ec; try exact I.
  destruct cr as [r|]; [|exact I].
  destruct (compress_inner_done _ _ _ _ _ HFI Ec) as [HFI' Hd]. cbv zeta.
  destruct (r_status r) eqn:Est; unfold DEnd.
  - split; [exact HFI'|discriminate].
  - split; [exact HFI'|discriminate].
  - destruct (_ =? 0); [split; [exact HFI'|discriminate]|].
    destruct (_ && negb (f =? 4)); [|exact HFI'].
    destruct (_ || _); split; try exact HFI'; discriminate.
  - split; [exact HFI'|]. intros _. apply tdflush_finish. apply Hd. reflexivity.
Qed.

(* deflate(): stream end only under Finish; FI is an invariant of the object *)
Theorem deflate_end_only_after_finish c input out_len f code ncons out c' :
  FI c -> deflate c input out_len f = Ret (DRet code ncons out c') ->
  FI c' /\ (code = D_MZ_STREAM_END -> f = 4).
Proof.
  intros HFI. unfold deflate.
  destruct (out_len =? 0); [intros H; inversion H; subst; split; [exact HFI|discriminate]|].
  destruct (match c_prev c with TDone => true | _ => false end).
  { destruct (f =? 4) eqn:E; intros H; inversion H; subst; (split; [exact HFI|]); [intros _; apply N.eqb_eq; exact E|discriminate]. }
  pose proof (iter_pow_inv (deflate_turn f) (fun s => FI (ds_c s)) (DEnd f)) as H.
  assert (H1 : forall s s', FI (ds_c s) -> deflate_turn f s = inl s' -> FI (ds_c s')).
  { intros s s' Hs Et. pose proof (deflate_turn_end f s Hs) as X. rewrite Et in X. exact X. }
  assert (H2 : forall s r, FI (ds_c s) -> deflate_turn f s = inr r -> DEnd f r).
  { intros s r Hs Et. pose proof (deflate_turn_end f s Hs) as X. rewrite Et in X. exact X. }
  specialize (H H1 H2 40%nat {| ds_c := c; ds_in := input; ds_room := out_len; ds_tin := 0; ds_rout := [] |} HFI).
  destruct (iter_pow 40 (deflate_turn f) _) as [s'|rr]; [discriminate|].
  intros ->. exact H.
Qed.

Lemma FI_new flags wb : FI (comp_new flags wb).
Proof. unfold FI, comp_new. cbn. discriminate. Qed.
