(* C12 at level 0 in API terms: a sync or full flush requested when nothing is pending, returning Okay with output
   space to spare, has consumed all offered input and leaves the compressor at a flush point: everything emitted
   so far is header ++ whole stored blocks, which the specification's prefix decoder decodes - byte aligned, no
   final block yet - to exactly the input supplied so far.  "Nothing pending" itself follows from the previous
   call having left output space unused (compress_room2). *)
From Coq Require Import NArith ZArith List Bool Lia Arith.
From MZ.lib Require Import Arr Bits Mach.
From MZ.spec Require Import Adler DeflateSpec.
From MZ.model Require Import DeflateCore Oracle.
From MZ.proofs Require Import IterPow DeflateCounts StoredSpec StoredModel StoredStream StoredSchedules StoredPrefix
                              StoredTotal StoredStreamTotal StoredDeflateReturns.
Import ListNotations.
Local Open Scope N_scope.
Arguments N.add : simpl never.
Arguments N.sub : simpl never.
Arguments N.mul : simpl never.
Arguments N.min : simpl never.

Lemma run_calls_snoc sched : forall c rest acc n c1 rest1 acc1 n1 m out_len f r,
  run_calls c rest sched acc n = Ret (Some (c1, rest1, acc1, n1)) ->
  compress c1 (firstn (N.to_nat m) rest1) out_len f = Ret (CRet r) -> r_status r = TOkay ->
  run_calls c rest (sched ++ [(m, out_len, f)]) acc n
  = Ret (Some (r_comp r, skipn (N.to_nat (r_in r)) rest1, acc1 ++ r_out r, n1 + r_in r)).
Proof.
  induction sched as [|[[m0 o0] f0] sched IH]; intros c rest acc n c1 rest1 acc1 n1 m out_len f r; cbn [run_calls app].
  - intros H Hc Hs. inversion H; subst. rewrite Hc. cbn [bind]. rewrite Hs. reflexivity.
  - destruct (compress c (firstn (N.to_nat m0) rest) o0 f0) as [cr| |]; cbn [bind]; try discriminate.
    destruct cr as [r0|]; [|discriminate].
    destruct (r_status r0); try discriminate.
    intros H Hc Hs. exact (IH _ _ _ _ _ _ _ _ _ _ _ _ H Hc Hs).
Qed.

Section FP.
Variables (data : list N) (flags wb : N).
Hypothesis Hraw : hasf flags FLAG_RAW = true.
Hypothesis Hwb : wb <= 15.

Definition RS2 (c : comp) (rest acc : list N) (n : N) : Prop :=
  GI2 data flags wb acc c n /\ Dz c /\ (c_finished c = false -> rest = skipn (N.to_nat n) data) /\
  (exists k, rest = skipn k data).

Lemma run_calls_RS2 sched : forall c rest acc n c' rest' acc' n',
  Forall (fun it => legal_flush (snd it)) sched ->
  RS2 c rest acc n ->
  run_calls c rest sched acc n = Ret (Some (c', rest', acc', n')) ->
  RS2 c' rest' acc' n'.
Proof.
  induction sched as [|[[m out_len] f] sched IH]; intros c rest acc n c' rest' acc' n' Hleg HRS; cbn [run_calls].
  { intros H; inversion H; subst. exact HRS. }
  destruct HRS as (HGI & HDz & Hrest & Hsuf).
  inversion Hleg as [|it its Hf Hl']; subst. cbn [snd] in Hf.
  assert (Hpre : c_finished c = false ->
                 n <= N.min (n + m) (total data) /\ N.min (n + m) (total data) <= total data /\
                 firstn (N.to_nat m) rest = slice data n (N.min (n + m) (total data))).
  { intros Hnf. destruct HGI as [_ [(A & HBI & _ & Hn & _)|[Hfin _]]]; [|congruence].
    destruct HBI as (_ & Hle & _). subst n.
    split; [lia|]. split; [lia|].
    rewrite (Hrest Hnf). unfold slice. rewrite firstn_min, skipn_length. f_equal. unfold total in *. lia. }
  pose proof (compress_np2 data flags wb Hraw Hwb acc c n _ _ out_len f Hf HGI HDz Hpre) as Hnp.
  destruct (compress c (firstn (N.to_nat m) rest) out_len f) as [cr| |] eqn:Ec; cbn [bind]; try discriminate.
  destruct cr as [r|]; [|discriminate].
  pose proof (compress_GI2 data flags wb Hraw Hwb acc c n _ _ out_len f r Hf HGI Hpre Ec) as Hp.
  unfold call_post2 in Hp. unfold CRnp2 in Hnp.
  destruct (r_status r); try discriminate.
  apply (IH (r_comp r) _ _ _ c' rest' acc' n' Hl').
  split; [exact Hp|]. split; [exact Hnp|]. split.
  - intros Hnf.
    assert (Hcf : c_finished c = false).
    { destruct HGI as [_ [(A0 & (Hfx & _) & _)|[Hfin Hfw]]]; [destruct Hfx as (_ & _ & _ & _ & X & _); exact X|].
      exfalso. clear - Hfin Hnf Ec. unfold compress, compress_inner in Ec.
      destruct (negb _ || negb _); [inversion Ec; subst r; cbn in Hnf; congruence|].
      change (c_finished (set_flush c f)) with (c_finished c) in Ec. rewrite Hfin, orb_true_r in Ec.
      destruct (flush_output_buffer (set_flush c f) (CBuf out_len [] 0)) as [[st c1] cb1] eqn:Ef.
      apply fob_vout in Ef. destruct Ef as (_ & _ & Ec1 & _).
      inversion Ec; subst r; clear Ec. cbn [r_comp] in Hnf. rewrite Ec1 in Hnf. cbn in Hnf. congruence. }
    pose proof (compress_counts _ _ _ _ _ Ec) as [Hrin _].
    rewrite (Hrest Hcf), skipn_skipn_add. f_equal. lia.
  - destruct Hsuf as [k ->]. exists (k + N.to_nat (r_in r))%nat. apply skipn_skipn_add.
Qed.

End FP.

(* ------------------------------------------------------------------ the statements *)
(* (1) a call that reports Okay and has left output space unused leaves nothing pending *)
Theorem level0_room_means_nothing_pending (data : list N) (flags wb : N) sched c rest acc n m out_len f r :
  hasf flags FLAG_RAW = true -> wb <= 15 ->
  Forall (fun it => legal_flush (snd it)) sched -> legal_flush f ->
  N.of_nat (length data) + 259 < 2 ^ 40 ->
  run_calls (comp_new flags wb) data sched [] 0 = Ret (Some (c, rest, acc, n)) ->
  compress c (firstn (N.to_nat m) rest) out_len f = Ret (CRet r) ->
  r_status r = TOkay -> N.of_nat (length (r_out r)) < out_len ->
  c_pending (r_comp r) = [].
Proof.
  intros Hraw Hwb Hleg Hlf Hsmall Hrun Hc Hst Hroom.
  assert (H0 : RS2 data flags wb (comp_new flags wb) data [] 0).
  { split; [apply (GI2_init data flags wb)|]. split; [unfold Dz, comp_new; cbn; lia|].
    split; [intros _; reflexivity|exists 0%nat; reflexivity]. }
  destruct (run_calls_RS2 data flags wb Hraw Hwb sched _ _ _ _ _ _ _ _ Hleg H0 Hrun) as (HGI & HDz & Hrest & Hsuf).
  assert (Hpre : c_finished c = false ->
                 n <= N.min (n + m) (total data) /\ N.min (n + m) (total data) <= total data /\
                 firstn (N.to_nat m) rest = slice data n (N.min (n + m) (total data))).
  { intros Hnf. destruct HGI as [_ [(A & HBI & _ & Hn & _)|[Hfin _]]]; [|congruence].
    destruct HBI as (_ & Hle & _). subst n.
    split; [lia|]. split; [lia|].
    rewrite (Hrest Hnf). unfold slice. rewrite firstn_min, skipn_length. f_equal. unfold total in *. lia. }
  assert (Hlen : N.of_nat (length (firstn (N.to_nat m) rest)) + 259 < 2 ^ 40).
  { destruct Hsuf as [k ->]. rewrite firstn_length, skipn_length. lia. }
  destruct (compress_room2 data flags wb Hraw Hwb acc c n _ _ out_len f Hlen Hlf HGI HDz Hpre) as (r' & Er & H1 & _).
  rewrite Hc in Er. inversion Er; subst r'. exact (proj1 (H1 Hst Hroom)).
Qed.

(* (2) the flush-point clause *)
Theorem level0_flush_point_api (data : list N) (flags wb : N) sched c rest acc n m out_len f r :
  hasf flags FLAG_RAW = true -> wb <= 15 -> bytes_ok data ->
  Forall (fun it => legal_flush (snd it)) sched ->
  N.of_nat (length data) + 259 < 2 ^ 40 ->
  run_calls (comp_new flags wb) data sched [] 0 = Ret (Some (c, rest, acc, n)) ->
  c_pending c = [] ->
  f = TF_SYNC \/ f = TF_FULL ->
  compress c (firstn (N.to_nat m) rest) out_len f = Ret (CRet r) ->
  r_status r = TOkay -> N.of_nat (length (r_out r)) < out_len ->
  r_in r = N.of_nat (length (firstn (N.to_nat m) rest)) /\
  n + r_in r <= N.of_nat (length data) /\
  (exists body blocks,
    acc ++ r_out r = (if c_block_index (r_comp r) =? 0 then [] else hdr flags wb) ++ body /\
    prefix_spec body = (Some (firstn (N.to_nat (n + r_in r)) data), 8 * N.of_nat (length body), true, false, blocks)) /\
  exists pre, acc ++ r_out r = pre ++ sync_marker.
Proof.
  intros Hraw Hwb Hbytes Hleg Hsmall Hrun Hpe Hf Hc Hst Hroom.
  assert (Hlf : legal_flush f) by (unfold legal_flush; destruct Hf as [-> | ->]; tauto).
  assert (Hnn : f <> TF_NONE) by (destruct Hf as [-> | ->]; discriminate).
  assert (H0 : RS2 data flags wb (comp_new flags wb) data [] 0).
  { split; [apply (GI2_init data flags wb)|]. split; [unfold Dz, comp_new; cbn; lia|].
    split; [intros _; reflexivity|exists 0%nat; reflexivity]. }
  destruct (run_calls_RS2 data flags wb Hraw Hwb sched _ _ _ _ _ _ _ _ Hleg H0 Hrun) as (HGI & HDz & Hrest & Hsuf).
  assert (Hpre : c_finished c = false ->
                 n <= N.min (n + m) (total data) /\ N.min (n + m) (total data) <= total data /\
                 firstn (N.to_nat m) rest = slice data n (N.min (n + m) (total data))).
  { intros Hnf. destruct HGI as [_ [(A & HBI & _ & Hn & _)|[Hfin _]]]; [|congruence].
    destruct HBI as (_ & Hle & _). subst n.
    split; [lia|]. split; [lia|].
    rewrite (Hrest Hnf). unfold slice. rewrite firstn_min, skipn_length. f_equal. unfold total in *. lia. }
  assert (Hlen : N.of_nat (length (firstn (N.to_nat m) rest)) + 259 < 2 ^ 40).
  { destruct Hsuf as [k ->]. rewrite firstn_length, skipn_length. lia. }
  destruct (compress_room2 data flags wb Hraw Hwb acc c n _ _ out_len f Hlen Hlf HGI HDz Hpre) as (r' & Er & H1 & _ & H3 & _ & H6).
  rewrite Hc in Er. inversion Er; subst r'. clear Er.
  destruct (H1 Hst Hroom) as [Hp' [X|[Hrin _]]]; [contradiction|].
  destruct (H3 Hst Hroom Hpe Hnn) as (Ht & Hl & Hfin).
  pose proof (run_calls_snoc sched _ _ _ _ _ _ _ _ m out_len f r Hrun Hc Hst) as Hrun'.
  assert (Hleg' : Forall (fun it => legal_flush (snd it)) (sched ++ [(m, out_len, f)])).
  { apply Forall_app. split; [exact Hleg|]. constructor; [exact Hlf|constructor]. }
  destruct (flush_point_decodable data flags wb Hraw Hwb _ _ _ _ _ Hbytes Hleg' Hrun' Hfin Hp' Ht Hl) as (Hn' & body & blocks & Hb1 & Hb2).
  split; [exact Hrin|]. split; [exact Hn'|]. split; [exists body, blocks; split; [exact Hb1|exact Hb2]|].
  destruct (H6 Hst Hroom Hpe Hf) as (pre & Hmk). exists (acc ++ pre). rewrite Hmk, app_assoc. reflexivity.
Qed.
