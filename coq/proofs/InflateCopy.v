(* Frame lemmas for the copy primitives of M_inf (transfer, apply_match): whatever they
   return, only [out_pos, out_pos + match_len) of the output slice has changed. *)
From Coq Require Import NArith ZArith List Bool Lia.
From MZ.lib Require Import Arr Bits Mach.
From MZ.model Require Import InflateCore.
Import ListNotations.
Local Open Scope N_scope.
Ltac Zify.zify_post_hook ::= Z.div_mod_to_equations.

Definition frame (o o' : arr) (lo hi : N) : Prop :=
  alen o' = alen o /\ forall i, i < lo \/ hi <= i -> aget o' i = aget o i.

Lemma frame_refl o lo hi : frame o o lo hi.
Proof. split; [reflexivity|intros; reflexivity]. Qed.

Lemma frame_trans o o1 o2 lo hi lo1 hi1 lo2 hi2 :
  frame o o1 lo1 hi1 -> frame o1 o2 lo2 hi2 ->
  lo <= lo1 -> lo <= lo2 -> hi1 <= hi -> hi2 <= hi -> frame o o2 lo hi.
Proof.
  intros [L1 F1] [L2 F2] A B C D. split; [congruence|].
  intros i Hi. rewrite F2 by lia. apply F1. lia.
Qed.

Lemma frame_weaken o o' lo hi lo' hi' :
  frame o o' lo hi -> lo' <= lo -> hi <= hi' -> frame o o' lo' hi'.
Proof. intros [L F] A B. split; [exact L|]. intros i Hi. apply F. lia. Qed.

Lemma aset_frame o i v : frame o (aset o i v) i (i + 1).
Proof. split; [reflexivity|]. intros j Hj. apply aget_aset_other. lia. Qed.

Lemma oset_frame o i v site o' : oset o i v site = Ret o' -> frame o o' i (i + 1).
Proof. unfold oset. destruct (i <? alen o); [|discriminate]. intros H; inversion H; subst. apply aset_frame. Qed.

Section Mask.
Variable mask : N.

Lemma copy_masked_frame n : forall o src dst o',
  copy_masked mask n o src dst = Ret o' -> frame o o' dst (dst + N.of_nat n).
Proof.
  induction n as [|n IH]; intros o src dst o'; cbn [copy_masked].
  - intros H; inversion H; subst. apply frame_refl.
  - destruct (oget o (N.land src mask) 120) as [v| |]; cbn [bind]; try discriminate.
    destruct (oset o dst v 121) as [o1| |] eqn:E; cbn [bind]; try discriminate.
    intros H. apply IH in H. apply oset_frame in E.
    eapply frame_trans; [exact E|exact H|lia|lia|lia|lia].
Qed.

Lemma copy_within4_frame o src dst o' :
  copy_within4 o src dst = Ret o' -> frame o o' dst (dst + 4).
Proof.
  unfold copy_within4, guard.
  destruct (src + 4 <=? alen o); cbn [bind]; [|discriminate].
  destruct (dst + 4 <=? alen o); cbn [bind]; [|discriminate].
  intros H; inversion H; subst; clear H.
  split; [reflexivity|]. intros i Hi.
  rewrite !aget_aset_other by lia. reflexivity.
Qed.

Lemma loop_within4_frame fuel : forall o src dst end_pos o' s' d',
  loop_within4 fuel o src dst end_pos = Ret (o', s', d') ->
  forall E, end_pos <= E -> (exists q, E = dst + 4 * q) ->
  dst <= d' /\ d' <= E /\ frame o o' dst d'.
Proof.
  induction fuel as [|fuel IH]; intros o src dst end_pos o' s' d'; cbn [loop_within4].
  - destruct (dst <? end_pos) eqn:C; [discriminate|].
    intros H; inversion H; subst. intros E HE [q Hq]. repeat split; try lia; try (intros; reflexivity).
  - destruct (dst <? end_pos) eqn:C.
    + destruct (copy_within4 o src dst) as [o1| |] eqn:E1; cbn [bind]; try discriminate.
      intros H E HE [q Hq]. apply N.ltb_lt in C.
      assert (Hq1 : exists q', E = dst + 4 + 4 * q') by (exists (q - 1); lia).
      destruct (IH _ _ _ _ _ _ _ H E HE Hq1) as (A & B & F).
      apply copy_within4_frame in E1.
      split; [lia|]. split; [lia|].
      eapply frame_trans; [exact E1|exact F|lia|lia|lia|lia].
    + intros H; inversion H; subst. intros E HE [q Hq]. repeat split; try lia; try (intros; reflexivity).
Qed.

Lemma loop_masked4_frame fuel : forall o src dst end_pos o' s' d',
  loop_masked4 mask fuel o src dst end_pos = Ret (o', s', d') ->
  forall E, end_pos <= E -> (exists q, E = dst + 4 * q) ->
  dst <= d' /\ d' <= E /\ frame o o' dst d'.
Proof.
  induction fuel as [|fuel IH]; intros o src dst end_pos o' s' d'; cbn [loop_masked4].
  - destruct (dst <? end_pos) eqn:C; [discriminate|].
    intros H; inversion H; subst. intros E HE [q Hq]. repeat split; try lia; try (intros; reflexivity).
  - destruct (dst <? end_pos) eqn:C.
    + unfold guard.
      destruct (dst + 3 <? alen o); cbn [bind]; [|discriminate].
      destruct (N.land (src + 3) mask <? alen o); cbn [bind]; [|discriminate].
      destruct (copy_masked mask 4 o src dst) as [o1| |] eqn:E1; cbn [bind]; try discriminate.
      intros H E HE [q Hq]. apply N.ltb_lt in C.
      assert (Hq1 : exists q', E = dst + 4 + 4 * q') by (exists (q - 1); lia).
      destruct (IH _ _ _ _ _ _ _ H E HE Hq1) as (A & B & F).
      apply copy_masked_frame in E1. cbn in E1.
      split; [lia|]. split; [lia|].
      eapply frame_trans; [exact E1|exact F|lia|lia|lia|lia].
    + intros H; inversion H; subst. intros E HE [q Hq]. repeat split; try lia; try (intros; reflexivity).
Qed.

Lemma afill_frame o i n v : frame o (afill o i n v) i (i + n).
Proof.
  unfold afill. split; [apply alen_afill_nat|].
  intros j Hj. apply aget_afill_nat_out. lia.
Qed.

Lemma len_split len : N.shiftr len 2 * 4 + N.land len 3 = len.
Proof.
  rewrite N.shiftr_div_pow2. change 3 with (N.ones 2). rewrite N.land_ones.
  change (2 ^ 2) with 4. pose proof (N.div_mod len 4 ltac:(lia)). lia.
Qed.

Lemma transfer_frame o source_pos out_pos match_len o' :
  transfer mask o source_pos out_pos match_len = Ret o' ->
  frame o o' out_pos (out_pos + match_len).
Proof.
  unfold transfer.
  set (len := alen o).
  set (end_pos := N.shiftr match_len 2 * 4 + out_pos).
  pose proof (len_split match_len) as Hsplit.
  assert (Hmod : exists q, end_pos = out_pos + 4 * q) by (exists (N.shiftr match_len 2); unfold end_pos; lia).
  match goal with |- context [bind ?X _] => destruct X as [[[o1 sp] op]| |] eqn:E1 end; cbn [bind]; try discriminate.
  assert (H1 : out_pos <= op /\ op <= end_pos /\ frame o o1 out_pos op).
  { destruct (_ && _ && _) eqn:C1 in E1.
    - unfold guard in E1. destruct (end_pos <=? len); cbn [bind] in E1; [|discriminate].
      inversion E1; subst. split; [unfold end_pos; lia|]. split; [lia|].
      replace end_pos with (out_pos + (end_pos - out_pos)) at 2 by (unfold end_pos; lia).
      apply afill_frame.
    - destruct (_ && _ && _) eqn:C2 in E1.
      + eapply loop_within4_frame; [exact E1| |exact Hmod]; unfold end_pos; lia.
      + eapply loop_masked4_frame; [exact E1| |exact Hmod]; unfold end_pos; lia. }
  destruct H1 as (Ha & Hb & Hf).
  set (tail := N.land match_len 3) in *.
  destruct (tail =? 0) eqn:Et.
  - intros H; inversion H; subst. eapply frame_weaken; [exact Hf|lia|unfold end_pos in Hb; lia].
  - match goal with |- context [bind ?X _] => destruct X as [[]| |] end; cbn [bind]; try discriminate.
    intros H. apply copy_masked_frame in H. rewrite N2Nat.id in H.
    eapply frame_trans; [exact Hf|exact H|lia|lia| |]; unfold end_pos in Hb; lia.
Qed.

Lemma apply_match_frame o out_pos dist_ match_len o' :
  apply_match mask o out_pos dist_ match_len = Ret o' ->
  frame o o' out_pos (out_pos + match_len).
Proof.
  unfold apply_match, guard.
  destruct (out_pos + match_len <=? alen o) eqn:G; cbn [bind]; [|discriminate].
  set (source_pos := N.land ((out_pos + U64 - dist_) mod U64) mask).
  destruct (match_len =? 3) eqn:E3.
  - apply N.eqb_eq in E3. subst match_len.
    destruct (out_pos + 3 <=? alen o); [|intros H; inversion H; subst; apply frame_refl].
    destruct (_ && _ && _); [|intros H; inversion H; subst; apply frame_refl].
    intros H; inversion H; subst; clear H.
    split; [reflexivity|]. intros i Hi. rewrite !aget_aset_other by lia. reflexivity.
  - destruct ((out_pos <=? source_pos) && (source_pos - out_pos <? match_len)) eqn:C1; [apply transfer_frame|].
    destruct ((match_len <=? dist_) && (source_pos + match_len <? alen o)) eqn:C2; [|apply transfer_frame].
    destruct (source_pos <? out_pos).
    + destruct (source_pos + match_len <=? out_pos); cbn [bind]; [|discriminate].
      intros H; inversion H; subst; clear H.
      split; [apply alen_aset_list|]. intros i Hi.
      apply aget_aset_list_out. unfold aget_list. rewrite length_aget_list_nat, N2Nat.id. exact Hi.
    + destruct (out_pos + match_len <=? source_pos); cbn [bind]; [|discriminate].
      intros H; inversion H; subst; clear H.
      split; [apply alen_aset_list|]. intros i Hi.
      apply aget_aset_list_out. unfold aget_list. rewrite length_aget_list_nat, N2Nat.id. exact Hi.
Qed.
End Mask.
